import PfdlModel.Api
/-! Projection lemmas for the state operations of the scheduler model. -/
namespace Pfdl

@[simp] theorem St.emit_awaited (s : St) (e : Ev) : (s.emit e).awaited = s.awaited := rfl
@[simp] theorem St.emit_ctrS (s : St) (e : Ev) : (s.emit e).ctrS = s.ctrS := rfl
@[simp] theorem St.emit_ctrT (s : St) (e : Ev) : (s.emit e).ctrT = s.ctrT := rfl
@[simp] theorem St.emit_stuck (s : St) (e : Ev) : (s.emit e).stuck = s.stuck := rfl
@[simp] theorem St.emit_pend (s : St) (e : Ev) : (s.emit e).pend = s.pend := rfl
@[simp] theorem St.emit_out (s : St) (e : Ev) : (s.emit e).out = s.out ++ [e] := rfl
@[simp] theorem St.emit_nq (s : St) (e : Ev) : (s.emit e).nq = s.nq := rfl
@[simp] theorem St.emit_nann (s : St) (e : Ev) : (s.emit e).nann = s.nann := rfl

@[simp] theorem St.emits_awaited (s : St) (es : List Ev) : (s.emits es).awaited = s.awaited := rfl
@[simp] theorem St.emits_ctrS (s : St) (es : List Ev) : (s.emits es).ctrS = s.ctrS := rfl
@[simp] theorem St.emits_ctrT (s : St) (es : List Ev) : (s.emits es).ctrT = s.ctrT := rfl
@[simp] theorem St.emits_stuck (s : St) (es : List Ev) : (s.emits es).stuck = s.stuck := rfl
@[simp] theorem St.emits_pend (s : St) (es : List Ev) : (s.emits es).pend = s.pend := rfl
@[simp] theorem St.emits_out (s : St) (es : List Ev) : (s.emits es).out = s.out ++ es := rfl
@[simp] theorem St.emits_nq (s : St) (es : List Ev) : (s.emits es).nq = s.nq := rfl
@[simp] theorem St.emits_nann (s : St) (es : List Ev) : (s.emits es).nann = s.nann := rfl

@[simp] theorem St.flush_awaited (s : St) (h : Nat) : (s.flush h).awaited = s.awaited := rfl
@[simp] theorem St.flush_ctrS (s : St) (h : Nat) : (s.flush h).ctrS = s.ctrS := rfl
@[simp] theorem St.flush_ctrT (s : St) (h : Nat) : (s.flush h).ctrT = s.ctrT := rfl
@[simp] theorem St.flush_stuck (s : St) (h : Nat) : (s.flush h).stuck = s.stuck := rfl
@[simp] theorem St.flush_nq (s : St) (h : Nat) : (s.flush h).nq = s.nq := rfl
@[simp] theorem St.flush_nann (s : St) (h : Nat) : (s.flush h).nann = s.nann := rfl

@[simp] theorem St.query_awaited (s : St) (ee : EE) (x : String) (c : Nat) : (s.query ee x c).2.awaited = s.awaited := rfl
@[simp] theorem St.query_ctrS (s : St) (ee : EE) (x : String) (c : Nat) : (s.query ee x c).2.ctrS = s.ctrS := rfl
@[simp] theorem St.query_ctrT (s : St) (ee : EE) (x : String) (c : Nat) : (s.query ee x c).2.ctrT = s.ctrT := rfl
@[simp] theorem St.query_stuck (s : St) (ee : EE) (x : String) (c : Nat) : (s.query ee x c).2.stuck = s.stuck := rfl
@[simp] theorem St.query_pend (s : St) (ee : EE) (x : String) (c : Nat) : (s.query ee x c).2.pend = s.pend := rfl
@[simp] theorem St.query_nann (s : St) (ee : EE) (x : String) (c : Nat) : (s.query ee x c).2.nann = s.nann := rfl

@[simp] theorem St.evalExpr_awaited (s : St) (ee : EE) (e : Expr) (c : Nat) : (s.evalExpr ee e c).2.awaited = s.awaited := rfl
@[simp] theorem St.evalExpr_ctrS (s : St) (ee : EE) (e : Expr) (c : Nat) : (s.evalExpr ee e c).2.ctrS = s.ctrS := rfl
@[simp] theorem St.evalExpr_ctrT (s : St) (ee : EE) (e : Expr) (c : Nat) : (s.evalExpr ee e c).2.ctrT = s.ctrT := rfl
@[simp] theorem St.evalExpr_stuck (s : St) (ee : EE) (e : Expr) (c : Nat) : (s.evalExpr ee e c).2.stuck = s.stuck := rfl
@[simp] theorem St.evalExpr_pend (s : St) (ee : EE) (e : Expr) (c : Nat) : (s.evalExpr ee e c).2.pend = s.pend := rfl
@[simp] theorem St.evalExpr_nann (s : St) (ee : EE) (e : Expr) (c : Nat) : (s.evalExpr ee e c).2.nann = s.nann := rfl

theorem St.readLimit_cases (s : St) (ee : EE) (lim : Limit) (c : Nat) :
    (s.readLimit ee lim c).2 = s ∨ ∃ x, (s.readLimit ee lim c).2 = (s.query ee x c).2 := by
  unfold St.readLimit
  split
  · exact Or.inl rfl
  · exact Or.inl rfl
  · rename_i x segs; exact Or.inr ⟨x, rfl⟩

@[simp] theorem St.readLimit_awaited (s : St) (ee : EE) (lim : Limit) (c : Nat) : (s.readLimit ee lim c).2.awaited = s.awaited := by
  rcases St.readLimit_cases s ee lim c with h | ⟨x, h⟩ <;> simp [h]
@[simp] theorem St.readLimit_ctrS (s : St) (ee : EE) (lim : Limit) (c : Nat) : (s.readLimit ee lim c).2.ctrS = s.ctrS := by
  rcases St.readLimit_cases s ee lim c with h | ⟨x, h⟩ <;> simp [h]
@[simp] theorem St.readLimit_ctrT (s : St) (ee : EE) (lim : Limit) (c : Nat) : (s.readLimit ee lim c).2.ctrT = s.ctrT := by
  rcases St.readLimit_cases s ee lim c with h | ⟨x, h⟩ <;> simp [h]
@[simp] theorem St.readLimit_stuck (s : St) (ee : EE) (lim : Limit) (c : Nat) : (s.readLimit ee lim c).2.stuck = s.stuck := by
  rcases St.readLimit_cases s ee lim c with h | ⟨x, h⟩ <;> simp [h]
@[simp] theorem St.readLimit_pend (s : St) (ee : EE) (lim : Limit) (c : Nat) : (s.readLimit ee lim c).2.pend = s.pend := by
  rcases St.readLimit_cases s ee lim c with h | ⟨x, h⟩ <;> simp [h]
@[simp] theorem St.readLimit_nann (s : St) (ee : EE) (lim : Limit) (c : Nat) : (s.readLimit ee lim c).2.nann = s.nann := by
  rcases St.readLimit_cases s ee lim c with h | ⟨x, h⟩ <;> simp [h]

@[simp] theorem St.setStuck_awaited (s : St) (w : Stuck) : (s.setStuck w).awaited = s.awaited := rfl
@[simp] theorem St.setStuck_ctrS (s : St) (w : Stuck) : (s.setStuck w).ctrS = s.ctrS := rfl
@[simp] theorem St.setStuck_ctrT (s : St) (w : Stuck) : (s.setStuck w).ctrT = s.ctrT := rfl
@[simp] theorem St.setStuck_out (s : St) (w : Stuck) : (s.setStuck w).out = s.out := rfl
@[simp] theorem St.setStuck_pend (s : St) (w : Stuck) : (s.setStuck w).pend = s.pend := rfl
@[simp] theorem St.setStuck_nann (s : St) (w : Stuck) : (s.setStuck w).nann = s.nann := rfl
theorem St.setStuck_stuck_ne (s : St) (w : Stuck) : (s.setStuck w).stuck ≠ none := by
  unfold St.setStuck; cases s.stuck <;> simp

@[simp] theorem Run.isFin_fin : Run.fin.isFin = true := rfl
@[simp] theorem Run.isFin_wait (i n) : (Run.wait i n).isFin = false := rfl
@[simp] theorem Run.isFin_blk (r rest env) : (Run.blk r rest env).isFin = false := rfl
@[simp] theorem Run.isFin_call (n r) : (Run.call n r).isFin = false := rfl
@[simp] theorem Run.isFin_par (rs) : (Run.par rs).isFin = false := rfl
@[simp] theorem Run.isFin_cloop (c v l b e r) : (Run.cloop c v l b e r).isFin = false := rfl
@[simp] theorem Run.isFin_wloop (e b env r) : (Run.wloop e b env r).isFin = false := rfl
@[simp] theorem Run.isFin_stuck (w) : (Run.stuck w).isFin = false := rfl

theorem Run.isFin_eq_true {r : Run} : r.isFin = true ↔ r = .fin := by
  cases r <;> simp [Run.isFin]

theorem Run.isFin_eq_false_of_ne {r : Run} (h : r ≠ .fin) : r.isFin = false := by
  cases r <;> simp_all [Run.isFin]

end Pfdl
