import PfdlProofs.Prov
set_option linter.unusedSimpArgs false
/-! Execution laws of the constructs (what one step of the model does at a construct), and the
    trace-level fork theorem. -/
namespace Pfdl

/-- (name, line) of the task-started notifications among a list of events, in order -/
def tsSites (evs : List Ev) : List (String × Nat) :=
  evs.filterMap (fun e => match e with
    | .note n => if n.kind = .ts then some (n.name, n.line) else none
    | _ => none)

theorem tsSites_append (a b : List Ev) : tsSites (a ++ b) = tsSites a ++ tsSites b := by simp [tsSites]

theorem tsSites_sublist_of_prefix {a b : List Ev} (h : a <+: b) : (tsSites a).Sublist (tsSites b) := by
  obtain ⟨t, rfl⟩ := h
  rw [tsSites_append]
  exact List.sublist_append_left _ _

/-- a task call that does not get stuck announces its task first -/
theorem enterCall_announces (P : Prog) (ee : EE) (f : Nat) (c : CallSite) (env : Env) (il : Bool)
    (b : List (String × Nat)) (s : St) (hst : (enterCall P ee f c env il b s).2.stuck = none) :
    (tsSites s.out ++ [(c.name, c.line)]).Sublist (tsSites (enterCall P ee f c env il b s).2.out) := by
  cases f with
  | zero => simp only [enterCall] at hst; exact absurd hst (St.setStuck_stuck_ne _ _)
  | succ f =>
    simp only [enterCall] at hst ⊢
    split
    · rename_i hnone
      rw [hnone] at hst
      exact absurd hst (St.setStuck_stuck_ne _ _)
    · rename_i t ht
      have htr := enterBlk_trace P ee f t.body { ctx := s.ctrT, inLoop := il, binds := [] }
        ({ s with ctrT := s.ctrT + 1 }.emit (.note (noteOf .ts c s.ctrT (some env.ctx) (substParams b c.ins))))
      have h0 : tsSites ({ s with ctrT := s.ctrT + 1 }.emit (.note (noteOf .ts c s.ctrT (some env.ctx) (substParams b c.ins)))).out
          = tsSites s.out ++ [(c.name, c.line)] := by
        simp [St.emit, tsSites_append, tsSites, noteOf]
      have hsub := tsSites_sublist_of_prefix htr.pre
      rw [h0] at hsub
      split
      · rename_i s1 heq
        rw [heq] at hsub
        simp only [St.emit_out, tsSites_append]
        exact hsub.trans (List.sublist_append_left _ _)
      · rename_i r s1 hne heq
        rw [heq] at hsub
        exact hsub

theorem flush_tsSites (s : St) (h : Nat) : tsSites (s.flush h).out = tsSites s.out := by
  rw [St.flush_out, tsSites_append]
  have : tsSites (flushEvs (s.pend.take (s.pend.length - h))) = [] := by
    generalize s.pend.take (s.pend.length - h) = ps
    induction ps with
    | nil => rfl
    | cons p ps ih =>
      have : flushEvs (p :: ps) = [Ev.ret p.1, Ev.late p.2] ++ flushEvs ps := by simp [flushEvs]
      rw [this, tsSites_append, ih]; rfl
  rw [this]; simp

/-- FORK: entering the branches of a Parallel block (or the instances of a parallel loop) announces,
    within this very call, a task-started notification for every branch, in branch order – unless
    the call gets stuck (exception / fuel).  Other task-started notifications (of tasks called inside
    the branches) may lie in between: sublist. -/
theorem enterCalls_fork (P : Prog) (ee : EE) : (f : Nat) → (cs : List CallSite) → (env : Env) → (il : Bool) →
    (bo : Nat → List (String × Nat)) → (k h : Nat) → (af : Bool) → (s : St) →
    (enterCalls P ee f cs env il bo k h af s).2.stuck = none →
    (tsSites s.out ++ cs.map (fun c => (c.name, c.line))).Sublist (tsSites (enterCalls P ee f cs env il bo k h af s).2.out)
  | 0, cs, _, _, _, _, _, _, s, hst => by
      simp only [enterCalls] at hst; exact absurd hst (St.setStuck_stuck_ne _ _)
  | f+1, [], _, _, _, _, _, _, s, _ => by simp [enterCalls]
  | f+1, c :: cs, env, il, bo, k, h, af, s, hst => by
      simp only [enterCalls] at hst ⊢
      have hok := enterCall_ok P ee f c env il (bo k) s
      split
      · rename_i hcond
        rw [if_pos hcond] at hst
        have hrest := enterCalls_ok P ee f cs env il bo (k+1) h (af && (enterCall P ee f c env il (bo k) s).1.isFin)
          (enterCall P ee f c env il (bo k) s).2
        have h1st := (hrest.clean hst).2
        have h1 := enterCall_announces P ee f c env il (bo k) s h1st
        have h2 := enterCalls_fork P ee f cs env il bo (k+1) h _ _ hst
        simp only [List.map_cons]
        have : (tsSites s.out ++ (c.name, c.line) :: cs.map (fun c => (c.name, c.line)))
            = (tsSites s.out ++ [(c.name, c.line)]) ++ cs.map (fun c => (c.name, c.line)) := by simp
        rw [this]
        exact (List.Sublist.append_right h1 _).trans h2
      · rename_i hcond
        rw [if_neg hcond] at hst
        have hrest := enterCalls_ok P ee f cs env il bo (k+1) h (af && (enterCall P ee f c env il (bo k) s).1.isFin)
          ((enterCall P ee f c env il (bo k) s).2.flush h)
        have h1st : (enterCall P ee f c env il (bo k) s).2.stuck = none := by simpa using (hrest.clean hst).2
        have h1 := enterCall_announces P ee f c env il (bo k) s h1st
        have h2 := enterCalls_fork P ee f cs env il bo (k+1) h _ _ hst
        rw [flush_tsSites] at h2
        simp only [List.map_cons]
        have : (tsSites s.out ++ (c.name, c.line) :: cs.map (fun c => (c.name, c.line)))
            = (tsSites s.out ++ [(c.name, c.line)]) ++ cs.map (fun c => (c.name, c.line)) := by simp
        rw [this]
        exact (List.Sublist.append_right h1 _).trans h2

/-- INDEPENDENCE: delivering a completion to a fork touches exactly one branch – the first one that
    is waiting for it – and leaves every other branch's run state as it was -/
theorem deliverL_frame (P : Prog) (ee : EE) (f i : Nat) : (rs : List Run) → (s : St) → (rs' : List Run) → (s' : St) →
    deliverL P ee f i rs s = some (rs', s') →
    ∃ k r', k < rs.length ∧ rs' = rs.set k r' ∧ deliver P ee f i (rs[k]?.getD .fin) s = some (r', s') ∧
      ∀ j, j < k → i ∉ (rs[j]?.getD .fin).waiting
  | [], s, rs', s', h => by simp [deliverL] at h
  | r :: rs, s, rs', s', h => by
      simp only [deliverL] at h
      split at h
      · rename_i r1 s1 heq
        simp at h; obtain ⟨rfl, rfl⟩ := h
        exact ⟨0, r1, by simp, by simp, by simpa using heq, by intro j hj; omega⟩
      · rename_i hnone
        split at h
        · rename_i rs1 s1 heq
          simp at h; obtain ⟨rfl, rfl⟩ := h
          obtain ⟨k, r', hk, hset, hd, hbefore⟩ := deliverL_frame P ee f i rs s rs1 s1 heq
          refine ⟨k+1, r', by simp; omega, by simp [hset], by simpa using hd, ?_⟩
          intro j hj
          cases j with
          | zero => simpa using deliver_none P ee f i r s hnone
          | succ j => simpa using hbefore j (by omega)
        · simp at h

end Pfdl
