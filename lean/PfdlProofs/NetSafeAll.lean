import PfdlProofs.NetSafe
import PfdlProofs.NetIds
/-! No index or key error in the net evaluator, for EVERY program whose task calls resolve - parallel loops and the
    rebuilding of the net at run time included.  The invariant is relative to the growing net: every registered
    callback refers to an API object that exists now (parallel-loop callbacks: to a task that is defined), every service
    object and every awaited completion is a key of `place_dict`; the only exceptions ever raised are a failing
    evaluation, the model's fuel, and the `ValueError` of `callbacks.remove` in `evaluate_petri_net` (reachable code on
    the shapes of the known findings, not excluded here). -/
namespace Pfdl.Net

def ExcOkA (e : Option String) : Prop := e = none ∨ e = some "EvalError" ∨ e = some "outOfFuel" ∨ e = some "ValueError"

structure AInv (P : Prog) (s : NS) : Prop where
  prog : s.prog = P
  cbOk : ∀ (t : Nat) (l : List (Nat × Cb)), s.cbs[t]? = some l → ∀ c ∈ l, CbOk P true s.tasks.size s.svcs.size c.2
  pd : ∀ (i : Nat) (a : SvcApi), s.svcs[i]? = some a → (dictGet s.placeDict a.uid).isSome = true
  aw : ∀ u, AEv.svc u ∈ s.awaited → (dictGet s.placeDict u).isSome = true
  exc : ExcOkA s.exc

/-- the invariant holds of `s'`, and no API object was lost on the way from `s` -/
structure AExt (P : Prog) (s s' : NS) : Prop where
  inv : AInv P s'
  gt : s.tasks.size ≤ s'.tasks.size
  gs : s.svcs.size ≤ s'.svcs.size

variable {P : Prog} {ee : EE}

theorem AExt.refl {s : NS} (h : AInv P s) : AExt P s s := ⟨h, Nat.le_refl _, Nat.le_refl _⟩
theorem AExt.trans {a b c : NS} (h1 : AExt P a b) (h2 : AExt P b c) : AExt P a c :=
  ⟨h2.inv, Nat.le_trans h1.gt h2.gt, Nat.le_trans h1.gs h2.gs⟩

/-- a helper that leaves the net, the API objects, `place_dict`, the awaited events, the exception flag and the
    program as they are -/
structure SameP (s s' : NS) : Prop where
  x : SameX s s'
  prog : s'.prog = s.prog

theorem AInv.sameP {s s' : NS} (h : AInv P s) (hs : SameP s s') : AInv P s' :=
  ⟨hs.prog ▸ h.prog, by rw [hs.x.same.cbs, hs.x.same.tsize, hs.x.same.svcs]; exact h.cbOk,
   by rw [hs.x.same.svcs, hs.x.same.pd]; exact h.pd, by rw [hs.x.same.awaited, hs.x.same.pd]; exact h.aw,
   hs.x.exc ▸ h.exc⟩

theorem AExt.sameP {s0 s s' : NS} (h : AExt P s0 s) (hs : SameP s s') : AExt P s0 s' :=
  ⟨h.inv.sameP hs, by rw [hs.x.same.tsize]; exact h.gt, by rw [hs.x.same.svcs]; exact h.gs⟩

theorem SameP.rfl' (s : NS) : SameP s s := ⟨SameX.rfl' s, rfl⟩
theorem SameP.trans' {a b c : NS} (h1 : SameP a b) (h2 : SameP b c) : SameP a c := ⟨h1.x.trans' h2.x, h2.prog.trans h1.prog⟩

theorem prog_foldl_emit {α} (g : α → NOut) : ∀ (l : List α) (s : NS), (l.foldl (fun s a => s.emit (g a)) s).prog = s.prog
  | [], _ => rfl
  | a :: l, s => by simp only [List.foldl_cons]; rw [prog_foldl_emit g l]; rfl

theorem sameP_emit (s : NS) (o : NOut) : SameP s (s.emit o) := ⟨sameX_emit s o, rfl⟩
theorem sameP_foldl_emit {α} (g : α → NOut) (l : List α) (s : NS) : SameP s (l.foldl (fun s a => s.emit (g a)) s) :=
  ⟨sameX_foldl_emit g l s, prog_foldl_emit g l s⟩
theorem sameP_logAll (s : NS) (n : Note) (b : Bool) : SameP s (s.logAll n b) := by
  unfold NS.logAll; exact sameP_foldl_emit (fun o => NOut.log o n b) s.observers s
theorem sameP_netAll (s : NS) : SameP s s.netAll := by
  unfold NS.netAll; exact sameP_foldl_emit (fun o => NOut.netUpd o) s.observers s
theorem sameP_evalExpr (s : NS) (e : Expr) (ctx : Nat) : SameP s (s.evalExpr ee e ctx).2 :=
  ⟨sameX_evalExpr s e ctx, by unfold NS.evalExpr; rfl⟩
theorem sameP_readLimit (s : NS) (lim : Limit) (ctx : Nat) : SameP s (s.readLimit ee lim ctx).2 :=
  ⟨sameX_readLimit s lim ctx, by unfold NS.readLimit; split <;> rfl⟩
theorem sameP_substitute (s : NS) (c : Option Nat) (ps : List Param) : SameP s (s.substitute c ps).2 :=
  ⟨sameX_substitute s c ps, by unfold NS.substitute; split <;> (try split) <;> rfl⟩
theorem sameP_bumpCounter (s : NS) (ctx line : Nat) (var : String) : SameP s (s.bumpCounter ctx line var).2 :=
  ⟨sameX_bumpCounter s ctx line var, by unfold NS.bumpCounter; rfl⟩
theorem sameP_dropCounter (s : NS) (ctx line : Nat) (var : String) : SameP s (s.dropCounter ctx line var) :=
  ⟨sameX_dropCounter s ctx line var, by unfold NS.dropCounter; rfl⟩

theorem sameP_of_substitute_eq {s s' : NS} {c : Option Nat} {ps ps' : List Param}
    (h : s.substitute c ps = (ps', s')) : SameP s s' := by
  have := sameP_substitute s c ps; rw [h] at this; exact this
theorem sameP_of_evalExpr_eq {s s' : NS} {e : Expr} {ctx : Nat} {v : Option Val}
    (h : s.evalExpr ee e ctx = (v, s')) : SameP s s' := by
  have := sameP_evalExpr (ee := ee) s e ctx; rw [h] at this; exact this
theorem sameP_of_readLimit_eq {s s' : NS} {lim : Limit} {ctx : Nat} {n : Option Rat}
    (h : s.readLimit ee lim ctx = (n, s')) : SameP s s' := by
  have := sameP_readLimit (ee := ee) s lim ctx; rw [h] at this; exact this
theorem sameP_of_bumpCounter_eq {s s' : NS} {ctx line : Nat} {var : String} {c0 : Nat}
    (h : s.bumpCounter ctx line var = (c0, s')) : SameP s s' := by
  have := sameP_bumpCounter s ctx line var; rw [h] at this; exact this

/-- raising one of the admitted exceptions -/
theorem AInv.raiseOk {s : NS} (h : AInv P s) (e : String) (he : e = "EvalError" ∨ e = "outOfFuel" ∨ e = "ValueError") :
    AInv P (s.raise e) := by
  have hs := same_raise s e
  have hp : (s.raise e).prog = s.prog := by unfold NS.raise; split <;> rfl
  refine ⟨hp ▸ h.prog, by rw [hs.cbs, hs.tsize, hs.svcs]; exact h.cbOk, by rw [hs.svcs, hs.pd]; exact h.pd,
    by rw [hs.awaited, hs.pd]; exact h.aw, ?_⟩
  unfold NS.raise
  split
  · exact h.exc
  · rcases he with he | he | he <;> subst he
    · exact Or.inr (Or.inl rfl)
    · exact Or.inr (Or.inr (Or.inl rfl))
    · exact Or.inr (Or.inr (Or.inr rfl))

theorem AExt.raiseOk {s0 s : NS} (h : AExt P s0 s) (e : String) (he : e = "EvalError" ∨ e = "outOfFuel" ∨ e = "ValueError") :
    AExt P s0 (s.raise e) := by
  have hs := same_raise s e
  exact ⟨h.inv.raiseOk e he, by rw [hs.tsize]; exact h.gt, by rw [hs.svcs]; exact h.gs⟩

theorem AExt.outOfFuel {s0 s : NS} (h : AExt P s0 s) : AExt P s0 s.outOfFuel := by
  have h1 := h.raiseOk "outOfFuel" (Or.inr (Or.inl rfl))
  unfold NS.outOfFuel
  exact ⟨⟨h1.inv.prog, h1.inv.cbOk, h1.inv.pd, h1.inv.aw, h1.inv.exc⟩, h1.gt, h1.gs⟩


/-! ### small steps -/

theorem AExt.upd {s0 s s' : NS} (h : AExt P s0 s) (h' : AInv P s') (ht : s'.tasks.size = s.tasks.size) (hs : s'.svcs.size = s.svcs.size) :
    AExt P s0 s' := ⟨h', ht ▸ h.gt, hs ▸ h.gs⟩

theorem AInv.fireT {s : NS} (h : AInv P s) (t : Nat) : AInv P (s.fireT t) := by
  unfold NS.fireT
  split
  · exact ⟨h.prog, h.cbOk, h.pd, h.aw, h.exc⟩
  · exact h

theorem AInv.addToken {s : NS} (h : AInv P s) (p : Nat) : AInv P (s.addToken p) := ⟨h.prog, h.cbOk, h.pd, h.aw, h.exc⟩
theorem AInv.removePlace {s : NS} (h : AInv P s) (p : Nat) : AInv P (s.removePlace p) := ⟨h.prog, h.cbOk, h.pd, h.aw, h.exc⟩

/-- what `extractPloop` returns was in the list -/
theorem extractPloop_sub : ∀ (g : Nat) (l : List (Nat × Cb)) (pos : Nat) (temp : Option Cb),
    (∀ c ∈ (extractPloop l pos temp g).2, c ∈ l) ∧
    (∀ cb, (extractPloop l pos temp g).1 = some cb → temp = some cb ∨ ∃ k, (k, cb) ∈ l)
  | 0, l, pos, temp => by
    simp only [extractPloop]
    exact ⟨fun c hc => hc, fun cb h => Or.inl h⟩
  | g+1, l, pos, temp => by
    simp only [extractPloop]
    split
    · exact ⟨fun c hc => hc, fun cb h => Or.inl h⟩
    · rename_i k cb0 hq
      split
      · have ih := extractPloop_sub g (l.eraseIdx pos) (pos + 1) (some cb0)
        refine ⟨fun c hc => List.mem_of_mem_eraseIdx (ih.1 c hc), fun cb h => ?_⟩
        rcases ih.2 cb h with h1 | ⟨k', h1⟩
        · cases h1; exact Or.inr ⟨k, List.mem_of_getElem? hq⟩
        · exact Or.inr ⟨k', List.mem_of_mem_eraseIdx h1⟩
      · exact extractPloop_sub g l (pos + 1) temp

/-- replacing the callback list of a transition by part of it -/
theorem AInv.setCbs {s : NS} (h : AInv P s) (i : Nat) (l : List (Nat × Cb)) (hl : ∀ c ∈ l, c ∈ s.cbs[i]?.getD []) :
    AInv P { s with cbs := s.cbs.set! i l } := by
  refine ⟨h.prog, ?_, h.pd, h.aw, h.exc⟩
  intro t l' hl' c hc
  have hl'' : (s.cbs.set! i l)[t]? = some l' := hl'
  rw [Array.set!_eq_setIfInBounds, Array.getElem?_setIfInBounds] at hl''
  show CbOk P true s.tasks.size s.svcs.size c.2
  split at hl''
  · rename_i hit
    split at hl''
    · cases hl''
      have hm := hl c hc
      cases hq : s.cbs[i]? with
      | none => simp [hq] at hm
      | some l0 =>
        simp [hq] at hm
        exact h.cbOk i l0 hq c hm
    · cases hl''
  · exact h.cbOk t l' hl'' c hc

/-- one task call generated at run time -/
theorem aext_genCall (hc : P.Closed) (f : Nat) (c : CallSite) (ctx t1 t2 : Nat) (s : NS)
    (hcn : (P.task? c.name).isSome = true) (h : AInv P s) : AExt P s (genCall f c ctx t1 t2 false s).2 := by
  have he := (gkeeps (e0 := s.exc) hc (progNoPloop_true P) f).call c ctx t1 t2 false s hcn ⟨h.prog, h.cbOk, h.pd, Or.inl rfl⟩
  have hf := (gfr f).call c ctx t1 t2 false s
  refine ⟨⟨he.inv.prog, he.inv.cbOk, he.inv.pd, ?_, ?_⟩, he.le, he.les⟩
  · intro u hu; rw [hf.awaited] at hu; exact he.keys u (h.aw u hu)
  · rcases he.inv.exc with e | ⟨_, e⟩
    · rw [e]; exact h.exc
    · rw [e]; exact Or.inr (Or.inr (Or.inl rfl))

theorem aext_ploopFold (hc : P.Closed) (f : Nat) (var : String) (c : CallSite) (ctx t1 t2 : Nat)
    (hcn : (P.task? c.name).isSome = true) : ∀ (l : List Nat) (s : NS), AInv P s →
    AExt P s (l.foldl (fun s _ =>
      let s := (genCall f c ctx t1 t2 false s).2
      let u := s.taskUid ctx
      let d := (dictGet s.loopCtrs u).getD []
      let s := { s with cells := s.cells.push (-1) }
      { s with loopCtrs := dictSet s.loopCtrs u (dictSet d (.pvar var) (.cell (s.cells.size - 1))) }) s)
  | [], s, h => AExt.refl h
  | _ :: l, s, h => by
      simp only [List.foldl_cons]
      have e1 := aext_genCall hc f c ctx t1 t2 s hcn h
      have key := aext_ploopFold hc f var c ctx t1 t2 hcn l
      refine AExt.trans ?_ (key _ ?_)
      · exact ⟨⟨e1.inv.prog, e1.inv.cbOk, e1.inv.pd, e1.inv.aw, e1.inv.exc⟩, e1.gt, e1.gs⟩
      · exact ⟨e1.inv.prog, e1.inv.cbOk, e1.inv.pd, e1.inv.aw, e1.inv.exc⟩


/-! ### the evaluator -/

theorem AInv.awPush {s : NS} (h : AInv P s) (q : Nat) : AInv P { s with awaited := s.awaited ++ [AEv.setPlace q] } := by
  refine ⟨h.prog, h.cbOk, h.pd, ?_, h.exc⟩
  intro u hu
  have hu' : AEv.svc u ∈ s.awaited ++ [AEv.setPlace q] := hu
  simp only [List.mem_append, List.mem_singleton] at hu'
  rcases hu' with hu' | hu'
  · exact h.aw u hu'
  · cases hu'

section
variable (P ee)
/-- all functions of the evaluator keep the invariant of the growing net, at fuel `f` -/
structure AKeeps (f : Nat) : Prop where
  evaluate : ∀ s, AInv P s → AExt P s (evaluate ee f s)
  scan : ∀ n i s, AInv P s → AExt P s (scan ee f n i s)
  runLive : ∀ t pos s, AInv P s → AExt P s (runLive ee f t pos s)
  runCopy : ∀ t l s, (∀ c ∈ l, CbOk P true s.tasks.size s.svcs.size c.2) → AInv P s → AExt P s (runCopy ee f t l s)
  runCb : ∀ cb s, CbOk P true s.tasks.size s.svcs.size cb → AInv P s → AExt P s (runCb ee f cb s)
  listenSS : ∀ i fns s, AInv P s → AExt P s (listenSS ee f i fns s)
  listenSF : ∀ i fns s, AInv P s → AExt P s (listenSF ee f i fns s)
  eeStarted : ∀ id s, AInv P s → AExt P s (eeStarted ee f id s)
  eeOther : ∀ k s, AInv P s → AExt P s (eeOther ee f k s)
  eeAgain : ∀ k s, AInv P s → AExt P s (eeAgain ee f k s)
  eeFinished : ∀ s, AInv P s → AExt P s (eeFinished ee f s)
  complete : ∀ k s, AInv P s → AExt P s (complete ee f k s)
  fireEv : ∀ ev s, AInv P s → AExt P s (fireEv ee f ev s).2

theorem akeeps_zero : AKeeps P ee 0 where
  evaluate s h := by simp only [Net.evaluate]; exact (AExt.refl h).outOfFuel
  scan n i s h := by simp only [Net.scan]; exact (AExt.refl h).outOfFuel
  runLive t pos s h := by simp only [Net.runLive]; exact (AExt.refl h).outOfFuel
  runCopy t l s _ h := by simp only [Net.runCopy]; exact (AExt.refl h).outOfFuel
  runCb cb s _ h := by simp only [Net.runCb]; exact (AExt.refl h).outOfFuel
  listenSS i fns s h := by simp only [Net.listenSS]; exact (AExt.refl h).outOfFuel
  listenSF i fns s h := by simp only [Net.listenSF]; exact (AExt.refl h).outOfFuel
  eeStarted id s h := by simp only [Net.eeStarted]; exact (AExt.refl h).outOfFuel
  eeOther k s h := by simp only [Net.eeOther]; exact (AExt.refl h).outOfFuel
  eeAgain k s h := by simp only [Net.eeAgain]; exact (AExt.refl h).outOfFuel
  eeFinished s h := by simp only [Net.eeFinished]; exact (AExt.refl h).outOfFuel
  complete k s h := by simp only [Net.complete]; exact (AExt.refl h).outOfFuel
  fireEv ev s h := by simp only [Net.fireEv]; exact (AExt.refl h).outOfFuel
end

theorem akeeps_succ (hc : P.Closed) (f : Nat) (ih : AKeeps P ee f) : AKeeps P ee (f+1) where
  evaluate s h := by simp only [Net.evaluate]; exact ih.scan _ _ s h
  scan n i s h := by
    simp only [Net.scan]
    split
    · exact AExt.refl h
    split
    · exact AExt.refl h
    split
    · generalize hx : extractPloop (s.cbs[i]?.getD []) 0 none ((s.cbs[i]?.getD []).length + 1) = r
      obtain ⟨temp, l⟩ := r
      have hsub := extractPloop_sub ((s.cbs[i]?.getD []).length + 1) (s.cbs[i]?.getD []) 0 none
      rw [hx] at hsub
      simp only at hsub ⊢
      have hl : ∀ c ∈ l, CbOk P true s.tasks.size s.svcs.size c.2 := by
        intro c hc
        have hm := hsub.1 c hc
        cases hq : s.cbs[i]? with
        | none => simp [hq] at hm
        | some l0 => simp [hq] at hm; exact h.cbOk i l0 hq c hm
      cases temp with
      | none =>
        simp only
        have e1 : AExt P s (s.fireT i) := by
          refine ⟨h.fireT i, ?_, ?_⟩ <;> (unfold NS.fireT; split <;> exact Nat.le_refl _)
        have e2 := e1.trans (ih.runLive i 0 _ e1.inv)
        exact e2.trans (ih.scan _ _ _ e2.inv)
      | some cb =>
        simp only
        have hcb : CbOk P true s.tasks.size s.svcs.size cb := by
          rcases hsub.2 cb rfl with h1 | ⟨k, h1⟩
          · cases h1
          · cases hq : s.cbs[i]? with
            | none => simp [hq] at h1
            | some l0 => simp [hq] at h1; exact h.cbOk i l0 hq (k, cb) h1
        have h1 : AInv P { s with cbs := s.cbs.set! i l } := h.setCbs i l hsub.1
        have e1 : AExt P s (runCopy ee f i l { s with cbs := s.cbs.set! i l }) := by
          have := ih.runCopy i l { s with cbs := s.cbs.set! i l } hl h1
          exact ⟨this.inv, this.gt, this.gs⟩
        split
        · exact e1
        · exact e1.trans (ih.runCb cb _ (hcb.mono e1.gt e1.gs) e1.inv)
    · exact ih.scan _ _ _ h
  runLive t pos s h := by
    simp only [Net.runLive]
    split
    · exact AExt.refl h
    split
    · exact AExt.refl h
    · rename_i k cb hq
      have hok : CbOk P true s.tasks.size s.svcs.size cb := by
        cases hl : s.cbs[t]? with
        | none => simp [hl] at hq
        | some l =>
          simp [hl] at hq
          exact h.cbOk t l hl (k, cb) (List.mem_of_getElem? hq)
      have e1 := ih.runCb cb s hok h
      exact e1.trans (ih.runLive _ _ _ e1.inv)
  runCopy t l s hl h := by
    cases l with
    | nil => simp only [Net.runCopy]; exact AExt.refl h
    | cons kc rest =>
      obtain ⟨k, cb⟩ := kc
      simp only [Net.runCopy]
      split
      · exact AExt.refl h
      have e1 := ih.runCb cb s (hl (k, cb) List.mem_cons_self) h
      split
      · exact e1
      split
      · refine e1.trans ?_
        have h2 := e1.inv.setCbs t (((runCb ee f cb s).cbs[t]?.getD []).filter (·.1 != k))
          (fun c hc => (List.mem_filter.1 hc).1)
        have := ih.runCopy t rest { (runCb ee f cb s) with cbs := (runCb ee f cb s).cbs.set! t (((runCb ee f cb s).cbs[t]?.getD []).filter (·.1 != k)) }
          (fun c hc => (hl c (List.mem_cons_of_mem _ hc)).mono e1.gt e1.gs) h2
        exact ⟨this.inv, this.gt, this.gs⟩
      · exact e1.raiseOk "ValueError" (Or.inr (Or.inr rfl))
  runCb cb s hok h := by
    cases cb with
    | taskStarted t =>
      simp only [Net.runCb]
      have ht : t < s.tasks.size := by simpa [CbOk] using hok
      have hget : s.tasks[t]? = some s.tasks[t] := by simp [ht]
      rw [hget]
      simp only
      generalize hsub : NS.substitute _ _ _ = r
      obtain ⟨ps', s'⟩ := r
      simp only
      have hs' : AExt P s s' := by
        have e0 : AExt P s { s with ctrT := s.ctrT + 1 } := ⟨⟨h.prog, h.cbOk, h.pd, h.aw, h.exc⟩, Nat.le_refl _, Nat.le_refl _⟩
        exact e0.sameP (sameP_of_substitute_eq hsub)
      refine AExt.sameP ?_ (sameP_logAll _ _ _)
      refine AExt.sameP ?_ (sameP_foldl_emit _ _ _)
      refine hs'.upd ⟨hs'.inv.prog, ?_, hs'.inv.pd, hs'.inv.aw, hs'.inv.exc⟩ (by show (Array.modify _ _ _).size = _; rw [Array.size_modify]) rfl
      intro t' l hl c hc
      show CbOk P true (Array.modify _ _ _).size _ c.2
      rw [Array.size_modify]
      exact hs'.inv.cbOk t' l hl c hc
    | taskFinished t =>
      simp only [Net.runCb]
      have h0 := (AExt.refl h).sameP (sameP_foldl_emit (fun fn => NOut.inv fn (s.noteT .tf t)) s.ls.tf s)
      split
      · refine AExt.sameP ?_ (sameP_logAll _ _ _)
        refine AExt.sameP ?_ (sameP_netAll _)
        exact h0.upd ⟨h0.inv.prog, h0.inv.cbOk, h0.inv.pd, h0.inv.aw, h0.inv.exc⟩ rfl rfl
      · exact h0.sameP (sameP_logAll _ _ _)
    | svcStarted i =>
      simp only [Net.runCb]
      have hi : i < s.svcs.size := by simpa [CbOk] using hok
      have hget : s.svcs[i]? = some s.svcs[i] := by simp [hi]
      rw [hget]
      simp only
      have hkey := h.pd i s.svcs[i] hget
      cases hfin : dictGet s.placeDict s.svcs[i].uid with
      | none => rw [hfin] at hkey; simp at hkey
      | some fin =>
        simp only
        generalize hsub : (if s.svcs[i].inLoop = true then NS.substitute _ _ _ else (s.svcs[i].params, _)) = r
        obtain ⟨ps', s'⟩ := r
        have hbase : AExt P s { s with ctrS := s.ctrS + 1, placeDict := dictSet s.placeDict (Uid.id s.ctrS) fin } :=
          ⟨⟨h.prog, h.cbOk, fun j a ha => dictGet_dictSet_of_isSome _ _ _ _ (h.pd j a ha),
           fun u hu => dictGet_dictSet_of_isSome _ _ _ _ (h.aw u hu), h.exc⟩, Nat.le_refl _, Nat.le_refl _⟩
        have hs' : AExt P s s' ∧ s'.placeDict = dictSet s.placeDict (Uid.id s.ctrS) fin := by
          split at hsub
          · have hx := sameP_of_substitute_eq hsub
            exact ⟨hbase.sameP hx, hx.x.same.pd⟩
          · cases hsub; exact ⟨hbase, rfl⟩
        obtain ⟨hs', hpd'⟩ := hs'
        simp only
        refine AExt.trans ?h1 (ih.listenSS _ _ _ (AExt.inv ?h1))
        · refine AExt.sameP ?_ (sameP_logAll _ _ _)
          refine hs'.upd ⟨hs'.inv.prog, ?_, ?_, ?_, hs'.inv.exc⟩ rfl (by show (Array.modify _ _ _).size = _; rw [Array.size_modify])
          · intro t' l hl c hc
            show CbOk P true _ (Array.modify _ _ _).size c.2
            rw [Array.size_modify]
            exact hs'.inv.cbOk t' l hl c hc
          · intro j a ha
            have ha' : (s'.svcs.modify i (fun a => { a with uid := Uid.id s.ctrS, params := ps' }))[j]? = some a := ha
            rw [getElem?_modify_svc] at ha'
            show (dictGet s'.placeDict a.uid).isSome = true
            split at ha'
            · cases hq : s'.svcs[j]? with
              | none => simp [hq] at ha'
              | some a0 =>
                simp [hq] at ha'
                subst ha'
                rw [hpd']
                exact dictGet_dictSet_self _ _ _
            · exact hs'.inv.pd j a ha'
          · intro u hu
            have hu' : AEv.svc u ∈ s'.awaited ++ [AEv.svc (Uid.id s.ctrS)] := hu
            show (dictGet s'.placeDict u).isSome = true
            simp only [List.mem_append, List.mem_singleton] at hu'
            rcases hu' with hu' | hu'
            · exact hs'.inv.aw u hu'
            · cases hu'
              rw [hpd']
              exact dictGet_dictSet_self _ _ _
    | svcFinished i =>
      simp only [Net.runCb]
      have h1 := ih.listenSF i s.ls.sf s h
      split
      · exact h1
      · exact h1.sameP (sameP_logAll _ _ _)
    | cond e thenP elseP ctx =>
      simp only [Net.runCb]
      generalize hev : NS.evalExpr s ee e ctx = r
      obtain ⟨v, s'⟩ := r
      have hs' : AExt P s s' := (AExt.refl h).sameP (sameP_of_evalExpr_eq hev)
      simp only
      split
      · exact hs'.raiseOk _ (Or.inl rfl)
      · refine AExt.trans (hs'.upd (hs'.inv.awPush _) rfl rfl) (ih.fireEv _ _ (hs'.inv.awPush _))
    | wloop e thenP elseP ctx =>
      simp only [Net.runCb]
      generalize hev : NS.evalExpr s ee e ctx = r
      obtain ⟨v, s'⟩ := r
      have hs' : AExt P s s' := (AExt.refl h).sameP (sameP_of_evalExpr_eq hev)
      simp only
      split
      · exact hs'.raiseOk _ (Or.inl rfl)
      · refine AExt.trans (hs'.upd (hs'.inv.awPush _) rfl rfl) (ih.fireEv _ _ (hs'.inv.awPush _))
    | cloop line var lim thenP elseP ctx =>
      simp only [Net.runCb]
      generalize hbc : NS.bumpCounter s ctx line var = r0
      obtain ⟨c0, s0⟩ := r0
      have hs0 : AExt P s s0 := (AExt.refl h).sameP (sameP_of_bumpCounter_eq hbc)
      simp only
      generalize hev : NS.readLimit s0 ee lim ctx = r
      obtain ⟨n, s'⟩ := r
      have hs' : AExt P s s' := hs0.sameP (sameP_of_readLimit_eq hev)
      simp only
      repeat' split
      all_goals first
        | exact hs'.raiseOk _ (Or.inl rfl)
        | exact AExt.trans (hs'.upd (hs'.inv.awPush _) rfl rfl) (ih.fireEv _ _ (hs'.inv.awPush _))
        | (have hd := hs'.sameP (sameP_dropCounter s' ctx line var)
           exact AExt.trans (hd.upd (hd.inv.awPush _) rfl rfl) (ih.fireEv _ _ (hd.inv.awPush _)))
    | ploop var lim c place t1 t2 ctx =>
      simp only [Net.runCb]
      have hcn : (P.task? c.name).isSome = true := by
        have := hok; simp only [CbOk] at this; exact this.2
      generalize hev : NS.readLimit s ee lim ctx = r
      obtain ⟨n, s'⟩ := r
      have hs' : AExt P s s' := (AExt.refl h).sameP (sameP_of_readLimit_eq hev)
      simp only
      split
      · exact hs'.raiseOk _ (Or.inl rfl)
      · rename_i n
        generalize hX : (if 1 ≤ n then _ else _ : NS) = X
        have hXe : AExt P s' X := by
          rw [← hX]
          split
          · exact aext_ploopFold hc f var c ctx t1 t2 hcn _ s' hs'.inv
          · exact ⟨⟨hs'.inv.prog, hs'.inv.cbOk, hs'.inv.pd, hs'.inv.aw, hs'.inv.exc⟩, Nat.le_refl _, Nat.le_refl _⟩
        have hX2 := hs'.trans hXe
        split
        · exact hX2
        · refine hX2.trans ?_
          split
          · have := ih.evaluate _ (hXe.inv.removePlace place)
            exact ⟨this.inv, this.gt, this.gs⟩
          · exact ih.evaluate _ hXe.inv
  listenSS i fns s h := by
    cases fns with
    | nil => simp only [Net.listenSS]; exact AExt.refl h
    | cons fn fns =>
      simp only [Net.listenSS]
      split
      · exact AExt.refl h
      have e0 : AExt P s (s.emit (.inv fn (s.noteS .ss i))) := (AExt.refl h).sameP (sameP_emit _ _)
      split
      · refine AExt.trans ?h2 (ih.listenSS _ _ _ (AExt.inv ?h2))
        exact e0.trans (ih.eeStarted _ _ e0.inv)
      · exact e0.trans (ih.listenSS _ _ _ e0.inv)
  listenSF i fns s h := by
    cases fns with
    | nil => simp only [Net.listenSF]; exact AExt.refl h
    | cons fn fns =>
      simp only [Net.listenSF]
      split
      · exact AExt.refl h
      have e0 : AExt P s (s.emit (.inv fn (s.noteS .sf i))) := (AExt.refl h).sameP (sameP_emit _ _)
      split
      · refine AExt.trans ?h3 (ih.listenSF _ _ _ (AExt.inv ?h3))
        exact e0.trans (ih.eeFinished _ e0.inv)
      · exact e0.trans (ih.listenSF _ _ _ e0.inv)
  eeStarted id s h := by
    simp only [Net.eeStarted]
    have h0 : AExt P s { s with announced := s.announced.push id, pending := s.pending ++ [s.announced.size] } :=
      ⟨⟨h.prog, h.cbOk, h.pd, h.aw, h.exc⟩, Nat.le_refl _, Nat.le_refl _⟩
    by_cases hio : ee.immOther s.announced.size = true
    · rw [if_pos hio]
      have h1 := h0.trans (ih.eeOther s.announced.size _ h0.inv)
      split
      · exact h1
      · split
        · exact h1.trans (ih.complete _ _ h1.inv)
        · exact h1
    · rw [if_neg hio]
      split
      · exact h0
      · split
        · exact h0.trans (ih.complete _ _ h0.inv)
        · exact h0
  eeOther k s h := by
    simp only [Net.eeOther]
    have h1 := ih.eeAgain k s h
    split
    · exact h1.trans (ih.complete _ _ h1.inv)
    · exact h1
  eeAgain k s h := by
    simp only [Net.eeAgain]
    split
    · split
      · exact ih.complete _ _ h
      · exact AExt.refl h
    · exact AExt.refl h
  eeFinished s h := by
    simp only [Net.eeFinished]
    have h0 : AExt P s { s with nSf := s.nSf + 1 } := ⟨⟨h.prog, h.cbOk, h.pd, h.aw, h.exc⟩, Nat.le_refl _, Nat.le_refl _⟩
    split
    · split
      · exact h0.trans (ih.complete _ _ h0.inv)
      · exact h0
    · exact h0
  complete k s h := by
    simp only [Net.complete]
    split
    · exact AExt.refl h
    · rename_i id _
      generalize hfe : fireEv ee f (AEv.svc (Uid.id id)) _ = r
      obtain ⟨b, s'⟩ := r
      have hs' : AExt P s s' := by
        have := ih.fireEv (AEv.svc (Uid.id id)) ({ s with inProg := k :: s.inProg }.emit (.fire id))
          ⟨h.prog, h.cbOk, h.pd, h.aw, h.exc⟩
        rw [hfe] at this; exact ⟨this.inv, this.gt, this.gs⟩
      simp only
      repeat' split
      all_goals exact ⟨⟨hs'.inv.prog, hs'.inv.cbOk, hs'.inv.pd, hs'.inv.aw, hs'.inv.exc⟩, hs'.gt, hs'.gs⟩
  fireEv ev s h := by
    simp only [Net.fireEv]
    split
    · exact AExt.refl h
    split
    · exact AExt.refl h
    · rename_i idx hidx
      have hmem : ev ∈ s.awaited := mem_of_idxOf? _ _ _ hidx
      have h1 : AInv P { s with awaited := s.awaited.eraseIdx idx } :=
        ⟨h.prog, h.cbOk, h.pd, fun u hu => h.aw u (List.mem_of_mem_eraseIdx hu), h.exc⟩
      split
      · rename_i hnone
        cases ev with
        | start => simp at hnone
        | setPlace q => simp at hnone
        | svc u =>
          simp at hnone
          have := h.aw u hmem
          rw [hnone] at this
          simp at this
      · rename_i p hp
        split
        · have h3 := ih.evaluate _ (h1.addToken p)
          have h3' : AExt P s (evaluate ee f ({ s with awaited := s.awaited.eraseIdx idx }.addToken p)) := ⟨h3.inv, h3.gt, h3.gs⟩
          split
          · exact h3'
          · exact h3'.sameP (sameP_netAll _)
        · refine ⟨⟨h.prog, h.cbOk, h.pd, ?_, h.exc⟩, Nat.le_refl _, Nat.le_refl _⟩
          intro u hu
          have hu' : AEv.svc u ∈ (s.awaited.eraseIdx idx).take idx ++ [ev] ++ (s.awaited.eraseIdx idx).drop idx := hu
          simp only [List.mem_append, List.mem_singleton] at hu'
          rcases hu' with (hu' | hu') | hu'
          · exact h.aw u (List.mem_of_mem_eraseIdx (List.mem_of_mem_take hu'))
          · exact h.aw u (hu' ▸ hmem)
          · exact h.aw u (List.mem_of_mem_eraseIdx (List.mem_of_mem_drop hu'))

/-- every function of the evaluator keeps the invariant of the growing net, for every fuel -/
theorem akeeps (hc : P.Closed) : ∀ f, AKeeps P ee f
  | 0 => akeeps_zero P ee
  | f+1 => akeeps_succ hc f (akeeps hc f)

end Pfdl.Net
