import PfdlModel.Syntax
import PfdlProofs.JsonRoundTrip
/-! The statement-level parser is a left inverse of the printer: `parse (prDefs sty ds) = some ds`. -/
namespace Pfdl.Syntax
open Pfdl

/-! ### followers -/

def startsNl : TS → Bool
  | ⟨.nl, _⟩ :: _ => true
  | _ => false

def startsLbr : TS → Bool
  | ⟨.lbr, _⟩ :: _ => true
  | _ => false

def startsDot : TS → Bool
  | ⟨.dot, _⟩ :: _ => true
  | _ => false

theorem dropNl_id {r : TS} (h : startsNl r = false) : dropNl r = r := by
  match r, h with
  | [], _ => rfl
  | ⟨.nl, _⟩ :: _, h => simp [startsNl] at h
  | ⟨.kw _, _⟩ :: _, _ | ⟨.up _, _⟩ :: _, _ | ⟨.lo _, _⟩ :: _, _ | ⟨.prim _, _⟩ :: _, _
  | ⟨.colon, _⟩ :: _, _ | ⟨.dot, _⟩ :: _, _ | ⟨.lbr, _⟩ :: _, _ | ⟨.rbr, _⟩ :: _, _
  | ⟨.int _, _⟩ :: _, _ | ⟨.ind, _⟩ :: _, _ | ⟨.ded, _⟩ :: _, _ | ⟨.ex _, _⟩ :: _, _
  | ⟨.json _, _⟩ :: _, _ => rfl

theorem pNl1_nl {r : TS} (l : Nat) (h : startsNl r = false) : pNl1 (⟨.nl, l⟩ :: r) = some r := by
  simp [pNl1, dropNl_id h]

theorem pArrOpt_pr (a : Option Idx) {r : TS} (h : startsLbr r = false) :
    pArrOpt (prArr a ++ r) = some (a, r) := by
  cases a with
  | none =>
    simp only [prArr, List.nil_append]
    match r, h with
    | [], _ => rfl
    | ⟨.lbr, _⟩ :: _, h => simp [startsLbr] at h
    | ⟨.kw _, _⟩ :: _, _ | ⟨.up _, _⟩ :: _, _ | ⟨.lo _, _⟩ :: _, _ | ⟨.prim _, _⟩ :: _, _
    | ⟨.colon, _⟩ :: _, _ | ⟨.dot, _⟩ :: _, _ | ⟨.nl, _⟩ :: _, _ | ⟨.rbr, _⟩ :: _, _
    | ⟨.int _, _⟩ :: _, _ | ⟨.ind, _⟩ :: _, _ | ⟨.ded, _⟩ :: _, _ | ⟨.ex _, _⟩ :: _, _
    | ⟨.json _, _⟩ :: _, _ => rfl
  | some i =>
    cases i <;> simp [prArr, prIdx, pArrOpt, pIdxClose, t]

theorem pVarTy_pr (v : VarTy) {r : TS} (h : startsLbr r = false) :
    pVarTy (prVarTy v ++ r) = some (v, r) := by
  obtain ⟨b, a⟩ := v
  cases b <;> simp [prVarTy, pVarTy, t, pArrOpt_pr a h]


theorem startsLbr_nl (l : Nat) (r : TS) : startsLbr (⟨.nl, l⟩ :: r) = false := rfl

/-- `(variable_definition NL+)+` reads back a non-empty list of definitions; what follows is no name and no NL -/
theorem pVarDefs_pr : ∀ (ds : List (String × VarTy)) (f : Nat) (r : TS), ds ≠ [] →
    (prVarDefs ds).length ≤ f → startsLo r = false → startsNl r = false →
    pVarDefs f (prVarDefs ds ++ r) = some (ds, r)
  | [], _, _, h, _, _, _ => absurd rfl h
  | (x, v) :: ds, 0, _, _, hf, _, _ => by simp [prVarDefs] at hf
  | (x, v) :: ds, f + 1, r, _, hf, hlo, hnl => by
    simp only [prVarDefs, List.cons_append, List.append_assoc, pVarDefs, pVarDef, t]
    rw [pVarTy_pr v (startsLbr_nl _ _)]
    simp only
    cases ds with
    | nil =>
      simp only [prVarDefs, List.nil_append]
      rw [pNl1_nl _ hnl]
      simp [hlo]
    | cons d ds =>
      obtain ⟨y, w⟩ := d
      have hnl' : startsNl (prVarDefs ((y, w) :: ds) ++ r) = false := by simp [prVarDefs, startsNl, t]
      rw [pNl1_nl _ hnl']
      have hlo' : startsLo (prVarDefs ((y, w) :: ds) ++ r) = true := by simp [prVarDefs, startsLo, t]
      simp only [hlo', if_true]
      have hlen : (prVarDefs ((y, w) :: ds)).length ≤ f := by
        simp only [prVarDefs, List.length_cons, List.length_append] at hf ⊢; omega
      rw [pVarDefs_pr ((y, w) :: ds) f r (by simp) hlen hlo hnl]

theorem pNames_pr : ∀ (xs : List String) (f : Nat) (r : TS), xs ≠ [] →
    (prNames xs).length ≤ f → startsLo r = false → startsNl r = false →
    pNames f (prNames xs ++ r) = some (xs, r)
  | [], _, _, h, _, _, _ => absurd rfl h
  | x :: xs, 0, _, _, hf, _, _ => by simp [prNames] at hf
  | x :: xs, f + 1, r, _, hf, hlo, hnl => by
    simp only [prNames, List.cons_append, pNames, t]
    cases xs with
    | nil =>
      simp only [prNames, List.nil_append]
      rw [pNl1_nl _ hnl]
      simp [hlo]
    | cons y ys =>
      have hnl' : startsNl (prNames (y :: ys) ++ r) = false := by simp [prNames, startsNl, t]
      rw [pNl1_nl _ hnl']
      have hlo' : startsLo (prNames (y :: ys) ++ r) = true := by simp [prNames, startsLo, t]
      simp only [hlo', if_true]
      have hlen : (prNames (y :: ys)).length ≤ f := by
        simp only [prNames, List.length_cons] at hf ⊢; omega
      rw [pNames_pr (y :: ys) f r (by simp) hlen hlo hnl]

/-- what may follow an attribute access: the end of the line or the block of a loop -/
def segEnd : TS → Bool
  | ⟨.nl, _⟩ :: _ => true
  | ⟨.ind, _⟩ :: _ => true
  | _ => false

theorem segEnd_lbr {r : TS} (h : segEnd r = true) : startsLbr r = false := by
  match r, h with
  | ⟨.nl, _⟩ :: _, _ => rfl
  | ⟨.ind, _⟩ :: _, _ => rfl

theorem pSegs_end : ∀ (f : Nat) {r : TS}, segEnd r = true → pSegs (f + 1) r = some ([], r)
  | _, ⟨.nl, _⟩ :: _, _ => rfl
  | _, ⟨.ind, _⟩ :: _, _ => rfl

theorem pSegs_pr : ∀ (ss : List Seg) (f : Nat) (r : TS),
    (prSegs ss).length < f → segEnd r = true →
    pSegs f (prSegs ss ++ r) = some (ss, r)
  | [], 0, _, hf, _ => by simp at hf
  | [], f + 1, r, _, he => by simpa [prSegs] using pSegs_end f he
  | (s, a) :: ss, 0, _, hf, _ => by simp at hf
  | (s, a) :: ss, f + 1, r, hf, he => by
    simp only [prSegs, List.cons_append, List.append_assoc, pSegs, t]
    have hl : startsLbr (prSegs ss ++ r) = false := by
      cases ss with
      | nil => simpa [prSegs] using segEnd_lbr he
      | cons q qs => obtain ⟨q1, q2⟩ := q; simp [prSegs, startsLbr, t]
    rw [pArrOpt_pr a hl]
    have hlen : (prSegs ss).length < f := by
      simp only [prSegs, List.length_cons, List.length_append] at hf; omega
    simp only [pSegs_pr ss f r hlen he]


theorem dropNl_nl (l : Nat) {r : TS} (h : startsNl r = false) : dropNl (⟨.nl, l⟩ :: r) = r := by
  simp [dropNl, dropNl_id h]

theorem pParam_pr (sty : Style) (p : Param) (f : Nat) (r : TS) (hok : p.Ok)
    (hf : (prParam sty p).length ≤ f) (hnl : startsNl r = false) :
    pParam f (prParam sty p ++ r) = some (p, r) := by
  cases p with
  | var x =>
    simp only [prParam, List.cons_append, List.nil_append, pParam, t]
    have : 0 < f := by simp [prParam] at hf; omega
    obtain ⟨f', rfl⟩ : ∃ f', f = f' + 1 := ⟨f - 1, by omega⟩
    rw [pSegs_end f' (r := ⟨.nl, 0⟩ :: r) rfl]
    simp [pNl1_nl _ hnl]
  | path x ss =>
    simp only [prParam, List.cons_append, List.append_assoc, pParam, t]
    have hlen : (prSegs ss).length < f := by
      simp only [prParam, List.length_cons, List.length_append] at hf; omega
    rw [pSegs_pr ss f _ hlen rfl]
    simp only [List.nil_append, pNl1_nl _ hnl]
    have : ss ≠ [] := hok
    cases ss with
    | nil => exact absurd rfl this
    | cons q qs => simp
  | lit s j =>
    simp only [prParam]
    cases sty s j with
    | sameLine => simp [pParam, t, dropNl, dropNl_id hnl, Json.parseObj_pr]
    | nextLine => simp [pParam, t, dropNl, dropNl_id hnl, Json.parseObj_pr]
    | indented => simp [pParam, t, pNl1, dropNl, Json.parseObj_pr]

theorem prParam_startsParam (sty : Style) (p : Param) (r : TS) :
    startsParam (prParam sty p ++ r) = true := by
  cases p with
  | var x => rfl
  | path x ss => rfl
  | lit s j => simp only [prParam]; cases sty s j <;> rfl

theorem prParam_startsNl (sty : Style) (p : Param) (r : TS) :
    startsNl (prParam sty p ++ r) = false := by
  cases p with
  | var x => rfl
  | path x ss => rfl
  | lit s j => simp only [prParam]; cases sty s j <;> rfl

theorem prParam_len (sty : Style) (p : Param) : 2 ≤ (prParam sty p).length := by
  cases p with
  | var x => simp [prParam]
  | path x ss => simp [prParam]
  | lit s j => simp only [prParam]; cases sty s j <;> simp

theorem pParams_pr (sty : Style) : ∀ (ps : List Param) (f : Nat) (r : TS), ps ≠ [] →
    (∀ p ∈ ps, p.Ok) → (prParams sty ps).length < f → startsParam r = false → startsNl r = false →
    pParams f (prParams sty ps ++ r) = some (ps, r)
  | [], _, _, h, _, _, _, _ => absurd rfl h
  | p :: ps, 0, _, _, _, hf, _, _ => by simp at hf
  | p :: ps, f + 1, r, _, hok, hf, hsp, hnl => by
    simp only [prParams, List.append_assoc, pParams]
    have hp := prParam_len sty p
    cases ps with
    | nil =>
      simp only [prParams, List.nil_append]
      have hlen : (prParam sty p).length ≤ f := by
        simp only [prParams, List.length_append, List.length_nil] at hf; omega
      rw [pParam_pr sty p f r (hok p (by simp)) hlen hnl]
      simp [hsp]
    | cons q qs =>
      have hlen : (prParam sty p).length ≤ f := by
        simp only [prParams, List.length_append] at hf; omega
      have hnl' : startsNl (prParams sty (q :: qs) ++ r) = false := by
        simp only [prParams, List.append_assoc]; exact prParam_startsNl sty q _
      rw [pParam_pr sty p f _ (hok p (by simp)) hlen hnl']
      have hsp' : startsParam (prParams sty (q :: qs) ++ r) = true := by
        simp only [prParams, List.append_assoc]; exact prParam_startsParam sty q _
      simp only [hsp', if_true]
      have hlen2 : (prParams sty (q :: qs)).length < f := by
        simp only [prParams, List.length_append] at hf ⊢; omega
      rw [pParams_pr sty (q :: qs) f r (by simp) (fun a ha => hok a (by simp [ha])) hlen2 hsp hnl]


theorem pCallRest_pr (sty : Style) (ins : List Param) (outs : List (String × VarTy))
    (f : Nat) (r : TS) (hok : ∀ p ∈ ins, p.Ok) (hf : (prCallRest sty ins outs).length ≤ f)
    (hnl : startsNl r = false) :
    pCallRest f (prCallRest sty ins outs ++ r) = some ((ins, outs), r) := by
  cases ins with
  | nil =>
    cases outs with
    | nil => simp [prCallRest, pCallRest, t, dropNl_id hnl]
    | cons d ds =>
      simp only [prCallRest, List.isEmpty_nil, List.isEmpty_cons, Bool.and_false, Bool.false_eq_true, if_false,
        if_true, List.nil_append, List.cons_append, List.append_assoc, pCallRest, pCallIn, t]
      have hlen : (prVarDefs (d :: ds)).length ≤ f := by
        simp [prCallRest] at hf; omega
      simp only [pCallOut]
      rw [pVarDefs_pr (d :: ds) f _ (by simp) hlen rfl rfl]
  | cons p ps =>
    cases outs with
    | nil =>
      simp only [prCallRest, List.isEmpty_nil, List.isEmpty_cons, Bool.false_and, Bool.false_eq_true, if_false,
        if_true, List.nil_append, List.cons_append, List.append_assoc, pCallRest, pCallIn, t]
      have hlen : (prParams sty (p :: ps)).length < f := by
        simp [prCallRest] at hf; omega
      rw [pParams_pr sty (p :: ps) f _ (by simp) hok hlen rfl rfl]
      simp [pCallOut]
    | cons d ds =>
      simp only [prCallRest, List.isEmpty_cons, Bool.false_and, Bool.false_eq_true, if_false,
        List.cons_append, List.append_assoc, pCallRest, pCallIn, t]
      have hlen : (prParams sty (p :: ps)).length < f := by
        simp [prCallRest] at hf; omega
      rw [pParams_pr sty (p :: ps) f _ (by simp) hok hlen rfl rfl]
      have hlen2 : (prVarDefs (d :: ds)).length ≤ f := by
        simp [prCallRest] at hf; omega
      simp only [List.nil_append, pCallOut]
      rw [pVarDefs_pr (d :: ds) f _ (by simp) hlen2 rfl rfl]

theorem prCallRest_len (sty : Style) (ins : List Param) (outs : List (String × VarTy)) :
    1 ≤ (prCallRest sty ins outs).length := by
  unfold prCallRest; split <;> simp

theorem pCalls_pr (sty : Style) : ∀ (cs : List Call) (f : Nat) (r : TS), cs ≠ [] →
    (∀ c ∈ cs, c.Ok) → (prCalls sty cs).length ≤ f → startsLo r = false → startsNl r = false →
    pCalls f (prCalls sty cs ++ r) = some (cs, r)
  | [], _, _, h, _, _, _, _ => absurd rfl h
  | c :: cs, 0, _, _, _, hf, _, _ => by simp [prCalls] at hf
  | c :: cs, f + 1, r, _, hok, hf, hlo, hnl => by
    obtain ⟨n, ins, outs, l⟩ := c
    simp only [prCalls, List.cons_append, List.append_assoc, pCalls, t]
    have h1 := prCallRest_len sty ins outs
    have hlen : (prCallRest sty ins outs).length ≤ f := by
      simp only [prCalls, List.length_cons, List.length_append] at hf; omega
    have hokc : ∀ p ∈ ins, p.Ok := hok ⟨n, ins, outs, l⟩ (by simp)
    cases cs with
    | nil =>
      simp only [prCalls, List.nil_append]
      rw [pCallRest_pr sty ins outs f r hokc hlen hnl]
      simp [hlo]
    | cons d ds =>
      have hnl' : startsNl (prCalls sty (d :: ds) ++ r) = false := by simp [prCalls, startsNl, t]
      rw [pCallRest_pr sty ins outs f _ hokc hlen hnl']
      have hlo' : startsLo (prCalls sty (d :: ds) ++ r) = true := by simp [prCalls, startsLo, t]
      simp only [hlo', if_true]
      have hlen2 : (prCalls sty (d :: ds)).length ≤ f := by
        simp only [prCalls, List.length_cons, List.length_append] at hf ⊢; omega
      rw [pCalls_pr sty (d :: ds) f r (by simp) (fun a ha => hok a (by simp [ha])) hlen2 hlo hnl]


def startsEx : TS → Bool
  | ⟨.ex _, _⟩ :: _ => true
  | _ => false

theorem takeEx_map (es : List ExprParse.Tok) {r : TS} (h : startsEx r = false) :
    takeEx (es.map (fun x => t (.ex x)) ++ r) = (es, r) := by
  induction es with
  | nil =>
    simp only [List.map_nil, List.nil_append]
    match r, h with
    | [], _ => rfl
    | ⟨.ex _, _⟩ :: _, h => simp [startsEx] at h
    | ⟨.kw _, _⟩ :: _, _ | ⟨.up _, _⟩ :: _, _ | ⟨.lo _, _⟩ :: _, _ | ⟨.prim _, _⟩ :: _, _
    | ⟨.colon, _⟩ :: _, _ | ⟨.dot, _⟩ :: _, _ | ⟨.nl, _⟩ :: _, _ | ⟨.rbr, _⟩ :: _, _ | ⟨.lbr, _⟩ :: _, _
    | ⟨.int _, _⟩ :: _, _ | ⟨.ind, _⟩ :: _, _ | ⟨.ded, _⟩ :: _, _
    | ⟨.json _, _⟩ :: _, _ => rfl
  | cons e es ih =>
    simp only [List.map_cons, List.cons_append, t, takeEx]
    simp only [t] at ih
    rw [ih]

theorem pExpr_pr (e : Expr) {r : TS} (hok : ExprOk e) (h : startsEx r = false) :
    pExpr (prExpr e ++ r) = some (e, r) := by
  unfold pExpr prExpr
  rw [takeEx_map _ h]
  simp only
  rw [hok]

theorem pLimit_pr (lim : Limit) (f : Nat) (r : TS) (hok : lim.Ok) (hf : (prLimit lim).length ≤ f)
    (he : segEnd r = true) : pLimit f (prLimit lim ++ r) = some (lim, r) := by
  cases lim with
  | int n => simp [prLimit, pLimit, t]
  | path x ss =>
    simp only [prLimit, List.cons_append, pLimit, t]
    have hlen : (prSegs ss).length < f := by simp [prLimit] at hf; omega
    rw [pSegs_pr ss f r hlen he]
    have : ss ≠ [] := hok
    cases ss with
    | nil => exact absurd rfl this
    | cons q qs => simp

/-- what may follow a statement: the next statement, the end of the block, the Out block of the task -/
def afterStmt : TS → Bool
  | ⟨.lo _, _⟩ :: _ => true
  | ⟨.up _, _⟩ :: _ => true
  | ⟨.kw .parallel, _⟩ :: _ => true
  | ⟨.kw .loop, _⟩ :: _ => true
  | ⟨.kw .condition, _⟩ :: _ => true
  | ⟨.ded, _⟩ :: _ => true
  | ⟨.kw .out, _⟩ :: _ => true
  | _ => false

/-- what follows a statement list -/
def afterStmts : TS → Bool
  | ⟨.ded, _⟩ :: _ => true
  | ⟨.kw .out, _⟩ :: _ => true
  | _ => false

theorem afterStmts_after {r : TS} (h : afterStmts r = true) : afterStmt r = true := by
  match r, h with
  | ⟨.ded, _⟩ :: _, _ => rfl
  | ⟨.kw .out, _⟩ :: _, _ => rfl

theorem afterStmts_notStart {r : TS} (h : afterStmts r = true) : startsStmt r = false := by
  match r, h with
  | ⟨.ded, _⟩ :: _, _ => rfl
  | ⟨.kw .out, _⟩ :: _, _ => rfl

theorem afterStmt_nl {r : TS} (h : afterStmt r = true) : startsNl r = false := by
  match r, h with
  | ⟨.lo _, _⟩ :: _, _ | ⟨.up _, _⟩ :: _, _ | ⟨.kw .parallel, _⟩ :: _, _ | ⟨.kw .loop, _⟩ :: _, _
  | ⟨.kw .condition, _⟩ :: _, _ | ⟨.ded, _⟩ :: _, _ | ⟨.kw .out, _⟩ :: _, _ => rfl

theorem prStmt_after (sty : Style) (s : Stmt) (r : TS) :
    afterStmt (prStmt sty s ++ r) = true ∧ startsStmt (prStmt sty s ++ r) = true := by
  cases s with
  | svc c => simp [prStmt, afterStmt, startsStmt, t]
  | call c => simp [prStmt, afterStmt, startsStmt, t]
  | par cs l => simp [prStmt, afterStmt, startsStmt, t]
  | wloop e b l => simp [prStmt, afterStmt, startsStmt, t]
  | cloop pl v lim b l => cases pl <;> simp [prStmt, afterStmt, startsStmt, t]
  | cond e p q l => cases q <;> simp [prStmt, afterStmt, startsStmt, t]


theorem prStmts_ne (sty : Style) {ss : List Stmt} (h : ss ≠ []) (r : TS) :
    afterStmt (prStmts sty ss ++ r) = true ∧ startsStmt (prStmts sty ss ++ r) = true := by
  cases ss with
  | nil => exact absurd rfl h
  | cons s ss => simp only [prStmts, List.append_assoc]; exact prStmt_after sty s _

theorem prStmt_len (sty : Style) (s : Stmt) : 2 ≤ (prStmt sty s).length := by
  cases s with
  | svc c => have := prCallRest_len sty c.ins c.outs; simp [prStmt]; omega
  | call c => have := prCallRest_len sty c.ins c.outs; simp [prStmt]; omega
  | par cs l => simp [prStmt]
  | wloop e b l => simp [prStmt]
  | cloop pl v lim b l => cases pl <;> simp [prStmt]
  | cond e p q l => cases q <;> simp [prStmt]

mutual
theorem pStmt_pr (sty : Style) : ∀ (f : Nat) (s : Stmt) (r : TS), s.Ok →
    (prStmt sty s).length ≤ f → afterStmt r = true →
    pStmt f (prStmt sty s ++ r) = some (s, r)
  | 0, s, _, _, hf, _ => by have := prStmt_len sty s; omega
  | f + 1, .svc c, r, hok, hf, ha => by
    obtain ⟨n, ins, outs, l⟩ := c
    simp only [prStmt, List.cons_append, pStmt, t]
    have hlen : (prCallRest sty ins outs).length ≤ f := by simp [prStmt] at hf; omega
    rw [pCallRest_pr sty ins outs f r hok hlen (afterStmt_nl ha)]
  | f + 1, .call c, r, hok, hf, ha => by
    obtain ⟨n, ins, outs, l⟩ := c
    simp only [prStmt, List.cons_append, pStmt, t]
    have hlen : (prCallRest sty ins outs).length ≤ f := by simp [prStmt] at hf; omega
    rw [pCallRest_pr sty ins outs f r hok hlen (afterStmt_nl ha)]
  | f + 1, .par cs l, r, hok, hf, ha => by
    simp only [prStmt, List.cons_append, List.append_assoc, pStmt, t]
    have hlen : (prCalls sty cs).length ≤ f := by simp [prStmt] at hf; omega
    rw [pCalls_pr sty cs f _ hok.1 hok.2 hlen rfl rfl]
    simp
  | f + 1, .wloop e b l, r, hok, hf, ha => by
    simp only [prStmt, List.cons_append, List.append_assoc, pStmt, t]
    rw [pExpr_pr e hok.1 rfl]
    have hlen : (prStmts sty b).length < f := by
      simp only [prStmt, List.length_cons, List.length_append] at hf; omega
    simp only
    rw [pStmts_pr sty f b _ hok.2.1 hok.2.2 hlen rfl]
    simp
  | f + 1, .cloop true v lim b l, r, hok, hf, ha => by
    simp only [prStmt, List.cons_append, List.append_assoc, pStmt, t]
    have hl : (prLimit lim).length ≤ f := by
      simp only [prStmt, List.length_cons, List.length_append] at hf; omega
    rw [pLimit_pr lim f _ hok.1 hl rfl]
    have hlen : (prStmts sty b).length < f := by
      simp only [prStmt, List.length_cons, List.length_append] at hf; omega
    simp only
    rw [pStmts_pr sty f b _ hok.2.1 hok.2.2 hlen rfl]
    simp
  | f + 1, .cloop false v lim b l, r, hok, hf, ha => by
    simp only [prStmt, List.cons_append, List.append_assoc, pStmt, t]
    have hl : (prLimit lim).length ≤ f := by
      simp only [prStmt, List.length_cons, List.length_append] at hf; omega
    rw [pLimit_pr lim f _ hok.1 hl rfl]
    have hlen : (prStmts sty b).length < f := by
      simp only [prStmt, List.length_cons, List.length_append] at hf; omega
    simp only
    rw [pStmts_pr sty f b _ hok.2.1 hok.2.2 hlen rfl]
    simp
  | f + 1, .cond e p none l, r, hok, hf, ha => by
    simp only [prStmt, List.cons_append, List.append_assoc, pStmt, t]
    rw [pExpr_pr e hok.1 rfl]
    simp only [pNl1, dropNl]
    have hlen : (prStmts sty p).length < f := by
      simp only [prStmt, List.length_cons, List.length_append] at hf; omega
    rw [pStmts_pr sty f p _ hok.2.1 hok.2.2 hlen rfl]
    simp only [List.nil_append]
    match r, ha with
    | ⟨.lo _, _⟩ :: _, _ | ⟨.up _, _⟩ :: _, _ | ⟨.kw .parallel, _⟩ :: _, _ | ⟨.kw .loop, _⟩ :: _, _
    | ⟨.kw .condition, _⟩ :: _, _ | ⟨.ded, _⟩ :: _, _ | ⟨.kw .out, _⟩ :: _, _ => rfl
  | f + 1, .cond e p (some q) l, r, hok, hf, ha => by
    simp only [prStmt, List.cons_append, List.append_assoc, pStmt, t]
    rw [pExpr_pr e hok.1 rfl]
    simp only [pNl1, dropNl]
    have hlen : (prStmts sty p).length < f := by
      simp only [prStmt, List.length_cons, List.length_append] at hf; omega
    rw [pStmts_pr sty f p _ hok.2.1 hok.2.2.1 hlen rfl]
    have hlen2 : (prStmts sty q).length < f := by
      simp only [prStmt, List.length_cons, List.length_append] at hf; omega
    simp only
    rw [pStmts_pr sty f q _ hok.2.2.2.1 hok.2.2.2.2 hlen2 rfl]
    simp
theorem pStmts_pr (sty : Style) : ∀ (f : Nat) (ss : List Stmt) (r : TS), ss ≠ [] →
    StmtsOk ss → (prStmts sty ss).length < f → afterStmts r = true →
    pStmts f (prStmts sty ss ++ r) = some (ss, r)
  | _, [], _, h, _, _, _ => absurd rfl h
  | 0, _ :: _, _, _, _, hf, _ => by omega
  | f + 1, s :: ss, r, _, hok, hf, ha => by
    simp only [prStmts, List.append_assoc, pStmts]
    have h2 := prStmt_len sty s
    have hlen : (prStmt sty s).length ≤ f := by
      simp only [prStmts, List.length_append] at hf; omega
    cases ss with
    | nil =>
      simp only [prStmts, List.nil_append]
      rw [pStmt_pr sty f s r hok.1 hlen (afterStmts_after ha)]
      simp [afterStmts_notStart ha]
    | cons s2 ss2 =>
      have hne := prStmts_ne sty (ss := s2 :: ss2) (by simp) r
      rw [pStmt_pr sty f s _ hok.1 hlen hne.1]
      simp only [hne.2, if_true]
      have hlen2 : (prStmts sty (s2 :: ss2)).length < f := by
        simp only [prStmts, List.length_append] at hf ⊢; omega
      rw [pStmts_pr sty f (s2 :: ss2) r (by simp) hok.2 hlen2 ha]
end


theorem pStruct_pr (s : Struct) (f : Nat) (r : TS) (hok : s.attrs ≠ []) (hf : (prStruct s).length ≤ f + 1) :
    pStruct f s.line ((prStruct s).tail ++ r) = some (s, ⟨.nl, 0⟩ :: r) := by
  obtain ⟨n, attrs, l⟩ := s
  simp only [prStruct, List.tail_cons, List.cons_append, List.append_assoc, pStruct, t]
  have hlen : (prVarDefs attrs).length ≤ f := by simp [prStruct] at hf; omega
  rw [pVarDefs_pr attrs f _ hok hlen rfl rfl]
  simp

theorem pTaskIn_pr (ins : List (String × VarTy)) (f : Nat) (r : TS) (hf : (prTaskIn ins).length ≤ f + 1)
    (hr : startsStmt r = true) : pTaskIn f (prTaskIn ins ++ r) = some (ins, r) := by
  cases ins with
  | nil =>
    simp only [prTaskIn, List.isEmpty_nil, if_true, List.nil_append]
    match r, hr with
    | ⟨.lo _, _⟩ :: _, _ | ⟨.up _, _⟩ :: _, _ | ⟨.kw .parallel, _⟩ :: _, _ | ⟨.kw .loop, _⟩ :: _, _
    | ⟨.kw .condition, _⟩ :: _, _ => rfl
  | cons d ds =>
    simp only [prTaskIn, List.isEmpty_cons, Bool.false_eq_true, if_false, List.cons_append, List.append_assoc,
      pTaskIn, t]
    have hlen : (prVarDefs (d :: ds)).length ≤ f := by simp [prTaskIn] at hf; omega
    simp only [List.nil_append]
    rw [pVarDefs_pr (d :: ds) f _ (by simp) hlen rfl rfl]

theorem pTaskOut_pr (outs : List String) (f : Nat) (r : TS) (hf : (prTaskOut outs).length ≤ f + 1) :
    pTaskOut f (prTaskOut outs ++ ⟨.ded, 0⟩ :: r) = some (outs, ⟨.ded, 0⟩ :: r) := by
  cases outs with
  | nil => simp [prTaskOut, pTaskOut]
  | cons x xs =>
    simp only [prTaskOut, List.isEmpty_cons, Bool.false_eq_true, if_false, List.cons_append, List.append_assoc,
      pTaskOut, t]
    have hlen : (prNames (x :: xs)).length ≤ f := by simp [prTaskOut] at hf; omega
    simp only [List.nil_append]
    rw [pNames_pr (x :: xs) f _ (by simp) hlen rfl rfl]

theorem prTaskOut_after (outs : List String) (r : TS) : afterStmts (prTaskOut outs ++ ⟨.ded, 0⟩ :: r) = true := by
  cases outs <;> simp [prTaskOut, afterStmts, t]

theorem pTask_pr (sty : Style) (k : Task) (f : Nat) (r : TS) (hne : k.body ≠ [])
    (hok : StmtsOk k.body) (hf : (prTask sty k).length ≤ f + 1) :
    pTask f k.line ((prTask sty k).tail ++ r) = some (k, ⟨.nl, 0⟩ :: r) := by
  obtain ⟨n, ins, body, outs, l⟩ := k
  simp only [prTask, List.tail_cons, List.cons_append, List.append_assoc, pTask, t]
  simp only [prTask, List.length_cons, List.length_append] at hf
  have hb : (prStmts sty body).length < f := by omega
  have hi : (prTaskIn ins).length ≤ f + 1 := by omega
  have ho : (prTaskOut outs).length ≤ f + 1 := by omega
  rw [pTaskIn_pr ins f _ hi (prStmts_ne sty hne _).2]
  simp only
  rw [pStmts_pr sty f body _ hne hok hb (prTaskOut_after outs _)]
  simp only
  rw [pTaskOut_pr outs f _ ho]
  simp

theorem prStruct_len (s : Struct) : 1 ≤ (prStruct s).length := by simp [prStruct]
theorem prTask_len (sty : Style) (k : Task) : 1 ≤ (prTask sty k).length := by simp [prTask]

theorem pDefs_pr (sty : Style) : ∀ (ds : List Def) (f : Nat), (∀ d ∈ ds, d.Ok) →
    (prDefs sty ds).length < f → pDefs f (prDefs sty ds) = some ds
  | [], 0, _, hf => by omega
  | [], f + 1, _, _ => rfl
  | _ :: _, 0, _, hf => by omega
  | .struct s :: ds, f + 1, hok, hf => by
    have h1 : prDefs sty (.struct s :: ds) = t (.kw .struct) s.line :: ((prStruct s).tail ++ prDefs sty ds) := by
      simp [prDefs, prStruct]
    rw [h1]
    simp only [pDefs, t]
    have hlen : (prStruct s).length ≤ f + 1 := by
      simp only [prDefs, List.length_append] at hf; omega
    rw [pStruct_pr s f _ (hok (.struct s) (by simp)) hlen]
    have hs := prStruct_len s
    obtain ⟨f', rfl⟩ : ∃ f', f = f' + 1 := ⟨f - 1, by simp only [prDefs, List.length_append] at hf; omega⟩
    simp only [pDefs]
    have hlen2 : (prDefs sty ds).length < f' := by
      simp only [prDefs, List.length_append, prStruct, List.length_cons] at hf; omega
    rw [pDefs_pr sty ds f' (fun d hd => hok d (by simp [hd])) hlen2]
  | .task k :: ds, f + 1, hok, hf => by
    have h1 : prDefs sty (.task k :: ds) = t (.kw .task) k.line :: ((prTask sty k).tail ++ prDefs sty ds) := by
      simp [prDefs, prTask]
    rw [h1]
    simp only [pDefs, t]
    have hlen : (prTask sty k).length ≤ f + 1 := by
      simp only [prDefs, List.length_append] at hf; omega
    have hk : (Def.task k).Ok := hok (.task k) (by simp)
    rw [pTask_pr sty k f _ hk.1 hk.2 hlen]
    obtain ⟨f', rfl⟩ : ∃ f', f = f' + 1 := ⟨f - 1, by simp only [prDefs, List.length_append, prTask, List.length_cons] at hf; omega⟩
    simp only [pDefs]
    have hlen2 : (prDefs sty ds).length < f' := by
      simp only [prDefs, List.length_append, prTask, List.length_cons] at hf; omega
    rw [pDefs_pr sty ds f' (fun d hd => hok d (by simp [hd])) hlen2]

/-- **the parser is a left inverse of the printer**: whatever model is written down (in any of the literal
    placements), reading the token stream gives that model back – definitions, statements, parameters, literals
    and expressions, in their order and nesting, with the line of each construct. -/
theorem parse_print (sty : Style) (ds : List Def) (hok : ∀ d ∈ ds, d.Ok) :
    parse (prDefs sty ds) = some ds :=
  pDefs_pr sty ds _ hok (Nat.lt_succ_self _)

end Pfdl.Syntax
