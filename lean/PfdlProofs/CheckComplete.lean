import PfdlModel.Check
/-! Completeness of the expression checks: every expression that is well typed by the (declarative) typing
    rules below passes `check_expression` without a message. -/
namespace Pfdl.Check
open Pfdl Pfdl.Generated

inductive PTy where
  | number | boolean | string
deriving DecidableEq, Repr

def PTy.str : PTy → String
  | .number => "number" | .boolean => "boolean" | .string => "string"

/-- typing of conditions and loop guards: literals have their type; an attribute access has the declared
    type of the attribute it resolves to (without array index); arithmetic on numbers gives a number; ordering
    comparisons compare two numbers or two strings; `==` / `!=` compare two numbers or two booleans;
    `And` / `Or` / `!` combine booleans; parentheses keep the type (of any operand, strings included). -/
inductive ExprTy (env : Env) (vars : List (String × Ty)) : Expr → PTy → Prop
  | num (q : Rat) (f : Bool) : ExprTy env vars (.lit (.num q f)) .number
  | bool (b : Bool) : ExprTy env vars (.lit (.bool b)) .boolean
  | str (s : String) : ExprTy env vars (.lit (.str s)) .string
  | path (p : List String) (τ : PTy) : checkAccessExpr env vars p = [] →
      typeOfPath env vars p = some (.name τ.str) → ExprTy env vars (.path p) τ
  | paren (e : Expr) (τ : PTy) : ExprTy env vars e τ → ExprTy env vars (.paren e) τ
  | not (e : Expr) : ExprTy env vars e .boolean → ExprTy env vars (.not e) .boolean
  | arith (op : String) (l r : Expr) : op ∈ ["+", "-", "*", "/"] →
      ExprTy env vars l .number → ExprTy env vars r .number → ExprTy env vars (.bin op l r) .number
  | ordNum (op : String) (l r : Expr) : op ∈ ["<", ">", "<=", ">="] →
      ExprTy env vars l .number → ExprTy env vars r .number → ExprTy env vars (.bin op l r) .boolean
  | ordStr (op : String) (l r : Expr) : op ∈ ["<", ">", "<=", ">="] →
      ExprTy env vars l .string → ExprTy env vars r .string → ExprTy env vars (.bin op l r) .boolean
  | eqv (op : String) (l r : Expr) (τ : PTy) : op ∈ ["==", "!="] → τ ≠ .string →
      ExprTy env vars l τ → ExprTy env vars r τ → ExprTy env vars (.bin op l r) .boolean
  | logic (op : String) (l r : Expr) : op ∈ ["And", "Or"] →
      ExprTy env vars l .boolean → ExprTy env vars r .boolean → ExprTy env vars (.bin op l r) .boolean

/-- what the checker's helper predicates answer on a well-typed expression -/
structure Verdicts (env : Env) (vars : List (String × Ty)) (e : Expr) (τ : PTy) : Prop where
  access : operandAccessErrs env vars e = []
  check : τ ≠ .string → checkExpr env vars e = some []
  number : τ = .number → exprIsNumber env vars e = some true
  boolean : τ = .boolean → exprIsBoolean env vars e = some true ∧ exprIsString env vars e = some false
  string : τ = .string → exprIsString env vars e = some true ∧ exprIsNumber env vars e = some false

theorem exprTy_verdicts {env : Env} {vars : List (String × Ty)} {e : Expr} {τ : PTy}
    (h : ExprTy env vars e τ) : Verdicts env vars e τ := by
  induction h with
  | num q f => exact ⟨rfl, fun _ => rfl, fun _ => rfl, by simp, by simp⟩
  | bool b => exact ⟨rfl, fun _ => rfl, by simp, fun _ => ⟨rfl, rfl⟩, by simp⟩
  | str s => exact ⟨rfl, by simp, by simp, by simp, fun _ => ⟨rfl, rfl⟩⟩
  | path p τ ha ht =>
    refine ⟨by simpa [operandAccessErrs] using ha, ?_, ?_, ?_, ?_⟩
    · intro hs
      simp only [checkExpr, ha, ht]
      cases τ <;> simp [PTy.str] at hs ⊢
    · rintro rfl; simp [exprIsNumber, ht, PTy.str]
    · rintro rfl; simp [exprIsBoolean, exprIsString, ht, PTy.str]
    · rintro rfl; simp [exprIsNumber, exprIsString, ht, PTy.str]
  | paren e τ _ ih =>
    refine ⟨by simpa [operandAccessErrs] using ih.access, fun h => by simpa [checkExpr] using ih.check h,
      fun h => by simpa [exprIsNumber] using ih.number h, ?_, ?_⟩
    · intro h
      exact ⟨by simpa [exprIsBoolean] using (ih.boolean h).1, by simpa [exprIsString] using (ih.boolean h).2⟩
    · intro h
      exact ⟨by simpa [exprIsString] using (ih.string h).1, by simpa [exprIsNumber] using (ih.string h).2⟩
  | not e _ ih =>
    refine ⟨by simpa [operandAccessErrs] using ih.access, ?_, by simp, fun _ => ⟨rfl, by simp [exprIsString]⟩, by simp⟩
    intro _
    simp [checkExpr, ih.check (by simp), (ih.boolean rfl).2]
  | arith op l r hop _ _ ihl ihr =>
    have hord : ¬ op ∈ ordOps := by
      simp only [List.mem_cons, List.not_mem_nil, or_false] at hop
      rcases hop with rfl | rfl | rfl | rfl <;> decide
    have har : op ∈ arithOps := by
      simp only [List.mem_cons, List.not_mem_nil, or_false] at hop
      rcases hop with rfl | rfl | rfl | rfl <;> decide
    refine ⟨by simp [operandAccessErrs, ihl.access, ihr.access], ?_, ?_, by simp, by simp⟩
    · intro _
      simp [checkExpr, ihl.access, ihr.access, hord, har, ihl.number rfl, ihr.number rfl]
    · intro _
      have hb : ¬ op ∈ boolOps := by
        simp only [List.mem_cons, List.not_mem_nil, or_false] at hop
        rcases hop with rfl | rfl | rfl | rfl <;> decide
      simp [exprIsNumber, hb, ihl.number rfl, ihr.number rfl]
  | ordNum op l r hop _ _ ihl ihr =>
    have hord : op ∈ ordOps := by
      simp only [List.mem_cons, List.not_mem_nil, or_false] at hop
      rcases hop with rfl | rfl | rfl | rfl <;> decide
    have har : ¬ op ∈ arithOps := by
      simp only [List.mem_cons, List.not_mem_nil, or_false] at hop
      rcases hop with rfl | rfl | rfl | rfl <;> decide
    refine ⟨by simp [operandAccessErrs, ihl.access, ihr.access], ?_, by simp, ?_, by simp⟩
    · intro _
      simp [checkExpr, ihl.access, ihr.access, hord, ihl.number rfl, ihr.number rfl]
    · intro _
      exact ⟨by simp [exprIsBoolean, har], by simp [exprIsString]⟩
  | ordStr op l r hop _ _ ihl ihr =>
    have hord : op ∈ ordOps := by
      simp only [List.mem_cons, List.not_mem_nil, or_false] at hop
      rcases hop with rfl | rfl | rfl | rfl <;> decide
    have har : ¬ op ∈ arithOps := by
      simp only [List.mem_cons, List.not_mem_nil, or_false] at hop
      rcases hop with rfl | rfl | rfl | rfl <;> decide
    refine ⟨by simp [operandAccessErrs, ihl.access, ihr.access], ?_, by simp, ?_, by simp⟩
    · intro _
      simp [checkExpr, ihl.access, ihr.access, hord, (ihl.string rfl).2, (ihl.string rfl).1, (ihr.string rfl).1]
    · intro _
      exact ⟨by simp [exprIsBoolean, har], by simp [exprIsString]⟩
  | eqv op l r τ hop hτ _ _ ihl ihr =>
    have hord : ¬ op ∈ ordOps := by
      simp only [List.mem_cons, List.not_mem_nil, or_false] at hop
      rcases hop with rfl | rfl <;> decide
    have har : ¬ op ∈ arithOps := by
      simp only [List.mem_cons, List.not_mem_nil, or_false] at hop
      rcases hop with rfl | rfl <;> decide
    have hb : ¬ op ∈ boolOps := by
      simp only [List.mem_cons, List.not_mem_nil, or_false] at hop
      rcases hop with rfl | rfl <;> decide
    refine ⟨by simp [operandAccessErrs, ihl.access, ihr.access], ?_, by simp, ?_, by simp⟩
    · intro _
      simp [checkExpr, ihl.access, ihr.access, hord, har, hb, ihl.check hτ, ihr.check hτ]
    · intro _
      exact ⟨by simp [exprIsBoolean, har], by simp [exprIsString]⟩
  | logic op l r hop _ _ ihl ihr =>
    have hord : ¬ op ∈ ordOps := by
      simp only [List.mem_cons, List.not_mem_nil, or_false] at hop
      rcases hop with rfl | rfl <;> decide
    have har : ¬ op ∈ arithOps := by
      simp only [List.mem_cons, List.not_mem_nil, or_false] at hop
      rcases hop with rfl | rfl <;> decide
    have hb : op ∈ boolOps := by
      simp only [List.mem_cons, List.not_mem_nil, or_false] at hop
      rcases hop with rfl | rfl <;> decide
    refine ⟨by simp [operandAccessErrs, ihl.access, ihr.access], ?_, by simp, ?_, by simp⟩
    · intro _
      simp [checkExpr, ihl.access, ihr.access, hord, har, hb, ihl.check (by simp), ihr.check (by simp),
        (ihl.boolean rfl).1, (ihr.boolean rfl).1]
    · intro _
      exact ⟨by simp [exprIsBoolean, har], by simp [exprIsString]⟩

/-- **Well-typed conditions and loop guards are accepted**: no message, no exception. -/
theorem wellTyped_condition_accepted {env : Env} {vars : List (String × Ty)} {e : Expr}
    (h : ExprTy env vars e .boolean) : checkTopExpr env vars e = some [] := by
  have hv := exprTy_verdicts h
  unfold checkTopExpr
  split
  · cases h
  · exact hv.check (by simp)

end Pfdl.Check

namespace Pfdl.Check
open Pfdl Pfdl.Generated

theorem optAppend_nil_iff (a b : Option (List Err)) : optAppend a b = some [] ↔ a = some [] ∧ b = some [] := by
  cases a <;> cases b <;> simp [optAppend]

theorem map_atLine_nil_iff (k : Option Kinds) (line : Nat) : k.map (atLine line) = some [] ↔ k = some [] := by
  cases k <;> simp [atLine]

/-- a block is accepted iff each of its statements is -/
theorem checkStmts_nil_iff (env : Env) (vars : List (String × Ty)) : ∀ ss : List Stmt,
    checkStmts env vars ss = some [] ↔ ∀ s ∈ ss, checkStmt env vars s = some []
  | [] => by simp [checkStmts]
  | s :: ss => by
    simp only [checkStmts, optAppend_nil_iff, checkStmts_nil_iff env vars ss, List.mem_cons, forall_eq_or_imp]

theorem checkStmt_cond_nil_iff (env : Env) (vars : List (String × Ty)) (e : Expr) (p f : List Stmt) (line : Nat) :
    checkStmt env vars (.cond e p f line) = some [] ↔
      checkStmts env vars p = some [] ∧ checkStmts env vars f = some [] ∧ checkTopExpr env vars e = some [] := by
  simp only [checkStmt, optAppend_nil_iff, map_atLine_nil_iff, and_assoc]

theorem checkStmt_wloop_nil_iff (env : Env) (vars : List (String × Ty)) (e : Expr) (b : List Stmt) (line : Nat) :
    checkStmt env vars (.wloop e b line) = some [] ↔
      checkStmts env vars b = some [] ∧ checkTopExpr env vars e = some [] := by
  simp only [checkStmt, optAppend_nil_iff, map_atLine_nil_iff]

theorem checkStmt_cloop_nil_iff (env : Env) (vars : List (String × Ty)) (v : String) (lim : Option (List String))
    (b : List Stmt) (line : Nat) :
    checkStmt env vars (.cloop false v lim b line) = some [] ↔
      checkLimit env vars lim = some [] ∧ checkStmts env vars b = some [] := by
  simp only [checkStmt]
  cases h : checkLimit env vars lim with
  | none => simp
  | some ks =>
    cases ks with
    | nil => simp
    | cons k ks => simp [atLine]

theorem checkStmt_ploop_nil_iff (env : Env) (vars : List (String × Ty)) (v : String) (lim : Option (List String))
    (c : Call) (line : Nat) :
    checkStmt env vars (.cloop true v lim [.call c] line) = some [] ↔
      checkLimit env vars lim = some [] ∧ checkTaskCall env vars c = some [] := by
  simp only [checkStmt]
  cases h : checkLimit env vars lim with
  | none => simp
  | some ks =>
    cases ks with
    | nil =>
      simp only [singleCall?, if_true, true_and]
      rw [map_atLine_nil_iff]
    | cons k ks => simp [atLine]

theorem checkStmt_par_nil_iff (env : Env) (vars : List (String × Ty)) (cs : List Call) (line : Nat) :
    checkStmt env vars (.par cs line) = some [] ↔ ∀ c ∈ cs, checkTaskCall env vars c = some [] := by
  simp only [checkStmt]
  have key : ∀ (l : List Call) (a0 : List Err),
      l.foldl (fun acc c => optAppend acc ((checkTaskCall env vars c).map (atLine c.line))) (some a0) = some [] ↔
        a0 = [] ∧ ∀ c ∈ l, checkTaskCall env vars c = some [] := by
    intro l
    induction l with
    | nil => intro a0; simp
    | cons x xs ih =>
      intro a0
      simp only [List.foldl_cons]
      cases hx : checkTaskCall env vars x with
      | none =>
        have hnone : ∀ (l : List Call), l.foldl (fun acc c => optAppend acc ((checkTaskCall env vars c).map (atLine c.line))) none = none := by
          intro l; induction l with
          | nil => rfl
          | cons y ys ih' =>
            simp only [List.foldl_cons]
            have : optAppend none ((checkTaskCall env vars y).map (atLine y.line)) = none := by
              cases (checkTaskCall env vars y).map (atLine y.line) <;> rfl
            rw [this]; exact ih'
        have : optAppend (some a0) (Option.map (atLine x.line) none) = none := rfl
        rw [this, hnone]
        simp [hx]
      | some ks =>
        rw [show optAppend (some a0) (Option.map (atLine x.line) (some ks)) = some (a0 ++ atLine x.line ks) from rfl]
        rw [ih]
        simp [hx, atLine]
        constructor
        · rintro ⟨⟨ha, hk⟩, h⟩; exact ⟨ha, hk, h⟩
        · rintro ⟨ha, hk, h⟩; exact ⟨⟨ha, hk⟩, h⟩
  simpa using key cs []

/-- a service call is accepted iff its parameters are -/
theorem checkStmt_svc_nil_iff (env : Env) (vars : List (String × Ty)) (c : Call) :
    checkStmt env vars (.svc c) = some [] ↔ checkCallParams env vars c = [] := by
  simp [checkStmt, atLine]

theorem checkStmt_call_nil_iff (env : Env) (vars : List (String × Ty)) (c : Call) :
    checkStmt env vars (.call c) = some [] ↔ checkTaskCall env vars c = some [] := by
  simp only [checkStmt, map_atLine_nil_iff]

end Pfdl.Check
