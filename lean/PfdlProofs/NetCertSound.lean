import PfdlProofs.NetInv
import PfdlModel.NetCert
/-! Soundness of the decidable certificate, the invariant along every history of API calls, and what it says
    about the final place. -/
namespace Pfdl.Net

theorem sumWA_eq (wa : Array Int) (l : List Nat) : sumWA wa l = sumW (wOf wa) l := rfl

theorem ctlZeroB_sound (wa : Array Int) (cb : Cb) (h : ctlZeroB wa cb = true) : cb.CtlZero (wOf wa) := by
  cases cb <;> simp_all [ctlZeroB, Cb.CtlZero]

/-- what a successful check says -/
structure Certified (wa : Array Int) (s : NS) : Prop where
  cert : Cert (wOf wa) s.trans s.cbs s.places.size
  pd : ∀ e ∈ s.placeDict, wOf wa e.2 = 0
  nonneg : ∀ p, 0 ≤ wOf wa p
  final : wOf wa s.finalPlace = wOf wa s.startPlace
  pos : 0 < wOf wa s.startPlace
  startIn : s.startPlace < s.places.size
  finalIn : s.finalPlace < s.places.size
  empty : ∀ p ∈ s.places.toList, p.tokens = 0
  awaited : s.awaited = [AEv.start]

theorem certCheck_sound (wa : Array Int) (s : NS) (h : certCheck wa s = true) : Certified wa s := by
  unfold certCheck at h
  simp only [Bool.and_eq_true, List.all_eq_true, decide_eq_true_eq, beq_iff_eq, Bool.not_eq_true'] at h
  obtain ⟨⟨⟨⟨⟨⟨⟨⟨⟨hT, hC⟩, hpd⟩, hnn⟩, hfin⟩, hpos⟩, hsi⟩, hfi⟩, hemp⟩, haw⟩ := h
  refine ⟨⟨?_, ?_, ?_⟩, ?_, ?_, hfin, hpos, hsi, hfi, ?_, haw⟩
  · intro t tr htr
    have hm : tr ∈ s.trans.toList := by
      have := Array.mem_of_getElem? htr
      exact Array.mem_toList_iff.mpr this
    have := hT tr hm
    exact ⟨this.1.1, this.1.2, by rw [← sumWA_eq, ← sumWA_eq]; exact this.2⟩
  · intro t l hl c hc
    have hm : l ∈ s.cbs.toList := Array.mem_toList_iff.mpr (Array.mem_of_getElem? hl)
    exact (hC l hm c hc).1
  · intro t l hl c hc
    have hm : l ∈ s.cbs.toList := Array.mem_toList_iff.mpr (Array.mem_of_getElem? hl)
    exact ctlZeroB_sound wa c.2 (hC l hm c hc).2
  · intro e he; exact hpd e he
  · intro p
    unfold wOf
    cases hq : wa[p]? with
    | none => simp
    | some x =>
      have : x ∈ wa.toList := Array.mem_toList_iff.mpr (Array.mem_of_getElem? hq)
      simpa using hnn x this
  · intro p hp; exact hemp p hp

theorem wsumL_zero (w : Nat → Int) : ∀ (l : List Place) (i : Nat), (∀ p ∈ l, p.tokens = 0) → wsumL w i l = 0
  | [], _, _ => rfl
  | p :: ps, i, h => by
      simp [wsumL, h p (by simp), wsumL_zero w ps (i + 1) (fun q hq => h q (by simp [hq]))]

/-- before the start event has been accepted: nothing is marked, only the start is awaited -/
structure Pre (w : Nat → Int) (T : Array Trans) (C : Array (List (Nat × Cb))) (np sp : Nat) (s : NS) : Prop where
  trans : s.trans = T
  cbs : s.cbs = C
  size : s.places.size = np
  pd : ∀ e ∈ s.placeDict, w e.2 = 0
  awaited : s.awaited = [AEv.start]
  sum : wsum w s.places = 0
  start : s.startPlace = sp

theorem idxOf?_single_ne (e : AEv) (h : e ≠ AEv.start) : [AEv.start].idxOf? e = none := by
  cases e <;> simp_all [List.idxOf?, List.findIdx?_cons]

/-- the calls an application can make: every call except handing in one of the scheduler's own decision events
    (`Event("loc_started", …)`; such an event is never awaited between two calls, see C08) -/
def Op.External : Op → Prop
  | .fire (.setPlace _) => False
  | _ => True

section
variable {w : Nat → Int} {T : Array Trans} {C : Array (List (Nat × Cb))} {np sp : Nat} {ee : EE}

/-- an event other than the start is refused before the start, without any effect on the net -/
theorem Pre.fireEv_other (fuel : Nat) {s : NS} (h : Pre w T C np sp s) (e : AEv) (he : e ≠ AEv.start) :
    Pre w T C np sp (fireEv ee fuel e s).2 := by
  cases fuel with
  | zero =>
    simp only [Net.fireEv]
    have := same_outOfFuel s
    exact ⟨this.trans ▸ h.trans, this.cbs ▸ h.cbs, this.places ▸ h.size, this.pd ▸ h.pd, this.awaited ▸ h.awaited,
      this.places ▸ h.sum, by unfold NS.outOfFuel NS.raise; split <;> exact h.start⟩
  | succ f =>
    simp only [Net.fireEv]
    split
    · exact h
    · rw [h.awaited, idxOf?_single_ne e he]
      exact h

/-- the start event: one token of weight `w sp` enters, the evaluator keeps the sum -/
theorem Pre.fireEv_start (hc : Cert w T C np) (hsp : sp < np) (fuel : Nat) {s : NS} (h : Pre w T C np sp s) :
    Pre w T C np sp (fireEv ee fuel AEv.start s).2 ∨ Inv w T C np (w sp) (fireEv ee fuel AEv.start s).2 := by
  cases fuel with
  | zero =>
    left
    simp only [Net.fireEv]
    have := same_outOfFuel s
    exact ⟨this.trans ▸ h.trans, this.cbs ▸ h.cbs, this.places ▸ h.size, this.pd ▸ h.pd, this.awaited ▸ h.awaited,
      this.places ▸ h.sum, by unfold NS.outOfFuel NS.raise; split <;> exact h.start⟩
  | succ f =>
    simp only [Net.fireEv]
    split
    · left; exact h
    · have hidx : s.awaited.idxOf? AEv.start = some 0 := by rw [h.awaited]; rfl
      rw [hidx]
      simp only
      have haw0 : s.awaited.eraseIdx 0 = [] := by rw [h.awaited]; rfl
      have hsp' : s.startPlace < s.places.size := by rw [h.start, h.size]; exact hsp
      split
      · -- the start place exists: a token of weight `w sp` enters, the net is evaluated
        right
        have h2 : Inv w T C np (w sp) (({ s with awaited := s.awaited.eraseIdx 0 } : NS).addToken s.startPlace) := by
          refine ⟨h.trans, h.cbs, ?_, h.pd, ?_, ?_⟩
          · show (Array.modify _ _ _).size = np
            rw [Array.size_modify]; exact h.size
          · show AEv.start ∉ s.awaited.eraseIdx 0
            rw [haw0]; simp
          · have := wsum_addToken' w ({ s with awaited := s.awaited.eraseIdx 0 } : NS) s.startPlace hsp'
            rw [this]
            show wsum w s.places + w s.startPlace = w sp
            rw [h.sum, h.start]; omega
        have h3 := (keeps (c := w sp) (ee := ee) hc f).evaluate _ h2
        split
        · exact h3
        · exact h3.same (same_netAll _)
      · left
        refine ⟨h.trans, h.cbs, h.size, h.pd, ?_, h.sum, h.start⟩
        show List.take 0 (s.awaited.eraseIdx 0) ++ [AEv.start] ++ List.drop 0 (s.awaited.eraseIdx 0) = [AEv.start]
        rw [haw0]; rfl

/-- one API call keeps "not started yet, nothing marked" or "started, weighted sum = weight of the start place" -/
theorem step_keeps (hc : Cert w T C np) (hsp : sp < np) (fuel : Nat) (s : NS) (op : Op) (hop : op.External)
    (h : Pre w T C np sp s ∨ Inv w T C np (w sp) s) :
    Pre w T C np sp (step ee fuel s op).s ∨ Inv w T C np (w sp) (step ee fuel s op).s := by
  have hpre0 : ∀ s : NS, Pre w T C np sp s → Pre w T C np sp { s with out := #[], exc := none } :=
    fun s h => ⟨h.trans, h.cbs, h.size, h.pd, h.awaited, h.sum, h.start⟩
  have hinv0 : ∀ s : NS, Inv w T C np (w sp) s → Inv w T C np (w sp) { s with out := #[], exc := none } :=
    fun s h => ⟨h.trans, h.cbs, h.size, h.pd, h.noStart, h.sum⟩
  rcases h with h | h
  · -- not started yet
    have h' := hpre0 s h
    cases op with
    | start =>
      simp only [Net.step]
      split
      · split
        · have := Pre.fireEv_start (ee := ee) hc hsp fuel (s := { s with out := #[], exc := none, running := true })
            ⟨h.trans, h.cbs, h.size, h.pd, h.awaited, h.sum, h.start⟩
          exact this
        · left; exact h'
      · left; exact h'
    | finish k =>
      simp only [Net.step]
      split
      · left; exact h'
      · rename_i id _
        left
        have hb : Pre w T C np sp ({ s with out := #[], exc := none, inProg := k :: s.inProg } : NS) :=
          ⟨h.trans, h.cbs, h.size, h.pd, h.awaited, h.sum, h.start⟩
        split
        · have := Pre.fireEv_other (ee := ee) fuel hb (AEv.svc (Uid.id id)) (by intro e; cases e)
          repeat' split
          all_goals exact ⟨this.trans, this.cbs, this.size, this.pd, this.awaited, this.sum, this.start⟩
        · repeat' split
          all_goals exact ⟨h.trans, h.cbs, h.size, h.pd, h.awaited, h.sum, h.start⟩
    | fire e =>
      simp only [Net.step]
      split
      · by_cases he : e = AEv.start
        · subst he
          exact Pre.fireEv_start (ee := ee) hc hsp fuel h'
        · left; exact Pre.fireEv_other (ee := ee) fuel h' e he
      · left; exact h'
    | other => left; exact h'
    | register k fn =>
      simp only [Net.step]
      split
      · left; exact h'
      · left; exact ⟨h.trans, h.cbs, h.size, h.pd, h.awaited, h.sum, h.start⟩
    | attach o => left; exact ⟨h.trans, h.cbs, h.size, h.pd, h.awaited, h.sum, h.start⟩
    | detach o =>
      simp only [Net.step]
      split
      · left; exact ⟨h.trans, h.cbs, h.size, h.pd, h.awaited, h.sum, h.start⟩
      · left
        have := same_raise ({ s with out := #[], exc := none } : NS) "ValueError"
        exact ⟨this.trans ▸ h.trans, this.cbs ▸ h.cbs, this.places ▸ h.size, this.pd ▸ h.pd, this.awaited ▸ h.awaited,
          this.places ▸ h.sum, by unfold NS.raise; split <;> exact h.start⟩
  · -- started
    right
    have h' := hinv0 s h
    have K := keeps (c := w sp) (ee := ee) hc fuel
    cases op with
    | start =>
      simp only [Net.step]
      split
      · split
        · exact K.fireEv AEv.start _ (by intro p hp; cases hp) ⟨h.trans, h.cbs, h.size, h.pd, h.noStart, h.sum⟩
        · exact h'
      · exact h'
    | finish k =>
      simp only [Net.step]
      split
      · exact h'
      · rename_i id _
        have hb : Inv w T C np (w sp) ({ s with out := #[], exc := none, inProg := k :: s.inProg } : NS) :=
          ⟨h.trans, h.cbs, h.size, h.pd, h.noStart, h.sum⟩
        split
        · have := K.fireEv (AEv.svc (Uid.id id)) _ (by intro p hp; cases hp) hb
          repeat' split
          all_goals exact ⟨this.trans, this.cbs, this.size, this.pd, this.noStart, this.sum⟩
        · repeat' split
          all_goals exact ⟨h.trans, h.cbs, h.size, h.pd, h.noStart, h.sum⟩
    | fire e =>
      simp only [Net.step]
      split
      · by_cases he : e = AEv.start
        · subst he
          exact K.fireEv AEv.start _ (by intro p hp; cases hp) h'
        · -- an event injected from outside: refused unless it is awaited; a decision event is never awaited between
          -- calls, but the statement does not need that: decision places weigh nothing only for the callbacks' own
          -- places, so the hypothesis of `fireEv` is discharged from the awaited list being free of decision events
          cases e with
          | start => exact absurd rfl he
          | svc u => exact K.fireEv (AEv.svc u) _ (by intro p hp; cases hp) h'
          | setPlace p => exact absurd hop (by simp [Op.External])
      · exact h'
    | other => exact h'
    | register k fn =>
      simp only [Net.step]
      split
      · exact h'
      · exact ⟨h.trans, h.cbs, h.size, h.pd, h.noStart, h.sum⟩
    | attach o => exact ⟨h.trans, h.cbs, h.size, h.pd, h.noStart, h.sum⟩
    | detach o =>
      simp only [Net.step]
      split
      · exact ⟨h.trans, h.cbs, h.size, h.pd, h.noStart, h.sum⟩
      · exact h'.same (same_raise _ _)

/-- every history of API calls -/
theorem history_keeps (hc : Cert w T C np) (hsp : sp < np) (fuel : Nat) : ∀ (ops : List Op) (s : NS),
    (∀ op ∈ ops, op.External) → (Pre w T C np sp s ∨ Inv w T C np (w sp) s) →
    Pre w T C np sp (runOps ee fuel s ops) ∨ Inv w T C np (w sp) (runOps ee fuel s ops)
  | [], s, _, h => h
  | op :: ops, s, hops, h => by
      simp only [runOps]
      exact history_keeps hc hsp fuel ops _ (fun o ho => hops o (by simp [ho]))
        (step_keeps hc hsp fuel s op (hops op (by simp)) h)
end

/-- a weighted sum with non-negative weights dominates any two of its terms -/
theorem wsumL_ge_two (w : Nat → Int) (hw : ∀ p, 0 ≤ w p) : ∀ (l : List Place) (i a b : Nat) (pa pb : Place),
    a ≠ b → l[a]? = some pa → l[b]? = some pb →
    w (i + a) * (pa.tokens : Int) + w (i + b) * (pb.tokens : Int) ≤ wsumL w i l := by
  intro l i a b pa pb hab ha hb
  have zero : ∀ pl : Place, (({ pl with tokens := 0 } : Place).tokens : Int) = 0 := fun _ => rfl
  have nonneg : ∀ (l : List Place) (i : Nat), 0 ≤ wsumL w i l := by
    intro l
    induction l with
    | nil => intro i; simp [wsumL]
    | cons p ps ih =>
      intro i
      simp only [wsumL]
      have h1 : 0 ≤ w i * (p.tokens : Int) := Int.mul_nonneg (hw i) (Int.natCast_nonneg _)
      have h2 := ih (i + 1)
      omega
  have e1 := wsumL_modify w (fun pl => { pl with tokens := 0 }) l i a pa ha
  have hb' : (l.modify a (fun pl => { pl with tokens := 0 }))[b]? = some pb := by
    rw [List.getElem?_modify]; simp [hab, hb]
  have e2 := wsumL_modify w (fun pl => { pl with tokens := 0 }) (l.modify a (fun pl => { pl with tokens := 0 })) i b pb hb'
  have h3 := nonneg ((l.modify a (fun pl => { pl with tokens := 0 })).modify b (fun pl => { pl with tokens := 0 })) i
  simp only [zero] at e1 e2
  have c0 : ((0 : Nat) : Int) = 0 := rfl
  rw [c0] at e1 e2
  have ea : w (i + a) * (0 - (pa.tokens : Int)) = - (w (i + a) * (pa.tokens : Int)) := by
    rw [Int.mul_sub]; simp
  have eb : w (i + b) * (0 - (pb.tokens : Int)) = - (w (i + b) * (pb.tokens : Int)) := by
    rw [Int.mul_sub]; simp
  rw [ea] at e1; rw [eb] at e2
  omega

end Pfdl.Net
