import PfdlProofs.CheckCongr
/-! The verdict of the validation, characterised definition by definition; independence of the order of
    the top-level definitions. -/
namespace Pfdl.Check
open Pfdl Pfdl.Generated

theorem dupErrs_nil_iff {α : Type} (key : α → String) (kind : String) (line : α → Nat) :
    ∀ (l : List α) (seen : List String),
      dupErrs key kind line l seen = [] ↔ (∀ x ∈ l, key x ∉ seen) ∧ (l.map key).Nodup
  | [], seen => by simp [dupErrs]
  | x :: xs, seen => by
    unfold dupErrs
    by_cases hc : seen.contains (key x) = true
    · simp only [hc, if_true]
      constructor
      · intro h; simp at h
      · intro h
        have := h.1 x (by simp)
        simp at hc
        exact absurd hc this
    · simp only [hc, Bool.false_eq_true, ↓reduceIte]
      rw [dupErrs_nil_iff key kind line xs (key x :: seen)]
      simp at hc
      constructor
      · rintro ⟨h1, h2⟩
        refine ⟨?_, ?_⟩
        · intro y hy
          rcases List.mem_cons.1 hy with rfl | hy
          · exact hc
          · have := h1 y hy
            simp at this
            exact this.2
        · simp only [List.map_cons, List.nodup_cons]
          refine ⟨?_, h2⟩
          intro hm
          obtain ⟨y, hy, hk⟩ := List.mem_map.1 hm
          have := h1 y hy
          simp at this
          exact this.1 hk
      · rintro ⟨h1, h2⟩
        simp only [List.map_cons, List.nodup_cons] at h2
        refine ⟨?_, h2.2⟩
        intro y hy
        simp only [List.mem_cons, not_or]
        refine ⟨?_, h1 y (by simp [hy])⟩
        intro hk
        exact h2.1 (List.mem_map.2 ⟨y, hy, hk⟩)

theorem dedupBy_id {α : Type} (key : α → String) :
    ∀ (l : List α) (seen : List String), (∀ x ∈ l, key x ∉ seen) → (l.map key).Nodup → dedupBy key l seen = l
  | [], _, _, _ => by simp [dedupBy]
  | x :: xs, seen, h1, h2 => by
    unfold dedupBy
    have hx : ¬ seen.contains (key x) = true := by
      have := h1 x (by simp)
      simpa using this
    simp only [hx]
    simp only [List.map_cons, List.nodup_cons] at h2
    rw [dedupBy_id key xs (key x :: seen) ?_ h2.2]
    · rfl
    · intro y hy
      simp only [List.mem_cons, not_or]
      refine ⟨?_, h1 y (by simp [hy])⟩
      intro hk
      exact h2.1 (List.mem_map.2 ⟨y, hy, hk⟩)

theorem foldl_optAppend_nil_iff {α : Type} (g : α → Option (List Err)) : ∀ (l : List α) (a0 : List Err),
    l.foldl (fun acc t => optAppend acc (g t)) (some a0) = some [] ↔ a0 = [] ∧ ∀ t ∈ l, g t = some []
  | [], a0 => by simp
  | x :: xs, a0 => by
    simp only [List.foldl_cons]
    cases hg : g x with
    | none =>
      have hnone : ∀ (l : List α), l.foldl (fun acc t => optAppend acc (g t)) none = none := by
        intro l; induction l with
        | nil => rfl
        | cons y ys ih =>
          simp only [List.foldl_cons]
          have : optAppend none (g y) = none := by cases g y <;> rfl
          rw [this]; exact ih
      have : optAppend (some a0) none = none := rfl
      rw [this, hnone]
      simp [hg]
    | some y =>
      rw [show optAppend (some a0) (some y) = some (a0 ++ y) from rfl]
      rw [foldl_optAppend_nil_iff g xs (a0 ++ y)]
      simp [hg]
      constructor
      · rintro ⟨⟨ha, hy⟩, h⟩; exact ⟨ha, hy, h⟩
      · rintro ⟨ha, hy, h⟩; exact ⟨⟨ha, hy⟩, h⟩

/-- names are unique: struct names, attribute names of each struct, task names, input names of each task -/
def NodupNames (p : Prog) : Prop :=
  (p.structs.map (·.name)).Nodup ∧ (∀ s ∈ p.structs, (s.attrs.map (·.1)).Nodup) ∧
  (p.tasks.map (·.name)).Nodup ∧ (∀ t ∈ p.tasks, (t.ins.map (·.1)).Nodup)

theorem visitorErrs_nil_iff (p : Prog) : visitorErrs p = [] ↔ NodupNames p := by
  unfold visitorErrs NodupNames
  simp only [List.append_eq_nil_iff, List.flatMap_eq_nil_iff, dupErrs_nil_iff]
  simp [and_assoc]

theorem mkEnv_of_nodup {p : Prog} (h : NodupNames p) : mkEnv p = ⟨p.structs, p.tasks⟩ := by
  obtain ⟨h1, h2, h3, _⟩ := h
  unfold mkEnv
  rw [dedupBy_id _ p.structs [] (by simp) h1, dedupBy_id _ p.tasks [] (by simp) h3]
  congr 1
  conv => rhs; rw [← List.map_id p.structs]
  apply List.map_congr_left
  intro s hs
  rw [dedupBy_id _ s.attrs [] (by simp) (h2 s hs)]
  rfl

/-- the environment of a program without duplicate names -/
def envOf (p : Prog) : Env := ⟨p.structs, p.tasks⟩

/-- what each definition has to satisfy -/
structure Good (p : Prog) : Prop where
  names : NodupNames p
  outs : ∀ t ∈ p.tasks, dupOutErrsL t.body = []
  structs : ∀ s ∈ p.structs, ∀ a ∈ s.attrs, checkVarDef (envOf p) a.2 = []
  tasks : ∀ t ∈ p.tasks, checkTask (envOf p) t = some []
  noRecursion : ∀ t ∈ p.tasks, ∀ c ∈ callsL t.body,
    (reaches (envOf p) t.name (reachFuel (envOf p)) [c.name] []).1 = false
  start : ∃ t ∈ p.tasks, t.name = startTaskName

theorem validate_nil_iff (p : Prog) : validate p = some [] ↔ Good p := by
  constructor
  · intro h
    unfold validate at h
    simp only at h
    split at h
    · simp at h
    · rename_i te hte
      simp only [Option.some.injEq, List.append_eq_nil_iff] at h
      obtain ⟨⟨⟨⟨⟨hv, ho⟩, hs⟩, ht⟩, hr⟩, hn⟩ := h
      have hnames := (visitorErrs_nil_iff p).1 hv
      have henv := mkEnv_of_nodup hnames
      rw [henv] at hs hr hn hte
      subst ht
      refine ⟨hnames, ?_, ?_, ?_, ?_, ?_⟩
      · simpa [List.flatMap_eq_nil_iff] using ho
      · intro s hs' a ha
        simp only [List.flatMap_eq_nil_iff, atLine, List.map_eq_nil_iff] at hs
        exact hs s hs' a ha
      · exact ((foldl_optAppend_nil_iff _ _ _).1 hte).2
      · intro t ht c hc
        unfold recursionErrs at hr
        simp only [List.flatMap_eq_nil_iff, List.filterMap_eq_nil_iff] at hr
        have := hr t ht c hc
        cases hb : (reaches ⟨p.structs, p.tasks⟩ t.name (reachFuel ⟨p.structs, p.tasks⟩) [c.name] []).1 with
        | false => simpa [envOf] using hb
        | true => simp [hb] at this
      · by_cases ha : (p.tasks.any (·.name == startTaskName)) = true
        · simp only [List.any_eq_true, beq_iff_eq] at ha
          exact ha
        · simp [ha] at hn
  · intro g
    obtain ⟨hnames, ho, hs, ht, hr, hst⟩ := g
    unfold validate
    simp only
    rw [mkEnv_of_nodup hnames]
    have hte : p.tasks.foldl (fun acc t => optAppend acc (checkTask ⟨p.structs, p.tasks⟩ t)) (some []) = some [] :=
      (foldl_optAppend_nil_iff _ _ _).2 ⟨rfl, ht⟩
    simp only [hte]
    simp only [Option.some.injEq, List.append_eq_nil_iff]
    refine ⟨⟨⟨⟨⟨(visitorErrs_nil_iff p).2 hnames, ?_⟩, ?_⟩, trivial⟩, ?_⟩, ?_⟩
    · simpa [List.flatMap_eq_nil_iff] using ho
    · simp only [List.flatMap_eq_nil_iff, atLine, List.map_eq_nil_iff]
      exact hs
    · unfold recursionErrs
      simp only [List.flatMap_eq_nil_iff, List.filterMap_eq_nil_iff]
      intro t ht' c hc
      have := hr t ht' c hc
      simp [envOf] at this
      simp [this]
    · obtain ⟨t, ht', hn⟩ := hst
      have : (p.tasks.any (·.name == startTaskName)) = true := by
        simp only [List.any_eq_true, beq_iff_eq]
        exact ⟨t, ht', hn⟩
      simp [this]

end Pfdl.Check

namespace Pfdl.Check
open Pfdl Pfdl.Generated

theorem find?_perm {α : Type} (key : α → String) (n : String) {l1 l2 : List α} (h : l1.Perm l2) :
    (l1.map key).Nodup → l1.find? (fun x => key x == n) = l2.find? (fun x => key x == n) := by
  induction h with
  | nil => intro _; rfl
  | cons x _ ih =>
    intro hn
    simp only [List.map_cons, List.nodup_cons] at hn
    simp only [List.find?_cons, ih hn.2]
  | swap x y l =>
    intro hn
    simp only [List.map_cons, List.nodup_cons, List.mem_cons, not_or] at hn
    simp only [List.find?_cons]
    by_cases hx : (key x == n) = true <;> by_cases hy : (key y == n) = true <;> simp [hx, hy]
    simp only [beq_iff_eq] at hx hy
    exact absurd (hy.trans hx.symm) hn.1.1
  | trans h1 _ ih1 ih2 =>
    intro hn
    rw [ih1 hn, ih2 ((h1.map key).nodup_iff.1 hn)]

theorem NodupNames.perm {p q : Prog} (hs : p.structs.Perm q.structs) (ht : p.tasks.Perm q.tasks)
    (h : NodupNames p) : NodupNames q := by
  obtain ⟨h1, h2, h3, h4⟩ := h
  exact ⟨(hs.map _).nodup_iff.1 h1, fun s hm => h2 s (hs.mem_iff.2 hm), (ht.map _).nodup_iff.1 h3,
    fun t hm => h4 t (ht.mem_iff.2 hm)⟩

theorem envOf_equiv {p q : Prog} (hs : p.structs.Perm q.structs) (ht : p.tasks.Perm q.tasks)
    (h : NodupNames p) : (envOf p).Equiv (envOf q) :=
  ⟨fun n => find?_perm (fun s : Struct => s.name) n hs h.1, fun n => find?_perm (fun t : Task => t.name) n ht h.2.2.1⟩

theorem reachFuel_perm {p q : Prog} (ht : p.tasks.Perm q.tasks) : reachFuel (envOf p) = reachFuel (envOf q) := by
  unfold reachFuel envOf
  simp only
  rw [ht.length_eq, (List.Perm.flatMap_right (fun t : Task => calleesL t.body) ht).length_eq]

theorem Good.perm {p q : Prog} (hs : p.structs.Perm q.structs) (ht : p.tasks.Perm q.tasks) (g : Good p) : Good q := by
  have he := envOf_equiv hs ht g.names
  refine ⟨g.names.perm hs ht, ?_, ?_, ?_, ?_, ?_⟩
  · intro t hm; exact g.outs t (ht.mem_iff.2 hm)
  · intro s hm a ha
    rw [← checkVarDef_congr he]
    exact g.structs s (hs.mem_iff.2 hm) a ha
  · intro t hm
    rw [← checkTask_congr he]
    exact g.tasks t (ht.mem_iff.2 hm)
  · intro t hm c hc
    rw [← reachFuel_perm ht, ← reaches_congr he]
    exact g.noRecursion t (ht.mem_iff.2 hm) c hc
  · obtain ⟨t, hm, hn⟩ := g.start
    exact ⟨t, ht.mem_iff.1 hm, hn⟩

/-- the verdict does not depend on the order of the struct and task definitions -/
theorem validate_nil_perm {p q : Prog} (hs : p.structs.Perm q.structs) (ht : p.tasks.Perm q.tasks) :
    validate p = some [] ↔ validate q = some [] := by
  rw [validate_nil_iff, validate_nil_iff]
  exact ⟨Good.perm hs ht, Good.perm hs.symm ht.symm⟩

end Pfdl.Check
