import PfdlProofs.TraceEnter
set_option linter.unusedSimpArgs false
/-! The events emitted by `deliver`. -/
namespace Pfdl

structure DTraceOk (i : Nat) (s : St) (r : Run) (s' : St) (r' : Run) : Prop where
  first : ∃ n : Note, n.kind = .sf ∧ n.id = i ∧ (s.out ++ [Ev.note n]) <+: s'.out
  ctrS : s.ctrS ≤ s'.ctrS
  ctrT : s.ctrT ≤ s'.ctrT
  ss : ssIds s'.out = ssIds s.out ++ List.range' s.ctrS (s'.ctrS - s.ctrS)
  ts : tsIds s'.out = tsIds s.out ++ List.range' s.ctrT (s'.ctrT - s.ctrT)
  sf : ∀ j, (sfIds s'.out).count j + r'.waiting.count j + (ssIds s.out).count j
        = (sfIds s.out).count j + (ssIds s'.out).count j + r.waiting.count j
  tf : ∀ j, (tfIds s'.out).count j + r'.openTasks.count j + (tsIds s.out).count j
        = (tfIds s.out).count j + (tsIds s'.out).count j + r.openTasks.count j
  root : rootNotes s'.out = rootNotes s.out
  wf : r'.WF
  fresh : ∀ j ∈ r'.waiting, j ∈ r.waiting ∨ (s.ctrS ≤ j ∧ j < s'.ctrS)

structure DTraceOkL (i : Nat) (s : St) (rs : List Run) (s' : St) (rs' : List Run) : Prop where
  first : ∃ n : Note, n.kind = .sf ∧ n.id = i ∧ (s.out ++ [Ev.note n]) <+: s'.out
  ctrS : s.ctrS ≤ s'.ctrS
  ctrT : s.ctrT ≤ s'.ctrT
  ss : ssIds s'.out = ssIds s.out ++ List.range' s.ctrS (s'.ctrS - s.ctrS)
  ts : tsIds s'.out = tsIds s.out ++ List.range' s.ctrT (s'.ctrT - s.ctrT)
  sf : ∀ j, (sfIds s'.out).count j + (Run.waitingL rs').count j + (ssIds s.out).count j
        = (sfIds s.out).count j + (ssIds s'.out).count j + (Run.waitingL rs).count j
  tf : ∀ j, (tfIds s'.out).count j + (Run.openTasksL rs').count j + (tsIds s.out).count j
        = (tfIds s.out).count j + (tsIds s'.out).count j + (Run.openTasksL rs).count j
  root : rootNotes s'.out = rootNotes s.out
  wf : Run.WFL rs'
  fresh : ∀ j ∈ Run.waitingL rs', j ∈ Run.waitingL rs ∨ (s.ctrS ≤ j ∧ j < s'.ctrS)

theorem DTraceOk.wrap {i : Nat} {s s' : St} {r r' q q' : Run} (h : DTraceOk i s r s' r')
    (hw : q.waiting = r.waiting) (hw' : q'.waiting = r'.waiting) (ho : q.openTasks = r.openTasks)
    (ho' : q'.openTasks = r'.openTasks) (hwf : r'.WF → q'.WF) : DTraceOk i s q s' q' :=
  ⟨h.first, h.ctrS, h.ctrT, h.ss, h.ts, by simpa [hw, hw'] using h.sf, by simpa [ho, ho'] using h.tf, h.root, hwf h.wf,
   by simpa [hw, hw'] using h.fresh⟩

/-- the delivered leaf finished its statement, then `enter…` ran what follows -/
theorem DTraceOk.thenEnter {i : Nat} {s s1 s' : St} {r q r' : Run} (h : DTraceOk i s r s1 .fin) (g : TraceOk s1 r' s')
    (hw : q.waiting = r.waiting) (ho : q.openTasks = r.openTasks) : DTraceOk i s q s' r' := by
  obtain ⟨n, hk, hid, hp⟩ := h.first
  refine ⟨⟨n, hk, hid, List.IsPrefix.trans hp g.pre⟩, Nat.le_trans h.ctrS g.ctrS, Nat.le_trans h.ctrT g.ctrT, ?_, ?_, ?_, ?_, ?_,
    g.wf, ?_⟩
  · rw [g.ss, h.ss, List.append_assoc, range'_append_le _ _ _ h.ctrS g.ctrS]
  · rw [g.ts, h.ts, List.append_assoc, range'_append_le _ _ _ h.ctrT g.ctrT]
  · intro j; have a := h.sf j; have b := g.sf j; simp at a; rw [hw]; omega
  · intro j; have a := h.tf j; have b := g.tf j; simp at a; rw [ho]; omega
  · rw [g.root, h.root]
  · intro j hj; have := g.fresh j hj; have := h.ctrS; exact Or.inr (by omega)

theorem DTraceOk.toFin {i : Nat} {s s' : St} {r r' q : Run} (h : DTraceOk i s r s' r')
    (hw : q.waiting = r.waiting) (ho : q.openTasks = r.openTasks) (hf : r'.waiting = []) (hof : r'.openTasks = []) :
    DTraceOk i s q s' .fin :=
  ⟨h.first, h.ctrS, h.ctrT, h.ss, h.ts, by simpa [hw, hf] using h.sf, by simpa [ho, hof] using h.tf, h.root, by simp, by simp⟩

/-- the body of a called task finished: it is reported finished -/
theorem DTraceOk.call_fin {i : Nat} {s s1 : St} {r : Run} (n : Note) (hn : n.kind = .tf ∧ n.ctx ≠ none)
    (h : DTraceOk i s r s1 .fin) : DTraceOk i s (.call n r) (s1.emit (.note n)) .fin := by
  obtain ⟨m, hk, hid, hp⟩ := h.first
  refine ⟨⟨m, hk, hid, List.IsPrefix.trans hp (by simp)⟩, by simpa using h.ctrS, by simpa using h.ctrT, ?_, ?_, ?_, ?_, ?_, by simp, by simp⟩
  · simpa [hn.1] using h.ss
  · simpa [tsIds_note, hn.1] using h.ts
  · intro j; have := h.sf j; simpa [sfIds_note, hn.1] using this
  · intro j
    have := h.tf j
    simp at this
    rw [Run.openTasks_call, show (n.id :: r.openTasks) = [n.id] ++ r.openTasks from rfl]
    simp only [St.emit_out, tfIds_append, tsIds_append, tfIds_note, tsIds_note, hn.1, List.count_append, if_true,
      Run.openTasks_fin, List.count_nil]
    simp
    omega
  · have := h.root; simpa [rootNotes_note, hn.2] using this

theorem DTraceOk.wrapCall {i : Nat} {s s' : St} {r r' : Run} (n : Note) (hn : n.kind = .tf ∧ n.ctx ≠ none)
    (h : DTraceOk i s r s' r') : DTraceOk i s (.call n r) s' (.call n r') :=
  ⟨h.first, h.ctrS, h.ctrT, h.ss, h.ts, by simpa using h.sf,
   fun j => by
     have := h.tf j
     rw [Run.openTasks_call, Run.openTasks_call, show (n.id :: r.openTasks) = [n.id] ++ r.openTasks from rfl,
       show (n.id :: r'.openTasks) = [n.id] ++ r'.openTasks from rfl, List.count_append, List.count_append]
     omega,
   h.root, by simp [Run.WF, hn.1, hn.2, h.wf], by simpa using h.fresh⟩

mutual
theorem deliver_trace (P : Prog) (ee : EE) (f i : Nat) : (r : Run) → (s : St) → (r' : Run) → (s' : St) →
    deliver P ee f i r s = some (r', s') → r.WF → DTraceOk i s r s' r'
  | .wait j n, s, r', s', h, hwf => by
      simp only [deliver] at h
      simp only [Run.WF] at hwf
      split at h
      · rename_i hij
        simp at h; obtain ⟨rfl, rfl⟩ := h
        subst hij
        refine ⟨⟨n, hwf.2.1, hwf.1, by simp⟩, by simp, by simp, ?_, ?_, ?_, ?_, ?_, by simp, by simp⟩
        · simp
        · simp [tsIds_note, hwf.2.1]
        · intro j; simp [sfIds_note, hwf.2.1, hwf.1, List.count_append]; omega
        · intro j; simp [tfIds_note, tsIds_note, hwf.2.1]
        · simp [rootNotes_note, hwf.2.2]
      · simp at h
  | .blk r rest env, s, r', s', h, hwf => by
      simp only [deliver] at h
      split at h
      · simp at h
      · rename_i s1 heq
        simp at h
        have h1 := deliver_trace P ee f i r s .fin s1 heq (by simpa using hwf)
        have h2 := enterBlk_trace P ee f rest env s1
        rw [h] at h2
        exact h1.thenEnter h2 (by simp) (by simp)
      · rename_i r1 s1 hne heq
        simp at h; obtain ⟨rfl, rfl⟩ := h
        exact (deliver_trace P ee f i r s r1 s1 heq (by simpa using hwf)).wrap (by simp) (by simp) (by simp) (by simp) (by simp)
  | .call n r, s, r', s', h, hwf => by
      simp only [deliver] at h
      simp only [Run.WF] at hwf
      split at h
      · simp at h
      · rename_i s1 heq
        simp at h; obtain ⟨rfl, rfl⟩ := h
        exact DTraceOk.call_fin n ⟨hwf.1, hwf.2.1⟩ (deliver_trace P ee f i r s .fin s1 heq hwf.2.2)
      · rename_i r1 s1 hne heq
        simp at h; obtain ⟨rfl, rfl⟩ := h
        exact (deliver_trace P ee f i r s r1 s1 heq hwf.2.2).wrapCall n ⟨hwf.1, hwf.2.1⟩
  | .par rs, s, r', s', h, hwf => by
      simp only [deliver] at h
      split at h
      · simp at h
      · rename_i rs1 s1 heq
        have h1 := deliverL_trace P ee f i rs s rs1 s1 heq (by simpa using hwf)
        have hp : DTraceOk i s (.par rs) s1 (.par rs1) :=
          ⟨h1.first, h1.ctrS, h1.ctrT, h1.ss, h1.ts, by simpa using h1.sf, by simpa using h1.tf, h1.root, by simpa using h1.wf,
           by simpa using h1.fresh⟩
        split at h
        · rename_i hall
          simp at h; obtain ⟨rfl, rfl⟩ := h
          exact hp.toFin rfl rfl (by simpa using (Run.waitingL_of_allFin rs1 hall).1) (by simpa using Run.openTasksL_of_allFin rs1 hall)
        · simp at h; obtain ⟨rfl, rfl⟩ := h
          exact hp
  | .cloop c v lim body env r, s, r', s', h, hwf => by
      simp only [deliver] at h
      split at h
      · simp at h
      · rename_i s1 heq
        simp at h
        have h1 := deliver_trace P ee f i r s .fin s1 heq (by simpa using hwf)
        have h2 := iterC_trace P ee f (c+1) v lim body env s1
        rw [h] at h2
        exact h1.thenEnter h2 (by simp) (by simp)
      · rename_i r1 s1 hne heq
        simp at h; obtain ⟨rfl, rfl⟩ := h
        exact (deliver_trace P ee f i r s r1 s1 heq (by simpa using hwf)).wrap (by simp) (by simp) (by simp) (by simp) (by simp)
  | .wloop e body env r, s, r', s', h, hwf => by
      simp only [deliver] at h
      split at h
      · simp at h
      · rename_i s1 heq
        simp at h
        have h1 := deliver_trace P ee f i r s .fin s1 heq (by simpa using hwf)
        have h2 := iterW_trace P ee f e body env s1
        rw [h] at h2
        exact h1.thenEnter h2 (by simp) (by simp)
      · rename_i r1 s1 hne heq
        simp at h; obtain ⟨rfl, rfl⟩ := h
        exact (deliver_trace P ee f i r s r1 s1 heq (by simpa using hwf)).wrap (by simp) (by simp) (by simp) (by simp) (by simp)
  | .fin, s, r', s', h, _ => by simp [deliver] at h
  | .stuck w, s, r', s', h, _ => by simp [deliver] at h
theorem deliverL_trace (P : Prog) (ee : EE) (f i : Nat) : (rs : List Run) → (s : St) → (rs' : List Run) → (s' : St) →
    deliverL P ee f i rs s = some (rs', s') → Run.WFL rs → DTraceOkL i s rs s' rs'
  | [], s, rs', s', h, _ => by simp [deliverL] at h
  | r :: rs, s, rs', s', h, hwf => by
      simp only [deliverL] at h
      simp only [Run.WFL_cons] at hwf
      split at h
      · rename_i r1 s1 heq
        simp at h; obtain ⟨rfl, rfl⟩ := h
        have h1 := deliver_trace P ee f i r s r1 s1 heq hwf.1
        exact ⟨h1.first, h1.ctrS, h1.ctrT, h1.ss, h1.ts,
          fun j => by have a := h1.sf j; simp [List.count_append]; omega,
          fun j => by have a := h1.tf j; simp [List.count_append]; omega, h1.root, by simp [h1.wf, hwf.2],
          fun j hj => by
            simp at hj ⊢
            rcases hj with hj | hj
            · rcases h1.fresh j hj with a | a
              · exact Or.inl (Or.inl a)
              · exact Or.inr a
            · exact Or.inl (Or.inr hj)⟩
      · split at h
        · rename_i rs1 s1 heq
          simp at h; obtain ⟨rfl, rfl⟩ := h
          have h1 := deliverL_trace P ee f i rs s rs1 s1 heq hwf.2
          exact ⟨h1.first, h1.ctrS, h1.ctrT, h1.ss, h1.ts,
            fun j => by have a := h1.sf j; simp [List.count_append]; omega,
            fun j => by have a := h1.tf j; simp [List.count_append]; omega, h1.root, by simp [h1.wf, hwf.1],
            fun j hj => by
              simp at hj ⊢
              rcases hj with hj | hj
              · exact Or.inl (Or.inl hj)
              · rcases h1.fresh j hj with a | a
                · exact Or.inl (Or.inr a)
                · exact Or.inr a⟩
        · simp at h
end

end Pfdl
