import PfdlProofs.Deliver
/-! Trace-level accounting: what the events emitted by the interpreter look like.
    Identifiers are issued consecutively, every started instance is finished or still open,
    no notification without context is emitted below the production task. -/
namespace Pfdl

/-! ### projections of event lists (all are `filterMap`s, hence additive over `++`) -/

def Ev.ssId : Ev → Option Nat
  | .ann n => some n.id
  | _ => none
def Ev.sfId : Ev → Option Nat
  | .note n => if n.kind = .sf then some n.id else none
  | _ => none
def Ev.tsId : Ev → Option Nat
  | .note n => if n.kind = .ts then some n.id else none
  | _ => none
def Ev.tfId : Ev → Option Nat
  | .note n => if n.kind = .tf then some n.id else none
  | _ => none
/-- notifications that carry no context (only the production task's may) -/
def Ev.rootNote : Ev → Option Note
  | .note n => if n.ctx = none then some n else none
  | .ann n => if n.ctx = none then some n else none
  | _ => none

def ssIds (evs : List Ev) : List Nat := evs.filterMap Ev.ssId
def sfIds (evs : List Ev) : List Nat := evs.filterMap Ev.sfId
def tsIds (evs : List Ev) : List Nat := evs.filterMap Ev.tsId
def tfIds (evs : List Ev) : List Nat := evs.filterMap Ev.tfId
def rootNotes (evs : List Ev) : List Note := evs.filterMap Ev.rootNote

@[simp] theorem ssIds_append (a b : List Ev) : ssIds (a ++ b) = ssIds a ++ ssIds b := by simp [ssIds]
@[simp] theorem sfIds_append (a b : List Ev) : sfIds (a ++ b) = sfIds a ++ sfIds b := by simp [sfIds]
@[simp] theorem tsIds_append (a b : List Ev) : tsIds (a ++ b) = tsIds a ++ tsIds b := by simp [tsIds]
@[simp] theorem tfIds_append (a b : List Ev) : tfIds (a ++ b) = tfIds a ++ tfIds b := by simp [tfIds]
@[simp] theorem rootNotes_append (a b : List Ev) : rootNotes (a ++ b) = rootNotes a ++ rootNotes b := by simp [rootNotes]
@[simp] theorem ssIds_nil : ssIds [] = [] := rfl
@[simp] theorem sfIds_nil : sfIds [] = [] := rfl
@[simp] theorem tsIds_nil : tsIds [] = [] := rfl
@[simp] theorem tfIds_nil : tfIds [] = [] := rfl
@[simp] theorem rootNotes_nil : rootNotes [] = [] := rfl

/-- the events a returning nested call contributes carry no notification of the four kinds -/
def flushEvs (ps : List (Nat × Note)) : List Ev := ps.flatMap (fun p => [Ev.ret p.1, Ev.late p.2])

theorem flushEvs_proj (ps : List (Nat × Note)) :
    ssIds (flushEvs ps) = [] ∧ sfIds (flushEvs ps) = [] ∧ tsIds (flushEvs ps) = [] ∧ tfIds (flushEvs ps) = [] ∧
    rootNotes (flushEvs ps) = [] := by
  induction ps with
  | nil => simp [flushEvs]
  | cons p ps ih =>
    have : flushEvs (p :: ps) = [Ev.ret p.1, Ev.late p.2] ++ flushEvs ps := by simp [flushEvs]
    rw [this]
    simp only [ssIds_append, sfIds_append, tsIds_append, tfIds_append, rootNotes_append, ih.1, ih.2.1, ih.2.2.1,
      ih.2.2.2.1, ih.2.2.2.2, List.append_nil]
    simp [ssIds, sfIds, tsIds, tfIds, rootNotes, Ev.ssId, Ev.sfId, Ev.tsId, Ev.tfId, Ev.rootNote]

theorem St.flush_out (s : St) (h : Nat) : (s.flush h).out = s.out ++ flushEvs (s.pend.take (s.pend.length - h)) := rfl

/-! ### well-formed run trees: the notes stored in the tree are the ones announced -/

mutual
def Run.WF : Run → Prop
  | .wait i n => n.id = i ∧ n.kind = .sf ∧ n.ctx ≠ none
  | .blk r _ _ => r.WF
  | .call n r => n.kind = .tf ∧ n.ctx ≠ none ∧ r.WF
  | .par rs => Run.WFL rs
  | .cloop _ _ _ _ _ r => r.WF
  | .wloop _ _ _ r => r.WF
  | .fin => True
  | .stuck _ => True
def Run.WFL : List Run → Prop
  | [] => True
  | r :: rs => r.WF ∧ Run.WFL rs
end

mutual
/-- identifiers of the task instances that are open inside a run (called tasks; not the production task) -/
def Run.openTasks : Run → List Nat
  | .wait _ _ => []
  | .blk r _ _ => r.openTasks
  | .call n r => n.id :: r.openTasks
  | .par rs => Run.openTasksL rs
  | .cloop _ _ _ _ _ r => r.openTasks
  | .wloop _ _ _ r => r.openTasks
  | .fin => []
  | .stuck _ => []
def Run.openTasksL : List Run → List Nat
  | [] => []
  | r :: rs => r.openTasks ++ Run.openTasksL rs
end

@[simp] theorem Run.WF_fin : Run.fin.WF := by simp [Run.WF]
@[simp] theorem Run.WF_stuck (w) : (Run.stuck w).WF := by simp [Run.WF]
@[simp] theorem Run.WF_blk (r rest env) : (Run.blk r rest env).WF ↔ r.WF := by simp [Run.WF]
@[simp] theorem Run.WF_par (rs) : (Run.par rs).WF ↔ Run.WFL rs := by simp [Run.WF]
@[simp] theorem Run.WF_cloop (c v l b e r) : (Run.cloop c v l b e r).WF ↔ r.WF := by simp [Run.WF]
@[simp] theorem Run.WF_wloop (e b env r) : (Run.wloop e b env r).WF ↔ r.WF := by simp [Run.WF]
@[simp] theorem Run.WFL_nil : Run.WFL [] := by simp [Run.WFL]
@[simp] theorem Run.WFL_cons (r rs) : Run.WFL (r :: rs) ↔ r.WF ∧ Run.WFL rs := by simp [Run.WFL]

@[simp] theorem Run.openTasks_fin : Run.fin.openTasks = [] := by simp [Run.openTasks]
@[simp] theorem Run.openTasks_stuck (w) : (Run.stuck w).openTasks = [] := by simp [Run.openTasks]
@[simp] theorem Run.openTasks_wait (i n) : (Run.wait i n).openTasks = [] := by simp [Run.openTasks]
@[simp] theorem Run.openTasks_blk (r rest env) : (Run.blk r rest env).openTasks = r.openTasks := by simp [Run.openTasks]
@[simp] theorem Run.openTasks_call (n r) : (Run.call n r).openTasks = n.id :: r.openTasks := by simp [Run.openTasks]
@[simp] theorem Run.openTasks_par (rs) : (Run.par rs).openTasks = Run.openTasksL rs := by simp [Run.openTasks]
@[simp] theorem Run.openTasks_cloop (c v l b e r) : (Run.cloop c v l b e r).openTasks = r.openTasks := by simp [Run.openTasks]
@[simp] theorem Run.openTasks_wloop (e b env r) : (Run.wloop e b env r).openTasks = r.openTasks := by simp [Run.openTasks]
@[simp] theorem Run.openTasksL_nil : Run.openTasksL [] = [] := by simp [Run.openTasksL]
@[simp] theorem Run.openTasksL_cons (r rs) : Run.openTasksL (r :: rs) = r.openTasks ++ Run.openTasksL rs := by simp [Run.openTasksL]

theorem Run.openTasksL_of_allFin (rs : List Run) (h : rs.all Run.isFin = true) : Run.openTasksL rs = [] := by
  induction rs with
  | nil => simp
  | cons r rs ih =>
    simp only [List.all_cons, Bool.and_eq_true] at h
    have hr := Run.isFin_eq_true.1 h.1
    subst hr
    simp [ih h.2]

/-! ### what every `enter…` call guarantees about the emitted events -/

structure TraceOk (s : St) (r : Run) (s' : St) : Prop where
  pre : s.out <+: s'.out
  ctrS : s.ctrS ≤ s'.ctrS
  ctrT : s.ctrT ≤ s'.ctrT
  ss : ssIds s'.out = ssIds s.out ++ List.range' s.ctrS (s'.ctrS - s.ctrS)
  ts : tsIds s'.out = tsIds s.out ++ List.range' s.ctrT (s'.ctrT - s.ctrT)
  sf : ∀ j, (sfIds s'.out).count j + r.waiting.count j + (ssIds s.out).count j = (sfIds s.out).count j + (ssIds s'.out).count j
  tf : ∀ j, (tfIds s'.out).count j + r.openTasks.count j + (tsIds s.out).count j = (tfIds s.out).count j + (tsIds s'.out).count j
  root : rootNotes s'.out = rootNotes s.out
  wf : r.WF
  fresh : ∀ j ∈ r.waiting, s.ctrS ≤ j ∧ j < s'.ctrS

structure TraceOkL (s : St) (rs : List Run) (s' : St) : Prop where
  pre : s.out <+: s'.out
  ctrS : s.ctrS ≤ s'.ctrS
  ctrT : s.ctrT ≤ s'.ctrT
  ss : ssIds s'.out = ssIds s.out ++ List.range' s.ctrS (s'.ctrS - s.ctrS)
  ts : tsIds s'.out = tsIds s.out ++ List.range' s.ctrT (s'.ctrT - s.ctrT)
  sf : ∀ j, (sfIds s'.out).count j + (Run.waitingL rs).count j + (ssIds s.out).count j = (sfIds s.out).count j + (ssIds s'.out).count j
  tf : ∀ j, (tfIds s'.out).count j + (Run.openTasksL rs).count j + (tsIds s.out).count j = (tfIds s.out).count j + (tsIds s'.out).count j
  root : rootNotes s'.out = rootNotes s.out
  wf : Run.WFL rs
  fresh : ∀ j ∈ Run.waitingL rs, s.ctrS ≤ j ∧ j < s'.ctrS

/-- a state change that emits only events without notifications (queries, returns of nested calls) -/
structure Quiet (s s' : St) : Prop where
  pre : s.out <+: s'.out
  ctrS : s'.ctrS = s.ctrS
  ctrT : s'.ctrT = s.ctrT
  ss : ssIds s'.out = ssIds s.out
  sf : sfIds s'.out = sfIds s.out
  ts : tsIds s'.out = tsIds s.out
  tf : tfIds s'.out = tfIds s.out
  root : rootNotes s'.out = rootNotes s.out

theorem Quiet.refl (s : St) : Quiet s s := ⟨List.prefix_refl _, rfl, rfl, rfl, rfl, rfl, rfl, rfl⟩

theorem Quiet.setStuck (s : St) (w : Stuck) : Quiet s (s.setStuck w) := ⟨by simp, rfl, rfl, rfl, rfl, rfl, rfl, rfl⟩

theorem Quiet.flush (s : St) (h : Nat) : Quiet s (s.flush h) := by
  have hp := flushEvs_proj (s.pend.take (s.pend.length - h))
  refine ⟨by rw [St.flush_out]; exact List.prefix_append _ _, rfl, rfl, ?_, ?_, ?_, ?_, ?_⟩ <;>
    simp [St.flush_out, hp.1, hp.2.1, hp.2.2.1, hp.2.2.2.1, hp.2.2.2.2]

theorem varEvs_proj (qs : List String) (c : Nat) :
    ssIds (qs.map (fun x => Ev.var x c)) = [] ∧ sfIds (qs.map (fun x => Ev.var x c)) = [] ∧
    tsIds (qs.map (fun x => Ev.var x c)) = [] ∧ tfIds (qs.map (fun x => Ev.var x c)) = [] ∧
    rootNotes (qs.map (fun x => Ev.var x c)) = [] := by
  induction qs with
  | nil => simp
  | cons q qs ih =>
    simp only [List.map_cons]
    have : (Ev.var q c :: qs.map (fun x => Ev.var x c)) = [Ev.var q c] ++ qs.map (fun x => Ev.var x c) := rfl
    rw [this]
    simp only [ssIds_append, sfIds_append, tsIds_append, tfIds_append, rootNotes_append, ih.1, ih.2.1, ih.2.2.1,
      ih.2.2.2.1, ih.2.2.2.2, List.append_nil]
    simp [ssIds, sfIds, tsIds, tfIds, rootNotes, Ev.ssId, Ev.sfId, Ev.tsId, Ev.tfId, Ev.rootNote]

theorem Quiet.evalExpr (s : St) (ee : EE) (e : Expr) (c : Nat) : Quiet s (s.evalExpr ee e c).2 := by
  have hp := varEvs_proj (e.exec ee.ans s.nq).2 c
  have ho : (s.evalExpr ee e c).2.out = s.out ++ (e.exec ee.ans s.nq).2.map (fun x => Ev.var x c) := rfl
  refine ⟨by rw [ho]; exact List.prefix_append _ _, rfl, rfl, ?_, ?_, ?_, ?_, ?_⟩ <;>
    simp [ho, hp.1, hp.2.1, hp.2.2.1, hp.2.2.2.1, hp.2.2.2.2]

theorem Quiet.query (s : St) (ee : EE) (x : String) (c : Nat) : Quiet s (s.query ee x c).2 := by
  have ho : (s.query ee x c).2.out = s.out ++ [Ev.var x c] := rfl
  refine ⟨by rw [ho]; exact List.prefix_append _ _, rfl, rfl, ?_, ?_, ?_, ?_, ?_⟩ <;>
    simp [ho, ssIds, sfIds, tsIds, tfIds, rootNotes, Ev.ssId, Ev.sfId, Ev.tsId, Ev.tfId, Ev.rootNote]

theorem Quiet.readLimit (s : St) (ee : EE) (l : Limit) (c : Nat) : Quiet s (s.readLimit ee l c).2 := by
  rcases St.readLimit_cases s ee l c with h | ⟨x, h⟩
  · rw [h]; exact Quiet.refl s
  · rw [h]; exact Quiet.query s ee x c

theorem TraceOk.of_quiet_left {s s0 s' : St} {r : Run} (q : Quiet s s0) (h : TraceOk s0 r s') : TraceOk s r s' :=
  ⟨List.IsPrefix.trans q.pre h.pre, by simpa [q.ctrS] using h.ctrS, by simpa [q.ctrT] using h.ctrT,
   by simpa [q.ss, q.ctrS] using h.ss, by simpa [q.ts, q.ctrT] using h.ts,
   by simpa [q.ss, q.sf] using h.sf, by simpa [q.ts, q.tf] using h.tf, by simpa [q.root] using h.root, h.wf,
   by simpa [q.ctrS] using h.fresh⟩

theorem TraceOk.of_quiet_right {s s1 s' : St} {r : Run} (q : Quiet s1 s') (h : TraceOk s r s1) : TraceOk s r s' :=
  ⟨List.IsPrefix.trans h.pre q.pre, by simpa [q.ctrS] using h.ctrS, by simpa [q.ctrT] using h.ctrT,
   by simpa [q.ss, q.ctrS] using h.ss, by simpa [q.ts, q.ctrT] using h.ts,
   by simpa [q.ss, q.sf] using h.sf, by simpa [q.ts, q.tf] using h.tf, by simpa [q.root] using h.root, h.wf,
   by simpa [q.ctrS] using h.fresh⟩

theorem TraceOkL.of_quiet_left {s s0 s' : St} {rs : List Run} (q : Quiet s s0) (h : TraceOkL s0 rs s') : TraceOkL s rs s' :=
  ⟨List.IsPrefix.trans q.pre h.pre, by simpa [q.ctrS] using h.ctrS, by simpa [q.ctrT] using h.ctrT,
   by simpa [q.ss, q.ctrS] using h.ss, by simpa [q.ts, q.ctrT] using h.ts,
   by simpa [q.ss, q.sf] using h.sf, by simpa [q.ts, q.tf] using h.tf, by simpa [q.root] using h.root, h.wf,
   by simpa [q.ctrS] using h.fresh⟩

theorem TraceOk.fin_of_quiet {s s' : St} (q : Quiet s s') : TraceOk s .fin s' :=
  ⟨q.pre, by simp [q.ctrS], by simp [q.ctrT], by simp [q.ss, q.ctrS], by simp [q.ts, q.ctrT],
   by simp [q.ss, q.sf], by simp [q.ts, q.tf], q.root, by simp, by simp⟩

theorem TraceOk.stuck_of_quiet {s s' : St} (w : Stuck) (q : Quiet s s') : TraceOk s (.stuck w) s' :=
  ⟨q.pre, by simp [q.ctrS], by simp [q.ctrT], by simp [q.ss, q.ctrS], by simp [q.ts, q.ctrT],
   by simp [q.ss, q.sf], by simp [q.ts, q.tf], q.root, by simp, by simp⟩

theorem range'_append_le (a b c : Nat) (h1 : a ≤ b) (h2 : b ≤ c) :
    List.range' a (b - a) ++ List.range' b (c - b) = List.range' a (c - a) := by
  have : c - a = (b - a) + (c - b) := by omega
  rw [this, ← List.range'_append]
  congr 2
  omega

/-- a finished statement followed by the rest -/
theorem TraceOk.seq {s s1 s2 : St} {r : Run} (h1 : TraceOk s .fin s1) (h2 : TraceOk s1 r s2) : TraceOk s r s2 :=
  ⟨List.IsPrefix.trans h1.pre h2.pre, Nat.le_trans h1.ctrS h2.ctrS, Nat.le_trans h1.ctrT h2.ctrT,
   by rw [h2.ss, h1.ss, List.append_assoc, range'_append_le _ _ _ h1.ctrS h2.ctrS],
   by rw [h2.ts, h1.ts, List.append_assoc, range'_append_le _ _ _ h1.ctrT h2.ctrT],
   fun j => by have a := h1.sf j; have b := h2.sf j; simp at a; omega,
   fun j => by have a := h1.tf j; have b := h2.tf j; simp at a; omega,
   by rw [h2.root, h1.root], h2.wf,
   fun j hj => by have := h2.fresh j hj; have := h1.ctrS; omega⟩

theorem TraceOk.wrap {s s' : St} {r r' : Run} (h : TraceOk s r s') (hw : r'.waiting = r.waiting)
    (ho : r'.openTasks = r.openTasks) (hwf : r.WF → r'.WF) : TraceOk s r' s' :=
  ⟨h.pre, h.ctrS, h.ctrT, h.ss, h.ts, by simpa [hw] using h.sf, by simpa [ho] using h.tf, h.root, hwf h.wf,
   by simpa [hw] using h.fresh⟩

theorem TraceOkL.nil (s : St) : TraceOkL s [] s :=
  ⟨List.prefix_refl _, Nat.le_refl _, Nat.le_refl _, by simp, by simp, by simp, by simp, rfl, by simp, by simp⟩

theorem TraceOkL.cons {s s1 s2 : St} {r : Run} {rs : List Run} (h1 : TraceOk s r s1) (h2 : TraceOkL s1 rs s2) :
    TraceOkL s (r :: rs) s2 :=
  ⟨List.IsPrefix.trans h1.pre h2.pre, Nat.le_trans h1.ctrS h2.ctrS, Nat.le_trans h1.ctrT h2.ctrT,
   by rw [h2.ss, h1.ss, List.append_assoc, range'_append_le _ _ _ h1.ctrS h2.ctrS],
   by rw [h2.ts, h1.ts, List.append_assoc, range'_append_le _ _ _ h1.ctrT h2.ctrT],
   fun j => by have a := h1.sf j; have b := h2.sf j; simp [List.count_append]; omega,
   fun j => by have a := h1.tf j; have b := h2.tf j; simp [List.count_append]; omega,
   by rw [h2.root, h1.root], by simp [h1.wf, h2.wf],
   fun j hj => by
     simp at hj
     rcases hj with hj | hj
     · have := h1.fresh j hj; have := h2.ctrS; omega
     · have := h2.fresh j hj; have := h1.ctrS; omega⟩

theorem TraceOkL.toPar {s s' : St} {rs : List Run} (h : TraceOkL s rs s') : TraceOk s (.par rs) s' :=
  ⟨h.pre, h.ctrS, h.ctrT, h.ss, h.ts, by simpa using h.sf, by simpa using h.tf, h.root, by simpa using h.wf,
   by simpa using h.fresh⟩

theorem TraceOkL.toFin {s s' : St} {rs : List Run} (h : TraceOkL s rs s') (hall : rs.all Run.isFin = true) : TraceOk s .fin s' := by
  have hw := (Run.waitingL_of_allFin rs hall).1
  have ho := Run.openTasksL_of_allFin rs hall
  exact ⟨h.pre, h.ctrS, h.ctrT, h.ss, h.ts, by simpa [hw] using h.sf, by simpa [ho] using h.tf, h.root, by simp, by simp⟩

end Pfdl
