import PfdlProofs.NetInv
/-! Identifiers of service instances in the net layer, for EVERY program (parallel loops and the run-time rebuilding of
    the net included): the completions that are awaited are pairwise different, each carries an identifier the
    scheduler has handed out (below the counter of the next one), for every engine, fuel and state reached by the
    evaluator.  Core Lean only. -/
namespace Pfdl.Net

/-- the awaited completion events, in order -/
def svcPart (l : List AEv) : List AEv := l.filter (fun e => match e with | .svc _ => true | _ => false)

structure IdInv (s : NS) : Prop where
  below : ∀ u, AEv.svc u ∈ s.awaited → ∃ n, u = Uid.id n ∧ n < s.ctrS
  nodup : (svcPart s.awaited).Nodup

/-- awaited events and the service counter are untouched -/
structure Fr (s s' : NS) : Prop where
  awaited : s'.awaited = s.awaited
  ctrS : s'.ctrS = s.ctrS

theorem Fr.rfl' (s : NS) : Fr s s := ⟨rfl, rfl⟩
theorem Fr.trans' {a b c : NS} (h1 : Fr a b) (h2 : Fr b c) : Fr a c := ⟨h2.awaited.trans h1.awaited, h2.ctrS.trans h1.ctrS⟩
theorem IdInv.fr {s s' : NS} (h : IdInv s) (hf : Fr s s') : IdInv s' :=
  ⟨by rw [hf.awaited, hf.ctrS]; exact h.below, by rw [hf.awaited]; exact h.nodup⟩

theorem fr_raise (s : NS) (e : String) : Fr s (s.raise e) := by unfold NS.raise; split <;> exact ⟨rfl, rfl⟩
theorem fr_outOfFuel (s : NS) : Fr s s.outOfFuel := by
  have := fr_raise s "outOfFuel"; unfold NS.outOfFuel; exact ⟨this.awaited, this.ctrS⟩
theorem fr_emit (s : NS) (o : NOut) : Fr s (s.emit o) := ⟨rfl, rfl⟩
theorem fr_foldl_emit {α} (g : α → NOut) : ∀ (l : List α) (s : NS), Fr s (l.foldl (fun s a => s.emit (g a)) s)
  | [], s => Fr.rfl' s
  | a :: l, s => by simp only [List.foldl_cons]; exact (fr_emit s (g a)).trans' (fr_foldl_emit g l _)
theorem fr_logAll (s : NS) (n : Note) (b : Bool) : Fr s (s.logAll n b) := by
  unfold NS.logAll; exact fr_foldl_emit (fun o => NOut.log o n b) s.observers s
theorem fr_netAll (s : NS) : Fr s s.netAll := by
  unfold NS.netAll; exact fr_foldl_emit (fun o => NOut.netUpd o) s.observers s
theorem fr_evalExpr (s : NS) (ee : EE) (e : Expr) (ctx : Nat) : Fr s (s.evalExpr ee e ctx).2 := by
  unfold NS.evalExpr; exact ⟨rfl, rfl⟩
theorem fr_readLimit (s : NS) (ee : EE) (lim : Limit) (ctx : Nat) : Fr s (s.readLimit ee lim ctx).2 := by
  unfold NS.readLimit; split <;> exact ⟨rfl, rfl⟩
theorem fr_substitute (s : NS) (c : Option Nat) (ps : List Param) : Fr s (s.substitute c ps).2 := by
  unfold NS.substitute; split <;> (try split) <;> exact ⟨rfl, rfl⟩
theorem fr_bumpCounter (s : NS) (ctx line : Nat) (var : String) : Fr s (s.bumpCounter ctx line var).2 := by
  unfold NS.bumpCounter; exact ⟨rfl, rfl⟩
theorem fr_dropCounter (s : NS) (ctx line : Nat) (var : String) : Fr s (s.dropCounter ctx line var) := by
  unfold NS.dropCounter; exact ⟨rfl, rfl⟩
theorem fr_fireT (s : NS) (t : Nat) : Fr s (s.fireT t) := by unfold NS.fireT; split <;> exact ⟨rfl, rfl⟩
theorem fr_pushPlace (s : NS) : Fr s s.pushPlace := ⟨rfl, rfl⟩
theorem fr_pushTrans (s : NS) : Fr s s.pushTrans := ⟨rfl, rfl⟩
theorem fr_addIn (s : NS) (p t : Nat) : Fr s (s.addIn p t) := ⟨rfl, rfl⟩
theorem fr_addOut (s : NS) (p t : Nat) : Fr s (s.addOut p t) := ⟨rfl, rfl⟩
theorem fr_addCb (s : NS) (t : Nat) (cb : Cb) : Fr s (s.addCb t cb) := ⟨rfl, rfl⟩
theorem fr_pushTask (s : NS) (a : String) (b : Nat) (c : Option Nat) (d : Option CallSite) (e : Bool) : Fr s (s.pushTask a b c d e) := ⟨rfl, rfl⟩
theorem fr_pushSvc (s : NS) (c : CallSite) (ctx : Nat) (il : Bool) (fin : Nat) : Fr s (s.pushSvc c ctx il fin) := ⟨rfl, rfl⟩
theorem fr_removePlace (s : NS) (p : Nat) : Fr s (s.removePlace p) := ⟨rfl, rfl⟩
theorem fr_addToken (s : NS) (p : Nat) : Fr s (s.addToken p) := ⟨rfl, rfl⟩

theorem fr_of_substitute_eq {s s' : NS} {c : Option Nat} {ps ps' : List Param}
    (h : s.substitute c ps = (ps', s')) : Fr s s' := by
  have := fr_substitute s c ps; rw [h] at this; exact this
theorem fr_of_evalExpr_eq {ee : EE} {s s' : NS} {e : Expr} {ctx : Nat} {v : Option Val}
    (h : s.evalExpr ee e ctx = (v, s')) : Fr s s' := by
  have := fr_evalExpr s ee e ctx; rw [h] at this; exact this
theorem fr_of_readLimit_eq {ee : EE} {s s' : NS} {lim : Limit} {ctx : Nat} {n : Option Rat}
    (h : s.readLimit ee lim ctx = (n, s')) : Fr s s' := by
  have := fr_readLimit s ee lim ctx; rw [h] at this; exact this
theorem fr_of_bumpCounter_eq {s s' : NS} {ctx line : Nat} {var : String} {c0 : Nat}
    (h : s.bumpCounter ctx line var = (c0, s')) : Fr s s' := by
  have := fr_bumpCounter s ctx line var; rw [h] at this; exact this

/-! ### the generator does not touch the awaited events or the counter -/

attribute [local irreducible] NS.pushPlace NS.pushTrans NS.addIn NS.addOut NS.addCb NS.pushSvc NS.pushTask in
section
macro "fr_steps" : tactic => `(tactic| repeat (first
  | exact Fr.rfl' _
  | (refine Fr.trans' ?_ (fr_pushPlace _)) | (refine Fr.trans' ?_ (fr_pushTrans _)) | (refine Fr.trans' ?_ (fr_addIn _ _ _))
  | (refine Fr.trans' ?_ (fr_addOut _ _ _)) | (refine Fr.trans' ?_ (fr_addCb _ _ _)) | (refine Fr.trans' ?_ (fr_pushSvc _ _ _ _ _))
  | (refine Fr.trans' ?_ (fr_pushTask _ _ _ _ _ _))))

structure GFr (f : Nat) : Prop where
  stmts : ∀ (l : List Stmt) (ctx first last : Nat) (il : Bool) (prev : Nat) (single : Bool) (s : NS),
    Fr s (genStmts f l ctx first last il prev single s).2
  stmt : ∀ (st : Stmt) (ctx t1 t2 : Nat) (il : Bool) (s : NS), Fr s (genStmt f st ctx t1 t2 il s).2
  call : ∀ (c : CallSite) (ctx t1 t2 : Nat) (il : Bool) (s : NS), Fr s (genCall f c ctx t1 t2 il s).2
  calls : ∀ (cs : List CallSite) (ctx t1 t2 : Nat) (il : Bool) (s : NS), Fr s (genCalls f cs ctx t1 t2 il s)

theorem fr_foldCb (nctx : Nat) : ∀ (l : List Nat) (s : NS), Fr s (l.foldl (fun s l => s.addCb l (.taskFinished nctx)) s)
  | [], s => Fr.rfl' s
  | t :: l, s => by simp only [List.foldl_cons]; exact (fr_addCb s t _).trans' (fr_foldCb nctx l _)

theorem gfr : ∀ f, GFr f
  | 0 => ⟨fun _ _ _ _ _ _ _ s => by simp only [Net.genStmts]; exact fr_outOfFuel s,
          fun _ _ _ _ _ s => by simp only [Net.genStmt]; exact fr_outOfFuel s,
          fun _ _ _ _ _ s => by simp only [Net.genCall]; exact fr_outOfFuel s,
          fun _ _ _ _ _ s => by simp only [Net.genCalls]; exact fr_outOfFuel s⟩
  | f+1 => by
    have ih := gfr f
    refine ⟨?_, ?_, ?_, ?_⟩
    · intro l ctx first last il prev single s
      match l with
      | [] => simp only [Net.genStmts]; exact Fr.rfl' s
      | [st] => simp only [Net.genStmts]; exact ih.stmt st ctx _ last il s
      | st :: st2 :: rest =>
        simp only [Net.genStmts]
        exact ((fr_pushTrans s).trans' (ih.stmt st ctx prev _ il _)).trans' (ih.stmts _ ctx first last il _ single _)
    · intro st ctx t1 t2 il s
      cases st with
      | svc c => simp only [Net.genStmt]; fr_steps
      | call c => simp only [Net.genStmt]; exact ih.call c ctx t1 t2 il s
      | par cs line =>
        simp only [Net.genStmt]
        refine Fr.trans' ?_ (fr_addIn _ _ _)
        refine Fr.trans' ?_ (fr_addOut _ _ _)
        refine Fr.trans' ?_ (ih.calls cs ctx t1 _ il _)
        fr_steps
      | cond e passed failed line =>
        simp only [Net.genStmt]
        split
        · dsimp only
          fr_steps
          refine Fr.trans' ?_ (ih.stmts passed ctx _ _ il _ _ _)
          fr_steps
        · dsimp only
          fr_steps
          refine Fr.trans' ?_ (ih.stmts failed ctx _ _ il _ _ _)
          fr_steps
          refine Fr.trans' ?_ (ih.stmts passed ctx _ _ il _ _ _)
          fr_steps
      | cloop var lim body line =>
        simp only [Net.genStmt]
        fr_steps
        refine Fr.trans' ?_ (ih.stmts body ctx _ _ true _ _ _)
        fr_steps
      | wloop e body line =>
        simp only [Net.genStmt]
        fr_steps
        refine Fr.trans' ?_ (ih.stmts body ctx _ _ true _ _ _)
        fr_steps
      | ploop var lim c line => simp only [Net.genStmt]; fr_steps
    · intro c ctx t1 t2 il s
      simp only [Net.genCall]
      split
      · exact fr_raise s _
      · rename_i t _
        dsimp only
        refine Fr.trans' ?_ (fr_foldCb _ _ _)
        refine Fr.trans' ?_ (ih.stmts t.body _ t1 t2 il t1 _ _)
        fr_steps
    · intro cs ctx t1 t2 il s
      cases cs with
      | nil => simp only [Net.genCalls]; exact Fr.rfl' s
      | cons c cs =>
        simp only [Net.genCalls]
        exact (ih.call c ctx t1 t2 il s).trans' (ih.calls cs ctx t1 t2 il _)
end


/-! ### the evaluator -/

theorem svcPart_append_svc (l : List AEv) (u : Uid) : svcPart (l ++ [AEv.svc u]) = svcPart l ++ [AEv.svc u] := by
  simp [svcPart, List.filter_append]
theorem svcPart_append_set (l : List AEv) (p : Nat) : svcPart (l ++ [AEv.setPlace p]) = svcPart l := by
  simp [svcPart, List.filter_append]
theorem mem_svcPart {l : List AEv} {e : AEv} (h : e ∈ svcPart l) : e ∈ l := by
  unfold svcPart at h; exact (List.mem_filter.mp h).1

theorem IdInv.appendSet {s : NS} (h : IdInv s) (p : Nat) : IdInv { s with awaited := s.awaited ++ [AEv.setPlace p] } := by
  refine ⟨?_, ?_⟩
  · intro u hu
    have hu' : AEv.svc u ∈ s.awaited ++ [AEv.setPlace p] := hu
    simp only [List.mem_append, List.mem_singleton] at hu'
    rcases hu' with hu' | hu'
    · exact h.below u hu'
    · cases hu'
  · show (svcPart (s.awaited ++ [AEv.setPlace p])).Nodup
    rw [svcPart_append_set]; exact h.nodup

theorem IdInv.eraseIdx {s : NS} (h : IdInv s) (i : Nat) : IdInv { s with awaited := s.awaited.eraseIdx i } := by
  refine ⟨fun u hu => h.below u (List.mem_of_mem_eraseIdx hu), ?_⟩
  show (svcPart (s.awaited.eraseIdx i)).Nodup
  exact List.Nodup.sublist (List.Sublist.filter _ (List.eraseIdx_sublist _ _)) h.nodup

theorem reinsert_eq (l : List AEv) (ev : AEv) (idx : Nat) (h : l.idxOf? ev = some idx) :
    (l.eraseIdx idx).take idx ++ [ev] ++ (l.eraseIdx idx).drop idx = l := by
  unfold List.idxOf? at h
  have h1 := List.of_findIdx?_eq_some h
  have hlt : idx < l.length := by
    cases hq : l[idx]? with
    | none => simp [hq] at h1
    | some b => exact (List.getElem?_eq_some_iff.mp hq).1
  have hget : l[idx] = ev := by
    have : l[idx]? = some l[idx] := by simp [hlt]
    rw [this] at h1
    simpa using h1
  rw [List.eraseIdx_eq_take_drop_succ]
  have hlen : (l.take idx).length = idx := by simp; omega
  have e1 : (l.take idx ++ l.drop (idx + 1)).take idx = l.take idx := by
    have := List.take_left' (l₁ := l.take idx) (l₂ := l.drop (idx + 1)) hlen
    exact this
  have e2 : (l.take idx ++ l.drop (idx + 1)).drop idx = l.drop (idx + 1) := by
    have := List.drop_left' (l₁ := l.take idx) (l₂ := l.drop (idx + 1)) hlen
    exact this
  rw [e1, e2, ← hget]
  have := List.take_append_drop idx l
  conv => rhs; rw [← this]
  rw [List.append_assoc]
  congr 1
  rw [List.drop_eq_getElem_cons hlt]
  rfl

variable {ee : EE}

/-- all functions of the evaluator keep the identifier invariant, at fuel `f` -/
structure IKeeps (ee : EE) (f : Nat) : Prop where
  evaluate : ∀ s, IdInv s → IdInv (evaluate ee f s)
  scan : ∀ n i s, IdInv s → IdInv (scan ee f n i s)
  runLive : ∀ t pos s, IdInv s → IdInv (runLive ee f t pos s)
  runCopy : ∀ t l s, IdInv s → IdInv (runCopy ee f t l s)
  runCb : ∀ cb s, IdInv s → IdInv (runCb ee f cb s)
  listenSS : ∀ i fns s, IdInv s → IdInv (listenSS ee f i fns s)
  listenSF : ∀ i fns s, IdInv s → IdInv (listenSF ee f i fns s)
  eeStarted : ∀ id s, IdInv s → IdInv (eeStarted ee f id s)
  eeOther : ∀ k s, IdInv s → IdInv (eeOther ee f k s)
  eeAgain : ∀ k s, IdInv s → IdInv (eeAgain ee f k s)
  eeFinished : ∀ s, IdInv s → IdInv (eeFinished ee f s)
  complete : ∀ k s, IdInv s → IdInv (complete ee f k s)
  fireEv : ∀ ev s, IdInv s → IdInv (fireEv ee f ev s).2

theorem ikeeps_zero : IKeeps ee 0 where
  evaluate s h := by simp only [Net.evaluate]; exact h.fr (fr_outOfFuel s)
  scan n i s h := by simp only [Net.scan]; exact h.fr (fr_outOfFuel s)
  runLive t pos s h := by simp only [Net.runLive]; exact h.fr (fr_outOfFuel s)
  runCopy t l s h := by simp only [Net.runCopy]; exact h.fr (fr_outOfFuel s)
  runCb cb s h := by simp only [Net.runCb]; exact h.fr (fr_outOfFuel s)
  listenSS i fns s h := by simp only [Net.listenSS]; exact h.fr (fr_outOfFuel s)
  listenSF i fns s h := by simp only [Net.listenSF]; exact h.fr (fr_outOfFuel s)
  eeStarted id s h := by simp only [Net.eeStarted]; exact h.fr (fr_outOfFuel s)
  eeOther k s h := by simp only [Net.eeOther]; exact h.fr (fr_outOfFuel s)
  eeAgain k s h := by simp only [Net.eeAgain]; exact h.fr (fr_outOfFuel s)
  eeFinished s h := by simp only [Net.eeFinished]; exact h.fr (fr_outOfFuel s)
  complete k s h := by simp only [Net.complete]; exact h.fr (fr_outOfFuel s)
  fireEv ev s h := by simp only [Net.fireEv]; exact h.fr (fr_outOfFuel s)

theorem fr_ploopFold (f : Nat) (var : String) (c : CallSite) (ctx t1 t2 : Nat) : ∀ (l : List Nat) (s : NS),
    Fr s (l.foldl (fun s _ =>
      let s := (genCall f c ctx t1 t2 false s).2
      let u := s.taskUid ctx
      let d := (dictGet s.loopCtrs u).getD []
      let s := { s with cells := s.cells.push (-1) }
      { s with loopCtrs := dictSet s.loopCtrs u (dictSet d (.pvar var) (.cell (s.cells.size - 1))) }) s)
  | [], s => Fr.rfl' s
  | _ :: l, s => by
      simp only [List.foldl_cons]
      refine Fr.trans' ?_ (fr_ploopFold f var c ctx t1 t2 l _)
      have := (gfr f).call c ctx t1 t2 false s
      exact ⟨this.awaited, this.ctrS⟩

theorem ikeeps_succ (f : Nat) (ih : IKeeps ee f) : IKeeps ee (f+1) where
  evaluate s h := by simp only [Net.evaluate]; exact ih.scan _ _ s h
  scan n i s h := by
    simp only [Net.scan]
    split
    · exact h
    split
    · exact h
    split
    · generalize hx : extractPloop _ _ _ _ = r
      obtain ⟨temp, l⟩ := r
      simp only
      split
      · have h1 : IdInv { s with cbs := s.cbs.set! i l } := ⟨h.below, h.nodup⟩
        have h2 := ih.runCopy i l _ h1
        split
        · exact h2
        · exact ih.runCb _ _ h2
      · exact ih.scan _ _ _ (ih.runLive _ _ _ (h.fr (fr_fireT s i)))
    · exact ih.scan _ _ _ h
  runLive t pos s h := by
    simp only [Net.runLive]
    split
    · exact h
    split
    · exact h
    · exact ih.runLive _ _ _ (ih.runCb _ s h)
  runCopy t l s h := by
    cases l with
    | nil => simp only [Net.runCopy]; exact h
    | cons kc rest =>
      obtain ⟨k, cb⟩ := kc
      simp only [Net.runCopy]
      split
      · exact h
      have h1 := ih.runCb cb s h
      split
      · exact h1
      split
      · exact ih.runCopy _ _ _ ⟨h1.below, h1.nodup⟩
      · exact h1.fr (fr_raise _ _)
  runCb cb s h := by
    cases cb with
    | taskStarted t =>
      simp only [Net.runCb]
      split
      · exact h.fr (fr_raise s _)
      · generalize hsub : NS.substitute _ _ _ = r
        obtain ⟨ps', s'⟩ := r
        simp only
        have hs' : IdInv s' := IdInv.fr (s := { s with ctrT := s.ctrT + 1 }) ⟨h.below, h.nodup⟩ (fr_of_substitute_eq hsub)
        refine IdInv.fr ?_ (fr_logAll _ _ _)
        refine IdInv.fr ?_ (fr_foldl_emit _ _ _)
        exact ⟨hs'.below, hs'.nodup⟩
    | taskFinished t =>
      simp only [Net.runCb]
      have h0 := h.fr (fr_foldl_emit (fun fn => NOut.inv fn (s.noteT .tf t)) s.ls.tf s)
      split
      · refine IdInv.fr ?_ (fr_logAll _ _ _)
        refine IdInv.fr ?_ (fr_netAll _)
        exact ⟨h0.below, h0.nodup⟩
      · exact h0.fr (fr_logAll _ _ _)
    | svcStarted i =>
      simp only [Net.runCb]
      split
      · exact h.fr (fr_raise s _)
      · rename_i a _
        split
        · exact IdInv.fr (s := { s with ctrS := s.ctrS + 1 })
            ⟨fun u hu => by obtain ⟨n, hn, hlt⟩ := h.below u hu; exact ⟨n, hn, Nat.lt_succ_of_lt hlt⟩, h.nodup⟩ (fr_raise _ _)
        · rename_i fin _
          generalize hsub : (if a.inLoop = true then NS.substitute _ _ _ else (a.params, _)) = r
          obtain ⟨ps', s'⟩ := r
          have hfr : s'.awaited = s.awaited ∧ s'.ctrS = s.ctrS + 1 := by
            split at hsub
            · have := fr_of_substitute_eq hsub
              exact ⟨this.awaited, this.ctrS⟩
            · cases hsub; exact ⟨rfl, rfl⟩
          simp only
          apply ih.listenSS
          refine IdInv.fr ?_ (fr_logAll _ _ _)
          refine ⟨?_, ?_⟩
          · intro u hu
            have hu' : AEv.svc u ∈ s'.awaited ++ [AEv.svc (Uid.id s.ctrS)] := hu
            show ∃ n, u = Uid.id n ∧ n < s'.ctrS
            rw [hfr.2]
            simp only [List.mem_append, List.mem_singleton] at hu'
            rcases hu' with hu' | hu'
            · rw [hfr.1] at hu'
              obtain ⟨n, hn, hlt⟩ := h.below u hu'
              exact ⟨n, hn, Nat.lt_succ_of_lt hlt⟩
            · cases hu'; exact ⟨s.ctrS, rfl, Nat.lt_succ_self _⟩
          · show (svcPart (s'.awaited ++ [AEv.svc (Uid.id s.ctrS)])).Nodup
            rw [svcPart_append_svc, hfr.1]
            rw [List.nodup_append]
            refine ⟨h.nodup, by simp, ?_⟩
            intro a ha b hb
            simp only [List.mem_singleton] at hb
            subst hb
            intro hab
            subst hab
            obtain ⟨n, hn, hlt⟩ := h.below _ (mem_svcPart ha)
            cases hn
            exact Nat.lt_irrefl _ hlt
    | svcFinished i =>
      simp only [Net.runCb]
      have h1 := ih.listenSF i s.ls.sf s h
      split
      · exact h1
      · exact h1.fr (fr_logAll _ _ _)
    | cond e thenP elseP ctx =>
      simp only [Net.runCb]
      generalize hev : NS.evalExpr s ee e ctx = r
      obtain ⟨v, s'⟩ := r
      have hs' : IdInv s' := h.fr (fr_of_evalExpr_eq hev)
      simp only
      split
      · exact hs'.fr (fr_raise _ _)
      · exact ih.fireEv _ _ (hs'.appendSet _)
    | wloop e thenP elseP ctx =>
      simp only [Net.runCb]
      generalize hev : NS.evalExpr s ee e ctx = r
      obtain ⟨v, s'⟩ := r
      have hs' : IdInv s' := h.fr (fr_of_evalExpr_eq hev)
      simp only
      split
      · exact hs'.fr (fr_raise _ _)
      · exact ih.fireEv _ _ (hs'.appendSet _)
    | cloop line var lim thenP elseP ctx =>
      simp only [Net.runCb]
      generalize hbc : NS.bumpCounter s ctx line var = r0
      obtain ⟨c0, s0⟩ := r0
      have hs0 : IdInv s0 := h.fr (fr_of_bumpCounter_eq hbc)
      simp only
      generalize hev : NS.readLimit s0 ee lim ctx = r
      obtain ⟨n, s'⟩ := r
      have hs' : IdInv s' := hs0.fr (fr_of_readLimit_eq hev)
      simp only
      repeat' split
      all_goals first
        | exact hs'.fr (fr_raise _ _)
        | exact ih.fireEv _ _ (hs'.appendSet _)
        | (apply ih.fireEv
           have hd := hs'.fr (fr_dropCounter s' ctx line var)
           have := hd.appendSet elseP
           exact ⟨this.below, this.nodup⟩)
    | ploop var lim c place t1 t2 ctx =>
      simp only [Net.runCb]
      generalize hev : NS.readLimit s ee lim ctx = r
      obtain ⟨n, s'⟩ := r
      have hs' : IdInv s' := h.fr (fr_of_readLimit_eq hev)
      simp only
      split
      · exact hs'.fr (fr_raise _ _)
      · rename_i n
        generalize hX : (if 1 ≤ n then _ else _ : NS) = X
        have hXi : IdInv X := by
          rw [← hX]
          split
          · exact hs'.fr (fr_ploopFold f var c ctx t1 t2 _ s')
          · exact hs'.fr (((fr_pushPlace s').trans' (fr_addOut _ _ _)).trans' (fr_addIn _ _ _))
        split
        · exact hXi
        · apply ih.evaluate
          split
          · exact hXi.fr (fr_removePlace _ _)
          · exact hXi
  listenSS i fns s h := by
    cases fns with
    | nil => simp only [Net.listenSS]; exact h
    | cons fn fns =>
      simp only [Net.listenSS]
      split
      · exact h
      apply ih.listenSS
      split
      · exact ih.eeStarted _ _ (h.fr (fr_emit _ _))
      · exact h.fr (fr_emit _ _)
  listenSF i fns s h := by
    cases fns with
    | nil => simp only [Net.listenSF]; exact h
    | cons fn fns =>
      simp only [Net.listenSF]
      split
      · exact h
      apply ih.listenSF
      split
      · exact ih.eeFinished _ (h.fr (fr_emit _ _))
      · exact h.fr (fr_emit _ _)
  eeStarted id s h := by
    simp only [Net.eeStarted]
    have h0 : IdInv { s with announced := s.announced.push id, pending := s.pending ++ [s.announced.size] } := ⟨h.below, h.nodup⟩
    by_cases hio : ee.immOther s.announced.size = true
    · rw [if_pos hio]
      have h1 := ih.eeOther s.announced.size _ h0
      split
      · exact h1
      · split
        · exact ih.complete _ _ h1
        · exact h1
    · rw [if_neg hio]
      split
      · exact h0
      · split
        · exact ih.complete _ _ h0
        · exact h0
  eeOther k s h := by
    simp only [Net.eeOther]
    have h1 := ih.eeAgain k s h
    split
    · exact ih.complete _ _ h1
    · exact h1
  eeAgain k s h := by
    simp only [Net.eeAgain]
    split
    · split
      · exact ih.complete _ _ h
      · exact h
    · exact h
  eeFinished s h := by
    simp only [Net.eeFinished]
    have h0 : IdInv { s with nSf := s.nSf + 1 } := ⟨h.below, h.nodup⟩
    split
    · split
      · exact ih.complete _ _ h0
      · exact h0
    · exact h0
  complete k s h := by
    simp only [Net.complete]
    split
    · exact h
    · rename_i id _
      generalize hfe : fireEv ee f (AEv.svc (Uid.id id)) _ = r
      obtain ⟨b, s'⟩ := r
      have hs' : IdInv s' := by
        have := ih.fireEv (AEv.svc (Uid.id id)) ({ s with inProg := k :: s.inProg }.emit (.fire id)) ⟨h.below, h.nodup⟩
        rw [hfe] at this; exact this
      simp only
      repeat' split
      all_goals exact ⟨hs'.below, hs'.nodup⟩
  fireEv ev s h := by
    simp only [Net.fireEv]
    split
    · exact h
    split
    · exact h
    · rename_i idx hidx
      have h1 := h.eraseIdx idx
      split
      · exact h1.fr (fr_raise _ _)
      · split
        · rename_i p _ _
          have h3 := ih.evaluate _ (h1.fr (fr_addToken _ p))
          split
          · exact h3
          · exact h3.fr (fr_netAll _)
        · have : (s.awaited.eraseIdx idx).take idx ++ [ev] ++ (s.awaited.eraseIdx idx).drop idx = s.awaited :=
            reinsert_eq s.awaited ev idx hidx
          refine ⟨?_, ?_⟩
          · intro u hu
            have hu' : AEv.svc u ∈ (s.awaited.eraseIdx idx).take idx ++ [ev] ++ (s.awaited.eraseIdx idx).drop idx := hu
            rw [this] at hu'
            exact h.below u hu'
          · show (svcPart ((s.awaited.eraseIdx idx).take idx ++ [ev] ++ (s.awaited.eraseIdx idx).drop idx)).Nodup
            rw [this]; exact h.nodup

/-- every function of the evaluator keeps the identifier invariant, for every fuel -/
theorem ikeeps : ∀ f, IKeeps ee f
  | 0 => ikeeps_zero
  | f+1 => ikeeps_succ f (ikeeps f)

end Pfdl.Net
