import PfdlModel.Json
/-! `parseObj (prVal (.obj fs)) = some fs`: the JSON sub-grammar reads the tokens of every value back. -/
namespace Pfdl.Json

def startsComma : List JTok → Bool
  | .comma :: _ => true
  | _ => false

theorem prVal_len (v : JV) : 1 ≤ (prVal v).length := by
  cases v with
  | str s => simp [prVal]
  | num s => simp [prVal]
  | bool b => cases b <;> simp [prVal]
  | obj fs => simp [prVal]
  | arr xs => simp [prVal]

mutual
theorem pVal_pr : ∀ (f : Nat) (v : JV) (r : List JTok), (prVal v).length ≤ f → pVal f (prVal v ++ r) = some (v, r)
  | 0, v, _, hf => by have := prVal_len v; omega
  | f + 1, .str s, r, _ => by simp [prVal, pVal]
  | f + 1, .num s, r, _ => by simp [prVal, pVal]
  | f + 1, .bool true, r, _ => by simp [prVal, pVal]
  | f + 1, .bool false, r, _ => by simp [prVal, pVal]
  | f + 1, .obj [], r, _ => by simp [prVal, prPairs, pVal]
  | f + 1, .obj ((k, v) :: fs), r, hf => by
    have hlen : (prPairs ((k, v) :: fs)).length ≤ f := by
      simp only [prVal, List.length_cons, List.length_append] at hf; omega
    have h := pPairs_pr f ((k, v) :: fs) (.rbrace :: r) (by simp) hlen rfl
    have hs : ∃ rest, prPairs ((k, v) :: fs) = .str k :: .colon :: rest := by
      cases fs with
      | nil => exact ⟨_, rfl⟩
      | cons kv rest => exact ⟨_, rfl⟩
    obtain ⟨rest, hrest⟩ := hs
    simp only [prVal, List.cons_append, List.append_assoc, List.nil_append]
    rw [hrest] at h ⊢
    simp only [List.cons_append] at h ⊢
    simp only [pVal, h]
  | f + 1, .arr [], r, _ => by simp [prVal, prVals, pVal]
  | f + 1, .arr (x :: xs), r, hf => by
    have hlen : (prVals (x :: xs)).length < f := by
      simp only [prVal, List.length_cons, List.length_append] at hf; omega
    have h := pVals_pr f (x :: xs) (.rbr :: r) (by simp) hlen rfl
    simp only [prVal, List.cons_append, List.append_assoc, List.nil_append]
    have hne : ∀ t rest, prVals (x :: xs) = t :: rest → t ≠ .rbr := by
      intro t rest ht
      cases xs with
      | nil =>
        simp only [prVals] at ht
        cases x with
        | str s => simp [prVal] at ht; rw [← ht.1]; simp
        | num s => simp [prVal] at ht; rw [← ht.1]; simp
        | bool b => cases b <;> (simp [prVal] at ht; rw [← ht.1]; simp)
        | obj fs => simp [prVal] at ht; rw [← ht.1]; simp
        | arr ys => simp [prVal] at ht; rw [← ht.1]; simp
      | cons w ws =>
        simp only [prVals] at ht
        cases x with
        | str s => simp [prVal] at ht; rw [← ht.1]; simp
        | num s => simp [prVal] at ht; rw [← ht.1]; simp
        | bool b => cases b <;> (simp [prVal] at ht; rw [← ht.1]; simp)
        | obj fs => simp [prVal] at ht; rw [← ht.1]; simp
        | arr ys => simp [prVal] at ht; rw [← ht.1]; simp
    cases hp : prVals (x :: xs) with
    | nil =>
      exfalso
      cases xs with
      | nil => have := prVal_len x; simp [prVals] at hp; rw [hp] at this; simp at this
      | cons w ws => simp [prVals] at hp
    | cons t rest =>
      have hn := hne t rest hp
      rw [hp] at h
      simp only [List.cons_append] at h ⊢
      cases t <;> first | exact absurd rfl hn | simp only [pVal, h]
theorem pPairs_pr : ∀ (f : Nat) (fs : List (String × JV)) (r : List JTok), fs ≠ [] →
    (prPairs fs).length ≤ f → startsComma r = false → pPairs f (prPairs fs ++ r) = some (fs, r)
  | _, [], _, h, _, _ => absurd rfl h
  | 0, (k, v) :: fs, _, _, hf, _ => by cases fs <;> simp [prPairs] at hf
  | f + 1, [(k, v)], r, _, hf, hc => by
    have hlen : (prVal v).length ≤ f := by simp [prPairs] at hf; omega
    simp only [prPairs, List.cons_append, pPairs, pVal_pr f v r hlen]
    match r, hc with
    | [], _ => rfl
    | .str _ :: _, _ | .num _ :: _, _ | .tru :: _, _ | .fls :: _, _ | .lbrace :: _, _ | .rbrace :: _, _
    | .lbr :: _, _ | .rbr :: _, _ | .colon :: _, _ => rfl
  | f + 1, (k, v) :: kv :: rest, r, _, hf, hc => by
    have hlen : (prVal v).length ≤ f := by
      simp only [prPairs, List.length_cons, List.length_append] at hf; omega
    have hlen2 : (prPairs (kv :: rest)).length ≤ f := by
      simp only [prPairs, List.length_cons, List.length_append] at hf; omega
    simp only [prPairs, List.cons_append, List.append_assoc, pPairs, pVal_pr f v _ hlen,
      pPairs_pr f (kv :: rest) r (by simp) hlen2 hc]
theorem pVals_pr : ∀ (f : Nat) (xs : List JV) (r : List JTok), xs ≠ [] →
    (prVals xs).length < f → startsComma r = false → pVals f (prVals xs ++ r) = some (xs, r)
  | _, [], _, h, _, _ => absurd rfl h
  | 0, _ :: _, _, _, hf, _ => by omega
  | f + 1, [v], r, _, hf, hc => by
    have hlen : (prVal v).length ≤ f := by simp only [prVals] at hf; omega
    simp only [prVals, pVals, pVal_pr f v r hlen]
    match r, hc with
    | [], _ => rfl
    | .str _ :: _, _ | .num _ :: _, _ | .tru :: _, _ | .fls :: _, _ | .lbrace :: _, _ | .rbrace :: _, _
    | .lbr :: _, _ | .rbr :: _, _ | .colon :: _, _ => rfl
  | f + 1, v :: w :: rest, r, _, hf, hc => by
    have h1 := prVal_len v
    have hlen : (prVal v).length ≤ f := by
      simp only [prVals, List.length_cons, List.length_append] at hf; omega
    have hlen2 : (prVals (w :: rest)).length < f := by
      simp only [prVals, List.length_cons, List.length_append] at hf; omega
    simp only [prVals, List.append_assoc, List.cons_append, pVals, pVal_pr f v _ hlen,
      pVals_pr f (w :: rest) r (by simp) hlen2 hc]
end

/-- **round trip of struct literals** -/
theorem parseObj_pr (fs : List (String × JV)) : parseObj (prVal (.obj fs)) = some fs := by
  unfold parseObj
  have h := pVal_pr ((prVal (.obj fs)).length + 1) (.obj fs) [] (by omega)
  simp only [List.append_nil] at h
  rw [h]

end Pfdl.Json
