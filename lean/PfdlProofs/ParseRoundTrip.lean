import PfdlModel.ExprParse
/-! The parser model is a correct precedence parser for any table: a token list parses to `t` iff `t` is the
    canonical tree of the table with those tokens. -/
namespace Pfdl.ExprParse
open Pfdl Generated

/-! round trip -/

/-- the trees `expression(p)` produces -/
def Canon (T : Table) (u : Nat) : Nat → Expr → Prop
  | _, .paren e => Canon T u 0 e
  | _, .not e => Canon T u u e
  | p, .bin o l r => ∃ pr rp, T.lookup o = some (pr, rp) ∧ p ≤ pr ∧ Canon T u p l ∧
      (∀ q ∈ spine T u l, pr < q) ∧ Canon T u rp r
  | _, _ => True

/-- the next token does not continue a loop at level `q` -/
def Halts (T : Table) (q : Nat) : List Tok → Prop
  | .op o :: _ => match T.lookup o with
    | some (pr, _) => pr < q
    | none => True
  | _ => True

def need : Expr → Nat
  | .paren e => need e + 2
  | .not e => need e + 2
  | .bin _ l r => need l + need r + 2
  | _ => 1

mutual
theorem parseE_mono (T : Table) (u : Nat) : ∀ (f p : Nat) (ts : List Tok) (r : Expr × List Tok),
    parseE T u f p ts = some r → parseE T u (f + 1) p ts = some r
  | 0, _, _, _, h => by simp [parseE] at h
  | f + 1, p, .lpar :: rest, r, h => by
    simp only [parseE] at h ⊢
    cases h1 : parseE T u f 0 rest with
    | none => simp [h1] at h
    | some x =>
      obtain ⟨e, rest'⟩ := x
      rw [h1] at h
      rw [parseE_mono T u f 0 rest _ h1]
      cases rest' with
      | nil => simp at h
      | cons t rest'' =>
        cases t <;> simp at h ⊢
        exact loopE_mono T u f p _ _ r h
  | f + 1, p, .bang :: rest, r, h => by
    simp only [parseE] at h ⊢
    cases h1 : parseE T u f u rest with
    | none => simp [h1] at h
    | some x =>
      obtain ⟨e, rest'⟩ := x
      rw [h1] at h
      rw [parseE_mono T u f u rest _ h1]
      simp at h ⊢
      exact loopE_mono T u f p _ _ r h
  | f + 1, p, .atom a :: rest, r, h => by
    simp only [parseE] at h ⊢
    exact loopE_mono T u f p _ _ r h
  | f + 1, p, [], r, h => by simp [parseE] at h
  | f + 1, p, .rpar :: rest, r, h => by simp [parseE] at h
  | f + 1, p, .op o :: rest, r, h => by simp [parseE] at h
theorem loopE_mono (T : Table) (u : Nat) : ∀ (f p : Nat) (lhs : Expr) (ts : List Tok) (r : Expr × List Tok),
    loopE T u f p lhs ts = some r → loopE T u (f + 1) p lhs ts = some r
  | 0, _, _, _, _, h => by simp [loopE] at h
  | f + 1, p, lhs, .op o :: rest, r, h => by
    simp only [loopE] at h ⊢
    cases hl : T.lookup o with
    | none => simpa [hl] using h
    | some x =>
      obtain ⟨pr, rp⟩ := x
      simp only [hl] at h ⊢
      by_cases hp : p ≤ pr
      · simp only [hp, if_true] at h ⊢
        cases h1 : parseE T u f rp rest with
        | none => simp [h1] at h
        | some y =>
          obtain ⟨rhs, rest'⟩ := y
          rw [h1] at h
          rw [parseE_mono T u f rp rest _ h1]
          simp at h ⊢
          exact loopE_mono T u f p _ _ r h
      · simpa [hp] using h
  | f + 1, p, lhs, [], r, h => by simpa [loopE] using h
  | f + 1, p, lhs, .lpar :: rest, r, h => by simpa [loopE] using h
  | f + 1, p, lhs, .rpar :: rest, r, h => by simpa [loopE] using h
  | f + 1, p, lhs, .bang :: rest, r, h => by simpa [loopE] using h
  | f + 1, p, lhs, .atom a :: rest, r, h => by simpa [loopE] using h
end

theorem loopE_halt (T : Table) (u : Nat) (f q : Nat) (lhs : Expr) (more : List Tok) (h : Halts T q more) :
    loopE T u (f + 1) q lhs more = some (lhs, more) := by
  cases more with
  | nil => simp [loopE]
  | cons t rest =>
    cases t with
    | op o =>
      simp only [Halts] at h
      simp only [loopE]
      cases hl : T.lookup o with
      | none => simp
      | some x =>
        obtain ⟨pr, rp⟩ := x
        simp only [hl] at h
        have : ¬ q ≤ pr := by omega
        simp [this]
    | _ => simp [loopE]

theorem Halts.mono {T : Table} {q q' : Nat} {more : List Tok} (h : Halts T q more) (hq : q ≤ q') : Halts T q' more := by
  cases more with
  | nil => trivial
  | cons t rest =>
    cases t with
    | op o =>
      simp only [Halts] at h ⊢
      cases hl : T.lookup o with
      | none => simp
      | some x =>
        obtain ⟨pr, rp⟩ := x
        simp only [hl] at h ⊢
        omega
    | _ => trivial

theorem loopE_mono_le (T : Table) (u : Nat) {f g p : Nat} {lhs : Expr} {ts : List Tok} {r : Expr × List Tok}
    (h : loopE T u f p lhs ts = some r) (hfg : f ≤ g) : loopE T u g p lhs ts = some r := by
  induction hfg with
  | refl => exact h
  | step _ ih => exact loopE_mono T u _ p lhs ts r ih

theorem parseE_mono_le (T : Table) (u : Nat) {f g p : Nat} {ts : List Tok} {r : Expr × List Tok}
    (h : parseE T u f p ts = some r) (hfg : f ≤ g) : parseE T u g p ts = some r := by
  induction hfg with
  | refl => exact h
  | step _ ih => exact parseE_mono T u _ p ts r ih

/-- **continuation form of the round trip**: if the operator loop, resumed with the tree `t` as left
    operand, yields `r`, then parsing the tokens of `t` followed by the same rest yields `r` -/
theorem parse_flat_cont (T : Table) (u : Nat) : ∀ (t : Expr) (p f : Nat) (more : List Tok) (r : Expr × List Tok),
    Canon T u p t → (∀ q ∈ spine T u t, Halts T q more) →
    loopE T u f p t more = some r → parseE T u (f + need t) p (flat t ++ more) = some r
  | .paren e, p, f, more, r, hc, _, hl => by
    have hf : 1 ≤ f := by
      cases f with
      | zero => simp [loopE] at hl
      | succ n => omega
    simp only [Canon] at hc
    have h1 : parseE T u (f + need e) 0 (flat e ++ .rpar :: more) = some (e, .rpar :: more) := by
      apply parse_flat_cont T u e 0 f (.rpar :: more) _ hc (fun q _ => trivial)
      obtain ⟨n, rfl⟩ : ∃ n, f = n + 1 := ⟨f - 1, by omega⟩
      exact loopE_halt T u n 0 e _ trivial
    have h2 : loopE T u (f + need e + 1) p (.paren e) more = some r := loopE_mono_le T u hl (by omega)
    have hfl : flat (.paren e) ++ more = .lpar :: (flat e ++ .rpar :: more) := by simp [flat]
    rw [hfl, show f + need (.paren e) = (f + need e + 1) + 1 by simp [need]; omega]
    simp only [parseE]
    rw [parseE_mono_le T u h1 (by omega)]
    exact h2
  | .not e, p, f, more, r, hc, hs, hl => by
    have hf : 1 ≤ f := by
      cases f with
      | zero => simp [loopE] at hl
      | succ n => omega
    simp only [Canon] at hc
    have hsu : Halts T u more := hs u (by simp [spine])
    have hse : ∀ q ∈ spine T u e, Halts T q more := fun q hq => hs q (by simp [spine, hq])
    have h1 : parseE T u (f + need e) u (flat e ++ more) = some (e, more) := by
      apply parse_flat_cont T u e u f more _ hc hse
      obtain ⟨n, rfl⟩ : ∃ n, f = n + 1 := ⟨f - 1, by omega⟩
      exact loopE_halt T u n u e _ hsu
    have h2 : loopE T u (f + need e + 1) p (.not e) more = some r := loopE_mono_le T u hl (by omega)
    have hfl : flat (.not e) ++ more = .bang :: (flat e ++ more) := by simp [flat]
    rw [hfl, show f + need (.not e) = (f + need e + 1) + 1 by simp [need]; omega]
    simp only [parseE]
    rw [parseE_mono_le T u h1 (by omega)]
    exact h2
  | .bin o l r', p, f, more, r, hc, hs, hl => by
    have hf : 1 ≤ f := by
      cases f with
      | zero => simp [loopE] at hl
      | succ n => omega
    simp only [Canon] at hc
    obtain ⟨pr, rp, hlk, hp, hcl, hsl, hcr⟩ := hc
    have hsp : spine T u (.bin o l r') = rp :: spine T u r' := by simp [spine, hlk]
    have hrp : Halts T rp more := hs rp (by simp [hsp])
    have hsr : ∀ q ∈ spine T u r', Halts T q more := fun q hq => hs q (by simp [hsp, hq])
    -- the right operand
    have h1 : parseE T u (f + need r') rp (flat r' ++ more) = some (r', more) := by
      apply parse_flat_cont T u r' rp f more _ hcr hsr
      obtain ⟨n, rfl⟩ : ∃ n, f = n + 1 := ⟨f - 1, by omega⟩
      exact loopE_halt T u n rp r' _ hrp
    -- the loop after the left operand takes the operator
    have h2 : loopE T u (f + need r' + 1) p l (.op o :: (flat r' ++ more)) = some r := by
      simp only [loopE, hlk, hp, if_true]
      rw [h1]
      exact loopE_mono_le T u hl (by omega)
    have hsl' : ∀ q ∈ spine T u l, Halts T q (.op o :: (flat r' ++ more)) := by
      intro q hq
      simp only [Halts, hlk]
      exact hsl q hq
    have h3 := parse_flat_cont T u l p (f + need r' + 1) (.op o :: (flat r' ++ more)) r hcl hsl' h2
    have hfl : flat (.bin o l r') ++ more = flat l ++ .op o :: (flat r' ++ more) := by simp [flat]
    rw [hfl]
    exact parseE_mono_le T u h3 (by simp [need]; omega)
  | .lit v, p, f, more, r, _, _, hl => by
    simpa [flat, need, parseE] using hl
  | .path q, p, f, more, r, _, _, hl => by
    simpa [flat, need, parseE] using hl
  | .none, p, f, more, r, _, _, hl => by
    simpa [flat, need, parseE] using hl

theorem need_le (t : Expr) : need t ≤ 2 * (flat t).length := by
  induction t with
  | paren e ih => simp [need, flat]; omega
  | not e ih => simp [need, flat]; omega
  | bin o l r ihl ihr => simp [need, flat]; omega
  | lit v => simp [need, flat]
  | path p => simp [need, flat]
  | none => simp [need, flat]

/-- **Round trip**: every tree that is canonical for the table is recovered from its tokens. -/
theorem parseWith_flat (T : Table) (u : Nat) (t : Expr) (hc : Canon T u 0 t) : parseWith T u (flat t) = some t := by
  have h := parse_flat_cont T u t 0 1 [] (t, []) hc (fun q _ => trivial) (by simp [loopE])
  simp only [List.append_nil] at h
  have h' := parseE_mono_le T u h (show 1 + need t ≤ 2 * (flat t).length + 2 by have := need_le t; omega)
  simp [parseWith, h']

/-- atoms are leaves (values), never compound trees -/
def TokOk : List Tok → Prop
  | [] => True
  | .atom a :: rest => isLeaf a = true ∧ TokOk rest
  | _ :: rest => TokOk rest

theorem TokOk.tail {t : Tok} {ts : List Tok} (h : TokOk (t :: ts)) : TokOk ts := by
  cases t <;> simp [TokOk] at h <;> first | exact h | exact h.2

theorem halts_of_loop_return (T : Table) (p : Nat) (ts : List Tok)
    (h : ∀ o rest, ts = .op o :: rest → ∀ pr rp, T.lookup o = some (pr, rp) → ¬ p ≤ pr) : Halts T p ts := by
  cases ts with
  | nil => trivial
  | cons t rest =>
    cases t with
    | op o =>
      simp only [Halts]
      cases hl : T.lookup o with
      | none => trivial
      | some x =>
        obtain ⟨pr, rp⟩ := x
        have := h o rest rfl pr rp hl
        simp only
        omega
    | _ => trivial

/-- what is known when a parse returns: the result is canonical, its tokens are the consumed prefix, and
    neither the loop at level `p` nor any loop open along the right edge would have continued -/
structure Sound (T : Table) (u : Nat) (p : Nat) (consumedFrom : List Tok) (t : Expr) (rest : List Tok) : Prop where
  canon : Canon T u p t
  toks : consumedFrom = flat t ++ rest
  inner : ∀ q ∈ spine T u t, Halts T q rest
  outer : Halts T p rest
  ok : TokOk rest

mutual
theorem parseE_sound (T : Table) (u : Nat) : ∀ (f p : Nat) (ts : List Tok) (t : Expr) (rest : List Tok),
    TokOk ts → parseE T u f p ts = some (t, rest) → Sound T u p ts t rest
  | 0, _, _, _, _, _, h => by simp [parseE] at h
  | f + 1, p, .lpar :: ts, t, rest, hok, h => by
    simp only [parseE] at h
    cases h1 : parseE T u f 0 ts with
    | none => simp [h1] at h
    | some x =>
      obtain ⟨e, rest'⟩ := x
      rw [h1] at h
      cases rest' with
      | nil => simp at h
      | cons tk rest'' =>
        cases tk <;> simp at h
        have s1 := parseE_sound T u f 0 ts e _ hok.tail h1
        have hok'' : TokOk rest'' := s1.ok.tail
        have s2 := loopE_sound T u f p (.paren e) rest'' t rest (by simpa [Canon] using s1.canon)
          (by simp [spine]) hok'' h
        refine ⟨s2.canon, ?_, s2.inner, s2.outer, s2.ok⟩
        rw [s1.toks]
        have := s2.toks
        simp only [flat, List.cons_append, List.append_assoc, List.nil_append] at this ⊢
        exact this
  | f + 1, p, .bang :: ts, t, rest, hok, h => by
    simp only [parseE] at h
    cases h1 : parseE T u f u ts with
    | none => simp [h1] at h
    | some x =>
      obtain ⟨e, rest'⟩ := x
      rw [h1] at h
      simp at h
      have s1 := parseE_sound T u f u ts e rest' hok.tail h1
      have hsp : ∀ q ∈ spine T u (.not e), Halts T q rest' := by
        intro q hq
        simp only [spine, List.mem_cons] at hq
        rcases hq with rfl | hq
        · exact s1.outer
        · exact s1.inner q hq
      have s2 := loopE_sound T u f p (.not e) rest' t rest (by simpa [Canon] using s1.canon) hsp s1.ok h
      refine ⟨s2.canon, ?_, s2.inner, s2.outer, s2.ok⟩
      rw [s1.toks]
      have := s2.toks
      simp only [flat, List.cons_append] at this ⊢
      rw [this]
  | f + 1, p, .atom a :: ts, t, rest, hok, h => by
    simp only [parseE] at h
    have hleaf : isLeaf a = true := by simp [TokOk] at hok; exact hok.1
    have hfa : flat a = [.atom a] := by cases a <;> simp [isLeaf] at hleaf <;> simp [flat]
    have hca : Canon T u p a := by cases a <;> simp [isLeaf] at hleaf <;> simp [Canon]
    have hsa : spine T u a = [] := by cases a <;> simp [isLeaf] at hleaf <;> simp [spine]
    have s2 := loopE_sound T u f p a ts t rest hca (by simp [hsa]) hok.tail h
    refine ⟨s2.canon, ?_, s2.inner, s2.outer, s2.ok⟩
    have := s2.toks
    rw [hfa] at this
    simpa using this
  | f + 1, p, [], t, rest, _, h => by simp [parseE] at h
  | f + 1, p, .rpar :: ts, t, rest, _, h => by simp [parseE] at h
  | f + 1, p, .op o :: ts, t, rest, _, h => by simp [parseE] at h
theorem loopE_sound (T : Table) (u : Nat) : ∀ (f p : Nat) (lhs : Expr) (ts : List Tok) (t : Expr) (rest : List Tok),
    Canon T u p lhs → (∀ q ∈ spine T u lhs, Halts T q ts) → TokOk ts →
    loopE T u f p lhs ts = some (t, rest) → Sound T u p (flat lhs ++ ts) t rest
  | 0, _, _, _, _, _, _, _, _, h => by simp [loopE] at h
  | f + 1, p, lhs, .op o :: ts, t, rest, hc, hs, hok, h => by
    simp only [loopE] at h
    cases hl : T.lookup o with
    | none =>
      simp only [hl] at h
      simp at h
      obtain ⟨rfl, rfl⟩ := h
      exact ⟨hc, rfl, hs, by simp [Halts, hl], hok⟩
    | some x =>
      obtain ⟨pr, rp⟩ := x
      simp only [hl] at h
      by_cases hp : p ≤ pr
      · simp only [hp, if_true] at h
        cases h1 : parseE T u f rp ts with
        | none => simp [h1] at h
        | some y =>
          obtain ⟨rhs, rest'⟩ := y
          rw [h1] at h
          simp at h
          have s1 := parseE_sound T u f rp ts rhs rest' hok.tail h1
          have hcb : Canon T u p (.bin o lhs rhs) := by
            simp only [Canon]
            refine ⟨pr, rp, hl, hp, hc, ?_, s1.canon⟩
            intro q hq
            have := hs q hq
            simpa [Halts, hl] using this
          have hsb : ∀ q ∈ spine T u (.bin o lhs rhs), Halts T q rest' := by
            intro q hq
            simp only [spine, hl, List.mem_cons] at hq
            rcases hq with rfl | hq
            · exact s1.outer
            · exact s1.inner q hq
          have s2 := loopE_sound T u f p (.bin o lhs rhs) rest' t rest hcb hsb s1.ok h
          refine ⟨s2.canon, ?_, s2.inner, s2.outer, s2.ok⟩
          rw [s1.toks]
          have := s2.toks
          simp only [flat, List.append_assoc, List.cons_append] at this ⊢
          rw [this]
      · simp only [hp, if_false] at h
        simp at h
        obtain ⟨rfl, rfl⟩ := h
        refine ⟨hc, rfl, hs, ?_, hok⟩
        simp only [Halts, hl]
        omega
  | f + 1, p, lhs, [], t, rest, hc, hs, hok, h => by
    simp [loopE] at h
    obtain ⟨rfl, rfl⟩ := h
    exact ⟨hc, rfl, hs, trivial, hok⟩
  | f + 1, p, lhs, .lpar :: ts, t, rest, hc, hs, hok, h => by
    simp [loopE] at h
    obtain ⟨rfl, rfl⟩ := h
    exact ⟨hc, rfl, hs, trivial, hok⟩
  | f + 1, p, lhs, .rpar :: ts, t, rest, hc, hs, hok, h => by
    simp [loopE] at h
    obtain ⟨rfl, rfl⟩ := h
    exact ⟨hc, rfl, hs, trivial, hok⟩
  | f + 1, p, lhs, .bang :: ts, t, rest, hc, hs, hok, h => by
    simp [loopE] at h
    obtain ⟨rfl, rfl⟩ := h
    exact ⟨hc, rfl, hs, trivial, hok⟩
  | f + 1, p, lhs, .atom a :: ts, t, rest, hc, hs, hok, h => by
    simp [loopE] at h
    obtain ⟨rfl, rfl⟩ := h
    exact ⟨hc, rfl, hs, trivial, hok⟩
end

/-- **The parser computes exactly the canonical reading**: a token list (whose atoms are values) parses to
    `t` iff `t` is canonical for the table and its tokens are the list. -/
theorem parseWith_iff (T : Table) (u : Nat) (ts : List Tok) (hok : TokOk ts) (t : Expr) :
    parseWith T u ts = some t ↔ Canon T u 0 t ∧ flat t = ts := by
  constructor
  · intro h
    unfold parseWith at h
    cases h1 : parseE T u (2 * ts.length + 2) 0 ts with
    | none => simp [h1] at h
    | some x =>
      obtain ⟨e, rest⟩ := x
      rw [h1] at h
      cases rest with
      | nil =>
        simp at h
        subst h
        have s := parseE_sound T u _ 0 ts e [] hok h1
        exact ⟨s.canon, by simpa using s.toks.symm⟩
      | cons a b => simp at h
  · rintro ⟨hc, rfl⟩
    exact parseWith_flat T u t hc

end Pfdl.ExprParse
