import PfdlProofs.Trace
set_option linter.unusedSimpArgs false
/-! The events emitted by `enter…`: trace accounting by mutual induction. -/
namespace Pfdl

theorem noteOf_kind (k : Kind) (c : CallSite) (id : Nat) (ctx : Option Nat) (ps : List Param) : (noteOf k c id ctx ps).kind = k := rfl
theorem noteOf_id (k : Kind) (c : CallSite) (id : Nat) (ctx : Option Nat) (ps : List Param) : (noteOf k c id ctx ps).id = id := rfl
theorem noteOf_ctx (k : Kind) (c : CallSite) (id : Nat) (ctx : Option Nat) (ps : List Param) : (noteOf k c id ctx ps).ctx = ctx := rfl

theorem ssIds_cons (e : Ev) (es : List Ev) : ssIds (e :: es) = (Ev.ssId e).toList ++ ssIds es := by
  simp only [ssIds, List.filterMap_cons]; cases Ev.ssId e <;> simp
theorem sfIds_cons (e : Ev) (es : List Ev) : sfIds (e :: es) = (Ev.sfId e).toList ++ sfIds es := by
  simp only [sfIds, List.filterMap_cons]; cases Ev.sfId e <;> simp
theorem tsIds_cons (e : Ev) (es : List Ev) : tsIds (e :: es) = (Ev.tsId e).toList ++ tsIds es := by
  simp only [tsIds, List.filterMap_cons]; cases Ev.tsId e <;> simp
theorem tfIds_cons (e : Ev) (es : List Ev) : tfIds (e :: es) = (Ev.tfId e).toList ++ tfIds es := by
  simp only [tfIds, List.filterMap_cons]; cases Ev.tfId e <;> simp
theorem rootNotes_cons (e : Ev) (es : List Ev) : rootNotes (e :: es) = (Ev.rootNote e).toList ++ rootNotes es := by
  simp only [rootNotes, List.filterMap_cons]; cases Ev.rootNote e <;> simp

/-- evaluate the projections on explicit event lists -/
macro "proj_simp" : tactic =>
  `(tactic| simp only [ssIds_cons, sfIds_cons, tsIds_cons, tfIds_cons, rootNotes_cons, ssIds_nil, sfIds_nil, tsIds_nil,
      tfIds_nil, rootNotes_nil, Ev.ssId, Ev.sfId, Ev.tsId, Ev.tfId, Ev.rootNote, Option.toList, List.append_nil,
      List.nil_append, List.singleton_append])

theorem sfIds_note (n : Note) : sfIds [Ev.note n] = if n.kind = .sf then [n.id] else [] := by
  by_cases h : n.kind = .sf <;> simp [sfIds, Ev.sfId, Ev.tsId, Ev.tfId, Ev.rootNote, h]
theorem tsIds_note (n : Note) : tsIds [Ev.note n] = if n.kind = .ts then [n.id] else [] := by
  by_cases h : n.kind = .ts <;> simp [tsIds, Ev.sfId, Ev.tsId, Ev.tfId, Ev.rootNote, h]
theorem tfIds_note (n : Note) : tfIds [Ev.note n] = if n.kind = .tf then [n.id] else [] := by
  by_cases h : n.kind = .tf <;> simp [tfIds, Ev.sfId, Ev.tsId, Ev.tfId, Ev.rootNote, h]
theorem rootNotes_note (n : Note) : rootNotes [Ev.note n] = if n.ctx = none then [n] else [] := by
  by_cases h : n.ctx = none <;> simp [rootNotes, Ev.sfId, Ev.tsId, Ev.tfId, Ev.rootNote, h]
theorem rootNotes_ann (n : Note) : rootNotes [Ev.ann n] = if n.ctx = none then [n] else [] := by
  by_cases h : n.ctx = none <;> simp [rootNotes, Ev.sfId, Ev.tsId, Ev.tfId, Ev.rootNote, h]
@[simp] theorem ssIds_note (n : Note) : ssIds [Ev.note n] = [] := rfl

/-- a service is announced and waits -/
theorem TraceOk.svc_wait (s : St) (nS nF : Note) (k : Nat)
    (hS : nS.id = s.ctrS ∧ nS.ctx ≠ none) (hF : nF.id = s.ctrS ∧ nF.kind = .sf ∧ nF.ctx ≠ none) :
    TraceOk s (.wait s.ctrS nF)
      (({ s with ctrS := s.ctrS + 1, nann := k, awaited := s.awaited ++ [s.ctrS] } : St).emit (.ann nS) |>.emit (.late nS)) := by
  have ho : (({ s with ctrS := s.ctrS + 1, nann := k, awaited := s.awaited ++ [s.ctrS] } : St).emit (.ann nS) |>.emit (.late nS)).out
      = s.out ++ [Ev.ann nS, Ev.late nS] := by simp [St.emit]
  refine ⟨by rw [ho]; exact List.prefix_append _ _, by simp, by simp, ?_, ?_, ?_, ?_, ?_, ?_, ?_⟩
  · rw [ho]; simp only [ssIds_append]; proj_simp; simp [hS.1, List.range'_one]
  · rw [ho]; simp only [tsIds_append]; proj_simp; simp
  · intro j; rw [ho]; simp only [ssIds_append, sfIds_append]; proj_simp; simp [hS.1, List.count_append]; omega
  · intro j; rw [ho]; simp only [tsIds_append, tfIds_append]; proj_simp; simp
  · rw [ho]; simp only [rootNotes_append]; proj_simp; simp [hS.2]
  · simp [Run.WF, hF]
  · simp

/-- a service is announced and reported finished from inside the announcement -/
theorem TraceOk.svc_imm (s : St) (nS nF : Note) (k : Nat) (aw : List Nat) (pd : List (Nat × Note))
    (hS : nS.id = s.ctrS ∧ nS.ctx ≠ none) (hF : nF.id = s.ctrS ∧ nF.kind = .sf ∧ nF.ctx ≠ none) :
    TraceOk s .fin
      { (({ s with ctrS := s.ctrS + 1, nann := k, awaited := s.awaited ++ [s.ctrS] } : St).emit (.ann nS)
          |>.emits [.fire s.ctrS, .note nF]) with awaited := aw, pend := pd } := by
  have ho : ({ (({ s with ctrS := s.ctrS + 1, nann := k, awaited := s.awaited ++ [s.ctrS] } : St).emit (.ann nS)
          |>.emits [.fire s.ctrS, .note nF]) with awaited := aw, pend := pd } : St).out
      = s.out ++ [Ev.ann nS, Ev.fire s.ctrS, Ev.note nF] := by simp [St.emit, St.emits]
  refine ⟨by rw [ho]; exact List.prefix_append _ _, by simp, by simp, ?_, ?_, ?_, ?_, ?_, ?_, ?_⟩
  · rw [ho]; simp only [ssIds_append]; proj_simp; simp [hS.1, List.range'_one]
  · rw [ho]; simp only [tsIds_append]; proj_simp; simp [hF.2.1]
  · intro j; rw [ho]; simp only [ssIds_append, sfIds_append]; proj_simp; simp [hS.1, hF.2.1, hF.1, List.count_append]; omega
  · intro j; rw [ho]; simp only [tsIds_append, tfIds_append]; proj_simp; simp [hF.2.1]
  · rw [ho]; simp only [rootNotes_append]; proj_simp; simp [hS.2, hF.2.2]
  · simp
  · simp

/-- the state in which the body of a called task is entered -/
def St.callSt (s : St) (nS : Note) : St := ({ s with ctrT := s.ctrT + 1 } : St).emit (.note nS)

/-- a called task is announced; its body leaves `r`; it stays open -/
theorem TraceOk.call_open (s s1 : St) (r : Run) (nS nF : Note)
    (hS : nS.kind = .ts ∧ nS.id = s.ctrT ∧ nS.ctx ≠ none) (hF : nF.kind = .tf ∧ nF.id = s.ctrT ∧ nF.ctx ≠ none)
    (h : TraceOk (s.callSt nS) r s1) : TraceOk s (.call nF r) s1 := by
  have h0 : (s.callSt nS).out = s.out ++ [.note nS] ∧ (s.callSt nS).ctrT = s.ctrT + 1 ∧ (s.callSt nS).ctrS = s.ctrS :=
    ⟨rfl, rfl, rfl⟩
  have hpre : s.out <+: (s.callSt nS).out := by rw [h0.1]; exact List.prefix_append _ _
  refine ⟨List.IsPrefix.trans hpre h.pre, by have := h.ctrS; omega, by have := h.ctrT; omega, ?_, ?_, ?_, ?_, ?_, ?_, ?_⟩
  · have := h.ss; rw [h0.1, h0.2.2] at this; simpa [hS.1] using this
  · have := h.ts
    rw [h0.1, h0.2.1] at this
    simp [tsIds_note, hS.1, hS.2.1] at this
    rw [this]
    have hle := h.ctrT
    rw [h0.2.1] at hle
    have : s1.ctrT - s.ctrT = 1 + (s1.ctrT - (s.ctrT + 1)) := by omega
    rw [this, ← List.range'_append]
    simp [List.range'_one, List.append_assoc]
  · intro j; have := h.sf j; rw [h0.1] at this; simpa [sfIds_note, hS.1] using this
  · intro j
    have := h.tf j
    rw [h0.1] at this
    simp [tfIds_note, tsIds_note, hS.1, hS.2.1, List.count_append] at this
    rw [Run.openTasks_call, show (nF.id :: r.openTasks) = [nF.id] ++ r.openTasks from rfl, List.count_append, hF.2.1]
    omega
  · have := h.root; rw [h0.1] at this; simpa [rootNotes_note, hS.2.2] using this
  · simp [Run.WF, hF.1, hF.2.2, h.wf]
  · intro j hj
    have := h.fresh j (by simpa using hj)
    rw [h0.2.2] at this; exact this

/-- … or its body finished within the call and it is reported finished -/
theorem TraceOk.call_fin (s s1 : St) (nS nF : Note)
    (hS : nS.kind = .ts ∧ nS.id = s.ctrT ∧ nS.ctx ≠ none) (hF : nF.kind = .tf ∧ nF.id = s.ctrT ∧ nF.ctx ≠ none)
    (h : TraceOk (s.callSt nS) .fin s1) : TraceOk s .fin (s1.emit (.note nF)) := by
  have h0 : (s.callSt nS).out = s.out ++ [.note nS] ∧ (s.callSt nS).ctrT = s.ctrT + 1 ∧ (s.callSt nS).ctrS = s.ctrS :=
    ⟨rfl, rfl, rfl⟩
  have hpre : s.out <+: (s.callSt nS).out := by rw [h0.1]; exact List.prefix_append _ _
  refine ⟨List.IsPrefix.trans hpre (List.IsPrefix.trans h.pre (by simp)), by have := h.ctrS; simp; omega,
    by have := h.ctrT; simp; omega, ?_, ?_, ?_, ?_, ?_, ?_, ?_⟩
  · have := h.ss; rw [h0.1, h0.2.2] at this; simpa [hS.1, hF.1] using this
  · have := h.ts
    rw [h0.1, h0.2.1] at this
    simp [tsIds_note, hS.1, hS.2.1] at this
    simp [tsIds_note, hF.1]
    rw [this]
    have hle := h.ctrT
    rw [h0.2.1] at hle
    have : s1.ctrT - s.ctrT = 1 + (s1.ctrT - (s.ctrT + 1)) := by omega
    rw [this, ← List.range'_append]
    simp [List.range'_one, List.append_assoc]
  · intro j; have := h.sf j; rw [h0.1] at this; simpa [sfIds_note, hS.1, hF.1] using this
  · intro j
    have := h.tf j
    rw [h0.1] at this
    simp [tfIds_note, tsIds_note, hS.1, hS.2.1, List.count_append] at this
    simp [tfIds_note, tsIds_note, hF.1, hF.2.1, List.count_append]
    omega
  · have := h.root; rw [h0.1] at this; simpa [rootNotes_note, hS.2.2, hF.2.2] using this
  · simp
  · simp

mutual
theorem enter_trace (P : Prog) (ee : EE) : (f : Nat) → (st : Stmt) → (env : Env) → (s : St) →
    TraceOk s (enter P ee f st env s).1 (enter P ee f st env s).2
  | 0, _, _, s => by simp only [enter]; exact TraceOk.stuck_of_quiet _ (Quiet.setStuck s _)
  | f+1, .svc c, env, s => by
      simp only [enter]
      split
      · exact TraceOk.svc_imm s _ _ _ _ _ ⟨rfl, by simp [noteOf_ctx]⟩ ⟨rfl, rfl, by simp [noteOf_ctx]⟩
      · exact TraceOk.svc_wait s _ _ _ ⟨rfl, by simp [noteOf_ctx]⟩ ⟨rfl, rfl, by simp [noteOf_ctx]⟩
  | f+1, .call c, env, s => by
      simp only [enter]; exact enterCall_trace P ee f c env _ _ s
  | f+1, .par cs l, env, s => by
      simp only [enter]
      have h := enterCalls_trace P ee f cs env env.inLoop (fun _ => env.binds) 0 s.pend.length true s
      split
      · rename_i hall; exact h.toFin hall
      · exact h.toPar
  | f+1, .cond e p q l, env, s => by
      simp only [enter]
      have hq := Quiet.evalExpr s ee e env.ctx
      split
      · exact (TraceOk.stuck_of_quiet _ (Quiet.setStuck _ _)).of_quiet_left hq
      · split
        · exact (enterBlk_trace P ee f p env _).of_quiet_left hq
        · exact (enterBlk_trace P ee f q env _).of_quiet_left hq
  | f+1, .cloop v lim body l, env, s => by
      simp only [enter]; exact iterC_trace P ee f 0 v lim body env s
  | f+1, .wloop e body l, env, s => by
      simp only [enter]; exact iterW_trace P ee f e body env s
  | f+1, .ploop v lim c l, env, s => by
      simp only [enter]
      have hq := Quiet.readLimit s ee lim env.ctx
      split
      · exact (TraceOk.stuck_of_quiet _ (Quiet.setStuck _ _)).of_quiet_left hq
      · split
        · exact TraceOk.fin_of_quiet hq
        · rename_i n _ _
          have h := enterCalls_trace P ee f (List.replicate n.floor.toNat c) env false
            (fun k => (v, k) :: env.binds) 0 (s.readLimit ee lim env.ctx).2.pend.length true (s.readLimit ee lim env.ctx).2
          split
          · rename_i hall; exact (h.toFin hall).of_quiet_left hq
          · exact h.toPar.of_quiet_left hq
theorem enterBlk_trace (P : Prog) (ee : EE) : (f : Nat) → (b : List Stmt) → (env : Env) → (s : St) →
    TraceOk s (enterBlk P ee f b env s).1 (enterBlk P ee f b env s).2
  | 0, _, _, s => by simp only [enterBlk]; exact TraceOk.stuck_of_quiet _ (Quiet.setStuck s _)
  | f+1, [], _, s => by simp only [enterBlk]; exact TraceOk.fin_of_quiet (Quiet.refl s)
  | f+1, st :: rest, env, s => by
      simp only [enterBlk]
      have h := enter_trace P ee f st env s
      split
      · rename_i s1 heq
        rw [heq] at h
        exact h.seq (enterBlk_trace P ee f rest env s1)
      · rename_i r s1 hne heq
        rw [heq] at h
        exact h.wrap (by simp) (by simp) (by simp)
theorem enterCall_trace (P : Prog) (ee : EE) : (f : Nat) → (c : CallSite) → (env : Env) → (il : Bool) →
    (b : List (String × Nat)) → (s : St) →
    TraceOk s (enterCall P ee f c env il b s).1 (enterCall P ee f c env il b s).2
  | 0, _, _, _, _, s => by simp only [enterCall]; exact TraceOk.stuck_of_quiet _ (Quiet.setStuck s _)
  | f+1, c, env, il, b, s => by
      simp only [enterCall]
      split
      · exact TraceOk.stuck_of_quiet _ (Quiet.setStuck s _)
      · rename_i t _
        have h := enterBlk_trace P ee f t.body { ctx := s.ctrT, inLoop := il, binds := [] }
          ({ s with ctrT := s.ctrT + 1 }.emit (.note (noteOf .ts c s.ctrT (some env.ctx) (substParams b c.ins))))
        split
        · rename_i s1 heq
          rw [heq] at h
          exact TraceOk.call_fin s s1 (noteOf .ts c s.ctrT (some env.ctx) (substParams b c.ins))
            (noteOf .tf c s.ctrT (some env.ctx) (substParams b c.ins))
            ⟨rfl, rfl, by simp [noteOf_ctx]⟩ ⟨rfl, rfl, by simp [noteOf_ctx]⟩ h
        · rename_i r s1 hne heq
          rw [heq] at h
          exact TraceOk.call_open s s1 r (noteOf .ts c s.ctrT (some env.ctx) (substParams b c.ins))
            (noteOf .tf c s.ctrT (some env.ctx) (substParams b c.ins))
            ⟨rfl, rfl, by simp [noteOf_ctx]⟩ ⟨rfl, rfl, by simp [noteOf_ctx]⟩ h
theorem enterCalls_trace (P : Prog) (ee : EE) : (f : Nat) → (cs : List CallSite) → (env : Env) → (il : Bool) →
    (bo : Nat → List (String × Nat)) → (k h : Nat) → (af : Bool) → (s : St) →
    TraceOkL s (enterCalls P ee f cs env il bo k h af s).1 (enterCalls P ee f cs env il bo k h af s).2
  | 0, _, _, _, _, _, _, _, s => by
      simp only [enterCalls]
      exact ⟨by simp, by simp, by simp, by simp, by simp, by simp, by simp, by simp, by simp, by simp⟩
  | f+1, [], _, _, _, _, _, _, s => by simp only [enterCalls]; exact TraceOkL.nil s
  | f+1, c :: cs, env, il, bo, k, h, af, s => by
      simp only [enterCalls]
      have h1 := enterCall_trace P ee f c env il (bo k) s
      split
      · exact TraceOkL.cons h1 (enterCalls_trace P ee f cs env il bo (k+1) h _ _)
      · exact TraceOkL.cons h1 ((enterCalls_trace P ee f cs env il bo (k+1) h _ _).of_quiet_left (Quiet.flush _ h))
theorem iterC_trace (P : Prog) (ee : EE) : (f : Nat) → (c : Nat) → (v : String) → (lim : Limit) →
    (body : List Stmt) → (env : Env) → (s : St) →
    TraceOk s (iterC P ee f c v lim body env s).1 (iterC P ee f c v lim body env s).2
  | 0, _, _, _, _, _, s => by simp only [iterC]; exact TraceOk.stuck_of_quiet _ (Quiet.setStuck s _)
  | f+1, c, v, lim, body, env, s => by
      simp only [iterC]
      have hq := Quiet.readLimit s ee lim env.ctx
      split
      · exact (TraceOk.stuck_of_quiet _ (Quiet.setStuck _ _)).of_quiet_left hq
      · split
        · have h := enterBlk_trace P ee f body { env with inLoop := true, binds := (v, c) :: env.binds }
            (s.readLimit ee lim env.ctx).2
          split
          · rename_i s1 heq
            rw [heq] at h
            exact (h.seq (iterC_trace P ee f (c+1) v lim body env s1)).of_quiet_left hq
          · rename_i r s1 hne heq
            rw [heq] at h
            exact (h.wrap (by simp) (by simp) (by simp)).of_quiet_left hq
        · exact TraceOk.fin_of_quiet hq
theorem iterW_trace (P : Prog) (ee : EE) : (f : Nat) → (e : Expr) → (body : List Stmt) → (env : Env) → (s : St) →
    TraceOk s (iterW P ee f e body env s).1 (iterW P ee f e body env s).2
  | 0, _, _, _, s => by simp only [iterW]; exact TraceOk.stuck_of_quiet _ (Quiet.setStuck s _)
  | f+1, e, body, env, s => by
      simp only [iterW]
      have hq := Quiet.evalExpr s ee e env.ctx
      split
      · exact (TraceOk.stuck_of_quiet _ (Quiet.setStuck _ _)).of_quiet_left hq
      · split
        · have h := enterBlk_trace P ee f body { env with inLoop := true } (s.evalExpr ee e env.ctx).2
          split
          · rename_i s1 heq
            rw [heq] at h
            exact (h.seq (iterW_trace P ee f e body env s1)).of_quiet_left hq
          · rename_i r s1 hne heq
            rw [heq] at h
            exact (h.wrap (by simp) (by simp) (by simp)).of_quiet_left hq
        · exact TraceOk.fin_of_quiet hq
end

end Pfdl
