import PfdlProofs.Account
/-! Accounting for `deliver`: exactly one waiting leaf is consumed, what it enables is accounted for
    like any entered statement. -/
namespace Pfdl

structure DeliverOk (i : Nat) (s : St) (r : Run) (s' : St) (r' : Run) : Prop where
  cnt : i ∈ s.awaited → ∀ j, s'.awaited.count j + r.waiting.count j = s.awaited.count j + r'.waiting.count j
  ctrS : s.ctrS ≤ s'.ctrS
  ctrT : s.ctrT ≤ s'.ctrT
  clean : s'.stuck = none → (r.Clean → r'.Clean) ∧ s.stuck = none
  hit : i ∈ r.waiting

structure DeliverOkL (i : Nat) (s : St) (rs : List Run) (s' : St) (rs' : List Run) : Prop where
  cnt : i ∈ s.awaited → ∀ j, s'.awaited.count j + (Run.waitingL rs).count j = s.awaited.count j + (Run.waitingL rs').count j
  ctrS : s.ctrS ≤ s'.ctrS
  ctrT : s.ctrT ≤ s'.ctrT
  clean : s'.stuck = none → (Run.CleanL rs → Run.CleanL rs') ∧ s.stuck = none
  hit : i ∈ Run.waitingL rs

theorem DeliverOk.wrap {i : Nat} {s s' : St} {r r' q q' : Run} (h : DeliverOk i s r s' r')
    (hw : q.waiting = r.waiting) (hw' : q'.waiting = r'.waiting) (hc : q.Clean ↔ r.Clean) (hc' : q'.Clean ↔ r'.Clean) :
    DeliverOk i s q s' q' :=
  ⟨by simpa [hw, hw'] using h.cnt, h.ctrS, h.ctrT,
   fun hst => by have := h.clean hst; exact ⟨fun a => hc'.2 (this.1 (hc.1 a)), this.2⟩,
   by simpa [hw] using h.hit⟩

/-- the delivered leaf finished its statement, then `enter…` ran what follows -/
theorem DeliverOk.thenEnter {i : Nat} {s s1 s' : St} {r q r' : Run} (h : DeliverOk i s r s1 .fin) (g : EnterOk s1 r' s')
    (hw : q.waiting = r.waiting) (hc : q.Clean ↔ r.Clean) : DeliverOk i s q s' r' :=
  ⟨fun hi j => by have a := h.cnt hi j; have b := g.cnt j; simp at a; rw [hw]; omega,
   Nat.le_trans h.ctrS g.ctrS, Nat.le_trans h.ctrT g.ctrT,
   fun hst => by
     have a := g.clean hst
     have b := h.clean a.2
     exact ⟨fun _ => a.1, b.2⟩,
   by simpa [hw] using h.hit⟩

theorem DeliverOk.of_same_right {i : Nat} {s s1 s' : St} {r r' : Run} (hs : s'.same s1) (h : DeliverOk i s r s1 r') :
    DeliverOk i s r s' r' :=
  ⟨by simpa [hs.1] using h.cnt, by simpa [hs.2.1] using h.ctrS, by simpa [hs.2.2.1] using h.ctrT,
   fun hst => h.clean (by rw [← hs.2.2.2]; exact hst), h.hit⟩

theorem DeliverOk.toFin {i : Nat} {s s' : St} {r r' q : Run} (h : DeliverOk i s r s' r')
    (hw : q.waiting = r.waiting) (hc : q.Clean ↔ r.Clean) (hf : r'.waiting = []) : DeliverOk i s q s' .fin :=
  ⟨fun hi j => by have a := h.cnt hi j; simp [hf] at a; simp [hw]; omega, h.ctrS, h.ctrT,
   fun hst => ⟨fun _ => by simp, (h.clean hst).2⟩, by simpa [hw] using h.hit⟩

theorem count_erase_add_singleton (a : List Nat) (i j : Nat) (hi : i ∈ a) :
    (a.erase i).count j + [i].count j = a.count j := by
  rw [List.count_erase, List.count_singleton]
  by_cases h : j = i
  · subst h
    have : 0 < a.count j := List.count_pos_iff.2 hi
    simp; omega
  · have h1 : (i == j) = false := by simp; exact fun e => h e.symm
    have h2 : (j == i) = false := by simp [h]
    simp [h1, h2]

mutual
theorem deliver_ok (P : Prog) (ee : EE) (f i : Nat) : (r : Run) → (s : St) → (r' : Run) → (s' : St) →
    deliver P ee f i r s = some (r', s') → DeliverOk i s r s' r'
  | .wait j n, s, r', s', h => by
      simp only [deliver] at h
      split at h
      · rename_i hij
        simp at h; obtain ⟨rfl, rfl⟩ := h
        subst hij
        exact ⟨fun hi j => by simpa using count_erase_add_singleton s.awaited i j hi,
          by simp, by simp, fun hst => ⟨fun _ => by simp, by simpa using hst⟩, by simp⟩
      · simp at h
  | .blk r rest env, s, r', s', h => by
      simp only [deliver] at h
      split at h
      · simp at h
      · rename_i s1 heq
        simp at h
        have h1 := deliver_ok P ee f i r s .fin s1 heq
        have h2 := enterBlk_ok P ee f rest env s1
        rw [h] at h2
        exact h1.thenEnter h2 (by simp) (by simp)
      · rename_i r1 s1 hne heq
        simp at h; obtain ⟨rfl, rfl⟩ := h
        exact (deliver_ok P ee f i r s r1 s1 heq).wrap (by simp) (by simp) (by simp) (by simp)
  | .call n r, s, r', s', h => by
      simp only [deliver] at h
      split at h
      · simp at h
      · rename_i s1 heq
        simp at h; obtain ⟨rfl, rfl⟩ := h
        have h1 := deliver_ok P ee f i r s .fin s1 heq
        exact (h1.wrap (q := .call n r) (q' := .fin) (by simp) rfl (by simp) Iff.rfl).of_same_right (St.same_emit s1 _)
      · rename_i r1 s1 hne heq
        simp at h; obtain ⟨rfl, rfl⟩ := h
        exact (deliver_ok P ee f i r s r1 s1 heq).wrap (by simp) (by simp) (by simp) (by simp)
  | .par rs, s, r', s', h => by
      simp only [deliver] at h
      split at h
      · simp at h
      · rename_i rs1 s1 heq
        have h1 := deliverL_ok P ee f i rs s rs1 s1 heq
        have hp : DeliverOk i s (.par rs) s1 (.par rs1) :=
          ⟨by simpa using h1.cnt, h1.ctrS, h1.ctrT, fun hst => by simpa using h1.clean hst, by simpa using h1.hit⟩
        split at h
        · rename_i hall
          simp at h; obtain ⟨rfl, rfl⟩ := h
          exact hp.toFin rfl Iff.rfl (by simpa using (Run.waitingL_of_allFin rs1 hall).1)
        · simp at h; obtain ⟨rfl, rfl⟩ := h
          exact hp
  | .cloop c v lim body env r, s, r', s', h => by
      simp only [deliver] at h
      split at h
      · simp at h
      · rename_i s1 heq
        simp at h
        have h1 := deliver_ok P ee f i r s .fin s1 heq
        have h2 := iterC_ok P ee f (c+1) v lim body env s1
        rw [h] at h2
        exact h1.thenEnter h2 (by simp) (by simp)
      · rename_i r1 s1 hne heq
        simp at h; obtain ⟨rfl, rfl⟩ := h
        exact (deliver_ok P ee f i r s r1 s1 heq).wrap (by simp) (by simp) (by simp) (by simp)
  | .wloop e body env r, s, r', s', h => by
      simp only [deliver] at h
      split at h
      · simp at h
      · rename_i s1 heq
        simp at h
        have h1 := deliver_ok P ee f i r s .fin s1 heq
        have h2 := iterW_ok P ee f e body env s1
        rw [h] at h2
        exact h1.thenEnter h2 (by simp) (by simp)
      · rename_i r1 s1 hne heq
        simp at h; obtain ⟨rfl, rfl⟩ := h
        exact (deliver_ok P ee f i r s r1 s1 heq).wrap (by simp) (by simp) (by simp) (by simp)
  | .fin, s, r', s', h => by simp [deliver] at h
  | .stuck w, s, r', s', h => by simp [deliver] at h
theorem deliverL_ok (P : Prog) (ee : EE) (f i : Nat) : (rs : List Run) → (s : St) → (rs' : List Run) → (s' : St) →
    deliverL P ee f i rs s = some (rs', s') → DeliverOkL i s rs s' rs'
  | [], s, rs', s', h => by simp [deliverL] at h
  | r :: rs, s, rs', s', h => by
      simp only [deliverL] at h
      split at h
      · rename_i r1 s1 heq
        simp at h; obtain ⟨rfl, rfl⟩ := h
        have h1 := deliver_ok P ee f i r s r1 s1 heq
        exact ⟨fun hi j => by have a := h1.cnt hi j; simp [List.count_append]; omega, h1.ctrS, h1.ctrT,
          fun hst => by have a := h1.clean hst; exact ⟨fun hc => by simp at hc ⊢; exact ⟨a.1 hc.1, hc.2⟩, a.2⟩,
          by simp [h1.hit]⟩
      · split at h
        · rename_i rs1 s1 heq
          simp at h; obtain ⟨rfl, rfl⟩ := h
          have h1 := deliverL_ok P ee f i rs s rs1 s1 heq
          exact ⟨fun hi j => by have a := h1.cnt hi j; simp [List.count_append]; omega, h1.ctrS, h1.ctrT,
            fun hst => by have a := h1.clean hst; exact ⟨fun hc => by simp at hc ⊢; exact ⟨hc.1, a.1 hc.2⟩, a.2⟩,
            by simp [h1.hit]⟩
        · simp at h
end

mutual
/-- `deliver` finds a leaf exactly when the id is waiting somewhere -/
theorem deliver_none (P : Prog) (ee : EE) (f i : Nat) : (r : Run) → (s : St) →
    deliver P ee f i r s = none → i ∉ r.waiting
  | .wait j n, s, h => by
      simp only [deliver] at h
      split at h
      · simp at h
      · rename_i hij; simpa using hij
  | .blk r rest env, s, h => by
      simp only [deliver] at h
      split at h
      · rename_i heq; simpa using deliver_none P ee f i r s heq
      · simp at h
      · simp at h
  | .call n r, s, h => by
      simp only [deliver] at h
      split at h
      · rename_i heq; simpa using deliver_none P ee f i r s heq
      · simp at h
      · simp at h
  | .par rs, s, h => by
      simp only [deliver] at h
      split at h
      · rename_i heq; simpa using deliverL_none P ee f i rs s heq
      · split at h <;> simp at h
  | .cloop c v lim body env r, s, h => by
      simp only [deliver] at h
      split at h
      · rename_i heq; simpa using deliver_none P ee f i r s heq
      · simp at h
      · simp at h
  | .wloop e body env r, s, h => by
      simp only [deliver] at h
      split at h
      · rename_i heq; simpa using deliver_none P ee f i r s heq
      · simp at h
      · simp at h
  | .fin, s, _ => by simp
  | .stuck w, s, _ => by simp
theorem deliverL_none (P : Prog) (ee : EE) (f i : Nat) : (rs : List Run) → (s : St) →
    deliverL P ee f i rs s = none → i ∉ Run.waitingL rs
  | [], s, _ => by simp
  | r :: rs, s, h => by
      simp only [deliverL] at h
      split at h
      · simp at h
      · rename_i heq
        split at h
        · simp at h
        · rename_i heq2
          simp
          exact ⟨deliver_none P ee f i r s heq, deliverL_none P ee f i rs s heq2⟩
end

mutual
/-- no stall: a clean run in normal form without waiting leaves is finished -/
theorem Run.fin_of_noWaiting : (r : Run) → r.Norm → r.Clean → r.waiting = [] → r = .fin
  | .wait i n, _, _, hw => by simp at hw
  | .blk r rest env, hn, hc, hw => by
      simp only [Run.Norm] at hn
      have := Run.fin_of_noWaiting r hn.1 (by simpa using hc) (by simpa using hw)
      rw [this] at hn; simp at hn
  | .call n r, hn, hc, hw => by
      simp only [Run.Norm] at hn
      have := Run.fin_of_noWaiting r hn.1 (by simpa using hc) (by simpa using hw)
      rw [this] at hn; simp at hn
  | .par rs, hn, hc, hw => by
      simp only [Run.Norm] at hn
      have := Run.allFin_of_noWaiting rs hn.1 (by simpa using hc) (by simpa using hw)
      rw [this] at hn; simp at hn
  | .cloop c v lim body env r, hn, hc, hw => by
      simp only [Run.Norm] at hn
      have := Run.fin_of_noWaiting r hn.1 (by simpa using hc) (by simpa using hw)
      rw [this] at hn; simp at hn
  | .wloop e body env r, hn, hc, hw => by
      simp only [Run.Norm] at hn
      have := Run.fin_of_noWaiting r hn.1 (by simpa using hc) (by simpa using hw)
      rw [this] at hn; simp at hn
  | .fin, _, _, _ => rfl
  | .stuck w, _, hc, _ => by simp at hc
theorem Run.allFin_of_noWaiting : (rs : List Run) → Run.NormL rs → Run.CleanL rs → Run.waitingL rs = [] →
    rs.all Run.isFin = true
  | [], _, _, _ => by simp
  | r :: rs, hn, hc, hw => by
      simp only [Run.NormL] at hn
      simp at hc hw
      have h1 := Run.fin_of_noWaiting r hn.1 hc.1 hw.1
      have h2 := Run.allFin_of_noWaiting rs hn.2 hc.2 hw.2
      simp [h1, h2]
end

end Pfdl
