import PfdlProofs.ParseRoundTrip
import PfdlModel.Surface
/-! The grammar's reading of a text is the ordinary reading, regrouped - for every text without the shape of finding K10. -/
namespace Pfdl.Surface
open Pfdl Generated ExprParse

abbrev G : Table := precTable
abbrev O : Table := ordTable
abbrev u : Nat := unaryPrec

/-- membership form of a successful look-up -/
theorem mem_of_lookup {T : Table} {o : String} {v : Nat × Nat} (h : T.lookup o = some v) : (o, v) ∈ T := by
  induction T with
  | nil => simp [List.lookup] at h
  | cons x xs ih =>
    obtain ⟨k, w⟩ := x
    simp only [List.lookup] at h
    split at h
    · rename_i heq
      simp only [Option.some.injEq] at h
      subst h
      have : o = k := by simpa using heq
      subst this
      simp
    · exact List.mem_cons_of_mem _ (ih h)

/-- the twelve operators, with their entries in both tables -/
theorem ops_cases {o : String} {pr rp : Nat} (h : O.lookup o = some (pr, rp)) :
    (o = "*" ∧ pr = 9 ∧ rp = 10 ∧ G.lookup o = some (9, 10)) ∨
    (o = "/" ∧ pr = 9 ∧ rp = 10 ∧ G.lookup o = some (8, 9)) ∨
    (o = "-" ∧ pr = 7 ∧ rp = 8 ∧ G.lookup o = some (7, 8)) ∨
    (o = "+" ∧ pr = 7 ∧ rp = 8 ∧ G.lookup o = some (6, 7)) ∨
    (pr = 5 ∧ rp = 6 ∧ G.lookup o = some (5, 6) ∧ o ≠ "-" ∧ o ≠ "*") ∨
    (o = "And" ∧ pr = 3 ∧ rp = 4 ∧ G.lookup o = some (3, 4)) ∨
    (o = "Or" ∧ pr = 2 ∧ rp = 3 ∧ G.lookup o = some (2, 3)) := by
  have hm := mem_of_lookup h
  simp only [O, ordTable, List.mem_cons, Prod.mk.injEq, List.not_mem_nil, or_false] at hm
  rcases hm with ⟨rfl, rfl, rfl⟩ | ⟨rfl, rfl, rfl⟩ | ⟨rfl, rfl, rfl⟩ | ⟨rfl, rfl, rfl⟩ | ⟨rfl, rfl, rfl⟩ | ⟨rfl, rfl, rfl⟩ |
    ⟨rfl, rfl, rfl⟩ | ⟨rfl, rfl, rfl⟩ | ⟨rfl, rfl, rfl⟩ | ⟨rfl, rfl, rfl⟩ | ⟨rfl, rfl, rfl⟩ | ⟨rfl, rfl, rfl⟩
  all_goals first
    | (left; exact ⟨rfl, rfl, rfl, by decide⟩)
    | (right; left; exact ⟨rfl, rfl, rfl, by decide⟩)
    | (right; right; left; exact ⟨rfl, rfl, rfl, by decide⟩)
    | (right; right; right; left; exact ⟨rfl, rfl, rfl, by decide⟩)
    | (right; right; right; right; left; exact ⟨rfl, rfl, by decide, by decide, by decide⟩)
    | (right; right; right; right; right; left; exact ⟨rfl, rfl, rfl, by decide⟩)
    | (right; right; right; right; right; right; exact ⟨rfl, rfl, rfl, by decide⟩)

theorem lookupG_none {o : String} (h : O.lookup o = none) : G.lookup o = none := by
  cases hg : G.lookup o with
  | none => rfl
  | some v =>
    have hm := mem_of_lookup hg
    simp only [G, precTable, List.mem_cons, Prod.mk.injEq, List.not_mem_nil, or_false] at hm
    rcases hm with ⟨rfl, _⟩ | ⟨rfl, _⟩ | ⟨rfl, _⟩ | ⟨rfl, _⟩ | ⟨rfl, _⟩ | ⟨rfl, _⟩ | ⟨rfl, _⟩ | ⟨rfl, _⟩ | ⟨rfl, _⟩ |
      ⟨rfl, _⟩ | ⟨rfl, _⟩ | ⟨rfl, _⟩ <;> simp [O, ordTable, List.lookup] at h

theorem Canon.anti {T : Table} {v : Nat} : ∀ {p q : Nat} {t : Expr}, Canon T v p t → q ≤ p → Canon T v q t
  | p, q, .bin o l r, h, hq => by
    simp only [Canon] at h ⊢
    obtain ⟨pr, rp, hl, hp, hcl, hs, hcr⟩ := h
    exact ⟨pr, rp, hl, by omega, Canon.anti hcl hq, hs, hcr⟩
  | _, _, .paren e, h, _ => by simpa [Canon] using h
  | _, _, .not e, h, _ => by simpa [Canon] using h
  | _, _, .lit _, _, _ => by simp [Canon]
  | _, _, .path _, _, _ => by simp [Canon]
  | _, _, .none, _, _ => by simp [Canon]

/-- where the right edge of the regrouped tree has open levels: the levels of the ordinary tree, except that the
    level after `/` is 9 instead of 10 and the level after `+` is 7 instead of 8 -/
theorem spine_rot : ∀ (t : Expr) (q : Nat), q ∈ spine G u (rot t) →
    q ∈ spine O u t ∨ (q = 9 ∧ 10 ∈ spine O u t) ∨ (q = 7 ∧ 8 ∈ spine O u t)
  | .bin o l r, q, hq => by
    have ihr := spine_rot r
    cases hO : O.lookup o with
    | none =>
      have hG := lookupG_none hO
      have hne : o ≠ "-" := by rintro rfl; simp [O, ordTable, List.lookup] at hO
      simp [rot, hne, spine, hG] at hq
    | some v =>
      obtain ⟨pr, rp⟩ := v
      have hsO : spine O u (.bin o l r) = rp :: spine O u r := by simp [spine, hO]
      rw [hsO]
      have tail : ∀ q, q ∈ spine G u (rot r) →
          q ∈ rp :: spine O u r ∨ (q = 9 ∧ 10 ∈ rp :: spine O u r) ∨ (q = 7 ∧ 8 ∈ rp :: spine O u r) := by
        intro q hq
        rcases ihr q hq with h | ⟨h1, h2⟩ | ⟨h1, h2⟩
        · exact Or.inl (List.mem_cons_of_mem _ h)
        · exact Or.inr (Or.inl ⟨h1, List.mem_cons_of_mem _ h2⟩)
        · exact Or.inr (Or.inr ⟨h1, List.mem_cons_of_mem _ h2⟩)
      by_cases ho : o = "-"
      · subst ho
        have : pr = 7 ∧ rp = 8 := by simp [O, ordTable, List.lookup] at hO; omega
        obtain ⟨rfl, rfl⟩ := this
        unfold rot at hq
        simp only [if_true] at hq
        split at hq
        · simp only [spine, G, precTable, List.lookup] at hq
          simp at hq
          rcases hq with rfl | rfl | hq
          · exact Or.inr (Or.inr ⟨rfl, by simp⟩)
          · exact Or.inl (by simp)
          · exact tail q hq
        · simp only [spine, G, precTable, List.lookup] at hq
          simp at hq
          rcases hq with rfl | hq
          · exact Or.inl (by simp)
          · exact tail q hq
      · unfold rot at hq
        simp only [ho, if_false] at hq
        rcases ops_cases hO with ⟨rfl, rfl, rfl, hG⟩ | ⟨rfl, rfl, rfl, hG⟩ | ⟨rfl, rfl, rfl, hG⟩ | ⟨rfl, rfl, rfl, hG⟩ |
          ⟨rfl, rfl, hG, _, _⟩ | ⟨rfl, rfl, rfl, hG⟩ | ⟨rfl, rfl, rfl, hG⟩
        all_goals
          simp only [spine, hG, List.mem_cons] at hq
          rcases hq with rfl | hq
          · first
            | exact Or.inl List.mem_cons_self
            | exact Or.inr (Or.inl ⟨rfl, List.mem_cons_self⟩)
            | exact Or.inr (Or.inr ⟨rfl, List.mem_cons_self⟩)
          · exact tail q hq
  | .paren e, q, hq => by simp [rot, spine] at hq
  | .not e, q, hq => by
    simp only [rot, spine, List.mem_cons] at hq ⊢
    rcases hq with rfl | hq
    · exact Or.inl (Or.inl rfl)
    · rcases spine_rot e q hq with h | ⟨h1, h2⟩ | ⟨h1, h2⟩
      · exact Or.inl (Or.inr h)
      · exact Or.inr (Or.inl ⟨h1, Or.inr h2⟩)
      · exact Or.inr (Or.inr ⟨h1, Or.inr h2⟩)
  | .lit _, q, hq => by simp [rot, spine] at hq
  | .path _, q, hq => by simp [rot, spine] at hq
  | .none, q, hq => by simp [rot, spine] at hq

theorem G_left_assoc {o : String} {pr rp : Nat} (h : G.lookup o = some (pr, rp)) : rp = pr + 1 := by
  have hm := mem_of_lookup h
  have : ∀ e ∈ G, e.2.2 = e.2.1 + 1 := by decide
  exact this _ hm

/-- along the right edge of a canonical tree the open levels lie above the level it was parsed at, except behind a `!` -/
theorem spine_above : ∀ (p : Nat) (t : Expr), Canon G u p t → ∀ q ∈ spine G u t, p < q ∨ u ∈ spine G u t
  | p, .bin o l r, h, q, hq => by
    simp only [Canon] at h
    obtain ⟨pr, rp, hl, hp, _, _, hcr⟩ := h
    have hrp := G_left_assoc hl
    simp only [spine, hl, List.mem_cons] at hq ⊢
    rcases hq with rfl | hq
    · left; omega
    · rcases spine_above rp r hcr q hq with h1 | h1
      · left; omega
      · right; right; exact h1
  | _, .not e, _, _, _ => by right; simp [spine]
  | _, .paren e, _, q, hq => by simp [spine] at hq
  | _, .lit _, _, q, hq => by simp [spine] at hq
  | _, .path _, _, q, hq => by simp [spine] at hq
  | _, .none, _, q, hq => by simp [spine] at hq

theorem noK10_bin {o : String} {l r : Expr} (h : noK10 (.bin o l r) = true) :
    noK10 l = true ∧ noK10 r = true ∧ (o = "*" → ∀ a b, l ≠ .bin "/" a b) := by
  simp only [noK10, Bool.and_eq_true, Bool.not_eq_true', Bool.and_eq_false_iff] at h
  refine ⟨h.1.2, h.2, ?_⟩
  rintro rfl a b rfl
  simp at h

/-- a tree parsed at level 10 whose right edge is open above 9 only: its right edge is closed -/
theorem closed_at_ten : ∀ (t : Expr), Canon O u 10 t → (∀ q ∈ spine O u t, 9 < q) → spine G u (rot t) = []
  | .bin o l r, h, _ => by
    simp only [Canon] at h
    obtain ⟨pr, rp, hl, hp, _⟩ := h
    rcases ops_cases hl with ⟨_, rfl, _⟩ | ⟨_, rfl, _⟩ | ⟨_, rfl, _⟩ | ⟨_, rfl, _⟩ | ⟨rfl, _⟩ | ⟨_, rfl, _⟩ | ⟨_, rfl, _⟩ <;> omega
  | .not e, _, hs => by
    have := hs u (by simp [spine])
    simp [u, unaryPrec] at this
  | .paren e, _, _ => by simp [rot, spine]
  | .lit _, _, _ => by simp [rot, spine]
  | .path _, _, _ => by simp [rot, spine]
  | .none, _, _ => by simp [rot, spine]

/-- if the regrouped left operand of a `*` had level 9 open on its right edge, the operand would be a quotient -/
theorem nine_means_quotient (p : Nat) : ∀ (l : Expr), Canon O u p l → (∀ q ∈ spine O u l, 9 < q) →
    9 ∈ spine G u (rot l) → ∃ a b, l = .bin "/" a b
  | .bin o a b, h, hs, h9 => by
    simp only [Canon] at h
    obtain ⟨pr, rp, hl, _, _, _, hcb⟩ := h
    have hsO : spine O u (.bin o a b) = rp :: spine O u b := by simp [spine, hl]
    rw [hsO] at hs
    have hrp : 9 < rp := hs rp (by simp)
    have hsb : ∀ q ∈ spine O u b, 9 < q := fun q hq => hs q (by simp [hq])
    rcases ops_cases hl with ⟨rfl, rfl, rfl, hG⟩ | ⟨rfl, rfl, rfl, hG⟩ | ⟨rfl, rfl, rfl, hG⟩ | ⟨rfl, rfl, rfl, hG⟩ |
      ⟨rfl, rfl, hG, _, _⟩ | ⟨rfl, rfl, rfl, hG⟩ | ⟨rfl, rfl, rfl, hG⟩
    · -- "*": the right edge of the regrouped tree is [10]
      have hb := closed_at_ten b hcb hsb
      have hne : ¬ ("*" = "-") := by decide
      simp [rot, hne, spine, hG, hb] at h9
    · exact ⟨a, b, rfl⟩
    all_goals omega
  | .not e, _, hs, _ => by
    have := hs u (by simp [spine])
    simp [u, unaryPrec] at this
  | .paren e, _, _, h9 => by simp [rot, spine] at h9
  | .lit _, _, _, h9 => by simp [rot, spine] at h9
  | .path _, _, _, h9 => by simp [rot, spine] at h9
  | .none, _, _, h9 => by simp [rot, spine] at h9

/-- levels at which the ordinary table parses: never strictly between two merged ranks -/
def LevelOk (p : Nat) : Prop := p ≠ 7 ∧ p ≠ 9

theorem rpO_levelOk {o : String} {pr rp : Nat} (h : O.lookup o = some (pr, rp)) : LevelOk rp := by
  rcases ops_cases h with ⟨_, _, rfl, _⟩ | ⟨_, _, rfl, _⟩ | ⟨_, _, rfl, _⟩ | ⟨_, _, rfl, _⟩ | ⟨_, rfl, _⟩ | ⟨_, _, rfl, _⟩ |
    ⟨_, _, rfl, _⟩ <;> simp [LevelOk]

/-- **The grammar reads the ordinary tree, regrouped.**  For every tree that is canonical for the ordinary table and
    has no K10 shape, the regrouped tree is canonical for the grammar's table. -/
theorem canon_rot : ∀ (s : Expr) (p : Nat), LevelOk p → Canon O u p s → noK10 s = true → Canon G u p (rot s)
  | .bin o l r, p, hp, hc, hk => by
    simp only [Canon] at hc
    obtain ⟨pr, rp, hlO, hpp, hcl, hsl, hcr⟩ := hc
    obtain ⟨hkl, hkr, hkq⟩ := noK10_bin hk
    have ihl := canon_rot l p hp hcl hkl
    have ihr := canon_rot r rp (rpO_levelOk hlO) hcr hkr
    have hspine := spine_rot l
    by_cases ho : o = "-"
    · subst ho
      have hpr : pr = 7 ∧ rp = 8 := by simp [O, ordTable, List.lookup] at hlO; omega
      obtain ⟨rfl, rfl⟩ := hpr
      have hG : G.lookup "-" = some (7, 8) := by decide
      have hGp : G.lookup "+" = some (6, 7) := by decide
      -- no 4 and nothing below 8 from the ordinary right edge of l
      have no_u : u ∉ spine G u (rot l) := by
        intro hu
        rcases hspine u hu with h | ⟨h, _⟩ | ⟨h, _⟩
        · have := hsl u h; simp [u, unaryPrec] at this
        · simp [u, unaryPrec] at h
        · simp [u, unaryPrec] at h
      unfold rot
      simp only [if_true]
      split
      · rename_i x y heq
        rw [heq] at ihl no_u hspine
        simp only [Canon] at ihl
        obtain ⟨pr', rp', hl', hp', hcx, hsx, hcy⟩ := ihl
        rw [hGp] at hl'
        simp only [Option.some.injEq, Prod.mk.injEq] at hl'
        obtain ⟨rfl, rfl⟩ := hl'
        simp only [Canon]
        refine ⟨6, 7, hGp, hp', hcx, hsx, 7, 8, hG, Nat.le_refl _, hcy, ?_, ihr⟩
        -- the right edge of y lies above 7
        intro q hq
        have hqs : q ∈ spine G u (.bin "+" x y) := by simp [spine, hGp, hq]
        rcases spine_above 7 y hcy q hq with h | h
        · exact h
        · exact absurd (by simp [spine, hGp, h] : u ∈ spine G u (.bin "+" x y)) no_u
      · rename_i hnot
        simp only [Canon]
        refine ⟨7, 8, hG, hpp, ihl, ?_, ihr⟩
        intro q hq
        rcases hspine q hq with h | ⟨rfl, _⟩ | ⟨rfl, h8⟩
        · exact hsl q h
        · omega
        · -- a 7 on the right edge of rot l: rot l would be a sum
          exfalso
          cases hrl : rot l with
          | bin o1 a b =>
            rw [hrl] at hq ihl no_u
            simp only [Canon] at ihl
            obtain ⟨pr1, rp1, hl1, _, _, _, hcb⟩ := ihl
            have hrp1 := G_left_assoc hl1
            simp only [spine, hl1, List.mem_cons] at hq
            rcases hq with h7 | hq
            · -- rp1 = 7: o1 = "+"
              have hm := mem_of_lookup hl1
              simp only [G, precTable, List.mem_cons, Prod.mk.injEq, List.not_mem_nil, or_false] at hm
              rcases hm with ⟨rfl, _, rfl⟩ | ⟨rfl, _, rfl⟩ | ⟨rfl, _, rfl⟩ | ⟨rfl, _, rfl⟩ | ⟨rfl, _, rfl⟩ | ⟨rfl, _, rfl⟩ |
                ⟨rfl, _, rfl⟩ | ⟨rfl, _, rfl⟩ | ⟨rfl, _, rfl⟩ | ⟨rfl, _, rfl⟩ | ⟨rfl, _, rfl⟩ | ⟨rfl, _, rfl⟩ <;> simp at h7
              exact hnot a b hrl
            · rcases spine_above rp1 b hcb 7 hq with h | h
              · -- rp1 < 7 is itself on the right edge of rot l, and comes from the ordinary edge of l
                have hmem : rp1 ∈ spine G u (rot l) := by rw [hrl]; simp [spine, hl1]
                rcases hspine rp1 hmem with h' | ⟨h', _⟩ | ⟨h', _⟩
                · have := hsl rp1 h'; omega
                · omega
                · omega
              · exact no_u (by simp [spine, hl1, h])
          | not e => rw [hrl] at no_u; exact no_u (by simp [spine])
          | paren e => rw [hrl] at hq; simp [spine] at hq
          | lit v => rw [hrl] at hq; simp [spine] at hq
          | path q' => rw [hrl] at hq; simp [spine] at hq
          | none => rw [hrl] at hq; simp [spine] at hq
    · unfold rot
      simp only [ho, if_false, Canon]
      rcases ops_cases hlO with ⟨rfl, rfl, rfl, hG⟩ | ⟨rfl, rfl, rfl, hG⟩ | ⟨rfl, rfl, rfl, hG⟩ | ⟨rfl, rfl, rfl, hG⟩ |
        ⟨rfl, rfl, hG, _, _⟩ | ⟨rfl, rfl, rfl, hG⟩ | ⟨rfl, rfl, rfl, hG⟩
      · -- "*"
        refine ⟨9, 10, hG, hpp, ihl, ?_, ihr⟩
        intro q hq
        rcases hspine q hq with h | ⟨rfl, _⟩ | ⟨rfl, h8⟩
        · exact hsl q h
        · exfalso
          obtain ⟨a, b, rfl⟩ := nine_means_quotient p l hcl hsl hq
          exact hkq rfl a b rfl
        · have := hsl 8 h8; omega
      · -- "/"
        refine ⟨8, 9, hG, by have := hp.2; omega, ihl, ?_, Canon.anti ihr (by omega)⟩
        intro q hq
        rcases hspine q hq with h | ⟨rfl, _⟩ | ⟨rfl, h8⟩
        · have := hsl q h; omega
        · omega
        · have := hsl 8 h8; omega
      · exact absurd rfl ho
      · -- "+"
        refine ⟨6, 7, hG, by have := hp.1; omega, ihl, ?_, Canon.anti ihr (by omega)⟩
        intro q hq
        rcases hspine q hq with h | ⟨rfl, _⟩ | ⟨rfl, h8⟩
        · have := hsl q h; omega
        · omega
        · omega
      · -- comparisons
        refine ⟨5, 6, hG, hpp, ihl, ?_, ihr⟩
        intro q hq
        rcases hspine q hq with h | ⟨rfl, _⟩ | ⟨rfl, h8⟩
        · exact hsl q h
        · omega
        · omega
      · refine ⟨3, 4, hG, hpp, ihl, ?_, ihr⟩
        intro q hq
        rcases hspine q hq with h | ⟨rfl, _⟩ | ⟨rfl, h8⟩
        · exact hsl q h
        · omega
        · omega
      · refine ⟨2, 3, hG, hpp, ihl, ?_, ihr⟩
        intro q hq
        rcases hspine q hq with h | ⟨rfl, _⟩ | ⟨rfl, h8⟩
        · exact hsl q h
        · omega
        · omega
  | .paren e, p, _, hc, hk => by
    simp only [Canon] at hc
    simp only [noK10] at hk
    simpa [rot, Canon] using canon_rot e 0 (by simp [LevelOk]) hc hk
  | .not e, p, _, hc, hk => by
    simp only [Canon] at hc
    simp only [noK10] at hk
    simpa [rot, Canon] using canon_rot e u (by simp [LevelOk, u, unaryPrec]) hc hk
  | .lit _, _, _, _, _ => by simp [rot, Canon]
  | .path _, _, _, _, _ => by simp [rot, Canon]
  | .none, _, _, _, _ => by simp [rot, Canon]

end Pfdl.Surface
