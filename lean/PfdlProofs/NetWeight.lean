import PfdlModel.Net
/-! Weighted token sums (place invariants) of the net layer: firing a transition whose input and
    output weights balance keeps the weighted sum. Core Lean only. -/
namespace Pfdl.Net

/-- weighted number of tokens of a list of places, the first one having index `i` -/
def wsumL (w : Nat → Int) : Nat → List Place → Int
  | _, [] => 0
  | i, p :: ps => w i * (p.tokens : Int) + wsumL w (i + 1) ps

/-- weighted number of tokens in the net -/
def wsum (w : Nat → Int) (ps : Array Place) : Int := wsumL w 0 ps.toList

def sumW (w : Nat → Int) (l : List Nat) : Int := (l.map w).sum

theorem wsumL_modify (w : Nat → Int) (f : Place → Place) :
    ∀ (l : List Place) (i j : Nat) (pl : Place), l[j]? = some pl →
      wsumL w i (l.modify j f) = wsumL w i l + w (i + j) * (((f pl).tokens : Int) - (pl.tokens : Int))
  | [], _, _, _, h => by simp at h
  | p :: ps, i, 0, pl, h => by
      simp at h; subst h
      simp [List.modify, wsumL]
      rw [Int.mul_sub]; omega
  | p :: ps, i, j+1, pl, h => by
      simp at h
      have ih := wsumL_modify w f ps (i + 1) j pl h
      simp [List.modify_succ_cons, wsumL, ih]
      have : i + 1 + j = i + (j + 1) := by omega
      rw [this]; omega

theorem wsumL_modify_none (w : Nat → Int) (f : Place → Place) (l : List Place) (i j : Nat)
    (h : l[j]? = none) : wsumL w i (l.modify j f) = wsumL w i l := by
  have : l.modify j f = l := by
    apply List.ext_getElem?
    intro k
    by_cases hk : k = j
    · subst hk; simp [List.getElem?_modify, h]
    · simp [List.getElem?_modify, Ne.symm hk]
  rw [this]

theorem wsum_modify (w : Nat → Int) (f : Place → Place) (ps : Array Place) (j : Nat) (pl : Place)
    (h : ps[j]? = some pl) :
    wsum w (ps.modify j f) = wsum w ps + w j * (((f pl).tokens : Int) - (pl.tokens : Int)) := by
  unfold wsum
  rw [Array.toList_modify]
  have := wsumL_modify w f ps.toList 0 j pl (by simpa using h)
  simpa using this

theorem wsum_modify_none (w : Nat → Int) (f : Place → Place) (ps : Array Place) (j : Nat)
    (h : ps[j]? = none) : wsum w (ps.modify j f) = wsum w ps := by
  unfold wsum
  rw [Array.toList_modify]
  exact wsumL_modify_none w f ps.toList 0 j (by simpa using h)

def decTok (pl : Place) : Place := { pl with tokens := pl.tokens - 1 }
def incTok (pl : Place) : Place := { pl with tokens := pl.tokens + 1 }

def tok (ps : Array Place) (p : Nat) : Nat := (ps[p]?.map (·.tokens)).getD 0

theorem tok_modify_ne (ps : Array Place) (f : Place → Place) (p q : Nat) (h : p ≠ q) :
    tok (ps.modify p f) q = tok ps q := by
  unfold tok
  simp [Array.getElem?_modify, h]

/-- adding a token to every place of `outs` adds their weights (places outside the net: nothing happens) -/
theorem wsum_incs (w : Nat → Int) : ∀ (outs : List Nat) (ps : Array Place),
    (∀ p ∈ outs, p < ps.size) →
    wsum w (outs.foldl (fun ps p => ps.modify p incTok) ps) = wsum w ps + sumW w outs
  | [], ps, _ => by simp [sumW]
  | p :: outs, ps, h => by
      have hp : p < ps.size := h p (by simp)
      have hget : ps[p]? = some ps[p] := by simp [hp]
      simp only [List.foldl_cons]
      rw [wsum_incs w outs (ps.modify p incTok) (by
        intro q hq; simp; exact h q (by simp [hq]))]
      rw [wsum_modify w incTok ps p ps[p] hget]
      simp [sumW, incTok]
      omega

/-- taking a token from every place of `ins` (pairwise different, each marked) removes their weights -/
theorem wsum_decs (w : Nat → Int) : ∀ (ins : List Nat) (ps : Array Place),
    ins.Nodup → (∀ p ∈ ins, 1 ≤ tok ps p) →
    wsum w (ins.foldl (fun ps p => ps.modify p decTok) ps) = wsum w ps - sumW w ins
  | [], ps, _, _ => by simp [sumW]
  | p :: ins, ps, hnd, h => by
      have hp1 : 1 ≤ tok ps p := h p (by simp)
      have hget : ∃ pl, ps[p]? = some pl ∧ 1 ≤ pl.tokens := by
        unfold tok at hp1
        cases hq : ps[p]? with
        | none => simp [hq] at hp1
        | some pl => exact ⟨pl, rfl, by simpa [hq] using hp1⟩
      obtain ⟨pl, hpl, hpl1⟩ := hget
      simp only [List.foldl_cons]
      have hnd' := List.nodup_cons.mp hnd
      rw [wsum_decs w ins (ps.modify p decTok) hnd'.2 (by
        intro q hq
        have hne : p ≠ q := by intro e; subst e; exact hnd'.1 hq
        rw [tok_modify_ne ps decTok p q hne]
        exact h q (by simp [hq]))]
      rw [wsum_modify w decTok ps p pl hpl]
      simp [sumW, decTok]
      have : ((pl.tokens - 1 : Nat) : Int) = (pl.tokens : Int) - 1 := by omega
      rw [this]
      have e : w p * ((pl.tokens : Int) - 1 - (pl.tokens : Int)) = - w p := by
        have : (pl.tokens : Int) - 1 - (pl.tokens : Int) = -1 := by omega
        rw [this]; simp
      rw [e]; omega

theorem size_decs : ∀ (ins : List Nat) (ps : Array Place),
    (ins.foldl (fun ps p => ps.modify p decTok) ps).size = ps.size
  | [], _ => rfl
  | p :: ins, ps => by simp [List.foldl_cons, size_decs ins]

/-- **firing keeps a balanced weight**: a transition whose input places are pairwise different, marked
    and whose output places exist changes the weighted sum by (outputs − inputs) -/
theorem wsum_fireT (w : Nat → Int) (s : NS) (t : Nat) (tr : Trans) (ht : s.trans[t]? = some tr)
    (hnd : tr.ins.Nodup) (hen : s.enabled t = true) (hout : ∀ p ∈ tr.outs, p < s.places.size) :
    wsum w (s.fireT t).places = wsum w s.places - sumW w tr.ins + sumW w tr.outs := by
  unfold NS.fireT
  simp only [ht]
  have hen' : ∀ p ∈ tr.ins, 1 ≤ tok s.places p := by
    unfold NS.enabled at hen
    simp only [ht, List.all_eq_true, decide_eq_true_eq] at hen
    intro p hp
    have := hen p hp
    simpa [NS.tokens, tok] using this
  have h1 := wsum_decs w tr.ins s.places hnd hen'
  have h2 := wsum_incs w tr.outs (tr.ins.foldl (fun ps p => ps.modify p decTok) s.places)
    (by intro p hp; rw [size_decs]; exact hout p hp)
  show wsum w (tr.outs.foldl (fun ps p => ps.modify p incTok)
      (tr.ins.foldl (fun ps p => ps.modify p decTok) s.places)) = _
  rw [h2, h1]

theorem fireT_trans (s : NS) (t : Nat) : (s.fireT t).trans = s.trans := by
  unfold NS.fireT; split <;> rfl

theorem wsum_addToken (w : Nat → Int) (s : NS) (p : Nat) (hw : w p = 0) :
    wsum w (s.addToken p).places = wsum w s.places := by
  unfold NS.addToken
  show wsum w (s.places.modify p _) = _
  cases h : s.places[p]? with
  | none => exact wsum_modify_none w _ s.places p h
  | some pl => rw [wsum_modify w _ s.places p pl h, hw]; simp

theorem wsum_addToken' (w : Nat → Int) (s : NS) (p : Nat) (hp : p < s.places.size) :
    wsum w (s.addToken p).places = wsum w s.places + w p := by
  unfold NS.addToken
  show wsum w (s.places.modify p _) = _
  have h : s.places[p]? = some s.places[p] := by simp [hp]
  rw [wsum_modify w _ s.places p _ h]
  simp; omega

end Pfdl.Net
