import PfdlModel.Denter
/-! Lemmas about the INDENT / DEDENT synthesis. -/
namespace Pfdl.Denter

theorem indentOf_eq (cr : Bool) (n : Nat) : indentOf cr n = n := by
  unfold indentOf
  cases cr <;> simp <;> omega

/-- the indentation stack: strictly decreasing from the top, bottom 0 -/
def StackOk (st : List Nat) : Prop := st.Pairwise (· > ·) ∧ st.getLast? = some 0

theorem StackOk.base : StackOk [0] := by simp [StackOk]

theorem StackOk.push {x top : Nat} {st : List Nat} (h : StackOk (top :: st)) (hx : top < x) :
    StackOk (x :: top :: st) := by
  obtain ⟨hp, hl⟩ := h
  refine ⟨?_, ?_⟩
  · rw [List.pairwise_cons]
    refine ⟨?_, hp⟩
    intro a ha
    rcases List.mem_cons.1 ha with rfl | ha
    · exact hx
    · have := (List.pairwise_cons.1 hp).1 a ha
      omega
  · simpa [List.getLast?_cons_cons] using hl

theorem StackOk.tail {top : Nat} {st : List Nat} (h : StackOk (top :: st)) (hne : st ≠ []) : StackOk st := by
  obtain ⟨hp, hl⟩ := h
  refine ⟨(List.pairwise_cons.1 hp).2, ?_⟩
  cases st with
  | nil => exact absurd rfl hne
  | cons a t => simpa [List.getLast?_cons_cons] using hl

theorem StackOk.zero_top {st : List Nat} (h : StackOk (0 :: st)) : st = [] := by
  obtain ⟨hp, _⟩ := h
  cases st with
  | nil => rfl
  | cons a t =>
    have := (List.pairwise_cons.1 hp).1 a (by simp)
    omega

def nInd (o : List Out) : Nat := o.count .indent
def nDed (o : List Out) : Nat := o.count .dedent

/-- `unwind_to` never pops the empty list, keeps the stack discipline, and emits exactly one DEDENT per
    level it closes (one INDENT if it lands between two levels) -/
theorem unwindGo_ok (t : Nat) : ∀ st, StackOk st →
    ∃ o st', unwindGo t st = some (o, st') ∧ StackOk (t :: st') ∧
      nDed o + (st'.length + 1) = st.length + nInd o
  | [], h => by simp [StackOk] at h
  | prev :: st, h => by
    unfold unwindGo
    by_cases h1 : prev = t
    · subst h1
      refine ⟨[], st, by simp, ?_, by simp [nDed, nInd]⟩
      cases st with
      | nil => exact h
      | cons a r =>
        have := h.tail (by simp)
        obtain ⟨hp, hl⟩ := h
        exact ⟨hp, hl⟩
    · by_cases h2 : prev < t
      · refine ⟨[.indent], prev :: st, by simp [h1, h2], h.push h2, by simp [nDed, nInd]⟩
      · have hne : st ≠ [] := by
          intro he
          subst he
          have : prev = 0 := by simpa [StackOk] using h.2
          omega
        obtain ⟨o, st', he, hok, hc⟩ := unwindGo_ok t st (h.tail hne)
        refine ⟨.dedent :: o, st', by simp [h1, h2, he], hok, ?_⟩
        simp [nDed, nInd] at hc ⊢
        omega

theorem unwind_ok (t : Nat) (st : List Nat) (h : StackOk st) :
    ∃ o st', unwind t st = some (o, st') ∧ StackOk st' ∧ nDed o + st'.length = st.length + nInd o := by
  obtain ⟨o, st', he, hok, hc⟩ := unwindGo_ok t st h
  refine ⟨.nl :: o, t :: st', by simp [unwind, he], hok, ?_⟩
  simp [nDed, nInd] at hc ⊢
  omega

/-- the main loop is total on a well-formed stack and closes every block it opened -/
theorem run_ok : ∀ (ts : List Raw) (st : List Nat) (pend : Option (Bool × Nat)), StackOk st →
    ∃ o, run st pend ts = some o ∧ nDed o + 1 = st.length + nInd o
  | [], st, pend, h => by
    obtain ⟨o, st', he, hok, hc⟩ := unwind_ok 0 st h
    refine ⟨o, by simp [run, he], ?_⟩
    have hz : st' = [0] := by
      have : ∃ r, st' = 0 :: r := by
        obtain ⟨o', st'', he', _, _⟩ := unwindGo_ok 0 st h
        simp [unwind, he'] at he
        exact ⟨st'', he.2.symm⟩
      obtain ⟨r, rfl⟩ := this
      rw [hok.zero_top]
    subst hz
    simpa using hc
  | .nl cr n :: rest, st, pend, h => by
    obtain ⟨o, he, hc⟩ := run_ok rest st (some (cr, n)) h
    exact ⟨o, by simp [run, he], hc⟩
  | .tok c :: rest, st, none, h => by
    obtain ⟨o, he, hc⟩ := run_ok rest st none h
    refine ⟨.tok :: o, by simp [run, he], ?_⟩
    simpa [nDed, nInd] using hc
  | .tok c :: rest, [], some (cr, n), h => by simp [StackOk] at h
  | .tok c :: rest, prev :: st, some (cr, n), h => by
    simp only [run]
    by_cases h1 : indentOf cr n = prev
    · obtain ⟨o, he, hc⟩ := run_ok rest (prev :: st) none h
      refine ⟨.nl :: .tok :: o, by simp [h1, he], ?_⟩
      simpa [nDed, nInd] using hc
    · by_cases h2 : prev < indentOf cr n
      · obtain ⟨o, he, hc⟩ := run_ok rest (indentOf cr n :: prev :: st) none (h.push h2)
        refine ⟨.indent :: .tok :: o, by simp [h1, h2, he], ?_⟩
        simp [nDed, nInd] at hc ⊢
        omega
      · obtain ⟨o1, st', he1, hok, hc1⟩ := unwind_ok (indentOf cr n) (prev :: st) h
        obtain ⟨o, he, hc⟩ := run_ok rest st' none hok
        refine ⟨o1 ++ .tok :: o, by simp [h1, h2, he1, he], ?_⟩
        simp [nDed, nInd, List.count_append] at hc hc1 ⊢
        omega

theorem denter_ok : ∀ ts : List Raw, ∃ o, denter ts = some o ∧ nDed o = nInd o
  | [] => by
    refine ⟨[.nl], by decide, by decide⟩
  | .nl _ _ :: rest => by
    obtain ⟨o, he, hc⟩ := denter_ok rest
    exact ⟨o, by simp [denter, he], hc⟩
  | .tok col :: rest => by
    unfold denter
    by_cases hcol : col > 0
    · have hs : StackOk [col, 0] := StackOk.base.push hcol
      obtain ⟨o, he, hc⟩ := run_ok rest [col, 0] none hs
      refine ⟨.indent :: .tok :: o, by simp [hcol, he], ?_⟩
      simp [nDed, nInd] at hc ⊢
      omega
    · obtain ⟨o, he, hc⟩ := run_ok rest [0] none StackOk.base
      refine ⟨.tok :: o, by simp [hcol, he], ?_⟩
      simp [nDed, nInd] at hc ⊢
      omega

/-! layout that does not matter -/

/-- of consecutive NL tokens (blank lines, lines holding only blanks or a comment) only the last counts -/
theorem run_nl_nl (pre : List Raw) (a c : Bool) (b d : Nat) (post : List Raw) :
    ∀ (st : List Nat) (pend : Option (Bool × Nat)),
      run st pend (pre ++ .nl a b :: .nl c d :: post) = run st pend (pre ++ .nl c d :: post) := by
  induction pre with
  | nil => intro st pend; simp [run]
  | cons x pre ih =>
    intro st pend
    cases x with
    | nl cr n => simp [run, ih]
    | tok col =>
      cases pend with
      | none => simp [run, ih]
      | some p =>
        obtain ⟨cr, n⟩ := p
        cases st with
        | nil => simp [run]
        | cons prev st => simp only [List.cons_append, run, ih]

/-- NL tokens directly before the end of the text (a final newline, trailing blank lines) do not matter -/
theorem run_final_nl (pre : List Raw) (a : Bool) (b : Nat) :
    ∀ (st : List Nat) (pend : Option (Bool × Nat)),
      run st pend (pre ++ [.nl a b]) = run st pend pre := by
  induction pre with
  | nil => intro st pend; simp [run]
  | cons x pre ih =>
    intro st pend
    cases x with
    | nl cr n => simp [run, ih]
    | tok col =>
      cases pend with
      | none => simp [run, ih]
      | some p =>
        obtain ⟨cr, n⟩ := p
        cases st with
        | nil => simp [run]
        | cons prev st => simp only [List.cons_append, run, ih]

/-- the `\r` of a CRLF line end -/
def Raw.withCr (c : Bool) : Raw → Raw
  | .nl _ n => .nl c n
  | t => t

theorem run_crlf (c : Bool) : ∀ (ts : List Raw) (st : List Nat) (pend : Option (Bool × Nat)),
    run st (pend.map (fun p => (c, p.2))) (ts.map (Raw.withCr c)) = run st pend ts
  | [], st, pend => by simp [run]
  | .nl cr n :: rest, st, pend => by
    have := run_crlf c rest st (some (cr, n))
    simpa [run, Raw.withCr] using this
  | .tok col :: rest, st, none => by
    have := run_crlf c rest st none
    simp only [Option.map_none] at this
    simp [run, Raw.withCr, this]
  | .tok col :: rest, [], some (cr, n) => by simp [run, Raw.withCr]
  | .tok col :: rest, prev :: st, some (cr, n) => by
    have e1 := run_crlf c rest (prev :: st) none
    have e2 := run_crlf c rest (indentOf cr n :: prev :: st) none
    have e3 := fun st' => run_crlf c rest st' none
    simp only [Option.map_none] at e1 e2 e3
    simp only [List.map_cons, Raw.withCr, Option.map_some, run, indentOf_eq] at e1 e2 e3 ⊢
    rw [e1, e2]
    split <;> try rfl
    split <;> try rfl
    split <;> try rfl
    rw [e3]

end Pfdl.Denter

namespace Pfdl.Denter

/-! nesting: the token stream depends on the depths the indentation expresses, not on the widths -/

/-- a logical line (after the first): its indentation as written and the nesting depth it is meant at -/
structure Line where
  indent : Nat
  depth : Nat
deriving Repr, DecidableEq

def rawOf : List Line → List Raw
  | [] => []
  | l :: rest => .nl false l.indent :: .tok l.indent :: rawOf rest

/-- the INDENT / DEDENT / NL stream as a function of the depths alone -/
def specOut : Nat → List Nat → List Out
  | cur, [] => .nl :: List.replicate cur .dedent
  | cur, d :: rest =>
    if d = cur then .nl :: .tok :: specOut cur rest
    else if cur < d then .indent :: .tok :: specOut d rest
    else (.nl :: List.replicate (cur - d) .dedent) ++ .tok :: specOut d rest

/-- the written indentations express the depths: same block = same indentation, a nested block = deeper
    than its parent (by any width), a closed block = back at the indentation of the enclosing block of that
    depth.  `st` = indentations of the open blocks, innermost first. -/
inductive Renders : List Nat → List Line → Prop
  | nil (st : List Nat) : Renders st []
  | same {top : Nat} {st : List Nat} {l : Line} {rest : List Line} :
      l.indent = top → l.depth = st.length → Renders (top :: st) rest → Renders (top :: st) (l :: rest)
  | deeper {top : Nat} {st : List Nat} {l : Line} {rest : List Line} :
      top < l.indent → l.depth = st.length + 1 → Renders (l.indent :: top :: st) rest →
      Renders (top :: st) (l :: rest)
  | shallower {st : List Nat} {l : Line} {rest : List Line} {k : Nat} :
      0 < k → st[k]? = some l.indent → l.depth + k + 1 = st.length → Renders (st.drop k) rest →
      Renders st (l :: rest)

theorem unwindGo_index : ∀ (st : List Nat) (k x : Nat), st.Pairwise (· > ·) → st[k]? = some x →
    unwindGo x st = some (List.replicate k .dedent, st.drop (k + 1))
  | [], k, x, _, h => by simp at h
  | prev :: st, 0, x, _, h => by
    simp at h
    subst h
    simp [unwindGo]
  | prev :: st, k + 1, x, hp, h => by
    simp at h
    have hx : x ∈ st := List.mem_of_getElem? h
    have hgt : prev > x := (List.pairwise_cons.1 hp).1 x hx
    have ih := unwindGo_index st k x (List.pairwise_cons.1 hp).2 h
    have h1 : ¬ prev = x := by omega
    have h2 : ¬ prev < x := by omega
    simp [unwindGo, h1, h2, ih, List.replicate_succ]

theorem run_spec {st : List Nat} {ls : List Line} (hr : Renders st ls) (hs : StackOk st) :
    run st none (rawOf ls) = some (specOut (st.length - 1) (ls.map Line.depth)) := by
  induction hr with
  | nil st =>
    obtain ⟨hp, hl⟩ := hs
    have hlen : 0 < st.length := by
      cases st with
      | nil => simp at hl
      | cons a t => simp
    have hidx : st[st.length - 1]? = some 0 := by
      rw [← hl, List.getLast?_eq_getElem?]
    have := unwindGo_index st (st.length - 1) 0 hp hidx
    simp [rawOf, run, unwind, this, specOut]
  | @same top st l rest hi hd _ ih =>
    have := ih hs
    simp only [List.length_cons, Nat.add_sub_cancel] at this
    simp [rawOf, run, indentOf_eq, hi, this, specOut, hd]
  | @deeper top st l rest hi hd _ ih =>
    have := ih (hs.push hi)
    simp only [List.length_cons, Nat.add_sub_cancel] at this
    have h1 : ¬ l.indent = top := by omega
    have h2 : ¬ st.length + 1 = st.length := by omega
    simp [rawOf, run, indentOf_eq, h1, hi, this, specOut, hd]
  | @shallower st l rest k hk hidx hd _ ih =>
    obtain ⟨hp, hl⟩ := hs
    cases st with
    | nil => simp at hidx
    | cons prev st =>
      have hx : l.indent ∈ st := by
        cases k with
        | zero => omega
        | succ k => simp at hidx; exact List.mem_of_getElem? hidx
      have hgt : prev > l.indent := (List.pairwise_cons.1 hp).1 _ hx
      have h1 : ¬ l.indent = prev := by omega
      have h2 : ¬ prev < l.indent := by omega
      have hu := unwindGo_index (prev :: st) k l.indent hp hidx
      have hklt : k < (prev :: st).length := by simp at hd ⊢; omega
      have hget : (prev :: st)[k] = l.indent := by
        have := List.getElem?_eq_getElem hklt
        rw [this] at hidx
        exact Option.some.inj hidx
      have hdrop : (prev :: st).drop k = l.indent :: (prev :: st).drop (k + 1) := by
        rw [List.drop_eq_getElem_cons hklt, hget]
      have hs' : StackOk ((prev :: st).drop k) := by
        refine ⟨hp.sublist (List.drop_sublist _ _), ?_⟩
        rw [List.getLast?_drop]
        have : ¬ (prev :: st).length ≤ k := by omega
        simp only [this, if_false]
        exact hl
      have ih' := ih hs'
      have hlen : ((prev :: st).drop k).length - 1 = l.depth := by
        simp at hd ⊢; omega
      rw [hlen] at ih'
      rw [hdrop] at ih'
      simp only [List.drop_succ_cons] at ih'
      have e1 : ¬ l.depth = st.length := by simp at hd; omega
      have e2 : ¬ st.length < l.depth := by simp at hd; omega
      have e3 : st.length - l.depth = k := by simp at hd; omega
      simp [rawOf, run, indentOf_eq, h1, h2, unwind, hu, ih', specOut, e1, e2, e3]

/-- Two renderings of the same nesting with different indentation widths give the same token stream. -/
theorem width_irrelevant {ls1 ls2 : List Line} (h1 : Renders [0] ls1) (h2 : Renders [0] ls2)
    (hd : ls1.map Line.depth = ls2.map Line.depth) :
    denter (.tok 0 :: rawOf ls1) = denter (.tok 0 :: rawOf ls2) := by
  simp [denter, run_spec h1 StackOk.base, run_spec h2 StackOk.base, hd]

end Pfdl.Denter
