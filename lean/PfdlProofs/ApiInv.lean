import PfdlProofs.Deliver
/-! Invariant of the scheduler API over arbitrary call histories. -/
namespace Pfdl

theorem Sched.fire_start (s : Sched) (ee : EE) (fuel : Nat) :
    s.fire ee fuel .start =
      if s.valid && !s.started then
        { ret := true, out := ((s.begin ee fuel).2.flatMap (expand s.ls s.observers)) ++ s.observers.map Out.netUpd,
          sched := (s.begin ee fuel).1 }
      else { ret := false, out := [], sched := s } := rfl

theorem Sched.fire_svc (s : Sched) (ee : EE) (fuel : Nat) (i : Nat) :
    s.fire ee fuel (.svcFinished i) =
      if s.valid && s.st.awaited.contains i then
        match deliver s.prog ee fuel i s.run { s.st with out := [] } with
        | some (r, st) =>
          { ret := true, out := ((s.finish r st).2.flatMap (expand s.ls s.observers)) ++ s.observers.map Out.netUpd,
            sched := (s.finish r st).1 }
        | none => { ret := false, out := [], sched := s }
      else { ret := false, out := [], sched := s } := rfl

theorem Sched.fire_other (s : Sched) (ee : EE) (fuel : Nat) :
    s.fire ee fuel .other = { ret := false, out := [], sched := s } := rfl

/-- the state in which the body of the production task is entered -/
def Sched.beginSt (s : Sched) (t : Task) : St :=
  { s.st with ctrT := s.st.ctrT + 1, out := [] }.emit
    (.note (noteOf .ts { name := t.name, ins := [], line := t.line } s.st.ctrT none []))

def Sched.beginEnv (s : Sched) : Env := { ctx := s.st.ctrT, inLoop := false, binds := [] }

def Sched.rootTF (s : Sched) (t : Task) : Note := noteOf .tf { name := t.name, ins := [], line := t.line } s.st.ctrT none []

theorem Sched.begin_some (s : Sched) (ee : EE) (fuel : Nat) (t : Task) (h : s.prog.task? Generated.startTaskName = some t) :
    s.begin ee fuel =
      ({ s with started := true, rootNote := s.rootTF t } : Sched).finish
        (enterBlk s.prog ee fuel t.body s.beginEnv (s.beginSt t)).1
        (enterBlk s.prog ee fuel t.body s.beginEnv (s.beginSt t)).2 := by
  unfold Sched.begin
  rw [h]
  rfl

theorem Sched.begin_none (s : Sched) (ee : EE) (fuel : Nat) (h : s.prog.task? Generated.startTaskName = none) :
    s.begin ee fuel = ({ s with started := true, run := .stuck .raised, st := s.st.setStuck .raised }, []) := by
  unfold Sched.begin
  rw [h]

structure Sched.Inv (s : Sched) : Prop where
  norm : s.run.Norm
  clean : s.st.stuck = none → s.run.Clean
  perm : ∀ j, s.st.awaited.count j = s.run.waiting.count j
  notStarted : s.started = false → s.run = .fin
  invalid : s.valid = false → s.started = false
  out : s.st.out = []
  hasRoot : s.valid = true → (s.prog.task? Generated.startTaskName).isSome = true

theorem Sched.Inv.awaited_perm {s : Sched} (h : s.Inv) : s.st.awaited.Perm s.run.waiting :=
  List.perm_iff_count.2 h.perm

theorem Sched.init_inv (P : Prog) (v : Bool) : (Sched.init P v).Inv :=
  ⟨by simp [Sched.init], by simp [Sched.init], by simp [Sched.init], by simp [Sched.init], by simp [Sched.init],
   by simp [Sched.init], by simp [Sched.init]⟩

/-- closing a call keeps the invariant -/
theorem Sched.finish_inv (s : Sched) (r : Run) (st : St) (hn : r.Norm) (hc : st.stuck = none → r.Clean)
    (hp : ∀ j, st.awaited.count j = r.waiting.count j) (hs : s.started = true) (hv : s.valid = false → s.started = false)
    (hr : s.valid = true → (s.prog.task? Generated.startTaskName).isSome = true) :
    (s.finish r st).1.Inv := by
  unfold Sched.finish
  split
  · rename_i hfin
    have hr := Run.isFin_eq_true.1 hfin
    subst hr
    exact ⟨by simp, by simp, by simpa using hp, by simp [hs], by simpa using hv, by simp, by simpa using hr⟩
  · exact ⟨by simpa using hn, by simpa using hc, by simpa using hp, by simp [hs], by simpa using hv, by simp, by simpa using hr⟩

theorem Sched.begin_inv (s : Sched) (ee : EE) (fuel : Nat) (h : s.Inv) (hs : s.started = false) (hv : s.valid = true) :
    (s.begin ee fuel).1.Inv := by
  unfold Sched.begin
  have hfin := h.notStarted hs
  have haw : ∀ j, s.st.awaited.count j = 0 := by intro j; rw [h.perm j, hfin]; simp
  split
  · exact ⟨by simp, fun hst => absurd hst (by simpa using St.setStuck_stuck_ne s.st .raised),
      by simpa using haw, by simp, by simp [hv], by simpa using h.out, by simpa using h.hasRoot⟩
  · rename_i t _
    apply Sched.finish_inv
    · exact enterBlk_norm ..
    · intro hst
      exact ((enterBlk_ok ..).clean hst).1
    · intro j
      have := (enterBlk_ok s.prog ee fuel t.body { ctx := s.st.ctrT, inLoop := false, binds := [] }
        ({ s.st with ctrT := s.st.ctrT + 1, out := [] }.emit (.note (noteOf .ts { name := t.name, ins := [], line := t.line } s.st.ctrT none [])))).cnt j
      simp at this
      rw [this, haw j]; simp
    · simp
    · simp [hv]
    · simpa using h.hasRoot

theorem Sched.fire_inv (s : Sched) (ee : EE) (fuel : Nat) (e : Event) (h : s.Inv) : (s.fire ee fuel e).sched.Inv := by
  unfold Sched.fire
  split
  · split
    · rename_i hc
      simp at hc
      exact Sched.begin_inv s ee fuel h hc.2 hc.1
    · exact h
  · rename_i i
    split
    · rename_i hc
      simp at hc
      split
      · rename_i r st heq
        have hd := deliver_ok s.prog ee fuel i s.run { s.st with out := [] } r st heq
        have hn := deliver_norm s.prog ee fuel i s.run { s.st with out := [] } r st heq h.norm
        have hstarted : s.started = true := by
          cases hst : s.started
          · have := h.notStarted hst
            have hh := hd.hit
            rw [this] at hh; simp at hh
          · rfl
        apply Sched.finish_inv
        · exact hn
        · intro hst
          have := hd.clean hst
          exact this.1 (h.clean (by simpa using this.2))
        · intro j
          have := hd.cnt (by simpa using hc.2) j
          have hp := h.perm j
          simp at this
          omega
        · exact hstarted
        · exact h.invalid
        · exact h.hasRoot
      · exact h
    · exact h
  · exact h

theorem Sched.start_inv (s : Sched) (ee : EE) (fuel : Nat) (h : s.Inv) : (s.start ee fuel).sched.Inv := by
  unfold Sched.start
  split
  · split
    · have h' : ({ s with running := true } : Sched).Inv := ⟨h.norm, h.clean, h.perm, h.notStarted, h.invalid, h.out, h.hasRoot⟩
      exact Sched.fire_inv _ ee fuel .start h'
    · exact h
  · exact h

theorem Sched.step_inv (s : Sched) (ee : EE) (fuel : Nat) (op : Op) (h : s.Inv) : (s.step ee fuel op).sched.Inv := by
  cases op with
  | start => exact Sched.start_inv s ee fuel h
  | fire e => exact Sched.fire_inv s ee fuel e h
  | register k fn =>
    simp only [Sched.step, Sched.register]
    split
    · exact h
    · exact ⟨h.norm, h.clean, h.perm, h.notStarted, h.invalid, h.out, h.hasRoot⟩
  | attach o => exact ⟨h.norm, h.clean, h.perm, h.notStarted, h.invalid, h.out, h.hasRoot⟩
  | detach o =>
    simp only [Sched.step, Sched.detach]
    split
    · rename_i s' heq
      split at heq
      · simp at heq; subst heq
        exact ⟨h.norm, h.clean, h.perm, h.notStarted, h.invalid, h.out, h.hasRoot⟩
      · simp at heq
    · exact h

/-- the invariant holds after every history of API calls -/
theorem Sched.runOps_inv (ee : EE) (fuel : Nat) : (ops : List Op) → (s : Sched) → s.Inv → (s.runOps ee fuel ops).Inv
  | [], s, h => by simpa [Sched.runOps] using h
  | op :: ops, s, h => by
      simp only [Sched.runOps]
      exact Sched.runOps_inv ee fuel ops _ (Sched.step_inv s ee fuel op h)

end Pfdl
