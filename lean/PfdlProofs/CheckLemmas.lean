import PfdlModel.Check
/-! Lemmas about the validation model: the descent reaches every statement at every depth. -/
namespace Pfdl.Check

mutual
/-- a statement and everything nested in it (loop bodies, Passed/Failed blocks; not across calls) -/
def Stmt.subStmts : Stmt → List Stmt
  | .svc c => [.svc c]
  | .call c => [.call c]
  | .par cs l => [.par cs l]
  | .cond e p f l => .cond e p f l :: (subStmtsL p ++ subStmtsL f)
  | .cloop par v lim b l => .cloop par v lim b l :: subStmtsL b
  | .wloop e b l => .wloop e b l :: subStmtsL b
def subStmtsL : List Stmt → List Stmt
  | [] => []
  | s :: ss => s.subStmts ++ subStmtsL ss
end

theorem optAppend_some {a b : Option (List Err)} {r : List Err} (h : optAppend a b = some r) :
    ∃ x y, a = some x ∧ b = some y ∧ r = x ++ y := by
  cases a <;> cases b <;> simp [optAppend] at h
  exact ⟨_, _, rfl, rfl, h.symm⟩

/-- a check result that is not "fine": it reports something (or raises) -/
def Bad (r : Option (List Err)) : Prop := r ≠ some []

theorem reports_of_append_left {x y : List Err} (h : x ≠ []) : x ++ y ≠ [] := by
  cases x <;> simp_all

theorem reports_of_append_right {x y : List Err} (h : y ≠ []) : x ++ y ≠ [] := by
  cases y <;> simp_all

theorem ne_nil_of_bad {r : Option (List Err)} {errs : List Err} (h : r = some errs) (hb : Bad r) : errs ≠ [] := by
  intro he; subst he; exact hb h

mutual
/-- DESCENT: if validation of a statement returns (does not raise) and some statement nested in it –
    at any depth of loops and conditions – is on its own not fine, then something is reported -/
theorem checkStmt_descent (env : Env) (vars : List (String × Ty)) : (s : Stmt) → (errs : List Err) →
    checkStmt env vars s = some errs → (x : Stmt) → x ∈ s.subStmts → Bad (checkStmt env vars x) → errs ≠ []
  | .svc c, errs, h, x, hx, hr => by
      simp [Stmt.subStmts] at hx; subst hx; exact ne_nil_of_bad h hr
  | .call c, errs, h, x, hx, hr => by
      simp [Stmt.subStmts] at hx; subst hx; exact ne_nil_of_bad h hr
  | .par cs l, errs, h, x, hx, hr => by
      simp [Stmt.subStmts] at hx; subst hx; exact ne_nil_of_bad h hr
  | .wloop e b l, errs, h, x, hx, hr => by
      simp only [Stmt.subStmts, List.mem_cons] at hx
      rcases hx with rfl | hx
      · exact ne_nil_of_bad h hr
      · simp only [checkStmt] at h
        obtain ⟨a, b', ha, _, rfl⟩ := optAppend_some h
        exact reports_of_append_left (checkStmts_descent env vars b a ha x hx hr)
  | .cond e p f l, errs, h, x, hx, hr => by
      simp only [Stmt.subStmts, List.mem_cons, List.mem_append] at hx
      rcases hx with rfl | hx | hx
      · exact ne_nil_of_bad h hr
      · simp only [checkStmt] at h
        obtain ⟨a, b', ha, _, rfl⟩ := optAppend_some h
        obtain ⟨a1, a2, ha1, _, rfl⟩ := optAppend_some ha
        exact reports_of_append_left (reports_of_append_left (checkStmts_descent env vars p a1 ha1 x hx hr))
      · simp only [checkStmt] at h
        obtain ⟨a, b', ha, _, rfl⟩ := optAppend_some h
        obtain ⟨a1, a2, _, ha2, rfl⟩ := optAppend_some ha
        exact reports_of_append_left (reports_of_append_right (checkStmts_descent env vars f a2 ha2 x hx hr))
  | .cloop par v lim b l, errs, h, x, hx, hr => by
      simp only [Stmt.subStmts, List.mem_cons] at hx
      rcases hx with rfl | hx
      · exact ne_nil_of_bad h hr
      · simp only [checkStmt] at h
        -- the limit check comes first: if it reports, the loop is reported; otherwise the body is checked
        split at h
        · simp at h
        · simp at h; rw [← h]; simp [atLine]
        · split at h
          · -- parallel loop: body must be a single task call
            split at h
            · rename_i c hsc
              have hb : b = [.call c] := by
                unfold singleCall? at hsc
                cases b with
                | nil => simp at hsc
                | cons s ss =>
                  cases ss with
                  | cons s2 ss2 => simp at hsc
                  | nil => cases s <;> simp at hsc; subst hsc; rfl
              subst hb
              simp [subStmtsL, Stmt.subStmts] at hx
              subst hx
              simp only [checkStmt] at hr
              exact ne_nil_of_bad h hr
            · simp at h; rw [← h]; simp
          · exact checkStmts_descent env vars b errs h x hx hr
theorem checkStmts_descent (env : Env) (vars : List (String × Ty)) : (b : List Stmt) → (errs : List Err) →
    checkStmts env vars b = some errs → (x : Stmt) → x ∈ subStmtsL b → Bad (checkStmt env vars x) → errs ≠ []
  | [], errs, _, x, hx, _ => by simp [subStmtsL] at hx
  | s :: ss, errs, h, x, hx, hr => by
      simp only [checkStmts] at h
      obtain ⟨a, b', ha, hb, rfl⟩ := optAppend_some h
      simp only [subStmtsL, List.mem_append] at hx
      rcases hx with hx | hx
      · exact reports_of_append_left (checkStmt_descent env vars s a ha x hx hr)
      · exact reports_of_append_right (checkStmts_descent env vars ss b' hb x hx hr)
end

theorem foldl_optAppend_some {α : Type} (g : α → Option (List Err)) : (l : List α) → (a0 r : List Err) →
    l.foldl (fun acc t => optAppend acc (g t)) (some a0) = some r →
    (a0 ≠ [] → r ≠ []) ∧ ∀ t ∈ l, ∃ y, g t = some y ∧ (y ≠ [] → r ≠ [])
  | [], a0, r, h => by simp at h; subst h; exact ⟨id, by simp⟩
  | x :: xs, a0, r, h => by
      simp only [List.foldl_cons] at h
      cases hg : g x with
      | none =>
        rw [hg] at h
        have hnone : ∀ (l : List α), l.foldl (fun acc t => optAppend acc (g t)) none = none := by
          intro l; induction l with
          | nil => rfl
          | cons y ys ih =>
            simp only [List.foldl_cons]
            have : optAppend none (g y) = none := by cases g y <;> rfl
            rw [this]; exact ih
        have : optAppend (some a0) none = none := rfl
        rw [this, hnone] at h
        simp at h
      | some y =>
        rw [hg] at h
        simp only [optAppend] at h
        have ih := foldl_optAppend_some g xs (a0 ++ y) r h
        refine ⟨fun ha => ih.1 (reports_of_append_left ha), ?_⟩
        intro t ht
        simp at ht
        rcases ht with rfl | ht
        · exact ⟨y, hg, fun hy => ih.1 (reports_of_append_right hy)⟩
        · exact ih.2 t ht

/-- anything a task's check reports makes the program invalid (if validation returns at all) -/
theorem validate_of_task (p : Prog) (errs : List Err) (h : validate p = some errs) (t : Task)
    (ht : t ∈ (mkEnv p).tasks) (te : List Err) (hte : checkTask (mkEnv p) t = some te) (hne : te ≠ []) : errs ≠ [] := by
  unfold validate at h
  simp only [] at h
  split at h
  · simp at h
  · rename_i all hall
    simp at h
    obtain ⟨y, hy, hyr⟩ := (foldl_optAppend_some (checkTask (mkEnv p)) (mkEnv p).tasks [] all hall).2 t ht
    rw [hte] at hy; simp at hy; subst hy
    have := hyr hne
    rw [← h]
    intro hnil
    apply this
    have key : ∀ (a b c d e : List Err), a ++ (b ++ (c ++ (d ++ e))) = [] → d = [] := by
      intro a b c d e hh; simp only [List.append_eq_nil_iff] at hh; exact hh.2.2.2.1
    exact key _ _ _ _ _ hnil

/-- … in particular anything reported for a statement nested anywhere in the task's body -/
theorem validate_of_nested_stmt (p : Prog) (errs : List Err) (h : validate p = some errs) (t : Task)
    (ht : t ∈ (mkEnv p).tasks) (x : Stmt) (hx : x ∈ subStmtsL t.body)
    (hr : Bad (checkStmt (mkEnv p) t.variables x)) : errs ≠ [] := by
  cases hct : checkTask (mkEnv p) t with
  | none =>
    -- then validation itself does not return
    unfold validate at h
    simp only [] at h
    split at h
    · simp at h
    · rename_i all hall
      obtain ⟨y, hy, _⟩ := (foldl_optAppend_some (checkTask (mkEnv p)) (mkEnv p).tasks [] all hall).2 t ht
      rw [hct] at hy; simp at hy
  | some te =>
    apply validate_of_task p errs h t ht te hct
    unfold checkTask at hct
    simp only [] at hct
    split at hct
    · simp at hct
    · rename_i se hse
      simp at hct
      have := checkStmts_descent (mkEnv p) t.variables t.body se hse x hx hr
      rw [← hct]
      intro hnil
      apply this
      have key : ∀ (a b c : List Err), a ++ (b ++ c) = [] → a = [] := by
        intro a b c hh; simp only [List.append_eq_nil_iff] at hh; exact hh.1
      exact key _ _ _ hnil

end Pfdl.Check
