import PfdlProofs.CheckOrder
import PfdlProofs.CheckComplete
import PfdlProofs.Safe
/-! From the validation model to the scheduler model: the program the scheduler runs is the validated program with
    its types erased; what acceptance guarantees makes every task call of the erased program resolve. -/
namespace Pfdl
open Pfdl.Check (singleCall?)

/-- what the validation model does not keep: parameter values and the integers written as loop limits -/
structure Fill where
  arg : Check.Arg → Param
  lim : Nat → Int

def eraseCall (F : Fill) (c : Check.Call) : CallSite := { name := c.name, ins := c.ins.map F.arg, line := c.line }

def eraseLimit (F : Fill) (line : Nat) : Option (List String) → Limit
  | none => .lit (F.lim line)
  | some p => .path p

mutual
def eraseStmt (F : Fill) : Check.Stmt → Stmt
  | .svc c => .svc (eraseCall F c)
  | .call c => .call (eraseCall F c)
  | .par cs l => .par (cs.map (eraseCall F)) l
  | .cond e p f l => .cond e (eraseL F p) (eraseL F f) l
  | .cloop par v lim body l =>
    if par then
      match singleCall? body with
      | some c => .ploop v (eraseLimit F l lim) (eraseCall F c) l
      | none => .cloop v (eraseLimit F l lim) (eraseL F body) l   -- ill-formed parallel loop: rejected by validation
    else .cloop v (eraseLimit F l lim) (eraseL F body) l
  | .wloop e body l => .wloop e (eraseL F body) l
def eraseL (F : Fill) : List Check.Stmt → List Stmt
  | [] => []
  | s :: ss => eraseStmt F s :: eraseL F ss
end

def eraseTask (F : Fill) (t : Check.Task) : Task := { name := t.name, body := eraseL F t.body, line := t.line }
def erase (F : Fill) (p : Check.Prog) : Prog := { tasks := p.tasks.map (eraseTask F) }

mutual
/-- every task call of the statement resolves -/
def Stmt.Closed (P : Prog) : Stmt → Prop
  | .svc _ => True
  | .call c => (P.task? c.name).isSome
  | .par cs _ => ∀ c ∈ cs, (P.task? c.name).isSome
  | .cond _ p q _ => ClosedL P p ∧ ClosedL P q
  | .cloop _ _ b _ => ClosedL P b
  | .wloop _ b _ => ClosedL P b
  | .ploop _ _ c _ => (P.task? c.name).isSome
def ClosedL (P : Prog) : List Stmt → Prop
  | [] => True
  | s :: ss => s.Closed P ∧ ClosedL P ss
end
def Prog.Closed (P : Prog) : Prop := ∀ t ∈ P.tasks, ClosedL P t.body

mutual
/-- every guard / condition evaluates and every limit is a (whole) number, whatever the engine has answered so far -/
def Stmt.Evaluates (ee : EE) : Stmt → Prop
  | .svc _ => True
  | .call _ => True
  | .par _ _ => True
  | .cond e p q _ => EvalOk ee e ∧ EvaluatesL ee p ∧ EvaluatesL ee q
  | .cloop _ lim b _ => LimOk ee lim ∧ EvaluatesL ee b
  | .wloop e b _ => EvalOk ee e ∧ EvaluatesL ee b
  | .ploop _ lim _ _ => PLimOk ee lim
def EvaluatesL (ee : EE) : List Stmt → Prop
  | [] => True
  | s :: ss => s.Evaluates ee ∧ EvaluatesL ee ss
end
def Prog.Evaluates (P : Prog) (ee : EE) : Prop := ∀ t ∈ P.tasks, EvaluatesL ee t.body

mutual
theorem Stmt.safe_of (P : Prog) (ee : EE) : ∀ s : Stmt, s.Closed P → s.Evaluates ee → s.Safe P ee
  | .svc _, _, _ => by simp [Stmt.Safe]
  | .call c, hc, _ => by simpa [Stmt.Safe, Stmt.Closed] using hc
  | .par cs l, hc, _ => by simpa [Stmt.Safe, Stmt.Closed] using hc
  | .cond e p q l, hc, he => by
    simp only [Stmt.Closed] at hc
    simp only [Stmt.Evaluates] at he
    simp only [Stmt.Safe]
    exact ⟨he.1, safeL_of P ee p hc.1 he.2.1, safeL_of P ee q hc.2 he.2.2⟩
  | .cloop v lim b l, hc, he => by
    simp only [Stmt.Closed] at hc
    simp only [Stmt.Evaluates] at he
    simp only [Stmt.Safe]
    exact ⟨he.1, safeL_of P ee b hc he.2⟩
  | .wloop e b l, hc, he => by
    simp only [Stmt.Closed] at hc
    simp only [Stmt.Evaluates] at he
    simp only [Stmt.Safe]
    exact ⟨he.1, safeL_of P ee b hc he.2⟩
  | .ploop v lim c l, hc, he => by
    simp only [Stmt.Closed] at hc
    simp only [Stmt.Evaluates] at he
    simp only [Stmt.Safe]
    exact ⟨he, hc⟩
theorem safeL_of (P : Prog) (ee : EE) : ∀ ss : List Stmt, ClosedL P ss → EvaluatesL ee ss → SafeL P ee ss
  | [], _, _ => by simp [SafeL]
  | s :: ss, hc, he => by
    simp only [ClosedL] at hc
    simp only [EvaluatesL] at he
    simp only [SafeL]
    exact ⟨Stmt.safe_of P ee s hc.1 he.1, safeL_of P ee ss hc.2 he.2⟩
end

theorem Prog.safe_of {P : Prog} {ee : EE} (hc : P.Closed) (he : P.Evaluates ee) : P.Safe ee :=
  fun t ht => safeL_of P ee t.body (hc t ht) (he t ht)

/-! acceptance makes the erased program closed -/

theorem erase_task? (F : Fill) (p : Check.Prog) (n : String) :
    (erase F p).task? n = (p.tasks.find? (·.name == n)).map (eraseTask F) := by
  unfold erase Prog.task?
  simp only [List.find?_map]
  rfl

theorem checkTaskCall_resolves {env : Check.Env} {vars : List (String × Check.Ty)} {c : Check.Call}
    (h : Check.checkTaskCall env vars c = some []) : env.task? c.name ≠ none := by
  intro hn
  simp [Check.checkTaskCall, hn] at h

mutual
theorem closed_of_checked (F : Fill) (P : Prog) (env : Check.Env) (vars : List (String × Check.Ty))
    (hres : ∀ n, env.task? n ≠ none → (P.task? n).isSome) :
    ∀ s : Check.Stmt, Check.checkStmt env vars s = some [] → (eraseStmt F s).Closed P
  | .svc c, _ => by simp [eraseStmt, Stmt.Closed]
  | .call c, h => by
    rw [Check.checkStmt_call_nil_iff] at h
    simpa [eraseStmt, Stmt.Closed, eraseCall] using hres c.name (checkTaskCall_resolves h)
  | .par cs l, h => by
    rw [Check.checkStmt_par_nil_iff] at h
    simp only [eraseStmt, Stmt.Closed, List.mem_map]
    rintro c' ⟨c, hc, rfl⟩
    simpa [eraseCall] using hres c.name (checkTaskCall_resolves (h c hc))
  | .cond e p f l, h => by
    rw [Check.checkStmt_cond_nil_iff] at h
    simp only [eraseStmt, Stmt.Closed]
    exact ⟨closedL_of_checked F P env vars hres p h.1, closedL_of_checked F P env vars hres f h.2.1⟩
  | .wloop e b l, h => by
    rw [Check.checkStmt_wloop_nil_iff] at h
    simp only [eraseStmt, Stmt.Closed]
    exact closedL_of_checked F P env vars hres b h.1
  | .cloop false v lim b l, h => by
    rw [Check.checkStmt_cloop_nil_iff] at h
    simp only [eraseStmt, Bool.false_eq_true, if_false, Stmt.Closed]
    exact closedL_of_checked F P env vars hres b h.2
  | .cloop true v lim b l, h => by
    simp only [eraseStmt, if_true]
    cases hs : singleCall? b with
    | none =>
      -- the validator reports an ill-formed parallel loop
      simp only [Check.checkStmt, hs] at h
      split at h
      · simp at h
      · simp [Check.atLine] at h
      · simp at h
    | some c =>
      simp only [Stmt.Closed]
      simp only [Check.checkStmt, hs] at h
      split at h
      · simp at h
      · simp [Check.atLine] at h
      · simp only [if_true] at h
        rw [Check.map_atLine_nil_iff] at h
        simpa [eraseCall] using hres c.name (checkTaskCall_resolves h)
theorem closedL_of_checked (F : Fill) (P : Prog) (env : Check.Env) (vars : List (String × Check.Ty))
    (hres : ∀ n, env.task? n ≠ none → (P.task? n).isSome) :
    ∀ ss : List Check.Stmt, Check.checkStmts env vars ss = some [] → ClosedL P (eraseL F ss)
  | [], _ => by simp [eraseL, ClosedL]
  | s :: ss, h => by
    rw [Check.checkStmts_nil_iff] at h
    simp only [eraseL, ClosedL]
    exact ⟨closed_of_checked F P env vars hres s (h s (by simp)),
      closedL_of_checked F P env vars hres ss ((Check.checkStmts_nil_iff env vars ss).2 (fun x hx => h x (by simp [hx])))⟩
end

/-- **Acceptance closes the program**: in the program the scheduler runs (the accepted program, types erased) every
    task call, Parallel branch and parallel-loop body names a defined task. -/
theorem accepted_erasure_closed (F : Fill) (p : Check.Prog) (h : Check.accepts p = true) : (erase F p).Closed := by
  have hg : Check.Good p := by
    unfold Check.accepts at h
    rw [beq_iff_eq] at h
    exact (Check.validate_nil_iff p).1 h
  intro t ht
  simp only [erase, List.mem_map] at ht
  obtain ⟨ct, hct, rfl⟩ := ht
  have hchk := hg.tasks ct hct
  -- checkTask = some [] gives checkStmts = some []
  unfold Check.checkTask at hchk
  simp only at hchk
  split at hchk
  · simp at hchk
  · rename_i se hse
    simp only [Option.some.injEq, List.append_eq_nil_iff] at hchk
    have hse' : Check.checkStmts (Check.envOf p) ct.variables ct.body = some [] := by rw [hse, hchk.1.1]
    apply closedL_of_checked F (erase F p) (Check.envOf p) ct.variables ?_ ct.body hse'
    intro n hn
    rw [erase_task?]
    have : (Check.envOf p).task? n = p.tasks.find? (·.name == n) := rfl
    rw [this] at hn
    cases hf : p.tasks.find? (·.name == n) with
    | none => exact absurd hf hn
    | some x => simp

end Pfdl
