import PfdlModel.Net
import PfdlProofs.Erase
/-! The generator of the net layer on programs whose calls resolve and that contain no parallel loop: the callbacks
    it registers refer to existing API objects, every service object is registered in `place_dict`, no parallel-loop
    callback is registered, and nothing is raised (with enough fuel).  Core Lean only. -/
namespace Pfdl.Net
open Pfdl

mutual
/-- the statement contains no parallel loop - unless parallel loops are admitted (`ap`) -/
def NoPloop (ap : Bool) : Stmt → Prop
  | .svc _ => True
  | .call _ => True
  | .par _ _ => True
  | .cond _ p q _ => NoPloopL ap p ∧ NoPloopL ap q
  | .cloop _ _ b _ => NoPloopL ap b
  | .wloop _ b _ => NoPloopL ap b
  | .ploop _ _ _ _ => ap = true
def NoPloopL (ap : Bool) : List Stmt → Prop
  | [] => True
  | s :: ss => NoPloop ap s ∧ NoPloopL ap ss
end

def ProgNoPloop (ap : Bool) (P : Prog) : Prop := ∀ t ∈ P.tasks, NoPloopL ap t.body

mutual
theorem noPloop_true : ∀ st : Stmt, NoPloop true st
  | .svc _ => trivial
  | .call _ => trivial
  | .par _ _ => trivial
  | .cond _ p q _ => ⟨noPloopL_true p, noPloopL_true q⟩
  | .cloop _ _ b _ => noPloopL_true b
  | .wloop _ b _ => noPloopL_true b
  | .ploop _ _ _ _ => rfl
theorem noPloopL_true : ∀ l : List Stmt, NoPloopL true l
  | [] => trivial
  | s :: ss => ⟨noPloop_true s, noPloopL_true ss⟩
end

theorem progNoPloop_true (P : Prog) : ProgNoPloop true P := fun t _ => noPloopL_true t.body

/-- a callback refers to API objects that exist; it is no parallel-loop callback -/
def CbOk (P : Prog) (ap : Bool) (nt ns : Nat) : Cb → Prop
  | .taskStarted t => t < nt
  | .taskFinished t => t < nt
  | .svcStarted i => i < ns
  | .svcFinished i => i < ns
  | .ploop _ _ c _ _ _ _ => ap = true ∧ (P.task? c.name).isSome = true   -- parallel loops only if admitted; their task exists
  | _ => True

theorem CbOk.mono {P : Prog} {ap : Bool} {nt ns nt' ns' : Nat} {cb : Cb} (h : CbOk P ap nt ns cb) (h1 : nt ≤ nt') (h2 : ns ≤ ns') :
    CbOk P ap nt' ns' cb := by
  cases cb <;> simp_all [CbOk] <;> omega

theorem dictGet_dictSet_self {κ ν} [DecidableEq κ] (d : List (κ × ν)) (k : κ) (v : ν) :
    (dictGet (dictSet d k v) k).isSome = true := by
  unfold dictGet dictSet
  split
  · rename_i hany
    simp only [List.any_eq_true, decide_eq_true_eq] at hany
    obtain ⟨e, he, hek⟩ := hany
    rw [Option.isSome_map]
    rw [List.find?_isSome]
    refine ⟨(k, v), ?_, by simp⟩
    simp only [List.mem_map]
    exact ⟨e, he, by simp [hek]⟩
  · rw [Option.isSome_map, List.find?_isSome]
    exact ⟨(k, v), by simp, by simp⟩

theorem dictGet_dictSet_of_isSome {κ ν} [DecidableEq κ] (d : List (κ × ν)) (k k' : κ) (v : ν)
    (h : (dictGet d k').isSome = true) : (dictGet (dictSet d k v) k').isSome = true := by
  unfold dictGet at h ⊢
  rw [Option.isSome_map, List.find?_isSome] at h ⊢
  obtain ⟨e, he, hek⟩ := h
  unfold dictSet
  split
  · by_cases hk : e.1 = k
    · exact ⟨(k, v), by simp only [List.mem_map]; exact ⟨e, he, by simp [hk]⟩, by simpa [hk] using hek⟩
    · exact ⟨e, by simp only [List.mem_map]; exact ⟨e, he, by simp [hk]⟩, hek⟩
  · exact ⟨e, by simp [he], hek⟩

structure GInv (P : Prog) (ap : Bool) (e0 : Option String) (s : NS) : Prop where
  prog : s.prog = P
  cbOk : ∀ (t : Nat) (l : List (Nat × Cb)), s.cbs[t]? = some l → ∀ c ∈ l, CbOk P ap s.tasks.size s.svcs.size c.2
  pd : ∀ (i : Nat) (a : SvcApi), s.svcs[i]? = some a → (dictGet s.placeDict a.uid).isSome = true
  exc : s.exc = e0 ∨ (e0 = none ∧ s.exc = some "outOfFuel")   -- what was raised before (`e0`), or the model's fuel

variable {P : Prog} {ap : Bool} {e0 : Option String}

theorem GInv.frame {s s' : NS} (h : GInv P ap e0 s) (h1 : s'.prog = s.prog) (h2 : s'.cbs = s.cbs)
    (h3 : s'.tasks.size = s.tasks.size) (h4 : s'.svcs = s.svcs) (h5 : s'.placeDict = s.placeDict)
    (h6 : s'.exc = s.exc) : GInv P ap e0 s' :=
  ⟨h1 ▸ h.prog, by rw [h2, h3, h4]; exact h.cbOk, by rw [h4, h5]; exact h.pd, by rw [h6]; exact h.exc⟩

theorem GInv.pushPlace {s : NS} (h : GInv P ap e0 s) : GInv P ap e0 s.pushPlace := h.frame rfl rfl rfl rfl rfl rfl
theorem GInv.addIn {s : NS} (h : GInv P ap e0 s) (p t : Nat) : GInv P ap e0 (s.addIn p t) := h.frame rfl rfl rfl rfl rfl rfl
theorem GInv.addOut {s : NS} (h : GInv P ap e0 s) (p t : Nat) : GInv P ap e0 (s.addOut p t) := h.frame rfl rfl rfl rfl rfl rfl

theorem GInv.pushTrans {s : NS} (h : GInv P ap e0 s) : GInv P ap e0 s.pushTrans := by
  refine ⟨h.prog, ?_, h.pd, h.exc⟩
  intro t l hl c hc
  have hl' : (s.cbs.push [])[t]? = some l := hl
  rw [Array.getElem?_push] at hl'
  split at hl'
  · cases hl'; simp at hc
  · exact h.cbOk t l hl' c hc

theorem GInv.addCb {s : NS} (h : GInv P ap e0 s) (t : Nat) (cb : Cb) (hcb : CbOk P ap s.tasks.size s.svcs.size cb) :
    GInv P ap e0 (s.addCb t cb) := by
  refine ⟨h.prog, ?_, h.pd, h.exc⟩
  intro t' l hl c hc
  have hl' : (s.cbs.modify t (fun l => l ++ [(s.ncb, cb)]))[t']? = some l := hl
  rw [Array.getElem?_modify] at hl'
  by_cases ht : t = t'
  · subst ht
    simp only [↓reduceIte] at hl'
    cases hq : s.cbs[t]? with
    | none => simp [hq] at hl'
    | some l0 =>
      simp [hq] at hl'
      subst hl'
      simp only [List.mem_append, List.mem_singleton] at hc
      rcases hc with hc | hc
      · exact h.cbOk t l0 hq c hc
      · subst hc; exact hcb
  · simp only [ht, ↓reduceIte] at hl'
    exact h.cbOk t' l hl' c hc

theorem GInv.pushTask {s : NS} (h : GInv P ap e0 s) (name : String) (line : Nat) (parent : Option Nat)
    (call : Option CallSite) (inLoop : Bool) : GInv P ap e0 (s.pushTask name line parent call inLoop) := by
  refine ⟨h.prog, ?_, h.pd, h.exc⟩
  intro t l hl c hc
  have := h.cbOk t l hl c hc
  exact this.mono (by show s.tasks.size ≤ (s.tasks.push _).size; simp) (Nat.le_refl _)

theorem GInv.pushSvc {s : NS} (h : GInv P ap e0 s) (c : CallSite) (ctx : Nat) (inLoop : Bool) (fin : Nat) :
    GInv P ap e0 (s.pushSvc c ctx inLoop fin) := by
  refine ⟨h.prog, ?_, ?_, h.exc⟩
  · intro t l hl cb hc
    have := h.cbOk t l hl cb hc
    exact this.mono (Nat.le_refl _) (by show s.svcs.size ≤ (s.svcs.push _).size; simp)
  · intro i a ha
    have ha' : (s.svcs.push { c := c, ctx := ctx, inLoop := inLoop, uid := Uid.fresh s.nfresh, params := c.ins })[i]? = some a := ha
    show (dictGet (dictSet s.placeDict (Uid.fresh s.nfresh) fin) a.uid).isSome = true
    rw [Array.getElem?_push] at ha'
    split at ha'
    · cases ha'
      exact dictGet_dictSet_self _ _ _
    · exact dictGet_dictSet_of_isSome _ _ _ _ (h.pd i a ha')

theorem GInv.outOfFuel {s : NS} (h : GInv P ap e0 s) : GInv P ap e0 s.outOfFuel := by
  unfold NS.outOfFuel NS.raise
  split
  · exact ⟨h.prog, h.cbOk, h.pd, h.exc⟩
  · rename_i hnone
    refine ⟨h.prog, h.cbOk, h.pd, Or.inr ⟨?_, rfl⟩⟩
    rcases h.exc with he | ⟨_, he⟩
    · rw [← he]; cases hx : s.exc with
      | none => rfl
      | some x => simp [hx] at hnone
    · simp [he] at hnone

theorem task?_mem (P : Prog) (n : String) (t : Task) (h : P.task? n = some t) : t ∈ P.tasks := by
  unfold Prog.task? at h
  exact List.mem_of_find?_eq_some h

theorem size_pushTask (s : NS) (name : String) (line : Nat) (parent : Option Nat) (call : Option CallSite) (inLoop : Bool) :
    (s.pushTask name line parent call inLoop).tasks.size = s.tasks.size + 1 := by
  show (s.tasks.push _).size = _
  simp

/-- `s'` is reached from `s` by generator steps: the invariant holds of it, no task object was lost, no key of
    `place_dict` was lost, and nothing but the model's fuel was raised -/
structure Ext (P : Prog) (ap : Bool) (e0 : Option String) (s s' : NS) : Prop where
  inv : GInv P ap e0 s'
  le : s.tasks.size ≤ s'.tasks.size
  les : s.svcs.size ≤ s'.svcs.size
  keys : ∀ u, (dictGet s.placeDict u).isSome = true → (dictGet s'.placeDict u).isSome = true

theorem Ext.refl {s : NS} (h : GInv P ap e0 s) : Ext P ap e0 s s := ⟨h, Nat.le_refl _, Nat.le_refl _, fun _ h => h⟩
theorem Ext.trans {a b c : NS} (h1 : Ext P ap e0 a b) (h2 : Ext P ap e0 b c) : Ext P ap e0 a c :=
  ⟨h2.inv, Nat.le_trans h1.le h2.le, Nat.le_trans h1.les h2.les, fun u hu => h2.keys u (h1.keys u hu)⟩
theorem Ext.pushPlace {s s' : NS} (h : Ext P ap e0 s s') : Ext P ap e0 s s'.pushPlace := ⟨h.inv.pushPlace, h.le, h.les, h.keys⟩
theorem Ext.pushTrans {s s' : NS} (h : Ext P ap e0 s s') : Ext P ap e0 s s'.pushTrans := ⟨h.inv.pushTrans, h.le, h.les, h.keys⟩
theorem Ext.addIn {s s' : NS} (h : Ext P ap e0 s s') (p t : Nat) : Ext P ap e0 s (s'.addIn p t) := ⟨h.inv.addIn p t, h.le, h.les, h.keys⟩
theorem Ext.addOut {s s' : NS} (h : Ext P ap e0 s s') (p t : Nat) : Ext P ap e0 s (s'.addOut p t) := ⟨h.inv.addOut p t, h.le, h.les, h.keys⟩
theorem Ext.addCb {s s' : NS} (h : Ext P ap e0 s s') (t : Nat) (cb : Cb) (hcb : CbOk P ap s'.tasks.size s'.svcs.size cb) :
    Ext P ap e0 s (s'.addCb t cb) := ⟨h.inv.addCb t cb hcb, h.le, h.les, h.keys⟩
theorem Ext.pushSvc {s s' : NS} (h : Ext P ap e0 s s') (c : CallSite) (ctx : Nat) (inLoop : Bool) (fin : Nat) :
    Ext P ap e0 s (s'.pushSvc c ctx inLoop fin) :=
  ⟨h.inv.pushSvc c ctx inLoop fin, h.le, Nat.le_trans h.les (by show s'.svcs.size ≤ (s'.svcs.push _).size; simp), fun u hu => dictGet_dictSet_of_isSome _ _ _ _ (h.keys u hu)⟩
theorem Ext.pushTask {s s' : NS} (h : Ext P ap e0 s s') (name : String) (line : Nat) (parent : Option Nat)
    (call : Option CallSite) (inLoop : Bool) : Ext P ap e0 s (s'.pushTask name line parent call inLoop) :=
  ⟨h.inv.pushTask name line parent call inLoop, by rw [size_pushTask]; exact Nat.le_succ_of_le h.le, h.les, h.keys⟩

/-- what every generator function keeps, at fuel `f` -/
structure GKeeps (P : Prog) (ap : Bool) (e0 : Option String) (f : Nat) : Prop where
  stmts : ∀ (l : List Stmt) (ctx first last : Nat) (inLoop : Bool) (prev : Nat) (single : Bool) (s : NS),
    ClosedL P l → NoPloopL ap l → GInv P ap e0 s → Ext P ap e0 s (genStmts f l ctx first last inLoop prev single s).2
  stmt : ∀ (st : Stmt) (ctx t1 t2 : Nat) (inLoop : Bool) (s : NS),
    st.Closed P → NoPloop ap st → GInv P ap e0 s → Ext P ap e0 s (genStmt f st ctx t1 t2 inLoop s).2
  call : ∀ (c : CallSite) (ctx t1 t2 : Nat) (inLoop : Bool) (s : NS),
    (P.task? c.name).isSome → GInv P ap e0 s → Ext P ap e0 s (genCall f c ctx t1 t2 inLoop s).2
  calls : ∀ (cs : List CallSite) (ctx t1 t2 : Nat) (inLoop : Bool) (s : NS),
    (∀ c ∈ cs, (P.task? c.name).isSome) → GInv P ap e0 s → Ext P ap e0 s (genCalls f cs ctx t1 t2 inLoop s)

theorem outOfFuel_tasks (s : NS) : s.outOfFuel.tasks = s.tasks := by
  unfold NS.outOfFuel NS.raise; split <;> rfl

theorem outOfFuel_svcs (s : NS) : s.outOfFuel.svcs = s.svcs := by
  unfold NS.outOfFuel NS.raise; split <;> rfl

theorem outOfFuel_pd (s : NS) : s.outOfFuel.placeDict = s.placeDict := by
  unfold NS.outOfFuel NS.raise; split <;> rfl

theorem Ext.outOfFuel {s : NS} (h : GInv P ap e0 s) : Ext P ap e0 s s.outOfFuel :=
  ⟨h.outOfFuel, by rw [outOfFuel_tasks]; exact Nat.le_refl _, by rw [outOfFuel_svcs]; exact Nat.le_refl _, fun u hu => by rw [outOfFuel_pd]; exact hu⟩

theorem gkeeps_zero (P : Prog) : GKeeps P ap e0 0 where
  stmts l ctx first last inLoop prev single s _ _ h := by simp only [Net.genStmts]; exact Ext.outOfFuel h
  stmt st ctx t1 t2 inLoop s _ _ h := by simp only [Net.genStmt]; exact Ext.outOfFuel h
  call c ctx t1 t2 inLoop s _ h := by simp only [Net.genCall]; exact Ext.outOfFuel h
  calls cs ctx t1 t2 inLoop s _ h := by simp only [Net.genCalls]; exact Ext.outOfFuel h

theorem Ext.foldCb {s : NS} (nctx : Nat) : ∀ (l : List Nat) (s' : NS), Ext P ap e0 s s' → nctx < s'.tasks.size →
    Ext P ap e0 s (l.foldl (fun s l => s.addCb l (.taskFinished nctx)) s')
  | [], _, h, _ => h
  | t :: l, s', h, hn => by
      simp only [List.foldl_cons]
      exact Ext.foldCb nctx l _ (h.addCb t _ (by simpa [CbOk] using hn)) hn

@[simp] theorem svcs_pushPlace (s : NS) : s.pushPlace.svcs = s.svcs := rfl
@[simp] theorem svcs_pushTrans (s : NS) : s.pushTrans.svcs = s.svcs := rfl
@[simp] theorem svcs_addIn (s : NS) (p t : Nat) : (s.addIn p t).svcs = s.svcs := rfl
@[simp] theorem svcs_addOut (s : NS) (p t : Nat) : (s.addOut p t).svcs = s.svcs := rfl
@[simp] theorem svcs_addCb (s : NS) (t : Nat) (cb : Cb) : (s.addCb t cb).svcs = s.svcs := rfl
@[simp] theorem svcs_size_pushSvc (s : NS) (c : CallSite) (ctx : Nat) (il : Bool) (fin : Nat) :
    (s.pushSvc c ctx il fin).svcs.size = s.svcs.size + 1 := by
  show (s.svcs.push _).size = _
  simp
@[simp] theorem trans_size_pushPlace (s : NS) : s.pushPlace.trans.size = s.trans.size := rfl
@[simp] theorem tasks_addCb (s : NS) (t : Nat) (cb : Cb) : (s.addCb t cb).tasks = s.tasks := rfl

attribute [local irreducible] NS.pushPlace NS.pushTrans NS.addIn NS.addOut NS.addCb NS.pushSvc NS.pushTask

/-- peel generator steps that keep the invariant without side conditions -/
macro "ext_steps" : tactic => `(tactic| repeat (first
  | (apply Ext.refl; assumption)
  | apply Ext.pushPlace | apply Ext.pushTrans | apply Ext.addIn | apply Ext.addOut
  | (apply Ext.addCb (hcb := by simp [CbOk]))))

theorem closedL_cons {P : Prog} {st : Stmt} {l : List Stmt} (h : ClosedL P (st :: l)) : st.Closed P ∧ ClosedL P l := by
  simpa [ClosedL] using h
theorem noPloopL_cons {st : Stmt} {l : List Stmt} (h : NoPloopL ap (st :: l)) : NoPloop ap st ∧ NoPloopL ap l := by
  simpa [NoPloopL] using h

theorem gkeeps_succ (hc : P.Closed) (hn : ProgNoPloop ap P) (f : Nat) (ih : GKeeps P ap e0 f) : GKeeps P ap e0 (f + 1) where
  stmts l ctx first last inLoop prev single s hcl hnl h := by
    match l, hcl, hnl with
    | [], _, _ => simp only [Net.genStmts]; exact Ext.refl h
    | [st], hcl, hnl =>
      simp only [Net.genStmts]
      exact ih.stmt st ctx _ last inLoop s (closedL_cons hcl).1 (noPloopL_cons hnl).1 h
    | st :: st2 :: rest, hcl, hnl =>
      simp only [Net.genStmts]
      have h1 : Ext P ap e0 s s.pushTrans := (Ext.refl h).pushTrans
      have h2 := ih.stmt st ctx prev s.trans.size inLoop s.pushTrans (closedL_cons hcl).1 (noPloopL_cons hnl).1 h1.inv
      have h3 := ih.stmts (st2 :: rest) ctx first last inLoop s.trans.size single _ (closedL_cons hcl).2 (noPloopL_cons hnl).2 h2.inv
      exact (h1.trans h2).trans h3
  stmt st ctx t1 t2 inLoop s hcs hns h := by
    cases st with
    | svc c =>
      simp only [Net.genStmt]
      refine Ext.addIn (Ext.addOut (Ext.addOut (Ext.addIn (Ext.addIn (Ext.addCb (Ext.addCb ?_ _ _ ?_) _ _ ?_) _ _) _ _) _ _) _ _) _ _
      · exact (((((Ext.refl h).pushPlace).pushPlace).pushSvc c ctx inLoop _).pushPlace).pushTrans
      · simp [CbOk]
      · simp [CbOk]
    | call c =>
      simp only [Net.genStmt]
      exact ih.call c ctx t1 t2 inLoop s (by simpa [Stmt.Closed] using hcs) h
    | par cs line =>
      simp only [Net.genStmt]
      have h1 : Ext P ap e0 s s.pushTrans.pushPlace := ((Ext.refl h).pushTrans).pushPlace
      have h2 := ih.calls cs ctx t1 s.trans.size inLoop _ (by simpa [Stmt.Closed] using hcs) h1.inv
      exact ((h1.trans h2).addOut _ _).addIn _ _
    | cond e passed failed line =>
      simp only [Net.genStmt]
      have hcs' : ClosedL P passed ∧ ClosedL P failed := by simpa [Stmt.Closed] using hcs
      have hns' : NoPloopL ap passed ∧ NoPloopL ap failed := by simpa [NoPloop] using hns
      have keyP : ∀ (a b c : Nat) (d il : Bool) (S1 : NS), Ext P ap e0 s S1 → Ext P ap e0 s (genStmts f passed ctx a b il c d S1).2 :=
        fun a b c d il S1 h1 => h1.trans (ih.stmts passed ctx a b il c d S1 hcs'.1 hns'.1 h1.inv)
      have keyF : ∀ (a b c : Nat) (d il : Bool) (S1 : NS), Ext P ap e0 s S1 → Ext P ap e0 s (genStmts f failed ctx a b il c d S1).2 :=
        fun a b c d il S1 h1 => h1.trans (ih.stmts failed ctx a b il c d S1 hcs'.2 hns'.2 h1.inv)
      split
      · dsimp only
        ext_steps
        apply keyP
        ext_steps
      · dsimp only
        ext_steps
        apply keyF
        ext_steps
        apply keyP
        ext_steps
    | cloop var lim body line =>
      simp only [Net.genStmt]
      have keyB : ∀ (a b c : Nat) (d il : Bool) (S1 : NS), Ext P ap e0 s S1 → Ext P ap e0 s (genStmts f body ctx a b il c d S1).2 :=
        fun a b c d il S1 h1 => h1.trans (ih.stmts body ctx a b il c d S1 (by simpa [Stmt.Closed] using hcs) (by simpa [NoPloop] using hns) h1.inv)
      ext_steps
      apply keyB
      ext_steps
    | wloop e body line =>
      simp only [Net.genStmt]
      have keyB : ∀ (a b c : Nat) (d il : Bool) (S1 : NS), Ext P ap e0 s S1 → Ext P ap e0 s (genStmts f body ctx a b il c d S1).2 :=
        fun a b c d il S1 h1 => h1.trans (ih.stmts body ctx a b il c d S1 (by simpa [Stmt.Closed] using hcs) (by simpa [NoPloop] using hns) h1.inv)
      ext_steps
      apply keyB
      ext_steps
    | ploop var lim c line =>
      -- admitted only with `ap`: a placeholder place and the callback that builds the loop when it is reached
      simp only [Net.genStmt]
      have hap : ap = true := by simpa [NoPloop] using hns
      have hsome : (P.task? c.name).isSome = true := by simpa [Stmt.Closed] using hcs
      refine Ext.addCb ?_ _ _ ⟨hap, hsome⟩
      ext_steps
  call c ctx t1 t2 inLoop s hsome h := by
    simp only [Net.genCall]
    rw [h.prog]
    cases ht : P.task? c.name with
    | none => simp [ht] at hsome
    | some t =>
      simp only
      have htm := task?_mem P c.name t ht
      have h1 : Ext P ap e0 s ((s.pushTask t.name c.line (some ctx) (some c) inLoop).addCb t1 (.taskStarted s.tasks.size)) :=
        ((Ext.refl h).pushTask _ _ _ _ _).addCb _ _ (by simp [CbOk, size_pushTask])
      have h2 := ih.stmts t.body s.tasks.size t1 t2 inLoop t1 (decide (t.body.length ≤ 1)) _ (hc t htm) (hn t htm) h1.inv
      have h3 := h1.trans h2
      refine Ext.foldCb _ _ _ h3 ?_
      have : s.tasks.size < (s.pushTask t.name c.line (some ctx) (some c) inLoop).tasks.size := by rw [size_pushTask]; omega
      have h22 := h2.le
      rw [tasks_addCb] at h22
      exact Nat.lt_of_lt_of_le this h22
  calls cs ctx t1 t2 inLoop s hall h := by
    cases cs with
    | nil => simp only [Net.genCalls]; exact Ext.refl h
    | cons c cs =>
      simp only [Net.genCalls]
      have h1 := ih.call c ctx t1 t2 inLoop s (hall c (by simp)) h
      have h2 := ih.calls cs ctx t1 t2 inLoop _ (fun c' hc' => hall c' (by simp [hc'])) h1.inv
      exact Ext.trans h1 h2

/-- every generator function keeps the invariant, for every fuel -/
theorem gkeeps (hc : P.Closed) (hn : ProgNoPloop ap P) : ∀ f, GKeeps P ap e0 f
  | 0 => gkeeps_zero P
  | f+1 => gkeeps_succ hc hn f (gkeeps hc hn f)

theorem Ext.addCbTask {s s' : NS} (h : Ext P ap e0 s s') (t nctx : Nat) (fin : Bool) (hlt : nctx < s.tasks.size) :
    Ext P ap e0 s (s'.addCb t (if fin then Cb.taskFinished nctx else Cb.taskStarted nctx)) := by
  apply h.addCb
  have := Nat.lt_of_lt_of_le hlt h.le
  cases fin <;> simpa [CbOk] using this

theorem Ext.gen {s S1 : NS} {f : Nat} (hc : P.Closed) (hn : ProgNoPloop ap P) (l : List Stmt) (hcl : ClosedL P l) (hnl : NoPloopL ap l)
    (ctx a b : Nat) (il : Bool) (c : Nat) (d : Bool) (h1 : Ext P ap e0 s S1) : Ext P ap e0 s (genStmts f l ctx a b il c d S1).2 :=
  h1.trans ((gkeeps hc hn f).stmts l ctx a b il c d S1 hcl hnl h1.inv)

/-- construction: the generated net satisfies the generator invariant -/
theorem generate_ginv (P : Prog) (hc : P.Closed) (hn : ProgNoPloop ap P) (valid : Bool) (fuel : Nat) :
    GInv P ap none (generate P valid fuel) := by
  have h0 : GInv P ap none { prog := P, valid := valid } :=
    ⟨rfl, by intro t l hl; simp at hl, by intro i a ha; simp at ha, Or.inl rfl⟩
  unfold generate
  cases ht : P.task? Generated.startTaskName with
  | none => exact ⟨rfl, by intro t l hl; simp at hl, by intro i a ha; simp at ha, Or.inl rfl⟩
  | some t =>
    simp only
    split
    · exact h0
    · have htm := task?_mem P _ t ht
      -- the production task's API object
      have h1 : GInv P ap none (({ prog := P, valid := valid } : NS).pushTask t.name t.line none none false) := h0.pushTask _ _ _ _ _
      have hsz : (({ prog := P, valid := valid } : NS).pushTask t.name t.line none none false).tasks.size = 1 := by
        rw [size_pushTask]; rfl
      have h2 : GInv P ap none { (({ prog := P, valid := valid } : NS).pushTask t.name t.line none none false) with
          tasks := (({ prog := P, valid := valid } : NS).pushTask t.name t.line none none false).tasks.modify 0 (fun a => { a with uid := Uid.id 0 }) } :=
        h1.frame rfl rfl (by show (Array.modify _ _ _).size = _; rw [Array.size_modify]) rfl rfl rfl
      have hB : (0 : Nat) < ({ (({ prog := P, valid := valid } : NS).pushTask t.name t.line none none false) with
          tasks := (({ prog := P, valid := valid } : NS).pushTask t.name t.line none none false).tasks.modify 0 (fun a => { a with uid := Uid.id 0 }) } : NS).tasks.size := by
        show 0 < (Array.modify _ _ _).size
        rw [Array.size_modify, hsz]; exact Nat.one_pos
      refine GInv.frame (Ext.addCbTask (s := _) (s' := _) ?_ _ 0 true hB).inv rfl rfl rfl rfl rfl rfl
      apply Ext.addOut
      apply Ext.gen hc hn t.body (hc t htm) (hn t htm)
      apply Ext.pushTrans
      apply Ext.pushPlace
      apply Ext.addIn
      refine Ext.addCbTask (s' := _) ?_ _ 0 false hB
      apply Ext.pushTrans
      apply Ext.pushPlace
      exact Ext.refl h2

/-- construction raises nothing but the model's fuel -/
theorem generate_exc (P : Prog) (hc : P.Closed) (hn : ProgNoPloop ap P) (valid : Bool) (fuel : Nat) :
    (generate P valid fuel).exc = none ∨ (generate P valid fuel).exc = some "outOfFuel" := by
  rcases (generate_ginv P hc hn valid fuel).exc with h | ⟨_, h⟩
  · exact Or.inl h
  · exact Or.inr h

end Pfdl.Net
