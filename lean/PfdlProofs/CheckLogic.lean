import PfdlModel.Check

/-!
# And / Or never get an operand that is no boolean — at any depth of an accepted expression

Found with a sub-agent's side remark: `(r.n And r.m) < 3` used to be accepted although `r.n And r.m`
alone is rejected, because `expression_is_number` looked through any binary operator.  After the repair
(`fix:` 454dcae) the model carries the statement for every expression: if `check_expression` accepts,
then EVERY And / Or inside it — below comparisons, arithmetic, negations, parentheses — has two operands
that `expression_is_boolean` accepts.
-/

namespace Pfdl.Check
open Pfdl Pfdl.Generated

/-- every And / Or inside the expression has operands that count as boolean -/
def LogicOk (env : Env) (vars : List (String × Ty)) : Expr → Prop
  | .bin op l r => LogicOk env vars l ∧ LogicOk env vars r ∧
      (op ∈ boolOps → exprIsBoolean env vars l = some true ∧ exprIsBoolean env vars r = some true)
  | .not e => LogicOk env vars e
  | .paren e => LogicOk env vars e
  | _ => True

/-- no And / Or at all inside the expression -/
def NoLogic : Expr → Prop
  | .bin op l r => ¬ op ∈ boolOps ∧ NoLogic l ∧ NoLogic r
  | .not e => NoLogic e
  | .paren e => NoLogic e
  | _ => True

theorem NoLogic.ok {env : Env} {vars : List (String × Ty)} : (e : Expr) → NoLogic e → LogicOk env vars e
  | .bin op l r, h => ⟨NoLogic.ok l h.2.1, NoLogic.ok r h.2.2, fun hb => absurd hb h.1⟩
  | .not e, h => by
    have := NoLogic.ok (env := env) (vars := vars) e (by simpa [NoLogic] using h)
    simpa [LogicOk] using this
  | .paren e, h => by
    have := NoLogic.ok (env := env) (vars := vars) e (by simpa [NoLogic] using h)
    simpa [LogicOk] using this
  | .lit _, _ => by simp [LogicOk]
  | .path _, _ => by simp [LogicOk]
  | .none, _ => by simp [LogicOk]

/-- what counts as a number contains no And / Or (this is what the repaired `expression_is_number` adds) -/
theorem exprIsNumber_noLogic (env : Env) (vars : List (String × Ty)) :
    (e : Expr) → exprIsNumber env vars e = some true → NoLogic e
  | .lit _, _ => by simp [NoLogic]
  | .path _, _ => by simp [NoLogic]
  | .none, _ => by simp [NoLogic]
  | .not _, h => by simp [exprIsNumber] at h
  | .paren e, h => by
    have := exprIsNumber_noLogic env vars e (by simpa [exprIsNumber] using h)
    simpa [NoLogic] using this
  | .bin op l r, h => by
    simp only [exprIsNumber] at h
    split at h
    · simp at h
    · rename_i hb
      have hb' : ¬ op ∈ boolOps := by simpa using hb
      cases hl : exprIsNumber env vars l with
      | none => simp [hl] at h
      | some b =>
        cases b
        · simp [hl] at h
        · simp only [hl] at h
          exact ⟨hb', exprIsNumber_noLogic env vars l hl, exprIsNumber_noLogic env vars r h⟩

/-- what counts as a string contains no operator at all -/
theorem exprIsString_noLogic (env : Env) (vars : List (String × Ty)) :
    (e : Expr) → exprIsString env vars e = some true → NoLogic e
  | .lit _, _ => by simp [NoLogic]
  | .path _, _ => by simp [NoLogic]
  | .none, _ => by simp [NoLogic]
  | .not _, h => by simp [exprIsString] at h
  | .paren e, h => by
    have := exprIsString_noLogic env vars e (by simpa [exprIsString] using h)
    simpa [NoLogic] using this
  | .bin _ _ _, h => by simp [exprIsString] at h


theorem ord_not_bool {op : String} (h : ordOps.contains op = true) : ¬ op ∈ boolOps := by
  intro hb
  simp only [boolOps, List.mem_cons, List.not_mem_nil, or_false] at hb
  rcases hb with rfl | rfl <;> revert h <;> decide

theorem arith_not_bool {op : String} (h : arithOps.contains op = true) : ¬ op ∈ boolOps := by
  intro hb
  simp only [boolOps, List.mem_cons, List.not_mem_nil, or_false] at hb
  rcases hb with rfl | rfl <;> revert h <;> decide

/-- **And / Or are checked wherever they stand**: an expression that `check_expression` accepts has, at
    every depth, only And / Or whose two operands count as boolean. -/
theorem checkExpr_logicOk (env : Env) (vars : List (String × Ty)) :
    (e : Expr) → checkExpr env vars e = some [] → LogicOk env vars e
  | .lit _, _ => by simp [LogicOk]
  | .path _, _ => by simp [LogicOk]
  | .none, _ => by simp [LogicOk]
  | .paren e, h => by
    have := checkExpr_logicOk env vars e (by simpa [checkExpr] using h)
    simpa [LogicOk] using this
  | .not e, h => by
    simp only [checkExpr] at h
    cases hc : checkExpr env vars e with
    | none => simp [hc] at h
    | some ks =>
      cases ks with
      | cons k ks => simp [hc] at h
      | nil =>
        have := checkExpr_logicOk env vars e hc
        simpa [LogicOk] using this
  | .bin op l r, h => by
    simp only [checkExpr] at h
    split at h
    · simp at h
    · split at h
      · simp at h
      · split at h
        · -- ordering comparison: both sides numbers or both strings
          rename_i hord
          cases hl : exprIsNumber env vars l with
          | none => simp [hl] at h
          | some ln =>
            simp only [hl] at h
            cases ln
            · simp only [Bool.false_eq_true, if_false] at h
              cases hs : exprIsString env vars l with
              | none => simp [hs] at h
              | some ls =>
                simp only [hs] at h
                cases ls
                · simp at h
                · simp only [if_true] at h
                  cases hr : exprIsString env vars r with
                  | none => simp [hr] at h
                  | some rs =>
                    cases rs
                    · simp [hr] at h
                    · exact NoLogic.ok _ ⟨ord_not_bool hord,
                        exprIsString_noLogic env vars l hs, exprIsString_noLogic env vars r hr⟩
            · simp only [if_true] at h
              cases hr : exprIsNumber env vars r with
              | none => simp [hr] at h
              | some rn =>
                cases rn
                · simp only [hr] at h
                  cases hs : exprIsString env vars l with
                  | none => simp [hs] at h
                  | some ls =>
                    simp only [hs] at h
                    cases ls
                    · simp at h
                    · simp only [if_true] at h
                      cases hr2 : exprIsString env vars r with
                      | none => simp [hr2] at h
                      | some rs =>
                        cases rs
                        · simp [hr2] at h
                        · exact NoLogic.ok _ ⟨ord_not_bool hord,
                            exprIsString_noLogic env vars l hs, exprIsString_noLogic env vars r hr2⟩
                · exact NoLogic.ok _ ⟨ord_not_bool hord,
                    exprIsNumber_noLogic env vars l hl, exprIsNumber_noLogic env vars r hr⟩
        · split at h
          · -- arithmetic: both sides numbers
            rename_i harith
            cases hl : exprIsNumber env vars l with
            | none => simp [hl] at h
            | some ln =>
              simp only [hl] at h
              cases ln
              · simp at h
              · simp only [if_true] at h
                cases hr : exprIsNumber env vars r with
                | none => simp [hr] at h
                | some rn =>
                  cases rn
                  · simp [hr] at h
                  · exact NoLogic.ok _ ⟨arith_not_bool harith,
                      exprIsNumber_noLogic env vars l hl, exprIsNumber_noLogic env vars r hr⟩
          · -- And / Or / == / !=
            cases hl : checkExpr env vars l with
            | none => simp [hl] at h
            | some kl =>
              cases kl with
              | cons k ks => simp [hl] at h
              | nil =>
                simp only [hl] at h
                cases hr : checkExpr env vars r with
                | none => simp [hr] at h
                | some kr =>
                  cases kr with
                  | cons k ks => simp [hr] at h
                  | nil =>
                    simp only [hr] at h
                    refine ⟨checkExpr_logicOk env vars l hl, checkExpr_logicOk env vars r hr, ?_⟩
                    intro hb
                    have hb' : boolOps.contains op = true := by simpa using hb
                    simp only [hb', if_true] at h
                    cases hbl : exprIsBoolean env vars l with
                    | none => simp [hbl] at h
                    | some bl =>
                      simp only [hbl] at h
                      cases bl
                      · simp at h
                      · simp only [if_true] at h
                        cases hbr : exprIsBoolean env vars r with
                        | none => simp [hbr] at h
                        | some br =>
                          cases br
                          · simp [hbr] at h
                          · exact ⟨rfl, rfl⟩


/-! ### every operator application, at every depth -/

/-- every operator inside the expression is applied to operands of the kind it needs, as the checker's own
    predicates judge them: arithmetic to numbers, ordering comparisons to two numbers or two strings, And / Or to
    booleans, negation to something that is no string (`==` / `!=` only need operands that are fine themselves) -/
def OperandsOk (env : Env) (vars : List (String × Ty)) : Expr → Prop
  | .bin op l r => OperandsOk env vars l ∧ OperandsOk env vars r ∧
      (op ∈ arithOps → exprIsNumber env vars l = some true ∧ exprIsNumber env vars r = some true) ∧
      (op ∈ ordOps → (exprIsNumber env vars l = some true ∧ exprIsNumber env vars r = some true) ∨
                     (exprIsString env vars l = some true ∧ exprIsString env vars r = some true)) ∧
      (op ∈ boolOps → exprIsBoolean env vars l = some true ∧ exprIsBoolean env vars r = some true)
  | .not e => OperandsOk env vars e
  | .paren e => OperandsOk env vars e
  | _ => True

theorem arith_not_ord {op : String} (h : arithOps.contains op = true) : ¬ op ∈ ordOps := by
  intro hb
  simp only [ordOps, List.mem_cons, List.not_mem_nil, or_false] at hb
  rcases hb with rfl | rfl | rfl | rfl <;> revert h <;> decide

/-- what counts as a string contains no operator -/
theorem exprIsString_operandsOk (env : Env) (vars : List (String × Ty)) :
    (e : Expr) → exprIsString env vars e = some true → OperandsOk env vars e
  | .lit _, _ => by simp [OperandsOk]
  | .path _, _ => by simp [OperandsOk]
  | .none, _ => by simp [OperandsOk]
  | .not _, h => by simp [exprIsString] at h
  | .paren e, h => by
    have := exprIsString_operandsOk env vars e (by simpa [exprIsString] using h)
    simpa [OperandsOk] using this
  | .bin _ _ _, h => by simp [exprIsString] at h


theorem ord_not_arith {op : String} (h : ordOps.contains op = true) : ¬ op ∈ arithOps := by
  intro hb
  simp only [arithOps, List.mem_cons, List.not_mem_nil, or_false] at hb
  rcases hb with rfl | rfl | rfl | rfl <;> revert h <;> decide

/-- what counts as a number is built from well-applied operators only -/
theorem exprIsNumber_operandsOk (env : Env) (vars : List (String × Ty)) :
    (e : Expr) → exprIsNumber env vars e = some true → OperandsOk env vars e
  | .lit _, _ => by simp [OperandsOk]
  | .path _, _ => by simp [OperandsOk]
  | .none, _ => by simp [OperandsOk]
  | .not _, h => by simp [exprIsNumber] at h
  | .paren e, h => by
    have := exprIsNumber_operandsOk env vars e (by simpa [exprIsNumber] using h)
    simpa [OperandsOk] using this
  | .bin op l r, h => by
    simp only [exprIsNumber] at h
    split at h
    · simp at h
    · rename_i hb
      have hb' : ¬ op ∈ boolOps := by simpa using hb
      cases hl : exprIsNumber env vars l with
      | none => simp [hl] at h
      | some b =>
        cases b
        · simp [hl] at h
        · simp only [hl] at h
          exact ⟨exprIsNumber_operandsOk env vars l hl, exprIsNumber_operandsOk env vars r h,
            fun _ => ⟨hl, h⟩, fun _ => Or.inl ⟨hl, h⟩, fun hx => absurd hx hb'⟩

/-- **every operator is applied to operands of its kind, wherever it stands**: an expression that
    `check_expression` accepts is `OperandsOk` -/
theorem checkExpr_operandsOk (env : Env) (vars : List (String × Ty)) :
    (e : Expr) → checkExpr env vars e = some [] → OperandsOk env vars e
  | .lit _, _ => by simp [OperandsOk]
  | .path _, _ => by simp [OperandsOk]
  | .none, _ => by simp [OperandsOk]
  | .paren e, h => by
    have := checkExpr_operandsOk env vars e (by simpa [checkExpr] using h)
    simpa [OperandsOk] using this
  | .not e, h => by
    simp only [checkExpr] at h
    cases hc : checkExpr env vars e with
    | none => simp [hc] at h
    | some ks =>
      cases ks with
      | cons k ks => simp [hc] at h
      | nil =>
        have := checkExpr_operandsOk env vars e hc
        simpa [OperandsOk] using this
  | .bin op l r, h => by
    simp only [checkExpr] at h
    split at h
    · simp at h
    · split at h
      · simp at h
      · split at h
        · -- ordering comparison: both sides numbers or both strings
          rename_i hord
          have hna : ¬ op ∈ arithOps := ord_not_arith hord
          have hnb : ¬ op ∈ boolOps := ord_not_bool hord
          have strs : ∀ (hs : exprIsString env vars l = some true) (hr : exprIsString env vars r = some true),
              OperandsOk env vars (.bin op l r) := fun hs hr =>
            ⟨exprIsString_operandsOk env vars l hs, exprIsString_operandsOk env vars r hr,
              fun ha => absurd ha hna, fun _ => Or.inr ⟨hs, hr⟩, fun hx => absurd hx hnb⟩
          cases hl : exprIsNumber env vars l with
          | none => simp [hl] at h
          | some ln =>
            simp only [hl] at h
            cases ln
            · simp only [Bool.false_eq_true, if_false] at h
              cases hs : exprIsString env vars l with
              | none => simp [hs] at h
              | some ls =>
                simp only [hs] at h
                cases ls
                · simp at h
                · simp only [if_true] at h
                  cases hr : exprIsString env vars r with
                  | none => simp [hr] at h
                  | some rs =>
                    cases rs
                    · simp [hr] at h
                    · exact strs hs hr
            · simp only [if_true] at h
              cases hr : exprIsNumber env vars r with
              | none => simp [hr] at h
              | some rn =>
                cases rn
                · simp only [hr] at h
                  cases hs : exprIsString env vars l with
                  | none => simp [hs] at h
                  | some ls =>
                    simp only [hs] at h
                    cases ls
                    · simp at h
                    · simp only [if_true] at h
                      cases hr2 : exprIsString env vars r with
                      | none => simp [hr2] at h
                      | some rs =>
                        cases rs
                        · simp [hr2] at h
                        · exact strs hs hr2
                · exact ⟨exprIsNumber_operandsOk env vars l hl, exprIsNumber_operandsOk env vars r hr,
                    fun ha => absurd ha hna, fun _ => Or.inl ⟨hl, hr⟩, fun hx => absurd hx hnb⟩
        · split at h
          · -- arithmetic: both sides numbers
            rename_i harith
            cases hl : exprIsNumber env vars l with
            | none => simp [hl] at h
            | some ln =>
              simp only [hl] at h
              cases ln
              · simp at h
              · simp only [if_true] at h
                cases hr : exprIsNumber env vars r with
                | none => simp [hr] at h
                | some rn =>
                  cases rn
                  · simp [hr] at h
                  · exact ⟨exprIsNumber_operandsOk env vars l hl, exprIsNumber_operandsOk env vars r hr,
                      fun _ => ⟨hl, hr⟩, fun ho => absurd ho (arith_not_ord harith), fun hx => absurd hx (arith_not_bool harith)⟩
          · -- And / Or / == / !=
            rename_i hnord hnarith
            have hno : ¬ op ∈ ordOps := by simpa using hnord
            have hna : ¬ op ∈ arithOps := by simpa using hnarith
            cases hl : checkExpr env vars l with
            | none => simp [hl] at h
            | some kl =>
              cases kl with
              | cons k ks => simp [hl] at h
              | nil =>
                simp only [hl] at h
                cases hr : checkExpr env vars r with
                | none => simp [hr] at h
                | some kr =>
                  cases kr with
                  | cons k ks => simp [hr] at h
                  | nil =>
                    simp only [hr] at h
                    refine ⟨checkExpr_operandsOk env vars l hl, checkExpr_operandsOk env vars r hr,
                      fun ha => absurd ha hna, fun ho => absurd ho hno, ?_⟩
                    intro hb
                    have hb' : boolOps.contains op = true := by simpa using hb
                    simp only [hb', if_true] at h
                    cases hbl : exprIsBoolean env vars l with
                    | none => simp [hbl] at h
                    | some bl =>
                      simp only [hbl] at h
                      cases bl
                      · simp at h
                      · simp only [if_true] at h
                        cases hbr : exprIsBoolean env vars r with
                        | none => simp [hbr] at h
                        | some br =>
                          cases br
                          · simp [hbr] at h
                          · exact ⟨rfl, rfl⟩

end Pfdl.Check
