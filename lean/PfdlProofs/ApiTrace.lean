import PfdlProofs.ApiInv
import PfdlProofs.TraceDeliver
set_option linter.unusedSimpArgs false
/-! History-level invariant of the scheduler API: identifiers, balance of started/finished
    notifications, notifications of the production task. -/
namespace Pfdl

/-- identifier of the production task instance while it is open -/
def Sched.rootOpen (s : Sched) : List Nat := if s.started && !s.run.isFin then [s.rootNote.id] else []

/-- the task-started note of the production task -/
def Sched.rootTS (s : Sched) : Note := { s.rootNote with kind := .ts }

structure Sched.TInv (s : Sched) : Prop where
  ss : ssIds s.hist = List.range s.st.ctrS
  ts : tsIds s.hist = List.range s.st.ctrT
  sf : ∀ j, (ssIds s.hist).count j = (sfIds s.hist).count j + s.run.waiting.count j
  tf : ∀ j, (tsIds s.hist).count j = (tfIds s.hist).count j + s.run.openTasks.count j + s.rootOpen.count j
  wf : s.run.WF
  rootK : s.started = true → s.rootNote.kind = .tf ∧ s.rootNote.ctx = none
  root : rootNotes s.hist = if s.started then (if s.run.isFin then [s.rootTS, s.rootNote] else [s.rootTS]) else []

theorem Sched.init_tinv (P : Prog) (v : Bool) : (Sched.init P v).TInv :=
  ⟨by simp [Sched.init], by simp [Sched.init], by simp [Sched.init], by simp [Sched.init, Sched.rootOpen],
   by simp [Sched.init], by simp [Sched.init], by simp [Sched.init]⟩

/-- what a call adds to the history -/
def Sched.closing (s : Sched) (r : Run) (st : St) : List Ev :=
  (if r.isFin then [Ev.note s.rootNote] else []) ++ flushEvs st.pend

theorem Sched.finish_hist (s : Sched) (r : Run) (st : St) :
    (s.finish r st).1.hist = s.hist ++ (st.out ++ s.closing r st) ∧ (s.finish r st).2 = st.out ++ s.closing r st := by
  unfold Sched.finish Sched.closing
  split
  · rename_i h; simp [h, St.flush_out, St.emit]
  · rename_i h; simp [h, St.flush_out]

theorem Sched.finish_fields' (s : Sched) (r : Run) (st : St) :
    (s.finish r st).1.run = (if r.isFin then .fin else r) ∧ (s.finish r st).1.started = s.started ∧
    (s.finish r st).1.rootNote = s.rootNote ∧ (s.finish r st).1.st.ctrS = st.ctrS ∧ (s.finish r st).1.st.ctrT = st.ctrT := by
  unfold Sched.finish
  split
  · rename_i h; simp [h]
  · rename_i h; simp [h]

theorem range_append_range' (a d : Nat) : List.range a ++ List.range' a d = List.range (a + d) := by
  rw [List.range_eq_range', List.range_eq_range', ← List.range'_append]
  simp

theorem closing_proj (s : Sched) (r : Run) (st : St) (hk : s.rootNote.kind = .tf) :
    ssIds (s.closing r st) = [] ∧ sfIds (s.closing r st) = [] ∧ tsIds (s.closing r st) = [] ∧
    tfIds (s.closing r st) = (if r.isFin then [s.rootNote.id] else []) := by
  have hp := flushEvs_proj st.pend
  unfold Sched.closing
  cases r.isFin <;> simp [hp.1, hp.2.1, hp.2.2.1, hp.2.2.2.1, ssIds_cons, sfIds_cons, tsIds_cons, tfIds_cons,
    Ev.ssId, Ev.sfId, Ev.tsId, Ev.tfId, hk]

theorem closing_root (s : Sched) (r : Run) (st : St) (hc : s.rootNote.ctx = none) :
    rootNotes (s.closing r st) = (if r.isFin then [s.rootNote] else []) := by
  have hp := flushEvs_proj st.pend
  unfold Sched.closing
  cases r.isFin <;> simp [hp.2.2.2.2, rootNotes_cons, Ev.rootNote, hc]

/-- closing a call after `enter…`/`deliver` keeps the history invariant; `X` abstracts what the call did -/
theorem Sched.finish_tinv (s : Sched) (r : Run) (st : St) (hs : s.started = true)
    (hk : s.rootNote.kind = .tf ∧ s.rootNote.ctx = none)
    (hss : ssIds (s.hist ++ st.out) = List.range st.ctrS)
    (hts : tsIds (s.hist ++ st.out) = List.range st.ctrT)
    (hsf : ∀ j, (ssIds (s.hist ++ st.out)).count j = (sfIds (s.hist ++ st.out)).count j + r.waiting.count j)
    (htf : ∀ j, (tsIds (s.hist ++ st.out)).count j = (tfIds (s.hist ++ st.out)).count j + r.openTasks.count j + [s.rootNote.id].count j)
    (hwf : r.WF)
    (hroot : rootNotes (s.hist ++ st.out) = [s.rootTS]) :
    (s.finish r st).1.TInv := by
  have hh := (Sched.finish_hist s r st).1
  have hf := Sched.finish_fields' s r st
  have hp := closing_proj s r st hk.1
  have hr := closing_root s r st hk.2
  refine ⟨?_, ?_, ?_, ?_, ?_, ?_, ?_⟩
  · rw [hh, hf.2.2.2.1, ← List.append_assoc, ssIds_append, hp.1, hss]; simp
  · rw [hh, hf.2.2.2.2, ← List.append_assoc, tsIds_append, hp.2.2.1, hts]; simp
  · intro j
    rw [hh, hf.1, ← List.append_assoc, ssIds_append, sfIds_append, hp.1, hp.2.1]
    have := hsf j
    cases hfin : r.isFin
    · simpa [hfin] using this
    · have hr' := Run.isFin_eq_true.1 hfin
      subst hr'
      simpa using this
  · intro j
    rw [hh, hf.1, ← List.append_assoc, tsIds_append, tfIds_append, hp.2.2.1, hp.2.2.2]
    have := htf j
    unfold Sched.rootOpen
    rw [hf.1, hf.2.1, hf.2.2.1, hs]
    cases hfin : r.isFin
    · simp [hfin] at this ⊢; omega
    · have hr' := Run.isFin_eq_true.1 hfin
      subst hr'
      simp [List.count_append] at this ⊢; omega
  · rw [hf.1]; split
    · simp
    · exact hwf
  · intro _; rw [hf.2.2.1]; exact hk
  · rw [hh, ← List.append_assoc, rootNotes_append, hr, hroot, hf.2.1, hf.1, hs]
    unfold Sched.rootTS
    rw [hf.2.2.1]
    cases hfin : r.isFin <;> simp [hfin]

theorem Sched.begin_tinv (s : Sched) (ee : EE) (fuel : Nat) (h : s.Inv) (ht : s.TInv) (hs : s.started = false) (hv : s.valid = true) :
    (s.begin ee fuel).1.TInv := by
  have hsome := h.hasRoot hv
  cases hopt : s.prog.task? Generated.startTaskName with
  | none => rw [hopt] at hsome; simp at hsome
  | some t =>
    rw [Sched.begin_some s ee fuel t hopt]
    have hfin := h.notStarted hs
    have htr := enterBlk_trace s.prog ee fuel t.body s.beginEnv (s.beginSt t)
    have hroot0 : rootNotes s.hist = [] := by have := ht.root; simpa [hs] using this
    have hsf0 : ∀ j, (ssIds s.hist).count j = (sfIds s.hist).count j := by
      intro j; have := ht.sf j; rw [hfin] at this; simpa using this
    have htf0 : ∀ j, (tsIds s.hist).count j = (tfIds s.hist).count j := by
      intro j; have := ht.tf j; rw [hfin] at this; simpa [Sched.rootOpen, hs] using this
    have hout0 : (s.beginSt t).out = [Ev.note (noteOf .ts { name := t.name, ins := [], line := t.line } s.st.ctrT none [])] := by
      simp [Sched.beginSt, St.emit]
    have hc0 : (s.beginSt t).ctrS = s.st.ctrS ∧ (s.beginSt t).ctrT = s.st.ctrT + 1 := ⟨rfl, rfl⟩
    apply Sched.finish_tinv
    · rfl
    · exact ⟨rfl, rfl⟩
    · dsimp only
      rw [ssIds_append, htr.ss, hout0, hc0.1, ht.ss]
      have := htr.ctrS; rw [hc0.1] at this
      simp only [ssIds_note, List.nil_append]
      rw [range_append_range']; congr 1; omega
    · dsimp only
      rw [tsIds_append, htr.ts, hout0, hc0.2, ht.ts]
      have := htr.ctrT; rw [hc0.2] at this
      simp only [tsIds_note, noteOf_kind, if_true, noteOf_id]
      rw [← List.append_assoc, ← List.range'_one (s := s.st.ctrT), range_append_range', range_append_range']
      congr 1; omega
    · intro j
      dsimp only
      have := htr.sf j
      rw [hout0] at this
      simp [sfIds_note, noteOf_kind] at this
      rw [ssIds_append, sfIds_append, List.count_append, List.count_append, hsf0 j]
      omega
    · intro j
      dsimp only
      have := htr.tf j
      rw [hout0] at this
      simp [tfIds_note, tsIds_note, noteOf_kind, noteOf_id] at this
      rw [tsIds_append, tfIds_append, List.count_append, List.count_append, htf0 j]
      simp only [Sched.rootTF, noteOf_id]
      omega
    · exact htr.wf
    · dsimp only
      rw [rootNotes_append, htr.root, hout0, hroot0]
      simp [rootNotes_note, noteOf_ctx, Sched.rootTS, Sched.rootTF, noteOf]

theorem Sched.fire_tinv (s : Sched) (ee : EE) (fuel : Nat) (e : Event) (h : s.Inv) (ht : s.TInv) :
    (s.fire ee fuel e).sched.TInv := by
  cases e with
  | start =>
    rw [Sched.fire_start]
    split
    · rename_i hc
      simp at hc
      exact Sched.begin_tinv s ee fuel h ht hc.2 hc.1
    · exact ht
  | other => exact ht
  | svcFinished i =>
    rw [Sched.fire_svc]
    split
    · split
      · rename_i r st heq
        have hd := deliver_trace s.prog ee fuel i s.run { s.st with out := [] } r st heq ht.wf
        have hok := deliver_ok s.prog ee fuel i s.run { s.st with out := [] } r st heq
        have hstarted : s.started = true := by
          cases hst : s.started
          · have := h.notStarted hst
            have hh := hok.hit
            rw [this] at hh; simp at hh
          · rfl
        have hnotfin : s.run.isFin = false := by
          cases hf : s.run.isFin
          · rfl
          · have := Run.isFin_eq_true.1 hf
            have hh := hok.hit
            rw [this] at hh; simp at hh
        have hk := ht.rootK hstarted
        apply Sched.finish_tinv
        · exact hstarted
        · exact hk
        · rw [ssIds_append, hd.ss, ht.ss]
          have := hd.ctrS
          simp only [ssIds_nil, List.nil_append]
          simp at this ⊢
          rw [range_append_range']; congr 1; omega
        · rw [tsIds_append, hd.ts, ht.ts]
          have := hd.ctrT
          simp only [tsIds_nil, List.nil_append]
          simp at this ⊢
          rw [range_append_range']; congr 1; omega
        · intro j
          have a := hd.sf j
          have b := ht.sf j
          simp at a
          rw [ssIds_append, sfIds_append, List.count_append, List.count_append]
          omega
        · intro j
          have a := hd.tf j
          have b := ht.tf j
          simp [Sched.rootOpen, hstarted, hnotfin] at a b
          rw [tsIds_append, tfIds_append, List.count_append, List.count_append]
          omega
        · exact hd.wf
        · rw [rootNotes_append, hd.root, ht.root]
          simp [hstarted, hnotfin]
      · exact ht
    · exact ht

theorem Sched.step_tinv (s : Sched) (ee : EE) (fuel : Nat) (op : Op) (h : s.Inv) (ht : s.TInv) :
    (s.step ee fuel op).sched.TInv := by
  cases op with
  | start =>
    simp only [Sched.step, Sched.start]
    split
    · split
      · have h' : ({ s with running := true } : Sched).Inv := ⟨h.norm, h.clean, h.perm, h.notStarted, h.invalid, h.out, h.hasRoot⟩
        have ht' : ({ s with running := true } : Sched).TInv := ⟨ht.ss, ht.ts, ht.sf, ht.tf, ht.wf, ht.rootK, ht.root⟩
        exact Sched.fire_tinv _ ee fuel .start h' ht'
      · exact ht
    · exact ht
  | fire e => exact Sched.fire_tinv s ee fuel e h ht
  | register k fn =>
    simp only [Sched.step, Sched.register]
    split
    · exact ht
    · exact ⟨ht.ss, ht.ts, ht.sf, ht.tf, ht.wf, ht.rootK, ht.root⟩
  | attach o => exact ⟨ht.ss, ht.ts, ht.sf, ht.tf, ht.wf, ht.rootK, ht.root⟩
  | detach o =>
    simp only [Sched.step, Sched.detach]
    split
    · rename_i s' heq
      split at heq
      · simp at heq; subst heq
        exact ⟨ht.ss, ht.ts, ht.sf, ht.tf, ht.wf, ht.rootK, ht.root⟩
      · simp at heq
    · exact ht

/-- both invariants hold after every history of API calls -/
theorem Sched.runOps_tinv (ee : EE) (fuel : Nat) : (ops : List Op) → (s : Sched) → s.Inv → s.TInv →
    (s.runOps ee fuel ops).Inv ∧ (s.runOps ee fuel ops).TInv
  | [], s, h, ht => by simpa [Sched.runOps] using ⟨h, ht⟩
  | op :: ops, s, h, ht => by
      simp only [Sched.runOps]
      exact Sched.runOps_tinv ee fuel ops _ (Sched.step_inv s ee fuel op h) (Sched.step_tinv s ee fuel op h ht)

end Pfdl
