import PfdlProofs.NetWeight
/-! A place invariant of the net evaluator.  For a net without parallel-loop callbacks (the part of the net
    that is not rebuilt at run time) and a weight assignment that is balanced on every transition and zero on
    the places the scheduler itself puts tokens on (decision places of conditions and loops, the "finished"
    places of services), every function of the evaluator - `evaluate_petri_net`, the callbacks, the listeners,
    re-entrant completions, `fire_event` - keeps the weighted token sum.  Core Lean only. -/
namespace Pfdl.Net

/-- the parts of the state the invariant is about are the same -/
structure Same (s s' : NS) : Prop where
  trans : s'.trans = s.trans
  cbs : s'.cbs = s.cbs
  places : s'.places = s.places
  pd : s'.placeDict = s.placeDict
  awaited : s'.awaited = s.awaited
  tsize : s'.tasks.size = s.tasks.size
  svcs : s'.svcs = s.svcs

theorem Same.rfl' (s : NS) : Same s s := ⟨rfl, rfl, rfl, rfl, rfl, rfl, rfl⟩
theorem Same.trans' {a b c : NS} (h1 : Same a b) (h2 : Same b c) : Same a c :=
  ⟨h2.trans.trans h1.trans, h2.cbs.trans h1.cbs, h2.places.trans h1.places, h2.pd.trans h1.pd,
   h2.awaited.trans h1.awaited, h2.tsize.trans h1.tsize, h2.svcs.trans h1.svcs⟩

theorem same_raise (s : NS) (e : String) : Same s (s.raise e) := by
  unfold NS.raise; split <;> exact ⟨rfl, rfl, rfl, rfl, rfl, rfl, rfl⟩

theorem same_outOfFuel (s : NS) : Same s s.outOfFuel := by
  unfold NS.outOfFuel
  have := same_raise s "outOfFuel"
  exact ⟨this.trans, this.cbs, this.places, this.pd, this.awaited, this.tsize, this.svcs⟩

theorem same_emit (s : NS) (o : NOut) : Same s (s.emit o) := ⟨rfl, rfl, rfl, rfl, rfl, rfl, rfl⟩

theorem same_foldl_emit {α} (g : α → NOut) : ∀ (l : List α) (s : NS),
    Same s (l.foldl (fun s a => s.emit (g a)) s)
  | [], s => Same.rfl' s
  | a :: l, s => by
      simp only [List.foldl_cons]
      exact (same_emit s (g a)).trans' (same_foldl_emit g l _)

theorem same_logAll (s : NS) (n : Note) (b : Bool) : Same s (s.logAll n b) := by
  unfold NS.logAll; exact same_foldl_emit (fun o => NOut.log o n b) s.observers s

theorem same_netAll (s : NS) : Same s s.netAll := by
  unfold NS.netAll; exact same_foldl_emit (fun o => NOut.netUpd o) s.observers s

theorem same_evalExpr (s : NS) (ee : EE) (e : Expr) (ctx : Nat) : Same s (s.evalExpr ee e ctx).2 := by
  unfold NS.evalExpr; exact ⟨rfl, rfl, rfl, rfl, rfl, rfl, rfl⟩

theorem same_readLimit (s : NS) (ee : EE) (lim : Limit) (ctx : Nat) : Same s (s.readLimit ee lim ctx).2 := by
  unfold NS.readLimit
  split
  · exact Same.rfl' s
  · exact Same.rfl' s
  · exact ⟨rfl, rfl, rfl, rfl, rfl, rfl, rfl⟩

theorem same_substitute (s : NS) (c : Option Nat) (ps : List Param) : Same s (s.substitute c ps).2 := by
  unfold NS.substitute
  split
  · exact Same.rfl' s
  · split
    · exact Same.rfl' s
    · exact ⟨rfl, rfl, rfl, rfl, rfl, rfl, rfl⟩

/-- the callbacks put tokens only on places of weight zero -/
def Cb.CtlZero (w : Nat → Int) : Cb → Prop
  | .cond _ a b _ => w a = 0 ∧ w b = 0
  | .wloop _ a b _ => w a = 0 ∧ w b = 0
  | .cloop _ _ _ a b _ => w a = 0 ∧ w b = 0
  | _ => True

/-- what is checked of a concrete net (decidable; the driver evaluates it): every transition has pairwise
    different input places, existing output places and balanced weights; no callback is a parallel loop;
    decision places weigh nothing -/
structure Cert (w : Nat → Int) (T : Array Trans) (C : Array (List (Nat × Cb))) (np : Nat) : Prop where
  balanced : ∀ (t : Nat) (tr : Trans), T[t]? = some tr → tr.ins.Nodup ∧ (∀ p ∈ tr.outs, p < np) ∧ sumW w tr.ins = sumW w tr.outs
  noPloop : ∀ (t : Nat) (l : List (Nat × Cb)), C[t]? = some l → ∀ c ∈ l, c.2.isPloop = false
  ctl : ∀ (t : Nat) (l : List (Nat × Cb)), C[t]? = some l → ∀ c ∈ l, c.2.CtlZero w

structure Inv (w : Nat → Int) (T : Array Trans) (C : Array (List (Nat × Cb))) (np : Nat) (c : Int) (s : NS) : Prop where
  trans : s.trans = T
  cbs : s.cbs = C
  size : s.places.size = np
  pd : ∀ e ∈ s.placeDict, w e.2 = 0
  noStart : AEv.start ∉ s.awaited
  sum : wsum w s.places = c

theorem Inv.same {w T C np c} {s s' : NS} (h : Inv w T C np c s) (hs : Same s s') : Inv w T C np c s' :=
  ⟨hs.trans ▸ h.trans, hs.cbs ▸ h.cbs, hs.places ▸ h.size, hs.pd ▸ h.pd, hs.awaited ▸ h.noStart, hs.places ▸ h.sum⟩

theorem extractPloop_none : ∀ (g : Nat) (l : List (Nat × Cb)) (pos : Nat),
    (∀ c ∈ l, c.2.isPloop = false) → extractPloop l pos none g = (none, l)
  | 0, _, _, _ => rfl
  | g+1, l, pos, h => by
      unfold extractPloop
      cases hq : l[pos]? with
      | none => rfl
      | some c =>
        obtain ⟨k, cb⟩ := c
        have hm : (k, cb) ∈ l := List.mem_of_getElem? hq
        have : cb.isPloop = false := h (k, cb) hm
        simp only [this]
        exact extractPloop_none g l (pos + 1) h

theorem dictSet_values {κ ν} [DecidableEq κ] (P : ν → Prop) (d : List (κ × ν)) (k : κ) (v : ν)
    (hd : ∀ e ∈ d, P e.2) (hv : P v) : ∀ e ∈ dictSet d k v, P e.2 := by
  unfold dictSet
  split
  · intro e he
    simp only [List.mem_map] at he
    obtain ⟨e0, he0, rfl⟩ := he
    split
    · exact hv
    · exact hd e0 he0
  · intro e he
    simp only [List.mem_append, List.mem_singleton] at he
    rcases he with he | rfl
    · exact hd e he
    · exact hv

theorem dictGet_mem {κ ν} [DecidableEq κ] (d : List (κ × ν)) (k : κ) (v : ν) (h : dictGet d k = some v) :
    ∃ e ∈ d, e.2 = v := by
  unfold dictGet at h
  cases hf : d.find? (fun e => decide (e.1 = k)) with
  | none => simp [hf] at h
  | some e =>
    simp [hf] at h
    exact ⟨e, List.mem_of_find?_eq_some hf, h⟩

section
variable (w : Nat → Int) (T : Array Trans) (C : Array (List (Nat × Cb))) (np : Nat) (c : Int) (ee : EE)

/-- all functions of the evaluator keep the invariant, at fuel `f` -/
structure Keeps (f : Nat) : Prop where
  evaluate : ∀ s, Inv w T C np c s → Inv w T C np c (evaluate ee f s)
  scan : ∀ n i s, Inv w T C np c s → Inv w T C np c (scan ee f n i s)
  runLive : ∀ t pos s, Inv w T C np c s → Inv w T C np c (runLive ee f t pos s)
  runCb : ∀ cb s, cb.isPloop = false → cb.CtlZero w → Inv w T C np c s → Inv w T C np c (runCb ee f cb s)
  listenSS : ∀ i fns s, Inv w T C np c s → Inv w T C np c (listenSS ee f i fns s)
  listenSF : ∀ i fns s, Inv w T C np c s → Inv w T C np c (listenSF ee f i fns s)
  eeStarted : ∀ id s, Inv w T C np c s → Inv w T C np c (eeStarted ee f id s)
  eeOther : ∀ k s, Inv w T C np c s → Inv w T C np c (eeOther ee f k s)
  eeAgain : ∀ k s, Inv w T C np c s → Inv w T C np c (eeAgain ee f k s)
  eeFinished : ∀ s, Inv w T C np c s → Inv w T C np c (eeFinished ee f s)
  complete : ∀ k s, Inv w T C np c s → Inv w T C np c (complete ee f k s)
  fireEv : ∀ ev s, (∀ p, ev = AEv.setPlace p → w p = 0) → Inv w T C np c s → Inv w T C np c (fireEv ee f ev s).2

theorem mem_eraseIdx_of {α} (l : List α) (i : Nat) (a : α) (h : a ∈ l.eraseIdx i) : a ∈ l :=
  List.mem_of_mem_eraseIdx h

theorem keeps_zero : Keeps w T C np c ee 0 where
  evaluate s h := by simp only [Net.evaluate]; exact h.same (same_outOfFuel s)
  scan n i s h := by simp only [Net.scan]; exact h.same (same_outOfFuel s)
  runLive t pos s h := by simp only [Net.runLive]; exact h.same (same_outOfFuel s)
  runCb cb s _ _ h := by simp only [Net.runCb]; exact h.same (same_outOfFuel s)
  listenSS i fns s h := by simp only [Net.listenSS]; exact h.same (same_outOfFuel s)
  listenSF i fns s h := by simp only [Net.listenSF]; exact h.same (same_outOfFuel s)
  eeStarted id s h := by simp only [Net.eeStarted]; exact h.same (same_outOfFuel s)
  eeOther k s h := by simp only [Net.eeOther]; exact h.same (same_outOfFuel s)
  eeAgain k s h := by simp only [Net.eeAgain]; exact h.same (same_outOfFuel s)
  eeFinished s h := by simp only [Net.eeFinished]; exact h.same (same_outOfFuel s)
  complete k s h := by simp only [Net.complete]; exact h.same (same_outOfFuel s)
  fireEv ev s _ h := by simp only [Net.fireEv]; exact h.same (same_outOfFuel s)


theorem mem_of_idxOf? (l : List AEv) (a : AEv) (i : Nat) (h : l.idxOf? a = some i) : a ∈ l := by
  unfold List.idxOf? at h
  have := List.of_findIdx?_eq_some h
  cases hq : l[i]? with
  | none => simp [hq] at this
  | some b =>
    simp [hq] at this
    subst this
    exact List.mem_of_getElem? hq

theorem size_incs : ∀ (outs : List Nat) (ps : Array Place),
    (outs.foldl (fun ps p => ps.modify p incTok) ps).size = ps.size
  | [], _ => rfl
  | p :: outs, ps => by simp [List.foldl_cons, size_incs outs]

theorem fireT_size (s : NS) (t : Nat) : (s.fireT t).places.size = s.places.size := by
  unfold NS.fireT
  split
  · show (List.foldl (fun ps p => ps.modify p incTok) (List.foldl (fun ps p => ps.modify p decTok) s.places _) _).size = _
    rw [size_incs, size_decs]
  · rfl

theorem fireT_cbs (s : NS) (t : Nat) : (s.fireT t).cbs = s.cbs := by unfold NS.fireT; split <;> rfl
theorem fireT_pd (s : NS) (t : Nat) : (s.fireT t).placeDict = s.placeDict := by unfold NS.fireT; split <;> rfl
theorem fireT_awaited (s : NS) (t : Nat) : (s.fireT t).awaited = s.awaited := by unfold NS.fireT; split <;> rfl

variable {w T C np c ee}

theorem Inv.fire (hc : Cert w T C np) {s : NS} (h : Inv w T C np c s) (i : Nat) (hen : s.enabled i = true) :
    Inv w T C np c (s.fireT i) := by
  have htr : ∃ tr, s.trans[i]? = some tr := by
    unfold NS.enabled at hen
    cases hq : s.trans[i]? with
    | none => simp [hq] at hen
    | some tr => exact ⟨tr, rfl⟩
  obtain ⟨tr, htr⟩ := htr
  have hb := hc.balanced i tr (by rw [← h.trans]; exact htr)
  refine ⟨(fireT_trans s i).trans h.trans, (fireT_cbs s i).trans h.cbs, (fireT_size s i).trans h.size, ?_, ?_, ?_⟩
  · rw [fireT_pd]; exact h.pd
  · rw [fireT_awaited]; exact h.noStart
  · rw [wsum_fireT w s i tr htr hb.1 hen (by rw [h.size]; exact hb.2.1), h.sum, hb.2.2]; omega

theorem same_bumpCounter (s : NS) (ctx line : Nat) (var : String) : Same s (s.bumpCounter ctx line var).2 := by
  unfold NS.bumpCounter; exact ⟨rfl, rfl, rfl, rfl, rfl, rfl, rfl⟩
theorem same_dropCounter (s : NS) (ctx line : Nat) (var : String) : Same s (s.dropCounter ctx line var) := by
  unfold NS.dropCounter; exact ⟨rfl, rfl, rfl, rfl, rfl, rfl, rfl⟩
theorem same_of_bumpCounter_eq {s s' : NS} {ctx line : Nat} {var : String} {c0 : Nat}
    (h : s.bumpCounter ctx line var = (c0, s')) : Same s s' := by
  have := same_bumpCounter s ctx line var; rw [h] at this; exact this

theorem same_of_substitute_eq {s s' : NS} {c : Option Nat} {ps ps' : List Param}
    (h : s.substitute c ps = (ps', s')) : Same s s' := by
  have := same_substitute s c ps; rw [h] at this; exact this
theorem same_of_evalExpr_eq {s s' : NS} {e : Expr} {ctx : Nat} {v : Option Val}
    (h : s.evalExpr ee e ctx = (v, s')) : Same s s' := by
  have := same_evalExpr s ee e ctx; rw [h] at this; exact this
theorem same_of_readLimit_eq {s s' : NS} {lim : Limit} {ctx : Nat} {n : Option Rat}
    (h : s.readLimit ee lim ctx = (n, s')) : Same s s' := by
  have := same_readLimit s ee lim ctx; rw [h] at this; exact this

theorem Same.taskStarted (f : Nat) (t : Nat) (s : NS) : Same s (runCb ee (f+1) (.taskStarted t) s) := by
  simp only [Net.runCb]
  split
  · exact same_raise s _
  · generalize hsub : NS.substitute _ _ _ = r
    obtain ⟨ps', s'⟩ := r
    simp only
    refine Same.trans' ?_ (same_logAll _ _ _)
    refine Same.trans' ?_ (same_foldl_emit _ _ _)
    have := same_of_substitute_eq hsub
    exact ⟨this.trans, this.cbs, this.places, this.pd, this.awaited,
      (by show (Array.modify _ _ _).size = _; rw [Array.size_modify]; exact this.tsize), this.svcs⟩

theorem Same.taskFinished (f : Nat) (t : Nat) (s : NS) : Same s (runCb ee (f+1) (.taskFinished t) s) := by
  simp only [Net.runCb]
  have h0 := same_foldl_emit (fun fn => NOut.inv fn (s.noteT .tf t)) s.ls.tf s
  split
  · refine Same.trans' ?_ (same_logAll _ _ _)
    refine Same.trans' ?_ (same_netAll _)
    exact ⟨h0.trans, h0.cbs, h0.places, h0.pd, h0.awaited, h0.tsize, h0.svcs⟩
  · exact h0.trans' (same_logAll _ _ _)

theorem keeps_succ (hc : Cert w T C np) (f : Nat) (ih : Keeps w T C np c ee f) : Keeps w T C np c ee (f+1) where
  evaluate s h := by simp only [Net.evaluate]; exact ih.scan _ _ s h
  scan n i s h := by
    simp only [Net.scan]
    split
    · exact h
    split
    · exact h
    split
    · rename_i hen
      have hnp : ∀ c ∈ (s.cbs[i]?.getD []), c.2.isPloop = false := by
        intro cb hcb
        cases hq : s.cbs[i]? with
        | none => simp [hq] at hcb
        | some l =>
          simp [hq] at hcb
          exact hc.noPloop i l (by rw [← h.cbs]; exact hq) cb hcb
      rw [extractPloop_none _ _ _ hnp]
      simp only
      exact ih.scan _ _ _ (ih.runLive _ _ _ (h.fire hc i hen))
    · exact ih.scan _ _ _ h
  runLive t pos s h := by
    simp only [Net.runLive]
    split
    · exact h
    split
    · exact h
    · rename_i k cb hq
      have hmem : ∃ l, C[t]? = some l ∧ (k, cb) ∈ l := by
        cases hl : s.cbs[t]? with
        | none => simp [hl] at hq
        | some l =>
          simp [hl] at hq
          exact ⟨l, by rw [← h.cbs]; exact hl, List.mem_of_getElem? hq⟩
      obtain ⟨l, hl, hm⟩ := hmem
      exact ih.runLive _ _ _ (ih.runCb cb s (hc.noPloop t l hl _ hm) (hc.ctl t l hl _ hm) h)
  runCb cb s hnp hctl h := by
    cases cb with
    | taskStarted t => exact h.same (Same.taskStarted f t s)
    | taskFinished t => exact h.same (Same.taskFinished f t s)
    | svcStarted i =>
      simp only [Net.runCb]
      split
      · exact h.same (same_raise s _)
      · rename_i a _
        split
        · exact Inv.same (s := { s with ctrS := s.ctrS + 1 }) ⟨h.trans, h.cbs, h.size, h.pd, h.noStart, h.sum⟩ (same_raise _ _)
        · rename_i fin hfin
          obtain ⟨e, he, hefin⟩ := dictGet_mem _ _ _ hfin
          have hwfin : w fin = 0 := by rw [← hefin]; exact h.pd e he
          generalize hsub : (if a.inLoop = true then NS.substitute _ _ _ else (a.params, _)) = r
          obtain ⟨ps', s'⟩ := r
          have hs' : Inv w T C np c s' := by
            have hbase : Inv w T C np c { s with ctrS := s.ctrS + 1, placeDict := dictSet s.placeDict (Uid.id s.ctrS) fin } :=
              ⟨h.trans, h.cbs, h.size, dictSet_values (fun v => w v = 0) _ _ _ h.pd hwfin, h.noStart, h.sum⟩
            split at hsub
            · exact hbase.same (same_of_substitute_eq hsub)
            · cases hsub; exact hbase
          apply ih.listenSS
          refine Inv.same ?_ (same_logAll _ _ _)
          refine ⟨hs'.trans, hs'.cbs, hs'.size, hs'.pd, ?_, hs'.sum⟩
          intro hm
          simp only [List.mem_append, List.mem_singleton] at hm
          rcases hm with hm | hm
          · exact hs'.noStart hm
          · cases hm
    | svcFinished i =>
      simp only [Net.runCb]
      have h1 := ih.listenSF i s.ls.sf s h
      split
      · exact h1
      · exact h1.same (same_logAll _ _ _)
    | cond e thenP elseP ctx =>
      simp only [Net.runCb]
      generalize hev : NS.evalExpr s ee e ctx = r
      obtain ⟨v, s'⟩ := r
      have hs' : Inv w T C np c s' := h.same (same_of_evalExpr_eq hev)
      simp only
      split
      · exact hs'.same (same_raise _ _)
      · rename_i v
        apply ih.fireEv
        · intro p hp
          cases hp
          split
          · exact hctl.1
          · exact hctl.2
        · refine ⟨hs'.trans, hs'.cbs, hs'.size, hs'.pd, ?_, hs'.sum⟩
          intro hm
          simp only [List.mem_append, List.mem_singleton] at hm
          rcases hm with hm | hm
          · exact hs'.noStart hm
          · cases hm
    | wloop e thenP elseP ctx =>
      simp only [Net.runCb]
      generalize hev : NS.evalExpr s ee e ctx = r
      obtain ⟨v, s'⟩ := r
      have hs' : Inv w T C np c s' := h.same (same_of_evalExpr_eq hev)
      simp only
      split
      · exact hs'.same (same_raise _ _)
      · rename_i v
        apply ih.fireEv
        · intro p hp
          cases hp
          split
          · exact hctl.1
          · exact hctl.2
        · refine ⟨hs'.trans, hs'.cbs, hs'.size, hs'.pd, ?_, hs'.sum⟩
          intro hm
          simp only [List.mem_append, List.mem_singleton] at hm
          rcases hm with hm | hm
          · exact hs'.noStart hm
          · cases hm
    | cloop line var lim thenP elseP ctx =>
      simp only [Net.runCb]
      generalize hbc : NS.bumpCounter s ctx line var = r0
      obtain ⟨c0, s0⟩ := r0
      have hs0 : Inv w T C np c s0 := h.same (same_of_bumpCounter_eq hbc)
      simp only
      generalize hev : NS.readLimit s0 ee lim ctx = r
      obtain ⟨n, s'⟩ := r
      have hs' : Inv w T C np c s' := hs0.same (same_of_readLimit_eq hev)
      simp only
      repeat' split
      all_goals first
        | exact hs'.same (same_raise _ _)
        | (apply ih.fireEv
           · intro p hp; cases hp; first | exact hctl.1 | exact hctl.2
           · have hd := same_dropCounter s' ctx line var
             refine ⟨hd.trans ▸ hs'.trans, hd.cbs ▸ hs'.cbs, hd.places ▸ hs'.size, hd.pd ▸ hs'.pd, ?_, hd.places ▸ hs'.sum⟩
             intro hm
             simp only [List.mem_append, List.mem_singleton] at hm
             rcases hm with hm | hm
             · exact hs'.noStart hm
             · cases hm)
    | ploop var lim c place t1 t2 ctx => simp [Cb.isPloop] at hnp
  listenSS i fns s h := by
    cases fns with
    | nil => simp only [Net.listenSS]; exact h
    | cons fn fns =>
      simp only [Net.listenSS]
      split
      · exact h
      apply ih.listenSS
      split
      · exact ih.eeStarted _ _ (h.same (same_emit _ _))
      · exact h.same (same_emit _ _)
  listenSF i fns s h := by
    cases fns with
    | nil => simp only [Net.listenSF]; exact h
    | cons fn fns =>
      simp only [Net.listenSF]
      split
      · exact h
      apply ih.listenSF
      split
      · exact ih.eeFinished _ (h.same (same_emit _ _))
      · exact h.same (same_emit _ _)
  eeStarted id s h := by
    simp only [Net.eeStarted]
    have h0 : Inv w T C np c { s with announced := s.announced.push id, pending := s.pending ++ [s.announced.size] } :=
      ⟨h.trans, h.cbs, h.size, h.pd, h.noStart, h.sum⟩
    by_cases hio : ee.immOther s.announced.size = true
    · rw [if_pos hio]
      have h1 := ih.eeOther s.announced.size _ h0
      split
      · exact h1
      · split
        · exact ih.complete _ _ h1
        · exact h1
    · rw [if_neg hio]
      split
      · exact h0
      · split
        · exact ih.complete _ _ h0
        · exact h0
  eeOther k s h := by
    simp only [Net.eeOther]
    have h1 := ih.eeAgain k s h
    split
    · exact ih.complete _ _ h1
    · exact h1
  eeAgain k s h := by
    simp only [Net.eeAgain]
    split
    · split
      · exact ih.complete _ _ h
      · exact h
    · exact h
  eeFinished s h := by
    simp only [Net.eeFinished]
    have h0 : Inv w T C np c { s with nSf := s.nSf + 1 } := ⟨h.trans, h.cbs, h.size, h.pd, h.noStart, h.sum⟩
    split
    · split
      · exact ih.complete _ _ h0
      · exact h0
    · exact h0
  complete k s h := by
    simp only [Net.complete]
    split
    · exact h
    · rename_i id _
      generalize hfe : fireEv ee f (AEv.svc (Uid.id id)) _ = r
      obtain ⟨b, s'⟩ := r
      have hs' : Inv w T C np c s' := by
        have := ih.fireEv (AEv.svc (Uid.id id)) ({ s with inProg := k :: s.inProg }.emit (.fire id)) (by intro p hp; cases hp)
          ⟨h.trans, h.cbs, h.size, h.pd, h.noStart, h.sum⟩
        rw [hfe] at this; exact this
      simp only
      repeat' split
      all_goals exact ⟨hs'.trans, hs'.cbs, hs'.size, hs'.pd, hs'.noStart, hs'.sum⟩
  fireEv ev s hev h := by
    simp only [Net.fireEv]
    split
    · exact h
    split
    · exact h
    · rename_i idx hidx
      have hmem : ev ∈ s.awaited := mem_of_idxOf? _ _ _ hidx
      have hne : ev ≠ AEv.start := by intro e; subst e; exact h.noStart hmem
      have h1 : Inv w T C np c { s with awaited := s.awaited.eraseIdx idx } :=
        ⟨h.trans, h.cbs, h.size, h.pd, fun hm => h.noStart (List.mem_of_mem_eraseIdx hm), h.sum⟩
      split
      · exact h1.same (same_raise _ _)
      · rename_i p hp
        have hwp : w p = 0 := by
          cases ev with
          | start => exact absurd rfl hne
          | setPlace q => simp at hp; subst hp; exact hev q rfl
          | svc u =>
            simp at hp
            obtain ⟨e, he, hep⟩ := dictGet_mem _ _ _ hp
            rw [← hep]; exact h.pd e he
        split
        · have h2 : Inv w T C np c (({ s with awaited := s.awaited.eraseIdx idx } : NS).addToken p) := by
            refine ⟨h1.trans, h1.cbs, ?_, h1.pd, h1.noStart, ?_⟩
            · show (Array.modify _ _ _).size = np
              rw [Array.size_modify]; exact h1.size
            · rw [wsum_addToken w _ p hwp]; exact h1.sum
          have h3 := ih.evaluate _ h2
          split
          · exact h3
          · exact h3.same (same_netAll _)
        · refine ⟨h.trans, h.cbs, h.size, h.pd, ?_, h.sum⟩
          intro hm
          simp only [List.mem_append, List.mem_singleton] at hm
          rcases hm with (hm | hm) | hm
          · exact h.noStart (List.mem_of_mem_eraseIdx (List.mem_of_mem_take hm))
          · exact hne hm.symm
          · exact h.noStart (List.mem_of_mem_eraseIdx (List.mem_of_mem_drop hm))

/-- every function of the evaluator keeps the invariant, for every fuel -/
theorem keeps (hc : Cert w T C np) : ∀ f, Keeps w T C np c ee f
  | 0 => keeps_zero w T C np c ee
  | f+1 => keeps_succ hc f (keeps hc f)

end
end Pfdl.Net
