import PfdlProofs.Norm
/-! Accounting invariants of the interpreter: the awaited list is the multiset of waiting leaves,
    counters only grow, a stuck node is always recorded in the state. -/
namespace Pfdl

@[simp] theorem Run.waiting_wait (i n) : (Run.wait i n).waiting = [i] := by simp [Run.waiting]
@[simp] theorem Run.waiting_blk (r rest env) : (Run.blk r rest env).waiting = r.waiting := by simp [Run.waiting]
@[simp] theorem Run.waiting_call (n r) : (Run.call n r).waiting = r.waiting := by simp [Run.waiting]
@[simp] theorem Run.waiting_par (rs) : (Run.par rs).waiting = Run.waitingL rs := by simp [Run.waiting]
@[simp] theorem Run.waiting_cloop (c v l b e r) : (Run.cloop c v l b e r).waiting = r.waiting := by simp [Run.waiting]
@[simp] theorem Run.waiting_wloop (e b env r) : (Run.wloop e b env r).waiting = r.waiting := by simp [Run.waiting]
@[simp] theorem Run.waitingL_nil : Run.waitingL [] = [] := by simp [Run.waitingL]
@[simp] theorem Run.waitingL_cons (r rs) : Run.waitingL (r :: rs) = r.waiting ++ Run.waitingL rs := by simp [Run.waitingL]

@[simp] theorem Run.Clean_wait (i n) : (Run.wait i n).Clean := by simp [Run.Clean]
@[simp] theorem Run.Clean_blk (r rest env) : (Run.blk r rest env).Clean ↔ r.Clean := by simp [Run.Clean]
@[simp] theorem Run.Clean_call (n r) : (Run.call n r).Clean ↔ r.Clean := by simp [Run.Clean]
@[simp] theorem Run.Clean_par (rs) : (Run.par rs).Clean ↔ Run.CleanL rs := by simp [Run.Clean]
@[simp] theorem Run.Clean_cloop (c v l b e r) : (Run.cloop c v l b e r).Clean ↔ r.Clean := by simp [Run.Clean]
@[simp] theorem Run.Clean_wloop (e b env r) : (Run.wloop e b env r).Clean ↔ r.Clean := by simp [Run.Clean]
@[simp] theorem Run.Clean_stuck (w) : ¬ (Run.stuck w).Clean := by simp [Run.Clean]
@[simp] theorem Run.CleanL_nil : Run.CleanL [] := by simp [Run.CleanL]
@[simp] theorem Run.CleanL_cons (r rs) : Run.CleanL (r :: rs) ↔ r.Clean ∧ Run.CleanL rs := by simp [Run.CleanL]

/-- the fields the accounting invariants read -/
def St.same (a b : St) : Prop :=
  a.awaited = b.awaited ∧ a.ctrS = b.ctrS ∧ a.ctrT = b.ctrT ∧ a.stuck = b.stuck

theorem St.same_refl (a : St) : a.same a := ⟨rfl, rfl, rfl, rfl⟩
theorem St.same_emit (a : St) (e : Ev) : (a.emit e).same a := ⟨rfl, rfl, rfl, rfl⟩
theorem St.same_emits (a : St) (es : List Ev) : (a.emits es).same a := ⟨rfl, rfl, rfl, rfl⟩
theorem St.same_flush (a : St) (h : Nat) : (a.flush h).same a := ⟨rfl, rfl, rfl, rfl⟩
theorem St.same_evalExpr (a : St) (ee : EE) (e : Expr) (c : Nat) : (a.evalExpr ee e c).2.same a := ⟨rfl, rfl, rfl, rfl⟩
theorem St.same_readLimit (a : St) (ee : EE) (l : Limit) (c : Nat) : (a.readLimit ee l c).2.same a :=
  ⟨by simp, by simp, by simp, by simp⟩
theorem St.same_symm {a b : St} (h : a.same b) : b.same a := ⟨h.1.symm, h.2.1.symm, h.2.2.1.symm, h.2.2.2.symm⟩
theorem St.same_trans {a b c : St} (h : a.same b) (g : b.same c) : a.same c :=
  ⟨h.1.trans g.1, h.2.1.trans g.2.1, h.2.2.1.trans g.2.2.1, h.2.2.2.trans g.2.2.2⟩

/-- what every `enter…` call guarantees -/
structure EnterOk (s : St) (r : Run) (s' : St) : Prop where
  cnt : ∀ j, s'.awaited.count j = s.awaited.count j + r.waiting.count j
  ctrS : s.ctrS ≤ s'.ctrS
  ctrT : s.ctrT ≤ s'.ctrT
  clean : s'.stuck = none → r.Clean ∧ s.stuck = none

structure EnterOkL (s : St) (rs : List Run) (s' : St) : Prop where
  cnt : ∀ j, s'.awaited.count j = s.awaited.count j + (Run.waitingL rs).count j
  ctrS : s.ctrS ≤ s'.ctrS
  ctrT : s.ctrT ≤ s'.ctrT
  clean : s'.stuck = none → Run.CleanL rs ∧ s.stuck = none

theorem EnterOk.fin_refl (s : St) : EnterOk s .fin s :=
  ⟨by simp, Nat.le_refl _, Nat.le_refl _, by simp⟩

theorem EnterOk.fin_same {s s' : St} (h : s'.same s) : EnterOk s .fin s' :=
  ⟨by simp [h.1], by simp [h.2.1], by simp [h.2.2.1], by simp [h.2.2.2]⟩

theorem EnterOk.stuck (s : St) (w : Stuck) : EnterOk s (.stuck w) (s.setStuck w) :=
  ⟨by simp, by simp, by simp, fun h => absurd h (St.setStuck_stuck_ne s w)⟩

theorem EnterOk.of_same_left {s s0 s' : St} {r : Run} (hs : s0.same s) (h : EnterOk s0 r s') : EnterOk s r s' :=
  ⟨by simpa [hs.1] using h.cnt, by simpa [hs.2.1] using h.ctrS, by simpa [hs.2.2.1] using h.ctrT,
   fun hst => by have := h.clean hst; rw [hs.2.2.2] at this; exact this⟩

theorem EnterOk.of_same_right {s s1 s' : St} {r : Run} (hs : s'.same s1) (h : EnterOk s r s1) : EnterOk s r s' :=
  ⟨by simpa [hs.1] using h.cnt, by simpa [hs.2.1] using h.ctrS, by simpa [hs.2.2.1] using h.ctrT,
   fun hst => h.clean (by rw [← hs.2.2.2]; exact hst)⟩

/-- a finished statement followed by the rest -/
theorem EnterOk.seq {s s1 s2 : St} {r : Run} (h1 : EnterOk s .fin s1) (h2 : EnterOk s1 r s2) : EnterOk s r s2 :=
  ⟨fun j => by have a := h1.cnt j; have b := h2.cnt j; simp at a; omega,
   Nat.le_trans h1.ctrS h2.ctrS, Nat.le_trans h1.ctrT h2.ctrT,
   fun hst => by
     have a := h2.clean hst
     exact ⟨a.1, (h1.clean a.2).2⟩⟩

theorem EnterOk.wrap {s s' : St} {r r' : Run} (h : EnterOk s r s') (hw : r'.waiting = r.waiting) (hc : r'.Clean ↔ r.Clean) :
    EnterOk s r' s' :=
  ⟨by simpa [hw] using h.cnt, h.ctrS, h.ctrT, fun hst => by have := h.clean hst; exact ⟨hc.2 this.1, this.2⟩⟩

theorem EnterOkL.nil (s : St) : EnterOkL s [] s :=
  ⟨by simp, Nat.le_refl _, Nat.le_refl _, by simp⟩

theorem EnterOkL.cons {s s1 s2 : St} {r : Run} {rs : List Run} (h1 : EnterOk s r s1) (h2 : EnterOkL s1 rs s2) :
    EnterOkL s (r :: rs) s2 :=
  ⟨fun j => by have a := h1.cnt j; have b := h2.cnt j; simp [List.count_append]; omega,
   Nat.le_trans h1.ctrS h2.ctrS, Nat.le_trans h1.ctrT h2.ctrT,
   fun hst => by
     have a := h2.clean hst
     have b := h1.clean a.2
     exact ⟨by simp [a.1, b.1], b.2⟩⟩

theorem EnterOkL.of_same_left {s s0 s' : St} {rs : List Run} (hs : s0.same s) (h : EnterOkL s0 rs s') : EnterOkL s rs s' :=
  ⟨by simpa [hs.1] using h.cnt, by simpa [hs.2.1] using h.ctrS, by simpa [hs.2.2.1] using h.ctrT,
   fun hst => by have := h.clean hst; rw [hs.2.2.2] at this; exact this⟩

theorem EnterOkL.toPar {s s' : St} {rs : List Run} (h : EnterOkL s rs s') : EnterOk s (.par rs) s' :=
  ⟨by simpa using h.cnt, h.ctrS, h.ctrT, fun hst => by simpa using h.clean hst⟩

theorem Run.waitingL_of_allFin (rs : List Run) (h : rs.all Run.isFin = true) : Run.waitingL rs = [] ∧ Run.CleanL rs := by
  induction rs with
  | nil => simp
  | cons r rs ih =>
    simp only [List.all_cons, Bool.and_eq_true] at h
    have hr := Run.isFin_eq_true.1 h.1
    subst hr
    simp [ih h.2]

theorem EnterOkL.toFin {s s' : St} {rs : List Run} (h : EnterOkL s rs s') (hall : rs.all Run.isFin = true) : EnterOk s .fin s' := by
  have hw := Run.waitingL_of_allFin rs hall
  exact ⟨by simpa [hw.1] using h.cnt, h.ctrS, h.ctrT, fun hst => by have := h.clean hst; exact ⟨by simp, this.2⟩⟩

theorem count_append_erase_self (a : List Nat) (i j : Nat) :
    ((a ++ [i]).erase i).count j = a.count j := by
  rw [List.count_erase]
  simp only [List.count_append, List.count_singleton]
  by_cases h : j = i
  · subst h; simp
  · have : (i == j) = false := by simp; exact fun e => h e.symm
    have h2 : (j == i) = false := by simp [h]
    simp [this, h2]

mutual
theorem enter_ok (P : Prog) (ee : EE) : (f : Nat) → (st : Stmt) → (env : Env) → (s : St) →
    EnterOk s (enter P ee f st env s).1 (enter P ee f st env s).2
  | 0, _, _, s => by simp only [enter]; exact EnterOk.stuck s _
  | f+1, .svc c, env, s => by
      simp only [enter]
      split
      · exact ⟨fun j => by simp [count_append_erase_self], by simp, by simp, by simp⟩
      · exact ⟨fun j => by simp [List.count_append], by simp, by simp, by simp⟩
  | f+1, .call c, env, s => by
      simp only [enter]; exact enterCall_ok P ee f c env _ _ s
  | f+1, .par cs l, env, s => by
      simp only [enter]
      have h := enterCalls_ok P ee f cs env env.inLoop (fun _ => env.binds) 0 s.pend.length true s
      split
      · rename_i hall; exact h.toFin hall
      · exact h.toPar
  | f+1, .cond e p q l, env, s => by
      simp only [enter]
      split
      · exact (EnterOk.stuck _ _).of_same_left (St.same_evalExpr s ee e env.ctx)
      · split
        · exact (enterBlk_ok P ee f p env _).of_same_left (St.same_evalExpr s ee e env.ctx)
        · exact (enterBlk_ok P ee f q env _).of_same_left (St.same_evalExpr s ee e env.ctx)
  | f+1, .cloop v lim body l, env, s => by
      simp only [enter]; exact iterC_ok P ee f 0 v lim body env s
  | f+1, .wloop e body l, env, s => by
      simp only [enter]; exact iterW_ok P ee f e body env s
  | f+1, .ploop v lim c l, env, s => by
      simp only [enter]
      have hs := St.same_readLimit s ee lim env.ctx
      split
      · exact (EnterOk.stuck _ _).of_same_left hs
      · split
        · exact EnterOk.fin_same hs
        · rename_i n _ _
          have h := enterCalls_ok P ee f (List.replicate n.floor.toNat c) env false
            (fun k => (v, k) :: env.binds) 0 (s.readLimit ee lim env.ctx).2.pend.length true (s.readLimit ee lim env.ctx).2
          split
          · rename_i hall; exact (h.toFin hall).of_same_left hs
          · exact h.toPar.of_same_left hs
theorem enterBlk_ok (P : Prog) (ee : EE) : (f : Nat) → (b : List Stmt) → (env : Env) → (s : St) →
    EnterOk s (enterBlk P ee f b env s).1 (enterBlk P ee f b env s).2
  | 0, _, _, s => by simp only [enterBlk]; exact EnterOk.stuck s _
  | f+1, [], _, s => by simp only [enterBlk]; exact EnterOk.fin_refl s
  | f+1, st :: rest, env, s => by
      simp only [enterBlk]
      have h := enter_ok P ee f st env s
      split
      · rename_i s1 heq
        rw [heq] at h
        exact h.seq (enterBlk_ok P ee f rest env s1)
      · rename_i r s1 hne heq
        rw [heq] at h
        exact h.wrap (by simp) (by simp)
theorem enterCall_ok (P : Prog) (ee : EE) : (f : Nat) → (c : CallSite) → (env : Env) → (il : Bool) →
    (b : List (String × Nat)) → (s : St) →
    EnterOk s (enterCall P ee f c env il b s).1 (enterCall P ee f c env il b s).2
  | 0, _, _, _, _, s => by simp only [enterCall]; exact EnterOk.stuck s _
  | f+1, c, env, il, b, s => by
      simp only [enterCall]
      split
      · exact EnterOk.stuck s _
      · rename_i t _
        have h := enterBlk_ok P ee f t.body { ctx := s.ctrT, inLoop := il, binds := [] }
          ({ s with ctrT := s.ctrT + 1 }.emit (.note (noteOf .ts c s.ctrT (some env.ctx) (substParams b c.ins))))
        have h0 : EnterOk s .fin ({ s with ctrT := s.ctrT + 1 }.emit (.note (noteOf .ts c s.ctrT (some env.ctx) (substParams b c.ins)))) :=
          ⟨by simp, by simp, by simp, by simp⟩
        split
        · rename_i s1 heq
          rw [heq] at h
          exact (h0.seq h).of_same_right (St.same_emit s1 _)
        · rename_i r s1 hne heq
          rw [heq] at h
          exact (h0.seq h).wrap (by simp) (by simp)
theorem enterCalls_ok (P : Prog) (ee : EE) : (f : Nat) → (cs : List CallSite) → (env : Env) → (il : Bool) →
    (bo : Nat → List (String × Nat)) → (k h : Nat) → (af : Bool) → (s : St) →
    EnterOkL s (enterCalls P ee f cs env il bo k h af s).1 (enterCalls P ee f cs env il bo k h af s).2
  | 0, _, _, _, _, _, _, _, s => by
      simp only [enterCalls]
      exact ⟨by simp, by simp, by simp, fun h => absurd h (St.setStuck_stuck_ne s _)⟩
  | f+1, [], _, _, _, _, _, _, s => by simp only [enterCalls]; exact EnterOkL.nil s
  | f+1, c :: cs, env, il, bo, k, h, af, s => by
      simp only [enterCalls]
      have h1 := enterCall_ok P ee f c env il (bo k) s
      split
      · exact EnterOkL.cons h1 (enterCalls_ok P ee f cs env il bo (k+1) h _ _)
      · exact EnterOkL.cons h1 ((enterCalls_ok P ee f cs env il bo (k+1) h _ _).of_same_left (St.same_flush _ h))
theorem iterC_ok (P : Prog) (ee : EE) : (f : Nat) → (c : Nat) → (v : String) → (lim : Limit) →
    (body : List Stmt) → (env : Env) → (s : St) →
    EnterOk s (iterC P ee f c v lim body env s).1 (iterC P ee f c v lim body env s).2
  | 0, _, _, _, _, _, s => by simp only [iterC]; exact EnterOk.stuck s _
  | f+1, c, v, lim, body, env, s => by
      simp only [iterC]
      have hs := St.same_readLimit s ee lim env.ctx
      split
      · exact (EnterOk.stuck _ _).of_same_left hs
      · split
        · have h := enterBlk_ok P ee f body { env with inLoop := true, binds := (v, c) :: env.binds }
            (s.readLimit ee lim env.ctx).2
          split
          · rename_i s1 heq
            rw [heq] at h
            exact (h.seq (iterC_ok P ee f (c+1) v lim body env s1)).of_same_left hs
          · rename_i r s1 hne heq
            rw [heq] at h
            exact (h.wrap (by simp) (by simp)).of_same_left hs
        · exact EnterOk.fin_same hs
theorem iterW_ok (P : Prog) (ee : EE) : (f : Nat) → (e : Expr) → (body : List Stmt) → (env : Env) → (s : St) →
    EnterOk s (iterW P ee f e body env s).1 (iterW P ee f e body env s).2
  | 0, _, _, _, s => by simp only [iterW]; exact EnterOk.stuck s _
  | f+1, e, body, env, s => by
      simp only [iterW]
      have hs := St.same_evalExpr s ee e env.ctx
      split
      · exact (EnterOk.stuck _ _).of_same_left hs
      · split
        · have h := enterBlk_ok P ee f body { env with inLoop := true } (s.evalExpr ee e env.ctx).2
          split
          · rename_i s1 heq
            rw [heq] at h
            exact (h.seq (iterW_ok P ee f e body env s1)).of_same_left hs
          · rename_i r s1 hne heq
            rw [heq] at h
            exact (h.wrap (by simp) (by simp)).of_same_left hs
        · exact EnterOk.fin_same hs
end

end Pfdl
