import PfdlProofs.StLemmas
import PfdlModel.Api
/-! No internal error: the only ways the scheduler model raises are an unresolved task call, a guard or condition
    whose evaluation fails, and a loop limit that is no (whole) number.  A program that is safe in this sense never
    raises, on any history of API calls. -/
namespace Pfdl

def St.Ok (s : St) : Prop := s.stuck ≠ some .raised

/-- the expression evaluates at every point of the engine's answer stream -/
def EvalOk (ee : EE) (e : Expr) : Prop := ∀ k, (e.exec ee.ans k).1 ≠ none

/-- the limit of a counting loop is a number whenever it is read -/
def LimOk (ee : EE) : Limit → Prop
  | .lit _ => True
  | .path [] => False
  | .path (_ :: segs) => ∀ k, (((ee.ans k).bind (·.follow segs)).bind (·.toNum?)) ≠ none

/-- the limit of a parallel loop is a whole number (or not positive) whenever it is read -/
def PLimOk (ee : EE) : Limit → Prop
  | .lit _ => True
  | .path [] => False
  | .path (_ :: segs) => ∀ k, ∃ q, (((ee.ans k).bind (·.follow segs)).bind (·.toNum?)) = some q ∧ (q.1 ≤ 0 ∨ q.1.den = 1)

mutual
def Stmt.Safe (P : Prog) (ee : EE) : Stmt → Prop
  | .svc _ => True
  | .call c => (P.task? c.name).isSome
  | .par cs _ => ∀ c ∈ cs, (P.task? c.name).isSome
  | .cond e p q _ => EvalOk ee e ∧ SafeL P ee p ∧ SafeL P ee q
  | .cloop _ lim b _ => LimOk ee lim ∧ SafeL P ee b
  | .wloop e b _ => EvalOk ee e ∧ SafeL P ee b
  | .ploop _ lim c _ => PLimOk ee lim ∧ (P.task? c.name).isSome
def SafeL (P : Prog) (ee : EE) : List Stmt → Prop
  | [] => True
  | s :: ss => s.Safe P ee ∧ SafeL P ee ss
end

/-- every call of the program resolves, every guard / condition evaluates, every limit is a number -/
def Prog.Safe (P : Prog) (ee : EE) : Prop := ∀ t ∈ P.tasks, SafeL P ee t.body

mutual
def Run.Safe (P : Prog) (ee : EE) : Run → Prop
  | .wait _ _ => True
  | .blk r rest _ => r.Safe P ee ∧ SafeL P ee rest
  | .call _ r => r.Safe P ee
  | .par rs => Run.SafeLs P ee rs
  | .cloop _ _ lim body _ r => r.Safe P ee ∧ LimOk ee lim ∧ SafeL P ee body
  | .wloop e body _ r => r.Safe P ee ∧ EvalOk ee e ∧ SafeL P ee body
  | .fin => True
  | .stuck _ => True
def Run.SafeLs (P : Prog) (ee : EE) : List Run → Prop
  | [] => True
  | r :: rs => r.Safe P ee ∧ Run.SafeLs P ee rs
end

theorem St.Ok.setFuel {s : St} (h : s.Ok) : (s.setStuck .outOfFuel).Ok := by
  unfold St.Ok St.setStuck at *
  cases hs : s.stuck with
  | none => simp
  | some x => simp [hs] at h ⊢; exact h

theorem St.Ok.of_stuck {s s' : St} (h : s.Ok) (e : s'.stuck = s.stuck) : s'.Ok := by
  unfold St.Ok at *; rw [e]; exact h

theorem task?_mem' {P : Prog} {name : String} {t : Task} (h : P.task? name = some t) : t ∈ P.tasks := by
  unfold Prog.task? at h
  exact List.mem_of_find?_eq_some h

theorem readLimit_lim {s : St} {ee : EE} {lim : Limit} {c : Nat} (h : LimOk ee lim) : (s.readLimit ee lim c).1 ≠ none := by
  cases lim with
  | lit n => simp [St.readLimit]
  | path p =>
    cases p with
    | nil => exact absurd h (by simp [LimOk])
    | cons x segs =>
      simp only [LimOk] at h
      simp only [St.readLimit, St.query]
      have := h s.nq
      cases hv : ((ee.ans s.nq).bind (·.follow segs)).bind (·.toNum?) with
      | none => exact absurd hv this
      | some q => simp [hv]

theorem readLimit_plim {s : St} {ee : EE} {lim : Limit} {c : Nat} (h : PLimOk ee lim) :
    ∃ n, (s.readLimit ee lim c).1 = some n ∧ (n ≤ 0 ∨ n.den = 1) := by
  cases lim with
  | lit n => exact ⟨(n : Rat), by simp [St.readLimit], Or.inr (by simp)⟩
  | path p =>
    cases p with
    | nil => exact absurd h (by simp [PLimOk])
    | cons x segs =>
      simp only [PLimOk] at h
      obtain ⟨q, hq, hw⟩ := h s.nq
      refine ⟨q.1, ?_, hw⟩
      simp only [St.readLimit, St.query]
      simp [hq]

theorem SafeL_replicate {P : Prog} {ee : EE} : True := trivial

mutual
theorem enter_safe (P : Prog) (ee : EE) (hP : P.Safe ee) :
    (f : Nat) → (st : Stmt) → (env : Env) → (s : St) → st.Safe P ee → s.Ok →
    (enter P ee f st env s).2.Ok ∧ (enter P ee f st env s).1.Safe P ee
  | 0, _, _, s, _, h => by simp only [enter]; exact ⟨h.setFuel, by simp [Run.Safe]⟩
  | f+1, .svc c, env, s, _, h => by
      simp only [enter]
      split
      · exact ⟨h.of_stuck rfl, by simp [Run.Safe]⟩
      · exact ⟨h.of_stuck rfl, by simp [Run.Safe]⟩
  | f+1, .call c, env, s, hs, h => by
      simp only [enter]
      exact enterCall_safe P ee hP f c env env.inLoop env.binds s (by simpa [Stmt.Safe] using hs) h
  | f+1, .par cs l, env, s, hs, h => by
      simp only [enter]
      have := enterCalls_safe P ee hP f cs env env.inLoop (fun _ => env.binds) 0 s.pend.length true s
        (by simpa [Stmt.Safe] using hs) h
      split
      · exact ⟨this.1, by simp [Run.Safe]⟩
      · exact ⟨this.1, by simpa [Run.Safe] using this.2⟩
  | f+1, .cond e p q l, env, s, hs, h => by
      simp only [Stmt.Safe] at hs
      obtain ⟨he, hp, hq⟩ := hs
      simp only [enter]
      have hev : (s.evalExpr ee e env.ctx).1 ≠ none := by simpa [St.evalExpr] using he s.nq
      have hok : (s.evalExpr ee e env.ctx).2.Ok := h.of_stuck (by simp)
      cases hv : (s.evalExpr ee e env.ctx).1 with
      | none => exact absurd hv hev
      | some v =>
        rw [show s.evalExpr ee e env.ctx = ((s.evalExpr ee e env.ctx).1, (s.evalExpr ee e env.ctx).2) from rfl]
        simp only [hv]
        split
        · exact enterBlk_safe P ee hP f p env _ hp hok
        · exact enterBlk_safe P ee hP f q env _ hq hok
  | f+1, .cloop var lim body l, env, s, hs, h => by
      simp only [Stmt.Safe] at hs
      simp only [enter]
      exact iterC_safe P ee hP f 0 var lim body env s hs.1 hs.2 h
  | f+1, .wloop e body l, env, s, hs, h => by
      simp only [Stmt.Safe] at hs
      simp only [enter]
      exact iterW_safe P ee hP f e body env s hs.1 hs.2 h
  | f+1, .ploop var lim c l, env, s, hs, h => by
      simp only [Stmt.Safe] at hs
      obtain ⟨hl, hc⟩ := hs
      simp only [enter]
      obtain ⟨n, hn, hw⟩ := readLimit_plim (s := s) (c := env.ctx) hl
      have hok : (s.readLimit ee lim env.ctx).2.Ok := h.of_stuck (by simp)
      rw [show s.readLimit ee lim env.ctx = ((s.readLimit ee lim env.ctx).1, (s.readLimit ee lim env.ctx).2) from rfl]
      simp only [hn]
      by_cases h0 : n < 1
      · simp only [h0, if_true]; exact ⟨hok, by simp [Run.Safe]⟩
      · simp only [h0, if_false]
        have := enterCalls_safe P ee hP f (List.replicate n.floor.toNat c) env false
          (fun k => (var, k) :: env.binds) 0 (s.readLimit ee lim env.ctx).2.pend.length true _
          (by intro c' hc'; rw [List.eq_of_mem_replicate hc']; exact hc) hok
        split
        · exact ⟨this.1, by simp [Run.Safe]⟩
        · exact ⟨this.1, by simpa [Run.Safe] using this.2⟩

theorem enterBlk_safe (P : Prog) (ee : EE) (hP : P.Safe ee) :
    (f : Nat) → (ss : List Stmt) → (env : Env) → (s : St) → SafeL P ee ss → s.Ok →
    (enterBlk P ee f ss env s).2.Ok ∧ (enterBlk P ee f ss env s).1.Safe P ee
  | 0, _, _, s, _, h => by simp only [enterBlk]; exact ⟨h.setFuel, by simp [Run.Safe]⟩
  | _+1, [], _, s, _, h => by simp only [enterBlk]; exact ⟨h, by simp [Run.Safe]⟩
  | f+1, st :: rest, env, s, hs, h => by
      simp only [SafeL] at hs
      have h1 := enter_safe P ee hP f st env s hs.1 h
      simp only [enterBlk]
      split
      · rename_i s' heq
        rw [heq] at h1
        exact enterBlk_safe P ee hP f rest env s' hs.2 h1.1
      · rename_i r s' hne heq
        rw [heq] at h1
        exact ⟨h1.1, by simp only [Run.Safe]; exact ⟨h1.2, hs.2⟩⟩

theorem enterCall_safe (P : Prog) (ee : EE) (hP : P.Safe ee) :
    (f : Nat) → (c : CallSite) → (env : Env) → (inLoop : Bool) → (binds : List (String × Nat)) → (s : St) →
    (P.task? c.name).isSome → s.Ok →
    (enterCall P ee f c env inLoop binds s).2.Ok ∧ (enterCall P ee f c env inLoop binds s).1.Safe P ee
  | 0, _, _, _, _, s, _, h => by simp only [enterCall]; exact ⟨h.setFuel, by simp [Run.Safe]⟩
  | f+1, c, env, inLoop, binds, s, hc, h => by
      simp only [enterCall]
      cases ht : P.task? c.name with
      | none => simp [ht] at hc
      | some t =>
        simp only
        have hb := hP t (task?_mem' ht)
        have h1 := enterBlk_safe P ee hP f t.body { ctx := s.ctrT, inLoop := inLoop, binds := [] }
          ({ s with ctrT := s.ctrT + 1 }.emit (.note (noteOf .ts c s.ctrT (some env.ctx) (substParams binds c.ins)))) hb
          (h.of_stuck rfl)
        split
        · rename_i s' heq
          rw [heq] at h1
          exact ⟨h1.1.of_stuck rfl, by simp [Run.Safe]⟩
        · rename_i r s' hne heq
          rw [heq] at h1
          exact ⟨h1.1, by simpa [Run.Safe] using h1.2⟩

theorem enterCalls_safe (P : Prog) (ee : EE) (hP : P.Safe ee) :
    (f : Nat) → (cs : List CallSite) → (env : Env) → (inLoop : Bool) → (bindsOf : Nat → List (String × Nat)) →
    (k h : Nat) → (allFin : Bool) → (s : St) → (∀ c ∈ cs, (P.task? c.name).isSome) → s.Ok →
    (enterCalls P ee f cs env inLoop bindsOf k h allFin s).2.Ok ∧
    Run.SafeLs P ee (enterCalls P ee f cs env inLoop bindsOf k h allFin s).1
  | 0, _, _, _, _, _, _, _, s, _, hs => by
      simp only [enterCalls]; exact ⟨hs.setFuel, by simp [Run.SafeLs, Run.Safe]⟩
  | _+1, [], _, _, _, _, _, _, s, _, hs => by simp only [enterCalls]; exact ⟨hs, by simp [Run.SafeLs]⟩
  | f+1, c :: cs, env, inLoop, bindsOf, k, h, allFin, s, hc, hs => by
      simp only [enterCalls]
      have h1 := enterCall_safe P ee hP f c env inLoop (bindsOf k) s (hc c (by simp)) hs
      have hflush : (if (cs.isEmpty && (allFin && (enterCall P ee f c env inLoop (bindsOf k) s).1.isFin)) = true
          then (enterCall P ee f c env inLoop (bindsOf k) s).2
          else (enterCall P ee f c env inLoop (bindsOf k) s).2.flush h).Ok := by
        split
        · exact h1.1
        · exact h1.1.of_stuck (by simp)
      have h2 := enterCalls_safe P ee hP f cs env inLoop bindsOf (k + 1) h
        (allFin && (enterCall P ee f c env inLoop (bindsOf k) s).1.isFin) _ (fun c' hc' => hc c' (by simp [hc'])) hflush
      exact ⟨h2.1, by simp only [Run.SafeLs]; exact ⟨h1.2, h2.2⟩⟩

theorem iterC_safe (P : Prog) (ee : EE) (hP : P.Safe ee) :
    (f : Nat) → (c : Nat) → (var : String) → (lim : Limit) → (body : List Stmt) → (env : Env) → (s : St) →
    LimOk ee lim → SafeL P ee body → s.Ok →
    (iterC P ee f c var lim body env s).2.Ok ∧ (iterC P ee f c var lim body env s).1.Safe P ee
  | 0, _, _, _, _, _, s, _, _, h => by simp only [iterC]; exact ⟨h.setFuel, by simp [Run.Safe]⟩
  | f+1, c, var, lim, body, env, s, hl, hb, h => by
      simp only [iterC]
      have hn := readLimit_lim (s := s) (c := env.ctx) hl
      have hok : (s.readLimit ee lim env.ctx).2.Ok := h.of_stuck (by simp)
      cases hv : (s.readLimit ee lim env.ctx).1 with
      | none => exact absurd hv hn
      | some n =>
        rw [show s.readLimit ee lim env.ctx = ((s.readLimit ee lim env.ctx).1, (s.readLimit ee lim env.ctx).2) from rfl]
        simp only [hv]
        split
        · have h1 := enterBlk_safe P ee hP f body { env with inLoop := true, binds := (var, c) :: env.binds } _ hb hok
          split
          · rename_i s' heq
            rw [heq] at h1
            exact iterC_safe P ee hP f (c + 1) var lim body env s' hl hb h1.1
          · rename_i r s' hne heq
            rw [heq] at h1
            exact ⟨h1.1, by simp only [Run.Safe]; exact ⟨h1.2, hl, hb⟩⟩
        · exact ⟨hok, by simp [Run.Safe]⟩

theorem iterW_safe (P : Prog) (ee : EE) (hP : P.Safe ee) :
    (f : Nat) → (e : Expr) → (body : List Stmt) → (env : Env) → (s : St) →
    EvalOk ee e → SafeL P ee body → s.Ok →
    (iterW P ee f e body env s).2.Ok ∧ (iterW P ee f e body env s).1.Safe P ee
  | 0, _, _, _, s, _, _, h => by simp only [iterW]; exact ⟨h.setFuel, by simp [Run.Safe]⟩
  | f+1, e, body, env, s, he, hb, h => by
      simp only [iterW]
      have hev : (s.evalExpr ee e env.ctx).1 ≠ none := by simpa [St.evalExpr] using he s.nq
      have hok : (s.evalExpr ee e env.ctx).2.Ok := h.of_stuck (by simp)
      cases hv : (s.evalExpr ee e env.ctx).1 with
      | none => exact absurd hv hev
      | some v =>
        rw [show s.evalExpr ee e env.ctx = ((s.evalExpr ee e env.ctx).1, (s.evalExpr ee e env.ctx).2) from rfl]
        simp only [hv]
        split
        · have h1 := enterBlk_safe P ee hP f body { env with inLoop := true } _ hb hok
          split
          · rename_i s' heq
            rw [heq] at h1
            exact iterW_safe P ee hP f e body env s' he hb h1.1
          · rename_i r s' hne heq
            rw [heq] at h1
            exact ⟨h1.1, by simp only [Run.Safe]; exact ⟨h1.2, he, hb⟩⟩
        · exact ⟨hok, by simp [Run.Safe]⟩
end

mutual
theorem deliver_safe (P : Prog) (ee : EE) (hP : P.Safe ee) (f i : Nat) :
    (r : Run) → (s : St) → (r' : Run) → (s' : St) → r.Safe P ee → s.Ok →
    deliver P ee f i r s = some (r', s') → s'.Ok ∧ r'.Safe P ee
  | .wait j n, s, r', s', _, h, hd => by
      simp only [deliver] at hd
      split at hd
      · simp only [Option.some.injEq, Prod.mk.injEq] at hd
        obtain ⟨rfl, rfl⟩ := hd
        exact ⟨h.of_stuck rfl, by simp [Run.Safe]⟩
      · simp at hd
  | .blk r rest env, s, r', s', hr, h, hd => by
      simp only [Run.Safe] at hr
      simp only [deliver] at hd
      split at hd
      · simp at hd
      · rename_i s1 heq
        have h1 := deliver_safe P ee hP f i r s _ _ hr.1 h heq
        simp only [Option.some.injEq] at hd
        have h2 := enterBlk_safe P ee hP f rest env s1 hr.2 h1.1
        rw [hd] at h2
        exact h2
      · rename_i r1 s1 hne heq
        have h1 := deliver_safe P ee hP f i r s _ _ hr.1 h heq
        simp only [Option.some.injEq, Prod.mk.injEq] at hd
        obtain ⟨rfl, rfl⟩ := hd
        exact ⟨h1.1, by simp only [Run.Safe]; exact ⟨h1.2, hr.2⟩⟩
  | .call n r, s, r', s', hr, h, hd => by
      simp only [Run.Safe] at hr
      simp only [deliver] at hd
      split at hd
      · simp at hd
      · rename_i s1 heq
        have h1 := deliver_safe P ee hP f i r s _ _ hr h heq
        simp only [Option.some.injEq, Prod.mk.injEq] at hd
        obtain ⟨rfl, rfl⟩ := hd
        exact ⟨h1.1.of_stuck rfl, by simp [Run.Safe]⟩
      · rename_i r1 s1 hne heq
        have h1 := deliver_safe P ee hP f i r s _ _ hr h heq
        simp only [Option.some.injEq, Prod.mk.injEq] at hd
        obtain ⟨rfl, rfl⟩ := hd
        exact ⟨h1.1, by simpa [Run.Safe] using h1.2⟩
  | .par rs, s, r', s', hr, h, hd => by
      simp only [Run.Safe] at hr
      simp only [deliver] at hd
      split at hd
      · simp at hd
      · rename_i rs1 s1 heq
        have h1 := deliverL_safe P ee hP f i rs s _ _ hr h heq
        split at hd
        · simp only [Option.some.injEq, Prod.mk.injEq] at hd
          obtain ⟨rfl, rfl⟩ := hd
          exact ⟨h1.1, by simp [Run.Safe]⟩
        · simp only [Option.some.injEq, Prod.mk.injEq] at hd
          obtain ⟨rfl, rfl⟩ := hd
          exact ⟨h1.1, by simpa [Run.Safe] using h1.2⟩
  | .cloop c var lim body env r, s, r', s', hr, h, hd => by
      simp only [Run.Safe] at hr
      simp only [deliver] at hd
      split at hd
      · simp at hd
      · rename_i s1 heq
        have h1 := deliver_safe P ee hP f i r s _ _ hr.1 h heq
        simp only [Option.some.injEq] at hd
        have h2 := iterC_safe P ee hP f (c + 1) var lim body env s1 hr.2.1 hr.2.2 h1.1
        rw [hd] at h2
        exact h2
      · rename_i r1 s1 hne heq
        have h1 := deliver_safe P ee hP f i r s _ _ hr.1 h heq
        simp only [Option.some.injEq, Prod.mk.injEq] at hd
        obtain ⟨rfl, rfl⟩ := hd
        exact ⟨h1.1, by simp only [Run.Safe]; exact ⟨h1.2, hr.2⟩⟩
  | .wloop e body env r, s, r', s', hr, h, hd => by
      simp only [Run.Safe] at hr
      simp only [deliver] at hd
      split at hd
      · simp at hd
      · rename_i s1 heq
        have h1 := deliver_safe P ee hP f i r s _ _ hr.1 h heq
        simp only [Option.some.injEq] at hd
        have h2 := iterW_safe P ee hP f e body env s1 hr.2.1 hr.2.2 h1.1
        rw [hd] at h2
        exact h2
      · rename_i r1 s1 hne heq
        have h1 := deliver_safe P ee hP f i r s _ _ hr.1 h heq
        simp only [Option.some.injEq, Prod.mk.injEq] at hd
        obtain ⟨rfl, rfl⟩ := hd
        exact ⟨h1.1, by simp only [Run.Safe]; exact ⟨h1.2, hr.2⟩⟩
  | .fin, s, r', s', _, _, hd => by simp [deliver] at hd
  | .stuck w, s, r', s', _, _, hd => by simp [deliver] at hd

theorem deliverL_safe (P : Prog) (ee : EE) (hP : P.Safe ee) (f i : Nat) :
    (rs : List Run) → (s : St) → (rs' : List Run) → (s' : St) → Run.SafeLs P ee rs → s.Ok →
    deliverL P ee f i rs s = some (rs', s') → s'.Ok ∧ Run.SafeLs P ee rs'
  | [], s, rs', s', _, _, hd => by simp [deliverL] at hd
  | r :: rs, s, rs', s', hr, h, hd => by
      simp only [Run.SafeLs] at hr
      simp only [deliverL] at hd
      split at hd
      · rename_i r1 s1 heq
        have h1 := deliver_safe P ee hP f i r s _ _ hr.1 h heq
        simp only [Option.some.injEq, Prod.mk.injEq] at hd
        obtain ⟨rfl, rfl⟩ := hd
        exact ⟨h1.1, by simp only [Run.SafeLs]; exact ⟨h1.2, hr.2⟩⟩
      · split at hd
        · rename_i rs1 s1 heq
          have h1 := deliverL_safe P ee hP f i rs s _ _ hr.2 h heq
          simp only [Option.some.injEq, Prod.mk.injEq] at hd
          obtain ⟨rfl, rfl⟩ := hd
          exact ⟨h1.1, by simp only [Run.SafeLs]; exact ⟨hr.1, h1.2⟩⟩
        · simp at hd
end

/-! the scheduler object -/

structure Sched.SafeInv (s : Sched) (ee : EE) : Prop where
  ok : s.st.Ok
  run : s.run.Safe s.prog ee
  root : s.valid = true → (s.prog.task? Generated.startTaskName).isSome

theorem Sched.finish_safe {s : Sched} {ee : EE} {r : Run} {st : St} (hr : r.Safe s.prog ee) (hs : st.Ok)
    (hroot : s.valid = true → (s.prog.task? Generated.startTaskName).isSome) : (s.finish r st).1.SafeInv ee := by
  unfold Sched.finish
  split
  · exact ⟨hs.of_stuck rfl, by simp [Run.Safe], hroot⟩
  · exact ⟨hs.of_stuck rfl, hr, hroot⟩

theorem Sched.fire_safe {s : Sched} {ee : EE} (hP : s.prog.Safe ee) (fuel : Nat) (e : Event) (h : s.SafeInv ee) :
    (s.fire ee fuel e).sched.SafeInv ee ∧ (s.fire ee fuel e).sched.prog = s.prog := by
  unfold Sched.fire
  cases e with
  | start =>
    simp only
    split
    · rename_i hv
      simp only [Bool.and_eq_true] at hv
      unfold Sched.begin
      cases ht : s.prog.task? Generated.startTaskName with
      | none => have := h.root hv.1; simp [ht] at this
      | some t =>
        simp only
        have hb := hP t (task?_mem' ht)
        have h1 := enterBlk_safe s.prog ee hP fuel t.body { ctx := s.st.ctrT, inLoop := false, binds := [] }
          ({ s.st with ctrT := s.st.ctrT + 1, out := [] }.emit (.note (noteOf .ts { name := t.name, ins := [], line := t.line } s.st.ctrT none []))) hb
          (h.ok.of_stuck rfl)
        refine ⟨?_, ?_⟩
        · exact Sched.finish_safe (s := { s with started := true, rootNote := _ }) h1.2 h1.1 h.root
        · simp [Sched.finish]; split <;> rfl
    · exact ⟨h, rfl⟩
  | svcFinished i =>
    simp only
    split
    · split
      · rename_i r st heq
        have h1 := deliver_safe s.prog ee hP fuel i s.run { s.st with out := [] } r st h.run (h.ok.of_stuck rfl) heq
        refine ⟨Sched.finish_safe h1.2 h1.1 h.root, ?_⟩
        simp [Sched.finish]; split <;> rfl
      · exact ⟨h, rfl⟩
    · exact ⟨h, rfl⟩
  | other => exact ⟨h, rfl⟩

theorem Sched.step_safe {s : Sched} {ee : EE} (hP : s.prog.Safe ee) (fuel : Nat) (op : Op) (h : s.SafeInv ee) :
    (s.step ee fuel op).sched.SafeInv ee ∧ (s.step ee fuel op).sched.prog = s.prog := by
  cases op with
  | start =>
    simp only [Sched.step, Sched.start]
    split
    · split
      · have hs' : ({ s with running := true } : Sched).SafeInv ee := ⟨h.ok, h.run, h.root⟩
        have := Sched.fire_safe (s := { s with running := true }) hP fuel .start hs'
        exact this
      · exact ⟨h, rfl⟩
    · exact ⟨h, rfl⟩
  | fire e => exact Sched.fire_safe hP fuel e h
  | register k fn =>
    simp only [Sched.step, Sched.register]
    split
    · exact ⟨h, rfl⟩
    · exact ⟨⟨h.ok, h.run, h.root⟩, rfl⟩
  | attach o => exact ⟨⟨h.ok, h.run, h.root⟩, rfl⟩
  | detach o =>
    simp only [Sched.step, Sched.detach]
    split
    · rename_i s' heq
      split at heq
      · simp only [Option.some.injEq] at heq
        subst heq
        exact ⟨⟨h.ok, h.run, h.root⟩, rfl⟩
      · simp at heq
    · exact ⟨h, rfl⟩

theorem Sched.runOps_safe {ee : EE} (fuel : Nat) : ∀ (ops : List Op) (s : Sched), s.prog.Safe ee → s.SafeInv ee →
    (s.runOps ee fuel ops).SafeInv ee
  | [], s, _, h => h
  | op :: ops, s, hP, h => by
    have h1 := Sched.step_safe hP fuel op h
    simp only [Sched.runOps]
    exact Sched.runOps_safe fuel ops _ (by rw [h1.2]; exact hP) h1.1

theorem Sched.init_safe (P : Prog) (valid : Bool) (ee : EE) : (Sched.init P valid).SafeInv ee := by
  refine ⟨by simp [Sched.init, St.Ok], by simp [Sched.init, Run.Safe], ?_⟩
  intro hv
  simp only [Sched.init, Bool.and_eq_true] at hv
  exact hv.2

end Pfdl
