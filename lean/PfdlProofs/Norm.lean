import PfdlProofs.StLemmas
/-! Normal form of run trees: a node exists only while something below it is unfinished. -/
namespace Pfdl

mutual
/-- normal form: no finished statement is kept inside an unfinished one -/
def Run.Norm : Run → Prop
  | .wait _ _ => True
  | .blk r _ _ => r.Norm ∧ r.isFin = false
  | .call _ r => r.Norm ∧ r.isFin = false
  | .par rs => Run.NormL rs ∧ rs.all Run.isFin = false
  | .cloop _ _ _ _ _ r => r.Norm ∧ r.isFin = false
  | .wloop _ _ _ r => r.Norm ∧ r.isFin = false
  | .fin => True
  | .stuck _ => True
def Run.NormL : List Run → Prop
  | [] => True
  | r :: rs => r.Norm ∧ Run.NormL rs
end

mutual
/-- no stuck node (no exception escaped, fuel sufficed) -/
def Run.Clean : Run → Prop
  | .wait _ _ => True
  | .blk r _ _ => r.Clean
  | .call _ r => r.Clean
  | .par rs => Run.CleanL rs
  | .cloop _ _ _ _ _ r => r.Clean
  | .wloop _ _ _ r => r.Clean
  | .fin => True
  | .stuck _ => False
def Run.CleanL : List Run → Prop
  | [] => True
  | r :: rs => r.Clean ∧ Run.CleanL rs
end

@[simp] theorem Run.Norm_fin : Run.fin.Norm := by simp [Run.Norm]
@[simp] theorem Run.Norm_stuck (w) : (Run.stuck w).Norm := by simp [Run.Norm]
@[simp] theorem Run.Norm_wait (i n) : (Run.wait i n).Norm := by simp [Run.Norm]
@[simp] theorem Run.Clean_fin : Run.fin.Clean := by simp [Run.Clean]
@[simp] theorem Run.waiting_fin : Run.fin.waiting = [] := by simp [Run.waiting]
@[simp] theorem Run.waiting_stuck (w) : (Run.stuck w).waiting = [] := by simp [Run.waiting]

/-- a pair returned by the interpreter, seen as "fin or not" -/
theorem Run.norm_wrap {r : Run} (h : r.Norm) (hne : r ≠ .fin) : r.Norm ∧ r.isFin = false :=
  ⟨h, Run.isFin_eq_false_of_ne hne⟩

mutual
theorem enter_norm (P : Prog) (ee : EE) : (f : Nat) → (st : Stmt) → (env : Env) → (s : St) →
    (enter P ee f st env s).1.Norm
  | 0, _, _, _ => by simp [enter]
  | f+1, .svc c, env, s => by
      simp only [enter]; split <;> simp
  | f+1, .call c, env, s => by
      simp only [enter]; exact enterCall_norm P ee f c env _ _ s
  | f+1, .par cs l, env, s => by
      simp only [enter]
      have h := enterCalls_norm P ee f cs env env.inLoop (fun _ => env.binds) 0 s.pend.length true s
      split
      · simp
      · rename_i hne
        simp only [Run.Norm]
        exact ⟨h, by simpa using hne⟩
  | f+1, .cond e p q l, env, s => by
      simp only [enter]
      split
      · simp
      · split
        · exact enterBlk_norm P ee f p env _
        · exact enterBlk_norm P ee f q env _
  | f+1, .cloop v lim body l, env, s => by
      simp only [enter]; exact iterC_norm P ee f 0 v lim body env s
  | f+1, .wloop e body l, env, s => by
      simp only [enter]; exact iterW_norm P ee f e body env s
  | f+1, .ploop v lim c l, env, s => by
      simp only [enter]
      split
      · simp
      · split
        · simp
        · rename_i n _ _
          have h := enterCalls_norm P ee f (List.replicate n.floor.toNat c) env false
            (fun k => (v, k) :: env.binds) 0 (s.readLimit ee lim env.ctx).2.pend.length true (s.readLimit ee lim env.ctx).2
          split
          · simp
          · rename_i hne
            simp only [Run.Norm]
            exact ⟨h, by simpa using hne⟩
theorem enterBlk_norm (P : Prog) (ee : EE) : (f : Nat) → (b : List Stmt) → (env : Env) → (s : St) →
    (enterBlk P ee f b env s).1.Norm
  | 0, _, _, _ => by simp [enterBlk]
  | f+1, [], _, _ => by simp [enterBlk]
  | f+1, st :: rest, env, s => by
      simp only [enterBlk]
      have h := enter_norm P ee f st env s
      split
      · exact enterBlk_norm P ee f rest env _
      · rename_i r s' hne heq
        rw [heq] at h
        simp only [Run.Norm]
        exact Run.norm_wrap h hne
theorem enterCall_norm (P : Prog) (ee : EE) : (f : Nat) → (c : CallSite) → (env : Env) → (il : Bool) →
    (b : List (String × Nat)) → (s : St) → (enterCall P ee f c env il b s).1.Norm
  | 0, _, _, _, _, _ => by simp [enterCall]
  | f+1, c, env, il, b, s => by
      simp only [enterCall]
      split
      · simp
      · rename_i t _
        split
        · simp
        · rename_i r s' hne heq
          have h := enterBlk_norm P ee f t.body { ctx := s.ctrT, inLoop := il, binds := [] }
            ({ s with ctrT := s.ctrT + 1 }.emit (.note (noteOf .ts c s.ctrT (some env.ctx) (substParams b c.ins))))
          rw [heq] at h
          simp only [Run.Norm]
          exact Run.norm_wrap h hne
theorem enterCalls_norm (P : Prog) (ee : EE) : (f : Nat) → (cs : List CallSite) → (env : Env) → (il : Bool) →
    (bo : Nat → List (String × Nat)) → (k h : Nat) → (af : Bool) → (s : St) →
    Run.NormL (enterCalls P ee f cs env il bo k h af s).1
  | 0, _, _, _, _, _, _, _, _ => by simp [enterCalls, Run.NormL]
  | f+1, [], _, _, _, _, _, _, _ => by simp [enterCalls, Run.NormL]
  | f+1, c :: cs, env, il, bo, k, h, af, s => by
      simp only [enterCalls, Run.NormL]
      exact ⟨enterCall_norm P ee f c env il (bo k) s, enterCalls_norm P ee f cs env il bo (k+1) h _ _⟩
theorem iterC_norm (P : Prog) (ee : EE) : (f : Nat) → (c : Nat) → (v : String) → (lim : Limit) →
    (body : List Stmt) → (env : Env) → (s : St) → (iterC P ee f c v lim body env s).1.Norm
  | 0, _, _, _, _, _, _ => by simp [iterC]
  | f+1, c, v, lim, body, env, s => by
      simp only [iterC]
      split
      · simp
      · split
        · split
          · exact iterC_norm P ee f (c+1) v lim body env _
          · rename_i r s' hne heq
            have h := enterBlk_norm P ee f body { env with inLoop := true, binds := (v, c) :: env.binds }
              (s.readLimit ee lim env.ctx).2
            rw [heq] at h
            simp only [Run.Norm]
            exact Run.norm_wrap h hne
        · simp
theorem iterW_norm (P : Prog) (ee : EE) : (f : Nat) → (e : Expr) → (body : List Stmt) → (env : Env) → (s : St) →
    (iterW P ee f e body env s).1.Norm
  | 0, _, _, _, _ => by simp [iterW]
  | f+1, e, body, env, s => by
      simp only [iterW]
      split
      · simp
      · split
        · split
          · exact iterW_norm P ee f e body env _
          · rename_i r s' hne heq
            have h := enterBlk_norm P ee f body { env with inLoop := true } (s.evalExpr ee e env.ctx).2
            rw [heq] at h
            simp only [Run.Norm]
            exact Run.norm_wrap h hne
        · simp
end

end Pfdl

namespace Pfdl

theorem Run.NormL_all_of (rs : List Run) (h : Run.NormL rs) : ∀ r ∈ rs, r.Norm := by
  induction rs with
  | nil => simp
  | cons r rs ih =>
    simp only [Run.NormL] at h
    intro x hx
    simp at hx
    rcases hx with rfl | hx
    · exact h.1
    · exact ih h.2 x hx

mutual
theorem deliver_norm (P : Prog) (ee : EE) (f i : Nat) : (r : Run) → (s : St) → (r' : Run) → (s' : St) →
    deliver P ee f i r s = some (r', s') → r.Norm → r'.Norm
  | .wait j n, s, r', s', h, _ => by
      simp only [deliver] at h
      split at h
      · simp at h; obtain ⟨rfl, _⟩ := h; simp
      · simp at h
  | .blk r rest env, s, r', s', h, hn => by
      simp only [deliver] at h
      simp only [Run.Norm] at hn
      split at h
      · simp at h
      · rename_i s1 heq
        simp at h
        have := enterBlk_norm P ee f rest env s1
        rw [h] at this; exact this
      · rename_i r1 s1 hne heq
        simp at h; obtain ⟨rfl, rfl⟩ := h
        have h1 := deliver_norm P ee f i r s r1 s1 heq hn.1
        simp only [Run.Norm]
        exact Run.norm_wrap h1 hne
  | .call n r, s, r', s', h, hn => by
      simp only [deliver] at h
      simp only [Run.Norm] at hn
      split at h
      · simp at h
      · simp at h; obtain ⟨rfl, _⟩ := h; simp
      · rename_i r1 s1 hne heq
        simp at h; obtain ⟨rfl, rfl⟩ := h
        have h1 := deliver_norm P ee f i r s r1 s1 heq hn.1
        simp only [Run.Norm]
        exact Run.norm_wrap h1 hne
  | .par rs, s, r', s', h, hn => by
      simp only [deliver] at h
      simp only [Run.Norm] at hn
      split at h
      · simp at h
      · rename_i rs1 s1 heq
        have h1 := deliverL_norm P ee f i rs s rs1 s1 heq hn.1
        split at h
        · simp at h; obtain ⟨rfl, _⟩ := h; simp
        · rename_i hall
          simp at h; obtain ⟨rfl, rfl⟩ := h
          simp only [Run.Norm]
          exact ⟨h1, by simpa using hall⟩
  | .cloop c v lim body env r, s, r', s', h, hn => by
      simp only [deliver] at h
      simp only [Run.Norm] at hn
      split at h
      · simp at h
      · rename_i s1 heq
        simp at h
        have := iterC_norm P ee f (c+1) v lim body env s1
        rw [h] at this; exact this
      · rename_i r1 s1 hne heq
        simp at h; obtain ⟨rfl, rfl⟩ := h
        have h1 := deliver_norm P ee f i r s r1 s1 heq hn.1
        simp only [Run.Norm]
        exact Run.norm_wrap h1 hne
  | .wloop e body env r, s, r', s', h, hn => by
      simp only [deliver] at h
      simp only [Run.Norm] at hn
      split at h
      · simp at h
      · rename_i s1 heq
        simp at h
        have := iterW_norm P ee f e body env s1
        rw [h] at this; exact this
      · rename_i r1 s1 hne heq
        simp at h; obtain ⟨rfl, rfl⟩ := h
        have h1 := deliver_norm P ee f i r s r1 s1 heq hn.1
        simp only [Run.Norm]
        exact Run.norm_wrap h1 hne
  | .fin, s, r', s', h, _ => by simp [deliver] at h
  | .stuck w, s, r', s', h, _ => by simp [deliver] at h
theorem deliverL_norm (P : Prog) (ee : EE) (f i : Nat) : (rs : List Run) → (s : St) → (rs' : List Run) → (s' : St) →
    deliverL P ee f i rs s = some (rs', s') → Run.NormL rs → Run.NormL rs'
  | [], s, rs', s', h, _ => by simp [deliverL] at h
  | r :: rs, s, rs', s', h, hn => by
      simp only [deliverL] at h
      simp only [Run.NormL] at hn
      split at h
      · rename_i r1 s1 heq
        simp at h; obtain ⟨rfl, rfl⟩ := h
        simp only [Run.NormL]
        exact ⟨deliver_norm P ee f i r s r1 s1 heq hn.1, hn.2⟩
      · split at h
        · rename_i rs1 s1 heq
          simp at h; obtain ⟨rfl, rfl⟩ := h
          simp only [Run.NormL]
          exact ⟨hn.1, deliverL_norm P ee f i rs s rs1 s1 heq hn.2⟩
        · simp at h
end

end Pfdl
