import PfdlProofs.ApiTrace
set_option linter.unusedSimpArgs false
/-! Provenance: every notification below the production task names a call site of the program and
    carries the parameters written there (after index substitution). -/
namespace Pfdl

mutual
/-- the call sites (services, task calls, Parallel branches, parallel-loop bodies) inside a statement -/
def Stmt.sites : Stmt → List CallSite
  | .svc c => [c]
  | .call c => [c]
  | .par cs _ => cs
  | .cond _ p q _ => sitesL p ++ sitesL q
  | .cloop _ _ b _ => sitesL b
  | .wloop _ b _ => sitesL b
  | .ploop _ _ c _ => [c]
def sitesL : List Stmt → List CallSite
  | [] => []
  | s :: ss => s.sites ++ sitesL ss
end

def Prog.sites (P : Prog) : List CallSite := P.tasks.flatMap (fun t => sitesL t.body)

/-- `n` names call site `c` and carries its parameters, resolved under some loop-index binding -/
def Note.At (c : CallSite) (n : Note) : Prop :=
  n.name = c.name ∧ n.line = c.line ∧ ∃ b, n.params = substParams b c.ins

def Note.From (A : CallSite → Prop) (n : Note) : Prop := ∃ c, A c ∧ n.At c

def Ev.From (A : CallSite → Prop) : Ev → Prop
  | .ann n => n.From A
  | .late n => n.From A
  | .note n => n.From A
  | _ => True

/-- an event of the history: below the production task it names a call site of the program; the
    production task's own notifications carry no context -/
def Ev.FromR (A : CallSite → Prop) (e : Ev) : Prop := e.From A ∨ ∃ n, e = Ev.note n ∧ n.ctx = none

def EvsFrom (A : CallSite → Prop) (evs : List Ev) : Prop := ∀ e ∈ evs, e.FromR A
def PendFrom (A : CallSite → Prop) (ps : List (Nat × Note)) : Prop := ∀ p ∈ ps, p.2.From A

mutual
def Run.From (A : CallSite → Prop) : Run → Prop
  | .wait _ n => n.From A
  | .blk r rest _ => r.From A ∧ ∀ c ∈ sitesL rest, A c
  | .call n r => n.From A ∧ r.From A
  | .par rs => Run.FromL A rs
  | .cloop _ _ _ body _ r => r.From A ∧ ∀ c ∈ sitesL body, A c
  | .wloop _ body _ r => r.From A ∧ ∀ c ∈ sitesL body, A c
  | .fin => True
  | .stuck _ => True
def Run.FromL (A : CallSite → Prop) : List Run → Prop
  | [] => True
  | r :: rs => r.From A ∧ Run.FromL A rs
end

/-- the part of the state the provenance invariant speaks about -/
def St.From (A : CallSite → Prop) (s : St) : Prop := EvsFrom A s.out ∧ PendFrom A s.pend

theorem EvsFrom.append {A : CallSite → Prop} {a b : List Ev} (ha : EvsFrom A a) (hb : EvsFrom A b) : EvsFrom A (a ++ b) := by
  intro e he
  rcases List.mem_append.1 he with h | h
  · exact ha e h
  · exact hb e h

theorem St.From.emit {A : CallSite → Prop} {s : St} (h : s.From A) (e : Ev) (he : e.From A) : (s.emit e).From A :=
  ⟨EvsFrom.append h.1 (by intro x hx; simp at hx; subst hx; exact Or.inl he), h.2⟩

theorem St.From.flush {A : CallSite → Prop} {s : St} (h : s.From A) (k : Nat) : (s.flush k).From A := by
  refine ⟨?_, ?_⟩
  · rw [St.flush_out]
    apply EvsFrom.append h.1
    intro e he
    simp [flushEvs] at he
    obtain ⟨a, b, hm, hor⟩ := he
    have hp := h.2 (a, b) (List.mem_of_mem_take hm)
    rcases hor with rfl | rfl
    · exact Or.inl trivial
    · exact Or.inl hp
  · intro p hp
    exact h.2 p (List.mem_of_mem_drop hp)

theorem St.From.of_vars {A : CallSite → Prop} {s s' : St} (h : s.From A)
    (ho : ∃ qs : List Ev, s'.out = s.out ++ qs ∧ ∀ e ∈ qs, ∃ x c, e = Ev.var x c) (hp : s'.pend = s.pend) : s'.From A := by
  obtain ⟨qs, hq, hv⟩ := ho
  refine ⟨?_, by rw [hp]; exact h.2⟩
  rw [hq]
  apply EvsFrom.append h.1
  intro e he
  obtain ⟨x, c, rfl⟩ := hv e he
  exact Or.inl trivial

theorem St.From.evalExpr {A : CallSite → Prop} {s : St} (h : s.From A) (ee : EE) (e : Expr) (c : Nat) : (s.evalExpr ee e c).2.From A :=
  h.of_vars ⟨_, rfl, by intro x hx; simp at hx; obtain ⟨a, _, rfl⟩ := hx; exact ⟨a, c, rfl⟩⟩ rfl

theorem St.From.readLimit {A : CallSite → Prop} {s : St} (h : s.From A) (ee : EE) (l : Limit) (c : Nat) : (s.readLimit ee l c).2.From A := by
  rcases St.readLimit_cases s ee l c with hh | ⟨x, hh⟩
  · rw [hh]; exact h
  · rw [hh]; exact h.of_vars ⟨[Ev.var x c], rfl, by intro e he; simp at he; exact ⟨x, c, he⟩⟩ rfl

theorem St.From.setStuck {A : CallSite → Prop} {s : St} (h : s.From A) (w : Stuck) : (s.setStuck w).From A := ⟨h.1, h.2⟩

theorem noteOf_at (k : Kind) (c : CallSite) (id : Nat) (ctx : Option Nat) (b : List (String × Nat)) :
    (noteOf k c id ctx (substParams b c.ins)).At c := ⟨rfl, rfl, b, rfl⟩

theorem Prog.task?_mem {P : Prog} {name : String} {t : Task} (h : P.task? name = some t) : t ∈ P.tasks := by
  unfold Prog.task? at h
  exact List.mem_of_find?_eq_some h

theorem Prog.sites_of_task {P : Prog} {t : Task} (h : t ∈ P.tasks) : ∀ c ∈ sitesL t.body, c ∈ P.sites := by
  intro c hc
  unfold Prog.sites
  exact List.mem_flatMap.2 ⟨t, h, hc⟩

@[simp] theorem sitesL_nil : sitesL [] = [] := by simp [sitesL]
@[simp] theorem sitesL_cons (s : Stmt) (ss : List Stmt) : sitesL (s :: ss) = s.sites ++ sitesL ss := by simp [sitesL]

mutual
theorem enter_from (P : Prog) (ee : EE) (A : CallSite → Prop) (hP : ∀ c ∈ P.sites, A c) :
    (f : Nat) → (st : Stmt) → (env : Env) → (s : St) → (∀ c ∈ st.sites, A c) → s.From A →
    (enter P ee f st env s).1.From A ∧ (enter P ee f st env s).2.From A
  | 0, _, _, s, _, h => by simp only [enter]; exact ⟨by simp [Run.From], h.setStuck _⟩
  | f+1, .svc c, env, s, hs, h => by
      have hc : A c := hs c (by simp [Stmt.sites])
      simp only [enter]
      split
      · refine ⟨by simp [Run.From], ?_, ?_⟩
        · apply EvsFrom.append
          · exact EvsFrom.append h.1 (by intro e he; simp at he; subst he; exact Or.inl ⟨c, hc, noteOf_at ..⟩)
          · intro e he
            simp at he
            rcases he with rfl | rfl
            · exact Or.inl trivial
            · exact Or.inl ⟨c, hc, noteOf_at ..⟩
        · intro p hp
          simp at hp
          rcases hp with rfl | hp
          · exact ⟨c, hc, noteOf_at ..⟩
          · exact h.2 p hp
      · refine ⟨by simp only [Run.From]; exact ⟨c, hc, noteOf_at ..⟩, ?_⟩
        have h1 : ({ s with ctrS := s.ctrS + 1, nann := s.nann + 1, awaited := s.awaited ++ [s.ctrS] } : St).From A := ⟨h.1, h.2⟩
        exact (h1.emit _ (show Ev.From A (.ann _) from ⟨c, hc, noteOf_at ..⟩)).emit _ (show Ev.From A (.late _) from ⟨c, hc, noteOf_at ..⟩)
  | f+1, .call c, env, s, hs, h => by
      simp only [enter]; exact enterCall_from P ee A hP f c env _ _ s (hs c (by simp [Stmt.sites])) h
  | f+1, .par cs l, env, s, hs, h => by
      simp only [enter]
      have hh := enterCalls_from P ee A hP f cs env env.inLoop (fun _ => env.binds) 0 s.pend.length true s
        (fun c hc => hs c (by simpa [Stmt.sites] using hc)) h
      split
      · exact ⟨by simp [Run.From], hh.2⟩
      · exact ⟨by simp only [Run.From]; exact hh.1, hh.2⟩
  | f+1, .cond e p q l, env, s, hs, h => by
      simp only [enter]
      have h1 := h.evalExpr ee e env.ctx
      split
      · exact ⟨by simp [Run.From], h1.setStuck _⟩
      · split
        · exact enterBlk_from P ee A hP f p env _ (fun c hc => hs c (by simp [Stmt.sites, hc])) h1
        · exact enterBlk_from P ee A hP f q env _ (fun c hc => hs c (by simp [Stmt.sites, hc])) h1
  | f+1, .cloop v lim body l, env, s, hs, h => by
      simp only [enter]; exact iterC_from P ee A hP f 0 v lim body env s (fun c hc => hs c (by simpa [Stmt.sites] using hc)) h
  | f+1, .wloop e body l, env, s, hs, h => by
      simp only [enter]; exact iterW_from P ee A hP f e body env s (fun c hc => hs c (by simpa [Stmt.sites] using hc)) h
  | f+1, .ploop v lim c l, env, s, hs, h => by
      simp only [enter]
      have h1 := h.readLimit ee lim env.ctx
      have hc : A c := hs c (by simp [Stmt.sites])
      split
      · exact ⟨by simp [Run.From], h1.setStuck _⟩
      · split
        · exact ⟨by simp [Run.From], h1⟩
        · rename_i n _ _
          have hh := enterCalls_from P ee A hP f (List.replicate n.floor.toNat c) env false
            (fun k => (v, k) :: env.binds) 0 (s.readLimit ee lim env.ctx).2.pend.length true (s.readLimit ee lim env.ctx).2
            (fun x hx => by rw [(List.mem_replicate.1 hx).2]; exact hc) h1
          split
          · exact ⟨by simp [Run.From], hh.2⟩
          · exact ⟨by simp only [Run.From]; exact hh.1, hh.2⟩
theorem enterBlk_from (P : Prog) (ee : EE) (A : CallSite → Prop) (hP : ∀ c ∈ P.sites, A c) :
    (f : Nat) → (b : List Stmt) → (env : Env) → (s : St) → (∀ c ∈ sitesL b, A c) → s.From A →
    (enterBlk P ee f b env s).1.From A ∧ (enterBlk P ee f b env s).2.From A
  | 0, _, _, s, _, h => by simp only [enterBlk]; exact ⟨by simp [Run.From], h.setStuck _⟩
  | f+1, [], _, s, _, h => by simp only [enterBlk]; exact ⟨by simp [Run.From], h⟩
  | f+1, st :: rest, env, s, hs, h => by
      simp only [enterBlk]
      have h1 := enter_from P ee A hP f st env s (fun c hc => hs c (by simp [hc])) h
      have hrest : ∀ c ∈ sitesL rest, A c := fun c hc => hs c (by simp [hc])
      split
      · rename_i s1 heq
        rw [heq] at h1
        exact enterBlk_from P ee A hP f rest env s1 hrest h1.2
      · rename_i r s1 hne heq
        rw [heq] at h1
        exact ⟨by simp only [Run.From]; exact ⟨h1.1, hrest⟩, h1.2⟩
theorem enterCall_from (P : Prog) (ee : EE) (A : CallSite → Prop) (hP : ∀ c ∈ P.sites, A c) :
    (f : Nat) → (c : CallSite) → (env : Env) → (il : Bool) → (b : List (String × Nat)) → (s : St) → A c → s.From A →
    (enterCall P ee f c env il b s).1.From A ∧ (enterCall P ee f c env il b s).2.From A
  | 0, _, _, _, _, s, _, h => by simp only [enterCall]; exact ⟨by simp [Run.From], h.setStuck _⟩
  | f+1, c, env, il, b, s, hc, h => by
      simp only [enterCall]
      split
      · exact ⟨by simp [Run.From], h.setStuck _⟩
      · rename_i t ht
        have h0 : ({ s with ctrT := s.ctrT + 1 } : St).From A := ⟨h.1, h.2⟩
        have h1 := enterBlk_from P ee A hP f t.body { ctx := s.ctrT, inLoop := il, binds := [] }
          ({ s with ctrT := s.ctrT + 1 }.emit (.note (noteOf .ts c s.ctrT (some env.ctx) (substParams b c.ins))))
          (fun x hx => hP x (Prog.sites_of_task (Prog.task?_mem ht) x hx))
          (h0.emit _ (show Ev.From A (.note _) from ⟨c, hc, noteOf_at ..⟩))
        split
        · rename_i s1 heq
          rw [heq] at h1
          exact ⟨by simp [Run.From], h1.2.emit _ (show Ev.From A (.note _) from ⟨c, hc, noteOf_at ..⟩)⟩
        · rename_i r s1 hne heq
          rw [heq] at h1
          exact ⟨by simp only [Run.From]; exact ⟨⟨c, hc, noteOf_at ..⟩, h1.1⟩, h1.2⟩
theorem enterCalls_from (P : Prog) (ee : EE) (A : CallSite → Prop) (hP : ∀ c ∈ P.sites, A c) :
    (f : Nat) → (cs : List CallSite) → (env : Env) → (il : Bool) → (bo : Nat → List (String × Nat)) → (k h : Nat) →
    (af : Bool) → (s : St) → (∀ c ∈ cs, A c) → s.From A →
    Run.FromL A (enterCalls P ee f cs env il bo k h af s).1 ∧ (enterCalls P ee f cs env il bo k h af s).2.From A
  | 0, _, _, _, _, _, _, _, s, _, hs => by simp only [enterCalls]; exact ⟨by simp [Run.FromL, Run.From], hs.setStuck _⟩
  | f+1, [], _, _, _, _, _, _, s, _, hs => by simp only [enterCalls]; exact ⟨by simp [Run.FromL], hs⟩
  | f+1, c :: cs, env, il, bo, k, h, af, s, hcs, hs => by
      simp only [enterCalls]
      have h1 := enterCall_from P ee A hP f c env il (bo k) s (hcs c (by simp)) hs
      have hrest : ∀ x ∈ cs, A x := fun x hx => hcs x (by simp [hx])
      split
      · have h2 := enterCalls_from P ee A hP f cs env il bo (k+1) h (af && (enterCall P ee f c env il (bo k) s).1.isFin)
          (enterCall P ee f c env il (bo k) s).2 hrest h1.2
        exact ⟨by simp only [Run.FromL]; exact ⟨h1.1, h2.1⟩, h2.2⟩
      · have h2 := enterCalls_from P ee A hP f cs env il bo (k+1) h (af && (enterCall P ee f c env il (bo k) s).1.isFin)
          ((enterCall P ee f c env il (bo k) s).2.flush h) hrest (h1.2.flush h)
        exact ⟨by simp only [Run.FromL]; exact ⟨h1.1, h2.1⟩, h2.2⟩
theorem iterC_from (P : Prog) (ee : EE) (A : CallSite → Prop) (hP : ∀ c ∈ P.sites, A c) :
    (f : Nat) → (c : Nat) → (v : String) → (lim : Limit) → (body : List Stmt) → (env : Env) → (s : St) →
    (∀ x ∈ sitesL body, A x) → s.From A →
    (iterC P ee f c v lim body env s).1.From A ∧ (iterC P ee f c v lim body env s).2.From A
  | 0, _, _, _, _, _, s, _, h => by simp only [iterC]; exact ⟨by simp [Run.From], h.setStuck _⟩
  | f+1, c, v, lim, body, env, s, hb, h => by
      simp only [iterC]
      have h1 := h.readLimit ee lim env.ctx
      split
      · exact ⟨by simp [Run.From], h1.setStuck _⟩
      · split
        · have h2 := enterBlk_from P ee A hP f body { env with inLoop := true, binds := (v, c) :: env.binds }
            (s.readLimit ee lim env.ctx).2 hb h1
          split
          · rename_i s1 heq
            rw [heq] at h2
            exact iterC_from P ee A hP f (c+1) v lim body env s1 hb h2.2
          · rename_i r s1 hne heq
            rw [heq] at h2
            exact ⟨by simp only [Run.From]; exact ⟨h2.1, hb⟩, h2.2⟩
        · exact ⟨by simp [Run.From], h1⟩
theorem iterW_from (P : Prog) (ee : EE) (A : CallSite → Prop) (hP : ∀ c ∈ P.sites, A c) :
    (f : Nat) → (e : Expr) → (body : List Stmt) → (env : Env) → (s : St) → (∀ x ∈ sitesL body, A x) → s.From A →
    (iterW P ee f e body env s).1.From A ∧ (iterW P ee f e body env s).2.From A
  | 0, _, _, _, s, _, h => by simp only [iterW]; exact ⟨by simp [Run.From], h.setStuck _⟩
  | f+1, e, body, env, s, hb, h => by
      simp only [iterW]
      have h1 := h.evalExpr ee e env.ctx
      split
      · exact ⟨by simp [Run.From], h1.setStuck _⟩
      · split
        · have h2 := enterBlk_from P ee A hP f body { env with inLoop := true } (s.evalExpr ee e env.ctx).2 hb h1
          split
          · rename_i s1 heq
            rw [heq] at h2
            exact iterW_from P ee A hP f e body env s1 hb h2.2
          · rename_i r s1 hne heq
            rw [heq] at h2
            exact ⟨by simp only [Run.From]; exact ⟨h2.1, hb⟩, h2.2⟩
        · exact ⟨by simp [Run.From], h1⟩
end

end Pfdl

namespace Pfdl

mutual
theorem deliver_from (P : Prog) (ee : EE) (A : CallSite → Prop) (hP : ∀ c ∈ P.sites, A c) (f i : Nat) :
    (r : Run) → (s : St) → (r' : Run) → (s' : St) → deliver P ee f i r s = some (r', s') → r.From A → s.From A →
    r'.From A ∧ s'.From A
  | .wait j n, s, r', s', h, hr, hs => by
      simp only [deliver] at h
      simp only [Run.From] at hr
      split at h
      · simp at h; obtain ⟨rfl, rfl⟩ := h
        have h0 : ({ s with awaited := s.awaited.erase i } : St).From A := ⟨hs.1, hs.2⟩
        exact ⟨by simp [Run.From], h0.emit _ (show Ev.From A (.note _) from hr)⟩
      · simp at h
  | .blk r rest env, s, r', s', h, hr, hs => by
      simp only [deliver] at h
      simp only [Run.From] at hr
      split at h
      · simp at h
      · rename_i s1 heq
        simp at h
        have h1 := deliver_from P ee A hP f i r s .fin s1 heq hr.1 hs
        have h2 := enterBlk_from P ee A hP f rest env s1 hr.2 h1.2
        rw [h] at h2; exact h2
      · rename_i r1 s1 hne heq
        simp at h; obtain ⟨rfl, rfl⟩ := h
        have h1 := deliver_from P ee A hP f i r s r1 s1 heq hr.1 hs
        exact ⟨by simp only [Run.From]; exact ⟨h1.1, hr.2⟩, h1.2⟩
  | .call n r, s, r', s', h, hr, hs => by
      simp only [deliver] at h
      simp only [Run.From] at hr
      split at h
      · simp at h
      · rename_i s1 heq
        simp at h; obtain ⟨rfl, rfl⟩ := h
        have h1 := deliver_from P ee A hP f i r s .fin s1 heq hr.2 hs
        exact ⟨by simp [Run.From], h1.2.emit _ (show Ev.From A (.note _) from hr.1)⟩
      · rename_i r1 s1 hne heq
        simp at h; obtain ⟨rfl, rfl⟩ := h
        have h1 := deliver_from P ee A hP f i r s r1 s1 heq hr.2 hs
        exact ⟨by simp only [Run.From]; exact ⟨hr.1, h1.1⟩, h1.2⟩
  | .par rs, s, r', s', h, hr, hs => by
      simp only [deliver] at h
      simp only [Run.From] at hr
      split at h
      · simp at h
      · rename_i rs1 s1 heq
        have h1 := deliverL_from P ee A hP f i rs s rs1 s1 heq hr hs
        split at h
        · simp at h; obtain ⟨rfl, rfl⟩ := h
          exact ⟨by simp [Run.From], h1.2⟩
        · simp at h; obtain ⟨rfl, rfl⟩ := h
          exact ⟨by simp only [Run.From]; exact h1.1, h1.2⟩
  | .cloop c v lim body env r, s, r', s', h, hr, hs => by
      simp only [deliver] at h
      simp only [Run.From] at hr
      split at h
      · simp at h
      · rename_i s1 heq
        simp at h
        have h1 := deliver_from P ee A hP f i r s .fin s1 heq hr.1 hs
        have h2 := iterC_from P ee A hP f (c+1) v lim body env s1 hr.2 h1.2
        rw [h] at h2; exact h2
      · rename_i r1 s1 hne heq
        simp at h; obtain ⟨rfl, rfl⟩ := h
        have h1 := deliver_from P ee A hP f i r s r1 s1 heq hr.1 hs
        exact ⟨by simp only [Run.From]; exact ⟨h1.1, hr.2⟩, h1.2⟩
  | .wloop e body env r, s, r', s', h, hr, hs => by
      simp only [deliver] at h
      simp only [Run.From] at hr
      split at h
      · simp at h
      · rename_i s1 heq
        simp at h
        have h1 := deliver_from P ee A hP f i r s .fin s1 heq hr.1 hs
        have h2 := iterW_from P ee A hP f e body env s1 hr.2 h1.2
        rw [h] at h2; exact h2
      · rename_i r1 s1 hne heq
        simp at h; obtain ⟨rfl, rfl⟩ := h
        have h1 := deliver_from P ee A hP f i r s r1 s1 heq hr.1 hs
        exact ⟨by simp only [Run.From]; exact ⟨h1.1, hr.2⟩, h1.2⟩
  | .fin, s, r', s', h, _, _ => by simp [deliver] at h
  | .stuck w, s, r', s', h, _, _ => by simp [deliver] at h
theorem deliverL_from (P : Prog) (ee : EE) (A : CallSite → Prop) (hP : ∀ c ∈ P.sites, A c) (f i : Nat) :
    (rs : List Run) → (s : St) → (rs' : List Run) → (s' : St) → deliverL P ee f i rs s = some (rs', s') →
    Run.FromL A rs → s.From A → Run.FromL A rs' ∧ s'.From A
  | [], s, rs', s', h, _, _ => by simp [deliverL] at h
  | r :: rs, s, rs', s', h, hr, hs => by
      simp only [deliverL] at h
      simp only [Run.FromL] at hr
      split at h
      · rename_i r1 s1 heq
        simp at h; obtain ⟨rfl, rfl⟩ := h
        have h1 := deliver_from P ee A hP f i r s r1 s1 heq hr.1 hs
        exact ⟨by simp only [Run.FromL]; exact ⟨h1.1, hr.2⟩, h1.2⟩
      · split at h
        · rename_i rs1 s1 heq
          simp at h; obtain ⟨rfl, rfl⟩ := h
          have h1 := deliverL_from P ee A hP f i rs s rs1 s1 heq hr.2 hs
          exact ⟨by simp only [Run.FromL]; exact ⟨hr.1, h1.1⟩, h1.2⟩
        · simp at h
end

/-! ### history level -/

structure Sched.PInv (s : Sched) : Prop where
  hist : ∀ e ∈ s.hist, e.FromR (· ∈ s.prog.sites)
  run : s.run.From (· ∈ s.prog.sites)
  pend : s.st.pend = []
  rootK : s.started = true → s.rootNote.ctx = none
  rootName : s.started = true → s.rootNote.name = Generated.startTaskName

theorem Sched.init_pinv (P : Prog) (v : Bool) : (Sched.init P v).PInv :=
  ⟨by simp [Sched.init], by simp [Sched.init, Run.From], by simp [Sched.init], by simp [Sched.init], by simp [Sched.init]⟩

theorem Prog.task?_name {P : Prog} {name : String} {t : Task} (h : P.task? name = some t) : t.name = name := by
  unfold Prog.task? at h
  have := List.find?_some h
  simpa using this

theorem Sched.finish_pinv (s : Sched) (r : Run) (st : St) (h : s.PInv) (hr : r.From (· ∈ s.prog.sites))
    (hst : st.From (· ∈ s.prog.sites)) (hk : s.rootNote.ctx = none) (hnm : s.rootNote.name = Generated.startTaskName) :
    (s.finish r st).1.PInv := by
  have hh := (Sched.finish_hist s r st).1
  have hpend : (s.finish r st).1.st.pend = [] := by
    unfold Sched.finish; split <;> simp [St.flush]
  have hprog : (s.finish r st).1.prog = s.prog := by unfold Sched.finish; split <;> rfl
  have hroot : (s.finish r st).1.rootNote = s.rootNote := (Sched.finish_fields' s r st).2.2.1
  have hrun := (Sched.finish_fields' s r st).1
  refine ⟨?_, ?_, hpend, fun _ => by rw [hroot]; exact hk, fun _ => by rw [hroot]; exact hnm⟩
  · rw [hh, hprog]
    intro e he
    rcases List.mem_append.1 he with he | he
    · exact h.hist e he
    · rcases List.mem_append.1 he with he | he
      · exact hst.1 e he
      · unfold Sched.closing at he
        rcases List.mem_append.1 he with he | he
        · split at he
          · simp at he; subst he; exact Or.inr ⟨_, rfl, hk⟩
          · simp at he
        · simp [flushEvs] at he
          obtain ⟨a, b, hm, hor⟩ := he
          rcases hor with rfl | rfl
          · exact Or.inl trivial
          · exact Or.inl (hst.2 (a, b) hm)
  · rw [hrun, hprog]; split
    · simp [Run.From]
    · exact hr

theorem Sched.fire_pinv (s : Sched) (ee : EE) (fuel : Nat) (e : Event) (hi : s.Inv) (h : s.PInv) :
    (s.fire ee fuel e).sched.PInv := by
  have hP : ∀ c ∈ s.prog.sites, (· ∈ s.prog.sites) c := fun c hc => hc
  cases e with
  | other => exact h
  | start =>
    rw [Sched.fire_start]
    split
    · rename_i hc
      simp at hc
      have hsome := hi.hasRoot hc.1
      cases hopt : s.prog.task? Generated.startTaskName with
      | none => rw [hopt] at hsome; simp at hsome
      | some t =>
        simp only []
        rw [Sched.begin_some s ee fuel t hopt]
        have h0 : (s.beginSt t).From (· ∈ s.prog.sites) := by
          refine ⟨?_, ?_⟩
          · intro e he
            simp [Sched.beginSt, St.emit] at he
            subst he
            exact Or.inr ⟨_, rfl, rfl⟩
          · simp [Sched.beginSt, St.emit, h.pend, PendFrom]
        have hb := enterBlk_from s.prog ee (· ∈ s.prog.sites) hP fuel t.body s.beginEnv (s.beginSt t)
          (Prog.sites_of_task (Prog.task?_mem hopt)) h0
        exact Sched.finish_pinv _ _ _ ⟨h.hist, h.run, h.pend, fun _ => rfl, fun _ => Prog.task?_name hopt⟩ hb.1 hb.2 rfl
          (Prog.task?_name hopt)
    · exact h
  | svcFinished i =>
    rw [Sched.fire_svc]
    split
    · split
      · rename_i r st heq
        have hok := deliver_ok s.prog ee fuel i s.run { s.st with out := [] } r st heq
        have hstarted : s.started = true := by
          cases hst : s.started
          · have := hi.notStarted hst
            have hh := hok.hit
            rw [this] at hh; simp at hh
          · rfl
        have hd := deliver_from s.prog ee (· ∈ s.prog.sites) hP fuel i s.run { s.st with out := [] } r st heq h.run
          ⟨by intro e he; simp at he, by simp [h.pend, PendFrom]⟩
        exact Sched.finish_pinv s r st h hd.1 hd.2 (h.rootK hstarted) (h.rootName hstarted)
      · exact h
    · exact h

theorem Sched.step_pinv (s : Sched) (ee : EE) (fuel : Nat) (op : Op) (hi : s.Inv) (h : s.PInv) :
    (s.step ee fuel op).sched.PInv := by
  cases op with
  | start =>
    simp only [Sched.step, Sched.start]
    split
    · split
      · have hi' : ({ s with running := true } : Sched).Inv := ⟨hi.norm, hi.clean, hi.perm, hi.notStarted, hi.invalid, hi.out, hi.hasRoot⟩
        have h' : ({ s with running := true } : Sched).PInv := ⟨h.hist, h.run, h.pend, h.rootK, h.rootName⟩
        exact Sched.fire_pinv _ ee fuel .start hi' h'
      · exact h
    · exact h
  | fire e => exact Sched.fire_pinv s ee fuel e hi h
  | register k fn =>
    simp only [Sched.step, Sched.register]
    split
    · exact h
    · exact ⟨h.hist, h.run, h.pend, h.rootK, h.rootName⟩
  | attach o => exact ⟨h.hist, h.run, h.pend, h.rootK, h.rootName⟩
  | detach o =>
    simp only [Sched.step, Sched.detach]
    split
    · rename_i s' heq
      split at heq
      · simp at heq; subst heq
        exact ⟨h.hist, h.run, h.pend, h.rootK, h.rootName⟩
      · simp at heq
    · exact h

/-- all three invariants hold after every history of API calls -/
theorem Sched.runOps_all (ee : EE) (fuel : Nat) : (ops : List Op) → (s : Sched) → s.Inv → s.TInv → s.PInv →
    (s.runOps ee fuel ops).Inv ∧ (s.runOps ee fuel ops).TInv ∧ (s.runOps ee fuel ops).PInv
  | [], s, h, ht, hp => by simpa [Sched.runOps] using ⟨h, ht, hp⟩
  | op :: ops, s, h, ht, hp => by
      simp only [Sched.runOps]
      exact Sched.runOps_all ee fuel ops _ (Sched.step_inv s ee fuel op h) (Sched.step_tinv s ee fuel op h ht)
        (Sched.step_pinv s ee fuel op h hp)

theorem Sched.step_prog (s : Sched) (ee : EE) (fuel : Nat) (op : Op) : (s.step ee fuel op).sched.prog = s.prog := by
  have hfin : ∀ (x : Sched) r st, (x.finish r st).1.prog = x.prog := by
    intro x r st; unfold Sched.finish; split <;> rfl
  have hbegin : ∀ (x : Sched), (x.begin ee fuel).1.prog = x.prog := by
    intro x
    cases hopt : x.prog.task? Generated.startTaskName with
    | none => rw [Sched.begin_none x ee fuel hopt]
    | some t => rw [Sched.begin_some x ee fuel t hopt, hfin]
  have hfire : ∀ (x : Sched) e, (x.fire ee fuel e).sched.prog = x.prog := by
    intro x e
    cases e with
    | start => rw [Sched.fire_start]; split <;> simp [hbegin]
    | svcFinished i => rw [Sched.fire_svc]; split <;> (try split) <;> simp [hfin]
    | other => rfl
  cases op with
  | start => simp only [Sched.step, Sched.start]; split <;> (try split) <;> simp [hfire]
  | fire e => exact hfire s e
  | register k fn => simp only [Sched.step, Sched.register]; split <;> rfl
  | attach o => rfl
  | detach o =>
    simp only [Sched.step, Sched.detach]
    split
    · rename_i s' heq
      split at heq
      · simp at heq; subst heq; rfl
      · simp at heq
    · rfl

theorem Sched.runOps_prog (ee : EE) (fuel : Nat) : (ops : List Op) → (s : Sched) → (s.runOps ee fuel ops).prog = s.prog
  | [], s => rfl
  | op :: ops, s => by
      simp only [Sched.runOps]
      rw [Sched.runOps_prog ee fuel ops, Sched.step_prog]

end Pfdl
