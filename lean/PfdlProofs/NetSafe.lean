import PfdlProofs.NetInv
import PfdlProofs.NetGenWf
/-! No index or key error in the net evaluator.  For a net whose callbacks refer to existing API objects and that has
    no parallel-loop callback (what the generator produces for a program without parallel loops whose calls resolve:
    `NetGenWf`), every function of the evaluator keeps: the callbacks and the numbers of API objects are unchanged,
    every service object and every awaited completion is registered in `place_dict`, and the only exceptions ever
    raised are a failing evaluation (what the engine answered does not evaluate) and the model's own fuel.  The
    `IndexError` / `KeyError` / `ValueError` branches of the model (Python look-ups that would fail) are unreachable. -/
namespace Pfdl.Net

def ExcOk (e : Option String) : Prop := e = none ∨ e = some "EvalError" ∨ e = some "outOfFuel"

structure SInv (C : Array (List (Nat × Cb))) (nt ns : Nat) (s : NS) : Prop where
  cbs : s.cbs = C
  nt : s.tasks.size = nt
  ns : s.svcs.size = ns
  pd : ∀ (i : Nat) (a : SvcApi), s.svcs[i]? = some a → (dictGet s.placeDict a.uid).isSome = true
  aw : ∀ u, AEv.svc u ∈ s.awaited → (dictGet s.placeDict u).isSome = true
  exc : ExcOk s.exc

variable {P : Prog} {C : Array (List (Nat × Cb))} {nt ns : Nat} {ee : EE}

/-- the helper leaves everything the invariant speaks about as it is, the exception flag included -/
structure SameX (s s' : NS) : Prop where
  same : Same s s'
  exc : s'.exc = s.exc

theorem SInv.sameX {s s' : NS} (h : SInv C nt ns s) (hs : SameX s s') : SInv C nt ns s' :=
  ⟨hs.same.cbs ▸ h.cbs, hs.same.tsize ▸ h.nt, hs.same.svcs ▸ h.ns, by rw [hs.same.svcs, hs.same.pd]; exact h.pd,
   by rw [hs.same.awaited, hs.same.pd]; exact h.aw, hs.exc ▸ h.exc⟩

theorem SameX.rfl' (s : NS) : SameX s s := ⟨Same.rfl' s, rfl⟩
theorem SameX.trans' {a b c : NS} (h1 : SameX a b) (h2 : SameX b c) : SameX a c :=
  ⟨h1.same.trans' h2.same, h2.exc.trans h1.exc⟩

theorem sameX_emit (s : NS) (o : NOut) : SameX s (s.emit o) := ⟨same_emit s o, rfl⟩

theorem exc_foldl_emit {α} (g : α → NOut) : ∀ (l : List α) (s : NS), (l.foldl (fun s a => s.emit (g a)) s).exc = s.exc
  | [], _ => rfl
  | a :: l, s => by simp only [List.foldl_cons]; rw [exc_foldl_emit g l]; rfl

theorem sameX_foldl_emit {α} (g : α → NOut) (l : List α) (s : NS) : SameX s (l.foldl (fun s a => s.emit (g a)) s) :=
  ⟨same_foldl_emit g l s, exc_foldl_emit g l s⟩

theorem sameX_logAll (s : NS) (n : Note) (b : Bool) : SameX s (s.logAll n b) := by
  unfold NS.logAll; exact sameX_foldl_emit (fun o => NOut.log o n b) s.observers s
theorem sameX_netAll (s : NS) : SameX s s.netAll := by
  unfold NS.netAll; exact sameX_foldl_emit (fun o => NOut.netUpd o) s.observers s
theorem sameX_evalExpr (s : NS) (e : Expr) (ctx : Nat) : SameX s (s.evalExpr ee e ctx).2 :=
  ⟨same_evalExpr s ee e ctx, by unfold NS.evalExpr; rfl⟩
theorem sameX_readLimit (s : NS) (lim : Limit) (ctx : Nat) : SameX s (s.readLimit ee lim ctx).2 :=
  ⟨same_readLimit s ee lim ctx, by unfold NS.readLimit; split <;> rfl⟩
theorem sameX_substitute (s : NS) (c : Option Nat) (ps : List Param) : SameX s (s.substitute c ps).2 :=
  ⟨same_substitute s c ps, by unfold NS.substitute; split <;> (try split) <;> rfl⟩
theorem sameX_bumpCounter (s : NS) (ctx line : Nat) (var : String) : SameX s (s.bumpCounter ctx line var).2 :=
  ⟨same_bumpCounter s ctx line var, by unfold NS.bumpCounter; rfl⟩
theorem sameX_dropCounter (s : NS) (ctx line : Nat) (var : String) : SameX s (s.dropCounter ctx line var) :=
  ⟨same_dropCounter s ctx line var, by unfold NS.dropCounter; rfl⟩

theorem sameX_of_substitute_eq {s s' : NS} {c : Option Nat} {ps ps' : List Param}
    (h : s.substitute c ps = (ps', s')) : SameX s s' := by
  have := sameX_substitute s c ps; rw [h] at this; exact this
theorem sameX_of_evalExpr_eq {s s' : NS} {e : Expr} {ctx : Nat} {v : Option Val}
    (h : s.evalExpr ee e ctx = (v, s')) : SameX s s' := by
  have := sameX_evalExpr (ee := ee) s e ctx; rw [h] at this; exact this
theorem sameX_of_readLimit_eq {s s' : NS} {lim : Limit} {ctx : Nat} {n : Option Rat}
    (h : s.readLimit ee lim ctx = (n, s')) : SameX s s' := by
  have := sameX_readLimit (ee := ee) s lim ctx; rw [h] at this; exact this
theorem sameX_of_bumpCounter_eq {s s' : NS} {ctx line : Nat} {var : String} {c0 : Nat}
    (h : s.bumpCounter ctx line var = (c0, s')) : SameX s s' := by
  have := sameX_bumpCounter s ctx line var; rw [h] at this; exact this

/-- raising one of the two admitted exceptions -/
theorem SInv.raiseOk {s : NS} (h : SInv C nt ns s) (e : String) (he : e = "EvalError" ∨ e = "outOfFuel") :
    SInv C nt ns (s.raise e) := by
  have hs := same_raise s e
  refine ⟨hs.cbs ▸ h.cbs, hs.tsize ▸ h.nt, hs.svcs ▸ h.ns, by rw [hs.svcs, hs.pd]; exact h.pd,
    by rw [hs.awaited, hs.pd]; exact h.aw, ?_⟩
  unfold NS.raise
  split
  · exact h.exc
  · rcases he with he | he <;> subst he
    · exact Or.inr (Or.inl rfl)
    · exact Or.inr (Or.inr rfl)

theorem SInv.outOfFuel {s : NS} (h : SInv C nt ns s) : SInv C nt ns s.outOfFuel := by
  have h1 := h.raiseOk "outOfFuel" (Or.inr rfl)
  unfold NS.outOfFuel
  exact ⟨h1.cbs, h1.nt, h1.ns, h1.pd, h1.aw, h1.exc⟩

theorem isPloop_false_of_cbOk {cb : Cb} (h : CbOk P false nt ns cb) : cb.isPloop = false := by
  cases cb <;> simp_all [CbOk, Cb.isPloop]

theorem SInv.fireT {s : NS} (h : SInv C nt ns s) (t : Nat) : SInv C nt ns (s.fireT t) := by
  unfold NS.fireT
  split
  · exact ⟨h.cbs, h.nt, h.ns, h.pd, h.aw, h.exc⟩
  · exact h

theorem SInv.addToken {s : NS} (h : SInv C nt ns s) (p : Nat) : SInv C nt ns (s.addToken p) :=
  ⟨h.cbs, h.nt, h.ns, h.pd, h.aw, h.exc⟩

theorem getElem?_modify_svc (a : Array SvcApi) (i j : Nat) (f : SvcApi → SvcApi) :
    (a.modify i f)[j]? = if i = j then a[j]?.map f else a[j]? := by
  rw [Array.getElem?_modify]

section
variable (P C nt ns ee)
/-- all functions of the evaluator keep the safety invariant, at fuel `f` -/
structure SKeeps (f : Nat) : Prop where  -- (for the program P: the callbacks are judged by `CbOk P false`)
  evaluate : ∀ s, SInv C nt ns s → SInv C nt ns (evaluate ee f s)
  scan : ∀ n i s, SInv C nt ns s → SInv C nt ns (scan ee f n i s)
  runLive : ∀ t pos s, SInv C nt ns s → SInv C nt ns (runLive ee f t pos s)
  runCb : ∀ cb s, CbOk P false nt ns cb → SInv C nt ns s → SInv C nt ns (runCb ee f cb s)
  listenSS : ∀ i fns s, SInv C nt ns s → SInv C nt ns (listenSS ee f i fns s)
  listenSF : ∀ i fns s, SInv C nt ns s → SInv C nt ns (listenSF ee f i fns s)
  eeStarted : ∀ id s, SInv C nt ns s → SInv C nt ns (eeStarted ee f id s)
  eeOther : ∀ k s, SInv C nt ns s → SInv C nt ns (eeOther ee f k s)
  eeAgain : ∀ k s, SInv C nt ns s → SInv C nt ns (eeAgain ee f k s)
  eeFinished : ∀ s, SInv C nt ns s → SInv C nt ns (eeFinished ee f s)
  complete : ∀ k s, SInv C nt ns s → SInv C nt ns (complete ee f k s)
  fireEv : ∀ ev s, SInv C nt ns s → SInv C nt ns (fireEv ee f ev s).2

theorem skeeps_zero : SKeeps P C nt ns ee 0 where
  evaluate s h := by simp only [Net.evaluate]; exact h.outOfFuel
  scan n i s h := by simp only [Net.scan]; exact h.outOfFuel
  runLive t pos s h := by simp only [Net.runLive]; exact h.outOfFuel
  runCb cb s _ h := by simp only [Net.runCb]; exact h.outOfFuel
  listenSS i fns s h := by simp only [Net.listenSS]; exact h.outOfFuel
  listenSF i fns s h := by simp only [Net.listenSF]; exact h.outOfFuel
  eeStarted id s h := by simp only [Net.eeStarted]; exact h.outOfFuel
  eeOther k s h := by simp only [Net.eeOther]; exact h.outOfFuel
  eeAgain k s h := by simp only [Net.eeAgain]; exact h.outOfFuel
  eeFinished s h := by simp only [Net.eeFinished]; exact h.outOfFuel
  complete k s h := by simp only [Net.complete]; exact h.outOfFuel
  fireEv ev s h := by simp only [Net.fireEv]; exact h.outOfFuel
end

/-- the static hypothesis on the callbacks -/
def COk (P : Prog) (C : Array (List (Nat × Cb))) (nt ns : Nat) : Prop :=
  ∀ (t : Nat) (l : List (Nat × Cb)), C[t]? = some l → ∀ c ∈ l, CbOk P false nt ns c.2

theorem skeeps_succ (hC : COk P C nt ns) (f : Nat) (ih : SKeeps P C nt ns ee f) : SKeeps P C nt ns ee (f+1) where
  evaluate s h := by simp only [Net.evaluate]; exact ih.scan _ _ s h
  scan n i s h := by
    simp only [Net.scan]
    split
    · exact h
    split
    · exact h
    split
    · have hnp : ∀ c ∈ (s.cbs[i]?.getD []), c.2.isPloop = false := by
        intro cb hcb
        cases hq : s.cbs[i]? with
        | none => simp [hq] at hcb
        | some l =>
          simp [hq] at hcb
          exact isPloop_false_of_cbOk (hC i l (by rw [← h.cbs]; exact hq) cb hcb)
      rw [extractPloop_none _ _ _ hnp]
      simp only
      exact ih.scan _ _ _ (ih.runLive _ _ _ (h.fireT i))
    · exact ih.scan _ _ _ h
  runLive t pos s h := by
    simp only [Net.runLive]
    split
    · exact h
    split
    · exact h
    · rename_i k cb hq
      have hmem : ∃ l, C[t]? = some l ∧ (k, cb) ∈ l := by
        cases hl : s.cbs[t]? with
        | none => simp [hl] at hq
        | some l =>
          simp [hl] at hq
          exact ⟨l, by rw [← h.cbs]; exact hl, List.mem_of_getElem? hq⟩
      obtain ⟨l, hl, hm⟩ := hmem
      exact ih.runLive _ _ _ (ih.runCb cb s (hC t l hl _ hm) h)
  runCb cb s hok h := by
    cases cb with
    | taskStarted t =>
      simp only [Net.runCb]
      have ht : t < s.tasks.size := by rw [h.nt]; simpa [CbOk] using hok
      have hget : s.tasks[t]? = some s.tasks[t] := by simp [ht]
      rw [hget]
      simp only
      generalize hsub : NS.substitute _ _ _ = r
      obtain ⟨ps', s'⟩ := r
      simp only
      have hs' : SInv C nt ns s' :=
        SInv.sameX (s := { s with ctrT := s.ctrT + 1 }) ⟨h.cbs, h.nt, h.ns, h.pd, h.aw, h.exc⟩ (sameX_of_substitute_eq hsub)
      refine SInv.sameX ?_ (sameX_logAll _ _ _)
      refine SInv.sameX ?_ (sameX_foldl_emit _ _ _)
      exact ⟨hs'.cbs, by show (Array.modify _ _ _).size = nt; rw [Array.size_modify]; exact hs'.nt, hs'.ns, hs'.pd, hs'.aw, hs'.exc⟩
    | taskFinished t =>
      simp only [Net.runCb]
      have h0 := h.sameX (sameX_foldl_emit (fun fn => NOut.inv fn (s.noteT .tf t)) s.ls.tf s)
      split
      · refine SInv.sameX ?_ (sameX_logAll _ _ _)
        refine SInv.sameX ?_ (sameX_netAll _)
        exact ⟨h0.cbs, h0.nt, h0.ns, h0.pd, h0.aw, h0.exc⟩
      · exact h0.sameX (sameX_logAll _ _ _)
    | svcStarted i =>
      simp only [Net.runCb]
      have hi : i < s.svcs.size := by rw [h.ns]; simpa [CbOk] using hok
      have hget : s.svcs[i]? = some s.svcs[i] := by simp [hi]
      rw [hget]
      simp only
      have hkey := h.pd i s.svcs[i] hget
      cases hfin : dictGet s.placeDict s.svcs[i].uid with
      | none => rw [hfin] at hkey; simp at hkey
      | some fin =>
        simp only
        generalize hsub : (if s.svcs[i].inLoop = true then NS.substitute _ _ _ else (s.svcs[i].params, _)) = r
        obtain ⟨ps', s'⟩ := r
        have hbase : SInv C nt ns { s with ctrS := s.ctrS + 1, placeDict := dictSet s.placeDict (Uid.id s.ctrS) fin } :=
          ⟨h.cbs, h.nt, h.ns, fun j a ha => dictGet_dictSet_of_isSome _ _ _ _ (h.pd j a ha),
           fun u hu => dictGet_dictSet_of_isSome _ _ _ _ (h.aw u hu), h.exc⟩
        have hs' : SInv C nt ns s' ∧ s'.placeDict = dictSet s.placeDict (Uid.id s.ctrS) fin := by
          split at hsub
          · have hx := sameX_of_substitute_eq hsub
            exact ⟨hbase.sameX hx, hx.same.pd⟩
          · cases hsub; exact ⟨hbase, rfl⟩
        obtain ⟨hs', hpd'⟩ := hs'
        simp only
        apply ih.listenSS
        refine SInv.sameX ?_ (sameX_logAll _ _ _)
        refine ⟨hs'.cbs, hs'.nt, by show (Array.modify _ _ _).size = ns; rw [Array.size_modify]; exact hs'.ns, ?_, ?_, hs'.exc⟩
        · intro j a ha
          have ha' : (s'.svcs.modify i (fun a => { a with uid := Uid.id s.ctrS, params := ps' }))[j]? = some a := ha
          rw [getElem?_modify_svc] at ha'
          show (dictGet s'.placeDict a.uid).isSome = true
          split at ha'
          · cases hq : s'.svcs[j]? with
            | none => simp [hq] at ha'
            | some a0 =>
              simp [hq] at ha'
              subst ha'
              rw [hpd']
              exact dictGet_dictSet_self _ _ _
          · exact hs'.pd j a ha'
        · intro u hu
          have hu' : AEv.svc u ∈ s'.awaited ++ [AEv.svc (Uid.id s.ctrS)] := hu
          show (dictGet s'.placeDict u).isSome = true
          simp only [List.mem_append, List.mem_singleton] at hu'
          rcases hu' with hu' | hu'
          · exact hs'.aw u hu'
          · cases hu'
            rw [hpd']
            exact dictGet_dictSet_self _ _ _
    | svcFinished i =>
      simp only [Net.runCb]
      have h1 := ih.listenSF i s.ls.sf s h
      split
      · exact h1
      · exact h1.sameX (sameX_logAll _ _ _)
    | cond e thenP elseP ctx =>
      simp only [Net.runCb]
      generalize hev : NS.evalExpr s ee e ctx = r
      obtain ⟨v, s'⟩ := r
      have hs' : SInv C nt ns s' := h.sameX (sameX_of_evalExpr_eq hev)
      simp only
      split
      · exact hs'.raiseOk _ (Or.inl rfl)
      · apply ih.fireEv
        refine ⟨hs'.cbs, hs'.nt, hs'.ns, hs'.pd, ?_, hs'.exc⟩
        intro u hu
        have hu' : AEv.svc u ∈ s'.awaited ++ [AEv.setPlace _] := hu
        simp only [List.mem_append, List.mem_singleton] at hu'
        rcases hu' with hu' | hu'
        · exact hs'.aw u hu'
        · cases hu'
    | wloop e thenP elseP ctx =>
      simp only [Net.runCb]
      generalize hev : NS.evalExpr s ee e ctx = r
      obtain ⟨v, s'⟩ := r
      have hs' : SInv C nt ns s' := h.sameX (sameX_of_evalExpr_eq hev)
      simp only
      split
      · exact hs'.raiseOk _ (Or.inl rfl)
      · apply ih.fireEv
        refine ⟨hs'.cbs, hs'.nt, hs'.ns, hs'.pd, ?_, hs'.exc⟩
        intro u hu
        have hu' : AEv.svc u ∈ s'.awaited ++ [AEv.setPlace _] := hu
        simp only [List.mem_append, List.mem_singleton] at hu'
        rcases hu' with hu' | hu'
        · exact hs'.aw u hu'
        · cases hu'
    | cloop line var lim thenP elseP ctx =>
      simp only [Net.runCb]
      generalize hbc : NS.bumpCounter s ctx line var = r0
      obtain ⟨c0, s0⟩ := r0
      have hs0 : SInv C nt ns s0 := h.sameX (sameX_of_bumpCounter_eq hbc)
      simp only
      generalize hev : NS.readLimit s0 ee lim ctx = r
      obtain ⟨n, s'⟩ := r
      have hs' : SInv C nt ns s' := hs0.sameX (sameX_of_readLimit_eq hev)
      simp only
      repeat' split
      all_goals first
        | exact hs'.raiseOk _ (Or.inl rfl)
        | (apply ih.fireEv
           have hd := sameX_dropCounter s' ctx line var
           first
            | (refine ⟨hs'.cbs, hs'.nt, hs'.ns, hs'.pd, ?_, hs'.exc⟩
               intro u hu
               have hu' : AEv.svc u ∈ s'.awaited ++ [AEv.setPlace _] := hu
               simp only [List.mem_append, List.mem_singleton] at hu'
               rcases hu' with hu' | hu'
               · exact hs'.aw u hu'
               · cases hu')
            | (have hd' := hs'.sameX hd
               refine ⟨hd'.cbs, hd'.nt, hd'.ns, hd'.pd, ?_, hd'.exc⟩
               intro u hu
               have hu' : AEv.svc u ∈ s'.awaited ++ [AEv.setPlace _] := hu
               simp only [List.mem_append, List.mem_singleton] at hu'
               rcases hu' with hu' | hu'
               · exact hd'.pd ▸ (by rw [hd.same.pd]; exact hs'.aw u hu')
               · cases hu'))
    | ploop var lim c place t1 t2 ctx => simp [CbOk] at hok
  listenSS i fns s h := by
    cases fns with
    | nil => simp only [Net.listenSS]; exact h
    | cons fn fns =>
      simp only [Net.listenSS]
      split
      · exact h
      apply ih.listenSS
      split
      · exact ih.eeStarted _ _ (h.sameX (sameX_emit _ _))
      · exact h.sameX (sameX_emit _ _)
  listenSF i fns s h := by
    cases fns with
    | nil => simp only [Net.listenSF]; exact h
    | cons fn fns =>
      simp only [Net.listenSF]
      split
      · exact h
      apply ih.listenSF
      split
      · exact ih.eeFinished _ (h.sameX (sameX_emit _ _))
      · exact h.sameX (sameX_emit _ _)
  eeStarted id s h := by
    simp only [Net.eeStarted]
    have h0 : SInv C nt ns { s with announced := s.announced.push id, pending := s.pending ++ [s.announced.size] } :=
      ⟨h.cbs, h.nt, h.ns, h.pd, h.aw, h.exc⟩
    by_cases hio : ee.immOther s.announced.size = true
    · rw [if_pos hio]
      have h1 := ih.eeOther s.announced.size _ h0
      split
      · exact h1
      · split
        · exact ih.complete _ _ h1
        · exact h1
    · rw [if_neg hio]
      split
      · exact h0
      · split
        · exact ih.complete _ _ h0
        · exact h0
  eeOther k s h := by
    simp only [Net.eeOther]
    have h1 := ih.eeAgain k s h
    split
    · exact ih.complete _ _ h1
    · exact h1
  eeAgain k s h := by
    simp only [Net.eeAgain]
    split
    · split
      · exact ih.complete _ _ h
      · exact h
    · exact h
  eeFinished s h := by
    simp only [Net.eeFinished]
    have h0 : SInv C nt ns { s with nSf := s.nSf + 1 } := ⟨h.cbs, h.nt, h.ns, h.pd, h.aw, h.exc⟩
    split
    · split
      · exact ih.complete _ _ h0
      · exact h0
    · exact h0
  complete k s h := by
    simp only [Net.complete]
    split
    · exact h
    · rename_i id _
      generalize hfe : fireEv ee f (AEv.svc (Uid.id id)) _ = r
      obtain ⟨b, s'⟩ := r
      have hs' : SInv C nt ns s' := by
        have := ih.fireEv (AEv.svc (Uid.id id)) ({ s with inProg := k :: s.inProg }.emit (.fire id))
          ⟨h.cbs, h.nt, h.ns, h.pd, h.aw, h.exc⟩
        rw [hfe] at this; exact this
      simp only
      repeat' split
      all_goals exact ⟨hs'.cbs, hs'.nt, hs'.ns, hs'.pd, hs'.aw, hs'.exc⟩
  fireEv ev s h := by
    simp only [Net.fireEv]
    split
    · exact h
    split
    · exact h
    · rename_i idx hidx
      have hmem : ev ∈ s.awaited := mem_of_idxOf? _ _ _ hidx
      have h1 : SInv C nt ns { s with awaited := s.awaited.eraseIdx idx } :=
        ⟨h.cbs, h.nt, h.ns, h.pd, fun u hu => h.aw u (List.mem_of_mem_eraseIdx hu), h.exc⟩
      split
      · -- the look-up in place_dict fails: impossible for an awaited completion
        rename_i hnone
        cases ev with
        | start => simp at hnone
        | setPlace q => simp at hnone
        | svc u =>
          simp at hnone
          have := h.aw u hmem
          rw [hnone] at this
          simp at this
      · rename_i p hp
        split
        · have h3 := ih.evaluate _ (h1.addToken p)
          split
          · exact h3
          · exact h3.sameX (sameX_netAll _)
        · refine ⟨h.cbs, h.nt, h.ns, h.pd, ?_, h.exc⟩
          intro u hu
          have hu' : AEv.svc u ∈ (s.awaited.eraseIdx idx).take idx ++ [ev] ++ (s.awaited.eraseIdx idx).drop idx := hu
          simp only [List.mem_append, List.mem_singleton] at hu'
          rcases hu' with (hu' | hu') | hu'
          · exact h.aw u (List.mem_of_mem_eraseIdx (List.mem_of_mem_take hu'))
          · exact h.aw u (hu' ▸ hmem)
          · exact h.aw u (List.mem_of_mem_eraseIdx (List.mem_of_mem_drop hu'))

/-- every function of the evaluator keeps the safety invariant, for every fuel -/
theorem skeeps (hC : COk P C nt ns) : ∀ f, SKeeps P C nt ns ee f
  | 0 => skeeps_zero P C nt ns ee
  | f+1 => skeeps_succ hC f (skeeps hC f)

end Pfdl.Net
