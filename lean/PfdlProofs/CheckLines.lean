import PfdlProofs.CheckLemmas
set_option linter.unusedSimpArgs false
/-! Where the validation model locates its messages. -/
namespace Pfdl.Check

mutual
/-- start lines of a statement, of the statements nested in it and of the calls inside Parallel blocks -/
def Stmt.lines : Stmt → List Nat
  | .svc c => [c.line]
  | .call c => [c.line]
  | .par cs l => l :: cs.map (·.line)
  | .cond _ p f l => l :: (linesL p ++ linesL f)
  | .cloop _ _ _ b l => l :: linesL b
  | .wloop _ b l => l :: linesL b
def linesL : List Stmt → List Nat
  | [] => []
  | s :: ss => s.lines ++ linesL ss
end

theorem mem_atLine {line : Nat} {ks : Kinds} {e : Err} (h : e ∈ atLine line ks) : e.line = line := by
  simp [atLine] at h
  obtain ⟨k, _, rfl⟩ := h
  rfl

theorem par_lines (env : Env) (vars : List (String × Ty)) : (cs : List Call) → (a0 r : List Err) →
    cs.foldl (fun acc c => optAppend acc ((checkTaskCall env vars c).map (atLine c.line))) (some a0) = some r →
    ∀ e ∈ r, e ∈ a0 ∨ e.line ∈ cs.map (·.line)
  | [], a0, r, h => by simp at h; subst h; intro e he; exact Or.inl he
  | c :: cs, a0, r, h => by
      simp only [List.foldl_cons] at h
      cases hc : (checkTaskCall env vars c).map (atLine c.line) with
      | none =>
        rw [hc] at h
        have hnone : ∀ (l : List Call), l.foldl (fun acc c => optAppend acc ((checkTaskCall env vars c).map (atLine c.line))) none = none := by
          intro l; induction l with
          | nil => rfl
          | cons y ys ih =>
            simp only [List.foldl_cons]
            have : optAppend none ((checkTaskCall env vars y).map (atLine y.line)) = none := by
              cases (checkTaskCall env vars y).map (atLine y.line) <;> rfl
            rw [this]; exact ih
        have : optAppend (some a0) none = none := rfl
        rw [this, hnone] at h; simp at h
      | some y =>
        rw [hc] at h
        simp only [optAppend] at h
        intro e he
        rcases par_lines env vars cs (a0 ++ y) r h e he with h1 | h1
        · rcases List.mem_append.1 h1 with h2 | h2
          · exact Or.inl h2
          · right
            cases hk : checkTaskCall env vars c with
            | none => rw [hk] at hc; simp at hc
            | some ks =>
              rw [hk] at hc; simp at hc; subst hc
              simp [mem_atLine h2]
        · right; simp at h1 ⊢; exact Or.inr h1

mutual
/-- every message of a statement's check carries the start line of the statement itself, of a
    statement nested in it, or of a call of a Parallel block in it -/
theorem checkStmt_lines (env : Env) (vars : List (String × Ty)) : (s : Stmt) → (errs : List Err) →
    checkStmt env vars s = some errs → ∀ e ∈ errs, e.line ∈ s.lines
  | .svc c, errs, h => by
      simp only [checkStmt] at h; simp at h; subst h
      intro e he; simp [Stmt.lines, mem_atLine he]
  | .call c, errs, h => by
      simp only [checkStmt] at h
      cases hk : checkTaskCall env vars c with
      | none => rw [hk] at h; simp at h
      | some ks => rw [hk] at h; simp at h; subst h; intro e he; simp [Stmt.lines, mem_atLine he]
  | .par cs l, errs, h => by
      simp only [checkStmt] at h
      intro e he
      rcases par_lines env vars cs [] errs h e he with h1 | h1
      · simp at h1
      · simp [Stmt.lines]; right; simpa using h1
  | .wloop ex b l, errs, h => by
      simp only [checkStmt] at h
      obtain ⟨a, b', ha, hb, rfl⟩ := optAppend_some h
      intro e he
      rcases List.mem_append.1 he with h1 | h1
      · simp [Stmt.lines]; right; exact checkStmts_lines env vars b a ha e h1
      · cases hk : checkTopExpr env vars ex with
        | none => rw [hk] at hb; simp at hb
        | some ks => rw [hk] at hb; simp at hb; subst hb; simp [Stmt.lines, mem_atLine h1]
  | .cond ex p f l, errs, h => by
      simp only [checkStmt] at h
      obtain ⟨a, b', ha, hb, rfl⟩ := optAppend_some h
      obtain ⟨a1, a2, ha1, ha2, rfl⟩ := optAppend_some ha
      intro e he
      rcases List.mem_append.1 he with h1 | h1
      · rcases List.mem_append.1 h1 with h2 | h2
        · simp [Stmt.lines]; right; left; exact checkStmts_lines env vars p a1 ha1 e h2
        · simp [Stmt.lines]; right; right; exact checkStmts_lines env vars f a2 ha2 e h2
      · cases hk : checkTopExpr env vars ex with
        | none => rw [hk] at hb; simp at hb
        | some ks => rw [hk] at hb; simp at hb; subst hb; simp [Stmt.lines, mem_atLine h1]
  | .cloop par v lim b l, errs, h => by
      simp only [checkStmt] at h
      split at h
      · simp at h
      · simp at h; subst h; intro e he; simp [Stmt.lines, mem_atLine he]
      · split at h
        · split at h
          · rename_i c hsc
            have hb : b = [.call c] := by
              unfold singleCall? at hsc
              cases b with
              | nil => simp at hsc
              | cons s ss =>
                cases ss with
                | cons s2 ss2 => simp at hsc
                | nil => cases s <;> simp at hsc; subst hsc; rfl
            subst hb
            cases hk : checkTaskCall env vars c with
            | none => rw [hk] at h; simp at h
            | some ks =>
              rw [hk] at h; simp at h; subst h
              intro e he; simp [Stmt.lines, linesL, mem_atLine he]
          · simp at h; subst h; intro e he; simp at he; subst he; simp [Stmt.lines]
        · intro e he
          simp [Stmt.lines]; right; exact checkStmts_lines env vars b errs h e he
theorem checkStmts_lines (env : Env) (vars : List (String × Ty)) : (b : List Stmt) → (errs : List Err) →
    checkStmts env vars b = some errs → ∀ e ∈ errs, e.line ∈ linesL b
  | [], errs, h => by simp [checkStmts] at h; subst h; simp
  | s :: ss, errs, h => by
      simp only [checkStmts] at h
      obtain ⟨a, b', ha, hb, rfl⟩ := optAppend_some h
      intro e he
      simp only [linesL, List.mem_append]
      rcases List.mem_append.1 he with h1 | h1
      · exact Or.inl (checkStmt_lines env vars s a ha e h1)
      · exact Or.inr (checkStmts_lines env vars ss b' hb e h1)
end

end Pfdl.Check

namespace Pfdl.Check

theorem dedupBy_subset {α : Type} (key : α → String) : (l : List α) → (seen : List String) → ∀ x ∈ dedupBy key l seen, x ∈ l
  | [], _ => by simp [dedupBy]
  | a :: l, seen => by
      simp only [dedupBy]
      split
      · intro x hx; exact List.mem_cons_of_mem _ (dedupBy_subset key l seen x hx)
      · intro x hx
        simp at hx
        rcases hx with rfl | hx
        · simp
        · exact List.mem_cons_of_mem _ (dedupBy_subset key l _ x hx)

theorem dupErrs_lines {α : Type} (key : α → String) (kind : String) (line : α → Nat) : (l : List α) → (seen : List String) →
    ∀ e ∈ dupErrs key kind line l seen, ∃ x ∈ l, e.line = line x
  | [], _ => by simp [dupErrs]
  | a :: l, seen => by
      simp only [dupErrs]
      split
      · intro e he
        simp at he
        rcases he with rfl | he
        · exact ⟨a, by simp, rfl⟩
        · obtain ⟨x, hx, hl⟩ := dupErrs_lines key kind line l seen e he
          exact ⟨x, List.mem_cons_of_mem _ hx, hl⟩
      · intro e he
        obtain ⟨x, hx, hl⟩ := dupErrs_lines key kind line l _ e he
        exact ⟨x, List.mem_cons_of_mem _ hx, hl⟩

mutual
theorem dupOutErrs_lines : (s : Stmt) → ∀ e ∈ s.dupOutErrs, e.line ∈ s.lines
  | .svc c => by
      intro e he; simp only [Stmt.dupOutErrs] at he
      obtain ⟨x, _, hl⟩ := dupErrs_lines _ _ _ _ _ e he; simp [Stmt.lines, hl]
  | .call c => by
      intro e he; simp only [Stmt.dupOutErrs] at he
      obtain ⟨x, _, hl⟩ := dupErrs_lines _ _ _ _ _ e he; simp [Stmt.lines, hl]
  | .par cs l => by
      intro e he; simp only [Stmt.dupOutErrs] at he
      obtain ⟨c, hc, hce⟩ := List.mem_flatMap.1 he
      obtain ⟨x, _, hl⟩ := dupErrs_lines _ _ _ _ _ e hce
      simp [Stmt.lines]; right; exact ⟨c, hc, hl.symm⟩
  | .cond ex p f l => by
      intro e he; simp only [Stmt.dupOutErrs] at he
      rcases List.mem_append.1 he with h | h
      · simp [Stmt.lines]; right; left; exact dupOutErrsL_lines p e h
      · simp [Stmt.lines]; right; right; exact dupOutErrsL_lines f e h
  | .cloop par v lim b l => by
      intro e he; simp only [Stmt.dupOutErrs] at he
      simp [Stmt.lines]; right; exact dupOutErrsL_lines b e he
  | .wloop ex b l => by
      intro e he; simp only [Stmt.dupOutErrs] at he
      simp [Stmt.lines]; right; exact dupOutErrsL_lines b e he
theorem dupOutErrsL_lines : (b : List Stmt) → ∀ e ∈ dupOutErrsL b, e.line ∈ linesL b
  | [] => by simp [dupOutErrsL]
  | s :: ss => by
      intro e he
      simp only [dupOutErrsL] at he
      simp only [linesL, List.mem_append]
      rcases List.mem_append.1 he with h | h
      · exact Or.inl (dupOutErrs_lines s e h)
      · exact Or.inr (dupOutErrsL_lines ss e h)
end

mutual
theorem calls_lines : (s : Stmt) → ∀ c ∈ s.calls, c.line ∈ s.lines
  | .svc c => by simp [Stmt.calls]
  | .call c => by simp [Stmt.calls, Stmt.lines]
  | .par cs l => by
      intro c hc; simp only [Stmt.calls] at hc
      simp [Stmt.lines]; right; exact ⟨c, hc, rfl⟩
  | .cond ex p f l => by
      intro c hc; simp only [Stmt.calls] at hc
      rcases List.mem_append.1 hc with h | h
      · simp [Stmt.lines]; right; left; exact callsL_lines p c h
      · simp [Stmt.lines]; right; right; exact callsL_lines f c h
  | .cloop par v lim b l => by
      intro c hc; simp only [Stmt.calls] at hc
      simp [Stmt.lines]; right; exact callsL_lines b c hc
  | .wloop ex b l => by
      intro c hc; simp only [Stmt.calls] at hc
      simp [Stmt.lines]; right; exact callsL_lines b c hc
theorem callsL_lines : (b : List Stmt) → ∀ c ∈ callsL b, c.line ∈ linesL b
  | [] => by simp [callsL]
  | s :: ss => by
      intro c hc
      simp only [callsL] at hc
      simp only [linesL, List.mem_append]
      rcases List.mem_append.1 hc with h | h
      · exact Or.inl (calls_lines s c h)
      · exact Or.inr (callsL_lines ss c h)
end

/-- start lines of all definitions and statements of a program -/
def Prog.nodeLines (p : Prog) : List Nat :=
  p.structs.map (·.line) ++ p.tasks.map (·.line) ++ p.tasks.flatMap (fun t => linesL t.body)

theorem mkEnv_tasks_subset (p : Prog) : ∀ t ∈ (mkEnv p).tasks, t ∈ p.tasks := by
  intro t ht; exact dedupBy_subset _ _ _ t ht

theorem mkEnv_struct_line (p : Prog) : ∀ s ∈ (mkEnv p).structs, ∃ s0 ∈ p.structs, s.line = s0.line := by
  intro s hs
  simp only [mkEnv, List.mem_map] at hs
  obtain ⟨s0, hs0, rfl⟩ := hs
  exact ⟨s0, dedupBy_subset _ _ _ s0 hs0, rfl⟩

theorem checkTask_lines (env : Env) (t : Task) (errs : List Err) (h : checkTask env t = some errs) :
    ∀ e ∈ errs, e.line = t.line ∨ e.line ∈ linesL t.body := by
  unfold checkTask at h
  simp only [] at h
  split at h
  · simp at h
  · rename_i se hse
    simp at h; subst h
    intro e he
    rcases List.mem_append.1 he with h1 | h1
    · exact Or.inr (checkStmts_lines env t.variables t.body se hse e h1)
    · rcases List.mem_append.1 h1 with h2 | h2
      · exact Or.inl (mem_atLine h2)
      · obtain ⟨o, _, ho⟩ := List.mem_flatMap.1 h2
        split at ho
        · simp at ho
        · simp at ho; subst ho; exact Or.inl rfl

theorem foldl_tasks_lines (env : Env) : (ts : List Task) → (a0 r : List Err) →
    ts.foldl (fun acc t => optAppend acc (checkTask env t)) (some a0) = some r →
    ∀ e ∈ r, e ∈ a0 ∨ ∃ t ∈ ts, e.line = t.line ∨ e.line ∈ linesL t.body
  | [], a0, r, h => by simp at h; subst h; intro e he; exact Or.inl he
  | t :: ts, a0, r, h => by
      simp only [List.foldl_cons] at h
      cases hc : checkTask env t with
      | none =>
        rw [hc] at h
        have hnone : ∀ (l : List Task), l.foldl (fun acc t => optAppend acc (checkTask env t)) none = none := by
          intro l; induction l with
          | nil => rfl
          | cons y ys ih =>
            simp only [List.foldl_cons]
            have : optAppend none (checkTask env y) = none := by cases checkTask env y <;> rfl
            rw [this]; exact ih
        have : optAppend (some a0) none = none := rfl
        rw [this, hnone] at h; simp at h
      | some y =>
        rw [hc] at h
        simp only [optAppend] at h
        intro e he
        rcases foldl_tasks_lines env ts (a0 ++ y) r h e he with h1 | ⟨t', ht', hl⟩
        · rcases List.mem_append.1 h1 with h2 | h2
          · exact Or.inl h2
          · exact Or.inr ⟨t, by simp, checkTask_lines env t y hc e h2⟩
        · exact Or.inr ⟨t', List.mem_cons_of_mem _ ht', hl⟩

/-- IN FILE: every message of a validation carries line 1 or the start line of a struct, task,
    statement or Parallel-branch call of the program -/
theorem validate_lines (p : Prog) (errs : List Err) (h : validate p = some errs) :
    ∀ e ∈ errs, e.line = 1 ∨ e.line ∈ p.nodeLines := by
  unfold validate at h
  simp only [] at h
  split at h
  · simp at h
  · rename_i te hte
    simp at h; subst h
    intro e he
    unfold Prog.nodeLines
    simp only [List.mem_append] at he ⊢
    rcases he with he | he | he | he | he | he
    · -- visitor: duplicate definitions
      right
      unfold visitorErrs at he
      simp only [List.mem_append] at he
      rcases he with ((he | he) | he) | he
      · obtain ⟨x, hx, hl⟩ := dupErrs_lines _ _ _ _ _ e he
        exact Or.inl (Or.inl (List.mem_map.2 ⟨x, hx, hl.symm⟩))
      · obtain ⟨s, hs, hse⟩ := List.mem_flatMap.1 he
        obtain ⟨x, _, hl⟩ := dupErrs_lines _ _ _ _ _ e hse
        exact Or.inl (Or.inl (List.mem_map.2 ⟨s, hs, hl.symm⟩))
      · obtain ⟨x, hx, hl⟩ := dupErrs_lines _ _ _ _ _ e he
        exact Or.inl (Or.inr (List.mem_map.2 ⟨x, hx, hl.symm⟩))
      · obtain ⟨t, ht, hte'⟩ := List.mem_flatMap.1 he
        obtain ⟨x, _, hl⟩ := dupErrs_lines _ _ _ _ _ e hte'
        exact Or.inl (Or.inr (List.mem_map.2 ⟨t, ht, hl.symm⟩))
    · right
      obtain ⟨t, ht, hte'⟩ := List.mem_flatMap.1 he
      exact Or.inr (List.mem_flatMap.2 ⟨t, ht, dupOutErrsL_lines t.body e hte'⟩)
    · right
      obtain ⟨s, hs, hse⟩ := List.mem_flatMap.1 he
      obtain ⟨s0, hs0, hl⟩ := mkEnv_struct_line p s hs
      exact Or.inl (Or.inl (List.mem_map.2 ⟨s0, hs0, by rw [mem_atLine hse, hl]⟩))
    · right
      rcases foldl_tasks_lines (mkEnv p) (mkEnv p).tasks [] te hte e he with h1 | ⟨t, ht, hl⟩
      · simp at h1
      · have htp := mkEnv_tasks_subset p t ht
        rcases hl with hl | hl
        · exact Or.inl (Or.inr (List.mem_map.2 ⟨t, htp, hl.symm⟩))
        · exact Or.inr (List.mem_flatMap.2 ⟨t, htp, hl⟩)
    · right
      unfold recursionErrs at he
      obtain ⟨t, ht, hte'⟩ := List.mem_flatMap.1 he
      simp only [List.mem_filterMap] at hte'
      obtain ⟨c, hc, hce⟩ := hte'
      split at hce
      · simp at hce; subst hce
        exact Or.inr (List.mem_flatMap.2 ⟨t, mkEnv_tasks_subset p t ht, callsL_lines t.body c hc⟩)
      · simp at hce
    · split at he
      · simp at he
      · simp at he; subst he; exact Or.inl rfl

end Pfdl.Check
