import PfdlProofs.CheckLines
set_option linter.unusedSimpArgs false
/-! Validation never raises on a syntactically valid program: every look-up that can fail is
    guarded by a check that has passed before. -/
namespace Pfdl.Check

/-- the shape the grammar gives the tail of an attribute access (`attribute_access:
    ID (DOT ID array?)+`): attributes, each optionally followed by one index -/
def goodRest : List String → Bool
  | [] => true
  | [a] => !isIndex a
  | a :: nxt :: after => !isIndex a && (if isIndex nxt then goodRest after else goodRest (nxt :: after))

theorem Env.struct?_name {env : Env} {n : String} {s : Struct} (h : env.struct? n = some s) : s.name = n := by
  unfold Env.struct? at h
  have := List.find?_some h
  simpa using this

theorem Env.struct?_self {env : Env} {n : String} {s : Struct} (h : env.struct? n = some s) : env.struct? s.name = some s := by
  rw [Env.struct?_name h]; exact h

/-- ACCESS VALID ⇒ TYPEABLE: if `check_attribute_access` reports nothing for the tail of an access
    starting at struct `s`, then `get_type_of_variable_list` finds its type (does not raise) -/
theorem access_typeable (env : Env) : (rest : List String) → (s : Struct) → env.struct? s.name = some s →
    goodRest rest = true → checkAccessFrom env s rest = [] → ∃ ty, typeOfPathFrom env (.name s.name) rest = some ty
  | [], s, _, _, _ => ⟨.name s.name, by simp [typeOfPathFrom]⟩
  | [a], s, hs, hg, hc => by
      simp [goodRest] at hg
      unfold checkAccessFrom at hc
      simp only [hg] at hc
      simp only [typeOfPathFrom, hg, hs]
      cases ha : s.attr? a with
      | none => simp [ha] at hc
      | some ty => exact ⟨ty, by simp⟩
  | a :: nxt :: after, s, hs, hg, hc => by
      simp only [goodRest, Bool.and_eq_true, Bool.not_eq_true'] at hg
      obtain ⟨ha, hrest⟩ := hg
      unfold checkAccessFrom at hc
      simp only [ha] at hc
      simp only [typeOfPathFrom, ha, hs]
      cases hat : s.attr? a with
      | none => simp [hat] at hc
      | some ty =>
        simp only [hat] at hc ⊢
        by_cases hidx : isIndex nxt = true
        · -- attribute followed by an index: it must be an array
          simp only [hidx, if_true] at hc hrest
          cases ty with
          | name n => simp at hc
          | arr e len =>
            simp only [] at hc
            simp only [typeOfPathFrom, hidx, if_true]
            cases after with
            | nil => exact ⟨.name e, by simp [typeOfPathFrom]⟩
            | cons b after' =>
              simp only [] at hc
              cases hse : env.struct? e with
              | none => simp [hse] at hc
              | some s' =>
                simp only [hse] at hc
                -- the index itself is skipped by the access check
                unfold checkAccessFrom at hc
                simp only [hidx, if_true] at hc
                have := access_typeable env (b :: after') s' (Env.struct?_self hse) hrest hc
                rw [Env.struct?_name hse] at this
                exact this
        · simp only [hidx] at hc hrest
          simp only [Bool.false_eq_true, if_false] at hc hrest
          cases ty with
          | arr e len => simp at hc
          | name n =>
            simp only [] at hc
            cases hsn : env.struct? n with
            | none => simp [hsn] at hc
            | some s' =>
              simp only [hsn] at hc
              have := access_typeable env (nxt :: after) s' (Env.struct?_self hsn) hrest hc
              rw [Env.struct?_name hsn] at this
              exact this

/-- … for a whole access `x.a…`: valid access ⇒ the type look-up succeeds -/
theorem checkAccess_typeable (env : Env) (vars : List (String × Ty)) (x : String) (rest : List String)
    (hg : goodRest rest = true) (hc : checkAccess env vars (x :: rest) = []) :
    ∃ ty, typeOfPath env vars (x :: rest) = some ty := by
  simp only [checkAccess] at hc
  simp only [typeOfPath]
  cases hl : lookupLast vars x with
  | none => simp [hl] at hc
  | some ty =>
    simp only [hl] at hc ⊢
    cases ty with
    | arr e len => simp at hc
    | name n =>
      simp only [] at hc
      cases hs : env.struct? n with
      | none => simp [hs] at hc
      | some s =>
        simp only [hs] at hc
        have := access_typeable env rest s (Env.struct?_self hs) hg hc
        rw [Env.struct?_name hs] at this
        exact this

theorem checkAccessExpr_typeable (env : Env) (vars : List (String × Ty)) (x : String) (rest : List String)
    (hg : goodRest rest = true) (hc : checkAccessExpr env vars (x :: rest) = []) :
    ∃ ty, typeOfPath env vars (x :: rest) = some ty := by
  apply checkAccess_typeable env vars x rest hg
  unfold checkAccessExpr at hc
  split at hc
  · simp at hc
  · rename_i h; exact h

/-- all attribute accesses inside an expression have the grammar's shape -/
def goodExpr : Expr → Bool
  | .path [] => false
  | .path (_ :: rest) => goodRest rest
  | .not e => goodExpr e
  | .paren e => goodExpr e
  | .bin _ l r => goodExpr l && goodExpr r
  | _ => true

/-- if every access inside an operand is valid, its classification does not raise -/
theorem exprIsNumber_total (env : Env) (vars : List (String × Ty)) : (e : Expr) → goodExpr e = true →
    operandAccessErrs env vars e = [] → ∃ b, exprIsNumber env vars e = some b
  | .lit v, _, _ => by cases v <;> simp [exprIsNumber]
  | .none, _, _ => ⟨false, rfl⟩
  | .not e, _, _ => ⟨false, rfl⟩
  | .path [], hg, _ => by simp [goodExpr] at hg
  | .path (x :: rest), hg, hc => by
      simp only [goodExpr] at hg
      simp only [operandAccessErrs] at hc
      obtain ⟨ty, hty⟩ := checkAccessExpr_typeable env vars x rest hg hc
      exact ⟨ty == .name "number", by simp [exprIsNumber, hty]⟩
  | .paren e, hg, hc => by
      simp only [goodExpr] at hg
      simp only [operandAccessErrs] at hc
      simpa [exprIsNumber] using exprIsNumber_total env vars e hg hc
  | .bin op l r, hg, hc => by
      simp only [goodExpr, Bool.and_eq_true] at hg
      simp only [operandAccessErrs, List.append_eq_nil_iff] at hc
      obtain ⟨bl, hl⟩ := exprIsNumber_total env vars l hg.1 hc.1
      obtain ⟨br, hr⟩ := exprIsNumber_total env vars r hg.2 hc.2
      simp only [exprIsNumber, hl]
      split
      · exact ⟨false, rfl⟩
      · cases bl
        · exact ⟨false, rfl⟩
        · exact ⟨br, hr⟩

theorem exprIsString_total (env : Env) (vars : List (String × Ty)) : (e : Expr) → goodExpr e = true →
    operandAccessErrs env vars e = [] → ∃ b, exprIsString env vars e = some b
  | .path p, hg, hc => by
    cases p with
    | nil => simp [goodExpr] at hg
    | cons x rest =>
      simp only [goodExpr] at hg
      simp only [operandAccessErrs] at hc
      obtain ⟨ty, hty⟩ := checkAccessExpr_typeable env vars x rest hg hc
      exact ⟨ty == .name "string", by simp [exprIsString, hty]⟩
  | .lit v, _, _ => by cases v <;> simp [exprIsString]
  | .not e, _, _ => ⟨false, rfl⟩
  | .paren e, hg, hc => by
    simp only [goodExpr] at hg
    simp only [operandAccessErrs] at hc
    simpa [exprIsString] using exprIsString_total env vars e hg hc
  | .bin o l r, _, _ => ⟨false, rfl⟩
  | .none, _, _ => ⟨false, rfl⟩

/-- a checked operand can be classified as string or not without raising -/
theorem exprIsString_checked (env : Env) (vars : List (String × Ty)) : (e : Expr) → goodExpr e = true →
    checkExpr env vars e = some [] → ∃ b, exprIsString env vars e = some b
  | .path p, _, hc => by
    simp only [checkExpr] at hc
    split at hc
    · simp at hc
    · split at hc
      · simp at hc
      · rename_i ty hty
        exact ⟨ty == .name "string", by simp [exprIsString, hty]⟩
  | .lit v, _, _ => by cases v <;> simp [exprIsString]
  | .not e, _, _ => ⟨false, rfl⟩
  | .paren e, hg, hc => by
    simp only [goodExpr] at hg
    simp only [checkExpr] at hc
    simpa [exprIsString] using exprIsString_checked env vars e hg hc
  | .bin o l r, _, _ => ⟨false, rfl⟩
  | .none, _, _ => ⟨false, rfl⟩

/-- a checked operand can be classified as boolean or not without raising -/
theorem exprIsBoolean_total (env : Env) (vars : List (String × Ty)) : (e : Expr) → goodExpr e = true →
    checkExpr env vars e = some [] → ∃ b, exprIsBoolean env vars e = some b
  | .lit v, _, _ => by cases v <;> simp [exprIsBoolean]
  | .none, _, _ => ⟨false, rfl⟩
  | .not e, _, _ => ⟨true, rfl⟩
  | .bin op l r, _, _ => ⟨_, rfl⟩
  | .paren e, hg, hc => by
      simp only [goodExpr] at hg
      simp only [checkExpr] at hc
      simpa [exprIsBoolean] using exprIsBoolean_total env vars e hg hc
  | .path p, hg, hc => by
      simp only [checkExpr] at hc
      split at hc
      · simp at hc
      · split at hc
        · simp at hc
        · rename_i ty hty
          exact ⟨ty == .name "boolean", by simp [exprIsBoolean, hty]⟩

/-- `check_expression` never raises on an expression whose accesses have the grammar's shape -/
theorem checkExpr_total (env : Env) (vars : List (String × Ty)) : (e : Expr) → goodExpr e = true →
    ∃ ks, checkExpr env vars e = some ks
  | .lit v, _ => ⟨[], rfl⟩
  | .none, _ => ⟨[], rfl⟩
  | .path [], hg => by simp [goodExpr] at hg
  | .path (x :: rest), hg => by
      simp only [goodExpr] at hg
      simp only [checkExpr]
      cases hc : checkAccessExpr env vars (x :: rest) with
      | cons e es => exact ⟨_, rfl⟩
      | nil =>
        obtain ⟨ty, hty⟩ := checkAccessExpr_typeable env vars x rest hg hc
        simp only [hty]
        split <;> exact ⟨_, rfl⟩
  | .not e, hg => by
      simp only [goodExpr] at hg
      obtain ⟨k, hk⟩ := checkExpr_total env vars e hg
      simp only [checkExpr, hk]
      cases k with
      | cons x xs => exact ⟨_, rfl⟩
      | nil =>
        simp only []
        obtain ⟨b, hb⟩ := exprIsString_checked env vars e hg hk
        rw [hb]
        cases b <;> exact ⟨_, rfl⟩
  | .paren e, hg => by simp only [goodExpr] at hg; simpa [checkExpr] using checkExpr_total env vars e hg
  | .bin op l r, hg => by
      simp only [goodExpr, Bool.and_eq_true] at hg
      simp only [checkExpr]
      cases hl : operandAccessErrs env vars l with
      | cons e es => exact ⟨_, rfl⟩
      | nil =>
        simp only []
        cases hr : operandAccessErrs env vars r with
        | cons e es => exact ⟨_, rfl⟩
        | nil =>
          simp only []
          obtain ⟨nl, hnl⟩ := exprIsNumber_total env vars l hg.1 hl
          obtain ⟨nr, hnr⟩ := exprIsNumber_total env vars r hg.2 hr
          obtain ⟨sl, hsl⟩ := exprIsString_total env vars l hg.1 hl
          obtain ⟨sr, hsr⟩ := exprIsString_total env vars r hg.2 hr
          split
          · -- ordering comparison
            simp only [hnl, hnr, hsl, hsr]
            cases nl <;> cases nr <;> cases sl <;> cases sr <;> simp
          · split
            · simp only [hnl, hnr]
              cases nl <;> cases nr <;> simp
            · obtain ⟨kl, hkl⟩ := checkExpr_total env vars l hg.1
              obtain ⟨kr, hkr⟩ := checkExpr_total env vars r hg.2
              simp only [hkl]
              cases kl with
              | cons e es => exact ⟨_, rfl⟩
              | nil =>
                simp only [hkr]
                cases kr with
                | cons e es => exact ⟨_, rfl⟩
                | nil =>
                  simp only []
                  split
                  · obtain ⟨bl, hbl⟩ := exprIsBoolean_total env vars l hg.1 hkl
                    obtain ⟨br, hbr⟩ := exprIsBoolean_total env vars r hg.2 hkr
                    simp only [hbl, hbr]
                    cases bl <;> cases br <;> simp
                  · exact ⟨_, rfl⟩

end Pfdl.Check

namespace Pfdl.Check

def goodArg : Arg → Bool
  | .path [] => false
  | .path (_ :: rest) => goodRest rest
  | _ => true

def goodCall (c : Call) : Bool := c.ins.all goodArg

def goodLimit : Option (List String) → Bool
  | none => true
  | some [] => false
  | some (_ :: rest) => goodRest rest

mutual
/-- every attribute access of a statement has the shape the grammar produces -/
def goodStmt : Stmt → Bool
  | .svc c => goodCall c
  | .call c => goodCall c
  | .par cs _ => cs.all goodCall
  | .cond e p f _ => goodExpr e && goodStmts p && goodStmts f
  | .cloop _ _ lim b _ => goodLimit lim && goodStmts b
  | .wloop e b _ => goodExpr e && goodStmts b
def goodStmts : List Stmt → Bool
  | [] => true
  | s :: ss => goodStmt s && goodStmts ss
end

/-- a program as the parser can produce it (w.r.t. the shape of attribute accesses) -/
def goodProg (p : Prog) : Bool := p.tasks.all (fun t => goodStmts t.body)

theorem checkTopExpr_total (env : Env) (vars : List (String × Ty)) (e : Expr) (hg : goodExpr e = true) :
    ∃ ks, checkTopExpr env vars e = some ks := by
  unfold checkTopExpr
  split
  · exact ⟨_, rfl⟩
  · exact checkExpr_total env vars e hg

theorem checkLimit_total (env : Env) (vars : List (String × Ty)) (lim : Option (List String)) (hg : goodLimit lim = true) :
    ∃ ks, checkLimit env vars lim = some ks := by
  cases lim with
  | none => exact ⟨[], rfl⟩
  | some p =>
    cases p with
    | nil => simp [goodLimit] at hg
    | cons x rest =>
      simp only [goodLimit] at hg
      simp only [checkLimit]
      cases hc : checkAccessExpr env vars (x :: rest) with
      | cons e es => exact ⟨_, rfl⟩
      | nil =>
        simp only []
        obtain ⟨b, hb⟩ := exprIsNumber_total env vars (.path (x :: rest)) (by simpa [goodExpr] using hg)
          (by simpa [operandAccessErrs] using hc)
        rw [hb]
        cases b <;> exact ⟨_, rfl⟩

theorem checkArgType_total (env : Env) (vars : List (String × Ty)) (formal : Ty) (a : Arg) (hg : goodArg a = true)
    (hc : checkArg env vars a = []) : ∃ ks, checkArgType env vars formal a = some ks := by
  cases a with
  | var x => simp only [checkArgType]; split <;> (try split) <;> exact ⟨_, rfl⟩
  | lit n fs => simp only [checkArgType]; split <;> exact ⟨_, rfl⟩
  | path p =>
    cases p with
    | nil => simp [goodArg] at hg
    | cons x rest =>
      simp only [goodArg] at hg
      simp only [checkArg] at hc
      obtain ⟨ty, hty⟩ := checkAccess_typeable env vars x rest hg hc
      simp only [checkArgType, hty]
      split <;> exact ⟨_, rfl⟩

theorem foldl_optKAppend_total {α : Type} (g : α → Option Kinds) : (l : List α) → (a0 : Kinds) →
    (∀ x ∈ l, ∃ ks, g x = some ks) → ∃ r, l.foldl (fun acc x => optKAppend acc (g x)) (some a0) = some r
  | [], a0, _ => ⟨a0, rfl⟩
  | x :: xs, a0, h => by
      obtain ⟨ks, hks⟩ := h x (by simp)
      simp only [List.foldl_cons, hks, optKAppend]
      exact foldl_optKAppend_total g xs (a0 ++ ks) (fun y hy => h y (by simp [hy]))

theorem checkCallMatches_total (env : Env) (vars : List (String × Ty)) (c : Call) (callee : Task)
    (hg : goodCall c = true) (hc : checkCallParams env vars c = []) : ∃ ks, checkCallMatches env vars c callee = some ks := by
  unfold checkCallMatches
  simp only []
  split
  · exact ⟨_, rfl⟩
  · split
    · exact ⟨_, rfl⟩
    · have hins : ∀ a ∈ c.ins, goodArg a = true ∧ checkArg env vars a = [] := by
        intro a ha
        refine ⟨?_, ?_⟩
        · unfold goodCall at hg; exact List.all_eq_true.1 hg a ha
        · unfold checkCallParams checkCallInputs at hc
          simp only [List.append_eq_nil_iff] at hc
          exact List.flatMap_eq_nil_iff.1 hc.1 a ha
      have := foldl_optKAppend_total (fun (x : Arg × (String × Ty)) => checkArgType env vars x.2.2 x.1)
        (c.ins.zip (dedupBy (·.1) callee.ins [])) []
        (fun x hx => by
          have hm := (List.of_mem_zip hx).1
          exact checkArgType_total env vars x.2.2 x.1 (hins x.1 hm).1 (hins x.1 hm).2)
      obtain ⟨r, hr⟩ := this
      rw [hr]
      exact ⟨_, rfl⟩

theorem checkTaskCall_total (env : Env) (vars : List (String × Ty)) (c : Call) (hg : goodCall c = true) :
    ∃ ks, checkTaskCall env vars c = some ks := by
  unfold checkTaskCall
  split
  · exact ⟨_, rfl⟩
  · split
    · exact ⟨_, rfl⟩
    · rename_i hnil
      exact checkCallMatches_total env vars c _ hg hnil

theorem par_total (env : Env) (vars : List (String × Ty)) : (cs : List Call) → (a0 : List Err) → (∀ c ∈ cs, goodCall c = true) →
    ∃ r, cs.foldl (fun acc c => optAppend acc ((checkTaskCall env vars c).map (atLine c.line))) (some a0) = some r
  | [], a0, _ => ⟨a0, rfl⟩
  | c :: cs, a0, h => by
      obtain ⟨ks, hks⟩ := checkTaskCall_total env vars c (h c (by simp))
      simp only [List.foldl_cons, hks, Option.map_some, optAppend]
      exact par_total env vars cs _ (fun y hy => h y (by simp [hy]))

mutual
theorem checkStmt_total (env : Env) (vars : List (String × Ty)) : (s : Stmt) → goodStmt s = true →
    ∃ errs, checkStmt env vars s = some errs
  | .svc c, _ => by simp only [checkStmt]; exact ⟨_, rfl⟩
  | .call c, hg => by
      simp only [goodStmt] at hg
      obtain ⟨ks, hks⟩ := checkTaskCall_total env vars c hg
      simp only [checkStmt, hks, Option.map_some]; exact ⟨_, rfl⟩
  | .par cs l, hg => by
      simp only [goodStmt] at hg
      simp only [checkStmt]
      exact par_total env vars cs [] (fun c hc => List.all_eq_true.1 hg c hc)
  | .wloop e b l, hg => by
      simp only [goodStmt, Bool.and_eq_true] at hg
      obtain ⟨eb, heb⟩ := checkStmts_total env vars b hg.2
      obtain ⟨ks, hks⟩ := checkTopExpr_total env vars e hg.1
      simp only [checkStmt, heb, hks, Option.map_some, optAppend]; exact ⟨_, rfl⟩
  | .cond e p f l, hg => by
      simp only [goodStmt, Bool.and_eq_true] at hg
      obtain ⟨ep, hep⟩ := checkStmts_total env vars p hg.1.2
      obtain ⟨ef, hef⟩ := checkStmts_total env vars f hg.2
      obtain ⟨ks, hks⟩ := checkTopExpr_total env vars e hg.1.1
      simp only [checkStmt, hep, hef, hks, Option.map_some, optAppend]; exact ⟨_, rfl⟩
  | .cloop par v lim b l, hg => by
      simp only [goodStmt, Bool.and_eq_true] at hg
      obtain ⟨kl, hkl⟩ := checkLimit_total env vars lim hg.1
      simp only [checkStmt, hkl]
      cases kl with
      | cons e es => exact ⟨_, rfl⟩
      | nil =>
        simp only []
        split
        · split
          · rename_i c hsc
            have hb : b = [.call c] := by
              unfold singleCall? at hsc
              cases b with
              | nil => simp at hsc
              | cons s ss =>
                cases ss with
                | cons s2 ss2 => simp at hsc
                | nil => cases s <;> simp at hsc; subst hsc; rfl
            subst hb
            have hgc : goodCall c = true := by simpa [goodStmts, goodStmt] using hg.2
            obtain ⟨ks, hks⟩ := checkTaskCall_total env vars c hgc
            simp only [hks, Option.map_some]; exact ⟨_, rfl⟩
          · exact ⟨_, rfl⟩
        · exact checkStmts_total env vars b hg.2
theorem checkStmts_total (env : Env) (vars : List (String × Ty)) : (b : List Stmt) → goodStmts b = true →
    ∃ errs, checkStmts env vars b = some errs
  | [], _ => ⟨[], rfl⟩
  | s :: ss, hg => by
      simp only [goodStmts, Bool.and_eq_true] at hg
      obtain ⟨e1, h1⟩ := checkStmt_total env vars s hg.1
      obtain ⟨e2, h2⟩ := checkStmts_total env vars ss hg.2
      simp only [checkStmts, h1, h2, optAppend]; exact ⟨_, rfl⟩
end

theorem checkTask_total (env : Env) (t : Task) (hg : goodStmts t.body = true) : ∃ errs, checkTask env t = some errs := by
  obtain ⟨se, hse⟩ := checkStmts_total env t.variables t.body hg
  unfold checkTask
  simp only [hse]
  exact ⟨_, rfl⟩

theorem foldl_tasks_total (env : Env) : (ts : List Task) → (a0 : List Err) → (∀ t ∈ ts, goodStmts t.body = true) →
    ∃ r, ts.foldl (fun acc t => optAppend acc (checkTask env t)) (some a0) = some r
  | [], a0, _ => ⟨a0, rfl⟩
  | t :: ts, a0, h => by
      obtain ⟨e, he⟩ := checkTask_total env t (h t (by simp))
      simp only [List.foldl_cons, he, optAppend]
      exact foldl_tasks_total env ts _ (fun y hy => h y (by simp [hy]))

/-- TOTAL: validation of any program the parser can produce returns a verdict – no exception escapes
    visitor + semantic checker, whether the program is well-formed or not -/
theorem validate_total (p : Prog) (hg : goodProg p = true) : ∃ errs, validate p = some errs := by
  unfold validate
  simp only []
  have : ∀ t ∈ (mkEnv p).tasks, goodStmts t.body = true := by
    intro t ht
    unfold goodProg at hg
    exact List.all_eq_true.1 hg t (mkEnv_tasks_subset p t ht)
  obtain ⟨r, hr⟩ := foldl_tasks_total (mkEnv p) (mkEnv p).tasks [] this
  simp only [hr]
  exact ⟨_, rfl⟩

end Pfdl.Check
