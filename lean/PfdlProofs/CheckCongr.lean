import PfdlModel.Check
/-! Every check depends on the environment only through the look-ups `struct?` / `task?`. -/
namespace Pfdl.Check
open Pfdl Pfdl.Generated

/-- two environments answer every look-up alike -/
structure Env.Equiv (e1 e2 : Env) : Prop where
  structs : ∀ n, e1.struct? n = e2.struct? n
  tasks : ∀ n, e1.task? n = e2.task? n

variable {e1 e2 : Env}

theorem typeExists_congr (h : e1.Equiv e2) (n : String) : typeExists e1 n = typeExists e2 n := by
  simp only [typeExists, h.structs]

theorem checkVarDef_congr (h : e1.Equiv e2) (ty : Ty) : checkVarDef e1 ty = checkVarDef e2 ty := by
  simp only [checkVarDef, typeExists_congr h]

theorem checkAccessFrom_congr (h : e1.Equiv e2) (s : Struct) (p : List String) :
    checkAccessFrom e1 s p = checkAccessFrom e2 s p := by
  fun_induction checkAccessFrom e1 s p <;> simp_all [checkAccessFrom, h.structs]

theorem checkAccess_congr (h : e1.Equiv e2) (vars : List (String × Ty)) (p : List String) :
    checkAccess e1 vars p = checkAccess e2 vars p := by
  simp only [checkAccess, h.structs, checkAccessFrom_congr h]

theorem checkAccessExpr_congr (h : e1.Equiv e2) (vars : List (String × Ty)) (p : List String) :
    checkAccessExpr e1 vars p = checkAccessExpr e2 vars p := by
  simp only [checkAccessExpr, checkAccess_congr h]

theorem typeOfPathFrom_congr (h : e1.Equiv e2) (ty : Ty) (p : List String) :
    typeOfPathFrom e1 ty p = typeOfPathFrom e2 ty p := by
  fun_induction typeOfPathFrom e1 ty p <;> simp_all [typeOfPathFrom, h.structs]

theorem typeOfPath_congr (h : e1.Equiv e2) (vars : List (String × Ty)) (p : List String) :
    typeOfPath e1 vars p = typeOfPath e2 vars p := by
  simp only [typeOfPath, typeOfPathFrom_congr h]

mutual
theorem checkLit_congr (h : e1.Equiv e2) : ∀ (f : Nat) (n : String) (fs : List (String × Lit)),
    checkLit e1 f n fs = checkLit e2 f n fs
  | 0, _, _ => by simp [checkLit]
  | f + 1, n, fs => by
    simp only [checkLit, h.structs]
    split
    · rfl
    · rw [checkFields_congr h f]
theorem checkFields_congr (h : e1.Equiv e2) : ∀ (f : Nat) (sd : Struct) (fs : List (String × Lit)),
    checkFields e1 f sd fs = checkFields e2 f sd fs
  | 0, _, _ => by simp [checkFields]
  | _ + 1, _, [] => by simp [checkFields]
  | f + 1, sd, (a, v) :: rest => by
    simp only [checkFields]
    rw [checkFields_congr h f sd rest]
    split
    · rfl
    · rw [checkFieldType_congr h f]
theorem checkFieldType_congr (h : e1.Equiv e2) : ∀ (f : Nat) (ty : Ty) (v : Lit),
    checkFieldType e1 f ty v = checkFieldType e2 f ty v
  | 0, _, _ => by simp [checkFieldType]
  | f + 1, .name n, v => by
    simp only [checkFieldType, h.structs]
    split
    · split
      · rw [checkLit_congr h f]
      · rfl
    · rfl
  | f + 1, .arr e len, v => by
    simp only [checkFieldType]
    split
    · rw [checkArray_congr h f]
    · rfl
theorem checkArray_congr (h : e1.Equiv e2) : ∀ (f : Nat) (e : String) (len : Int) (es : List Lit),
    checkArray e1 f e len es = checkArray e2 f e len es
  | 0, _, _, _ => by simp [checkArray]
  | f + 1, e, len, es => by
    simp only [checkArray]
    rw [checkElems_congr h f]
theorem checkElems_congr (h : e1.Equiv e2) : ∀ (f : Nat) (e : String) (es : List Lit),
    checkElems e1 f e es = checkElems e2 f e es
  | 0, _, _ => by simp [checkElems]
  | _ + 1, _, [] => by simp [checkElems]
  | f + 1, e, v :: rest => by
    simp only [checkElems, h.structs]
    rw [checkElems_congr h f e rest]
    cases v <;> simp only [checkLit_congr h f]
end

theorem exprIsNumber_congr (h : e1.Equiv e2) (vars : List (String × Ty)) (e : Expr) :
    exprIsNumber e1 vars e = exprIsNumber e2 vars e := by
  fun_induction exprIsNumber e1 vars e <;> simp_all [exprIsNumber, typeOfPath_congr h]

theorem exprIsString_congr (h : e1.Equiv e2) (vars : List (String × Ty)) (e : Expr) :
    exprIsString e1 vars e = exprIsString e2 vars e := by
  fun_induction exprIsString e1 vars e <;> simp_all [exprIsString, typeOfPath_congr h]

theorem exprIsBoolean_congr (h : e1.Equiv e2) (vars : List (String × Ty)) (e : Expr) :
    exprIsBoolean e1 vars e = exprIsBoolean e2 vars e := by
  fun_induction exprIsBoolean e1 vars e <;> simp_all [exprIsBoolean, typeOfPath_congr h]

theorem operandAccessErrs_congr (h : e1.Equiv e2) (vars : List (String × Ty)) (e : Expr) :
    operandAccessErrs e1 vars e = operandAccessErrs e2 vars e := by
  fun_induction operandAccessErrs e1 vars e <;> simp_all [operandAccessErrs, checkAccessExpr_congr h]

theorem checkExpr_congr (h : e1.Equiv e2) (vars : List (String × Ty)) : ∀ e : Expr,
    checkExpr e1 vars e = checkExpr e2 vars e
  | .lit _ => by simp [checkExpr]
  | .none => by simp [checkExpr]
  | .path p => by simp only [checkExpr, checkAccessExpr_congr h, typeOfPath_congr h]
  | .not e => by simp only [checkExpr, checkExpr_congr h vars e, exprIsString_congr h]
  | .paren e => by simp only [checkExpr, checkExpr_congr h vars e]
  | .bin op l r => by
    simp only [checkExpr, checkExpr_congr h vars l, checkExpr_congr h vars r, exprIsString_congr h,
      exprIsNumber_congr h, exprIsBoolean_congr h, operandAccessErrs_congr h]

theorem checkTopExpr_congr (h : e1.Equiv e2) (vars : List (String × Ty)) (e : Expr) :
    checkTopExpr e1 vars e = checkTopExpr e2 vars e := by
  simp only [checkTopExpr, checkExpr_congr h]

theorem checkArg_congr (h : e1.Equiv e2) (vars : List (String × Ty)) (a : Arg) :
    checkArg e1 vars a = checkArg e2 vars a := by
  cases a <;> simp only [checkArg, checkLit_congr h, checkAccess_congr h]

theorem checkCallParams_congr (h : e1.Equiv e2) (vars : List (String × Ty)) (c : Call) :
    checkCallParams e1 vars c = checkCallParams e2 vars c := by
  have : checkArg e1 vars = checkArg e2 vars := funext (checkArg_congr h vars)
  simp only [checkCallParams, checkCallInputs, checkCallOutputs, this, checkVarDef_congr h]

theorem checkArgType_congr (h : e1.Equiv e2) (vars : List (String × Ty)) (formal : Ty) (a : Arg) :
    checkArgType e1 vars formal a = checkArgType e2 vars formal a := by
  cases a <;> simp only [checkArgType, typeOfPath_congr h]

theorem checkCallMatches_congr (h : e1.Equiv e2) (vars : List (String × Ty)) (c : Call) (callee : Task) :
    checkCallMatches e1 vars c callee = checkCallMatches e2 vars c callee := by
  simp only [checkCallMatches, checkArgType_congr h]

theorem checkTaskCall_congr (h : e1.Equiv e2) (vars : List (String × Ty)) (c : Call) :
    checkTaskCall e1 vars c = checkTaskCall e2 vars c := by
  simp only [checkTaskCall, h.tasks, checkCallParams_congr h, checkCallMatches_congr h]

theorem checkLimit_congr (h : e1.Equiv e2) (vars : List (String × Ty)) (lim : Option (List String)) :
    checkLimit e1 vars lim = checkLimit e2 vars lim := by
  cases lim <;> simp only [checkLimit, checkAccessExpr_congr h, exprIsNumber_congr h]

mutual
theorem checkStmt_congr (h : e1.Equiv e2) (vars : List (String × Ty)) : ∀ s : Stmt,
    checkStmt e1 vars s = checkStmt e2 vars s
  | .svc c => by simp only [checkStmt, checkCallParams_congr h]
  | .call c => by simp only [checkStmt, checkTaskCall_congr h]
  | .par cs l => by simp only [checkStmt, checkTaskCall_congr h]
  | .wloop e body line => by simp only [checkStmt, checkStmts_congr h vars body, checkTopExpr_congr h]
  | .cond e p f line => by
    simp only [checkStmt, checkStmts_congr h vars p, checkStmts_congr h vars f, checkTopExpr_congr h]
  | .cloop par v lim body line => by
    simp only [checkStmt, checkLimit_congr h, checkTaskCall_congr h, checkStmts_congr h vars body]
theorem checkStmts_congr (h : e1.Equiv e2) (vars : List (String × Ty)) : ∀ ss : List Stmt,
    checkStmts e1 vars ss = checkStmts e2 vars ss
  | [] => by simp [checkStmts]
  | s :: ss => by simp only [checkStmts, checkStmt_congr h vars s, checkStmts_congr h vars ss]
end

theorem checkTask_congr (h : e1.Equiv e2) (t : Task) : checkTask e1 t = checkTask e2 t := by
  simp only [checkTask, checkStmts_congr h, checkVarDef_congr h]

theorem reaches_congr (h : e1.Equiv e2) (target : String) : ∀ (f : Nat) (work visited : List String),
    reaches e1 target f work visited = reaches e2 target f work visited
  | 0, _, _ => by simp [reaches]
  | _ + 1, [], _ => by simp [reaches]
  | f + 1, name :: more, visited => by
    simp only [reaches, h.tasks]
    have ih1 := fun w v => reaches_congr h target f w v
    simp only [ih1]

end Pfdl.Check
