import PfdlProofs.NetSafe
import Props.C01b
/-! C09 at the net layer (the model of generator.py / logic.py / the callbacks as the code does them, where Python
    look-ups CAN fail): "… never lets an internal error escape (no exception from construction, start or event
    delivery …)".

    PARTIAL.  Proved for every program whose task calls resolve (what acceptance gives: `accepted_erasure_closed`)
    and that contains no parallel loop, every fuel, every execution engine (any values, completions reported from
    inside notifications - its own, other outstanding ones, ones in delivery -, from inside service-finished
    notifications) and every history of API calls:
      * construction raises nothing (`construction_raises_nothing`; with parallel loops too:
        `construction_raises_nothing_all`);
      * after every call the exception flag is empty, or a failing evaluation of what the engine answered
        (`EvalError`: excluded for well-typed engines by the structural model, C09.no_internal_error), or the model's own
        fuel - or the documented `ValueError` of `detach` for an observer that is not attached.  The model's
        `IndexError` / `KeyError` branches (list index, `place_dict[...]`, `tasks[...]`) and the `ValueError` of
        `callbacks.remove` are unreachable (`no_lookup_error_partial`).
    Not proved: programs with parallel loops (the net is rebuilt at run time; the `callbacks.remove` of
    evaluate_petri_net and `tasks[...]` are reachable code there). -/
namespace Pfdl.Net.C09
open Pfdl

theorem construction_raises_nothing (P : Prog) (hc : P.Closed) (hn : ProgNoPloop false P) (valid : Bool) (fuel : Nat) :
    (generate P valid fuel).exc = none ∨ (generate P valid fuel).exc = some "outOfFuel" :=
  generate_exc P hc hn valid fuel

/-- CONSTRUCTION, EVERY ACCEPTED PROGRAM: parallel loops included (the generator invariant with parallel-loop
    callbacks admitted, `GInv P true`): building the net of a program whose task calls resolve raises nothing, and
    every callback it registers refers to API objects that exist - a parallel-loop callback to a task that exists -/
theorem construction_raises_nothing_all (P : Prog) (hc : P.Closed) (valid : Bool) (fuel : Nat) :
    (generate P valid fuel).exc = none ∨ (generate P valid fuel).exc = some "outOfFuel" :=
  generate_exc (ap := true) P hc (progNoPloop_true P) valid fuel

theorem construction_callbacks_resolve (P : Prog) (hc : P.Closed) (valid : Bool) (fuel : Nat) :
    GInv P true none (generate P valid fuel) :=
  generate_ginv (ap := true) P hc (progNoPloop_true P) valid fuel

/-- what holds between two API calls (the exception flag of the last call aside) -/
structure Core (C : Array (List (Nat × Cb))) (nt ns : Nat) (s : NS) : Prop where
  cbs : s.cbs = C
  nt : s.tasks.size = nt
  ns : s.svcs.size = ns
  pd : ∀ (i : Nat) (a : SvcApi), s.svcs[i]? = some a → (dictGet s.placeDict a.uid).isSome = true
  aw : ∀ u, AEv.svc u ∈ s.awaited → (dictGet s.placeDict u).isSome = true

def Raised (s : NS) (op : Option Op) : Prop :=
  ExcOk s.exc ∨ (s.exc = some "ValueError" ∧ ∃ o, op = some (Op.detach o))

theorem SInv.core {C nt ns} {s : NS} (h : SInv C nt ns s) : Core C nt ns s := ⟨h.cbs, h.nt, h.ns, h.pd, h.aw⟩

theorem step_safe {P : Prog} {C : Array (List (Nat × Cb))} {nt ns : Nat} (hC : COk P C nt ns) (ee : EE) (fuel : Nat) (s : NS) (op : Op)
    (h : Core C nt ns s) : Core C nt ns (step ee fuel s op).s ∧ Raised (step ee fuel s op).s (some op) := by
  have K := skeeps (ee := ee) hC fuel
  have h0 : SInv C nt ns { s with out := #[], exc := none } := ⟨h.cbs, h.nt, h.ns, h.pd, h.aw, Or.inl rfl⟩
  have fin : ∀ s' : NS, SInv C nt ns s' → Core C nt ns s' ∧ Raised s' (some op) :=
    fun s' hs' => ⟨SInv.core hs', Or.inl hs'.exc⟩
  cases op with
  | start =>
    simp only [Net.step]
    split
    · split
      · exact fin _ (K.fireEv AEv.start _ ⟨h.cbs, h.nt, h.ns, h.pd, h.aw, Or.inl rfl⟩)
      · exact fin _ h0
    · exact fin _ h0
  | finish k =>
    simp only [Net.step]
    split
    · exact fin _ h0
    · rename_i id _
      have hb : SInv C nt ns ({ s with out := #[], exc := none, inProg := k :: s.inProg } : NS) :=
        ⟨h.cbs, h.nt, h.ns, h.pd, h.aw, Or.inl rfl⟩
      split
      · have := K.fireEv (AEv.svc (Uid.id id)) _ hb
        repeat' split
        all_goals exact fin _ ⟨this.cbs, this.nt, this.ns, this.pd, this.aw, this.exc⟩
      · repeat' split
        all_goals exact fin _ ⟨h.cbs, h.nt, h.ns, h.pd, h.aw, Or.inl rfl⟩
  | fire e =>
    simp only [Net.step]
    split
    · exact fin _ (K.fireEv e _ h0)
    · exact fin _ h0
  | other => exact fin _ h0
  | register k fn =>
    simp only [Net.step]
    split
    · exact fin _ h0
    · exact fin _ ⟨h.cbs, h.nt, h.ns, h.pd, h.aw, Or.inl rfl⟩
  | attach o => exact fin _ ⟨h.cbs, h.nt, h.ns, h.pd, h.aw, Or.inl rfl⟩
  | detach o =>
    simp only [Net.step]
    split
    · exact fin _ ⟨h.cbs, h.nt, h.ns, h.pd, h.aw, Or.inl rfl⟩
    · have hs := same_raise ({ s with out := #[], exc := none } : NS) "ValueError"
      refine ⟨⟨hs.cbs ▸ h.cbs, hs.tsize ▸ h.nt, hs.svcs ▸ h.ns, by rw [hs.svcs, hs.pd]; exact h.pd,
        by rw [hs.awaited, hs.pd]; exact h.aw⟩, Or.inr ⟨?_, o, rfl⟩⟩
      unfold NS.raise
      rfl

/-- the last call of a history (`d` if there is none) -/
def lastOp (ops : List Op) (d : Option Op) : Option Op :=
  match ops.getLast? with
  | some o => some o
  | none => d

theorem lastOp_cons (op : Op) (ops : List Op) (d : Option Op) : lastOp (op :: ops) d = lastOp ops (some op) := by
  cases ops with
  | nil => simp [lastOp]
  | cons o os =>
    unfold lastOp
    rw [List.getLast?_cons_cons]
    cases hq : (o :: os).getLast? with
    | none => simp [List.getLast?_eq_none_iff] at hq
    | some x => rfl

/-- after a history: the core invariant, and the exception flag of the last call -/
theorem history_safe {P : Prog} {C : Array (List (Nat × Cb))} {nt ns : Nat} (hC : COk P C nt ns) (ee : EE) (fuel : Nat) :
    ∀ (ops : List Op) (s : NS) (last : Option Op), Core C nt ns s → Raised s last →
      Core C nt ns (runOps ee fuel s ops) ∧ Raised (runOps ee fuel s ops) (lastOp ops last)
  | [], s, last, h, hr => by simpa [runOps, lastOp] using And.intro h hr
  | op :: ops, s, last, h, _ => by
      simp only [runOps]
      have h1 := step_safe hC ee fuel s op h
      have h2 := history_safe hC ee fuel ops _ (some op) h1.1 h1.2
      rw [lastOp_cons]
      exact h2

/-- **no look-up error**: for every program whose calls resolve and that has no parallel loop, whatever the engine
    answers and reports and whatever the application calls, the exception flag after the last call is empty, a failing
    evaluation, the model's fuel, or the `ValueError` of a `detach` of an observer that is not attached -/
theorem no_lookup_error_partial (P : Prog) (hc : P.Closed) (hn : ProgNoPloop false P) (valid : Bool) (fuel0 fuel : Nat)
    (ee : EE) (ops : List Op) :
    Raised (runOps ee fuel (generate P valid fuel0) ops) (lastOp ops none) := by
  have hg := generate_ginv P hc hn valid fuel0
  have hC : COk P (generate P valid fuel0).cbs (generate P valid fuel0).tasks.size (generate P valid fuel0).svcs.size := hg.cbOk
  have hcore : Core (generate P valid fuel0).cbs (generate P valid fuel0).tasks.size (generate P valid fuel0).svcs.size (generate P valid fuel0) := by
    refine ⟨rfl, rfl, rfl, hg.pd, ?_⟩
    intro u hu
    exfalso
    revert hu
    unfold generate
    cases ht : P.task? Generated.startTaskName with
    | none => simp
    | some t =>
      simp only
      split
      · simp
      · simp
  have hr : Raised (generate P valid fuel0) none := by
    rcases hg.exc with he | he
    · exact Or.inl (Or.inl he)
    · exact Or.inl (Or.inr (Or.inr he.2))
  exact (history_safe hC ee fuel ops _ none hcore hr).2

/-- with acceptance: the calls of an accepted program resolve (`accepted_erasure_closed`), so for every accepted
    program without parallel loops the net-level scheduler raises no look-up error -/
theorem accepted_no_lookup_error_partial (p : Check.Prog) (F : Fill) (hacc : Check.accepts p = true)
    (hn : ProgNoPloop false (erase F p)) (valid : Bool) (fuel0 fuel : Nat) (ee : EE) (ops : List Op) :
    Raised (runOps ee fuel (generate (erase F p) valid fuel0) ops) (lastOp ops none) :=
  no_lookup_error_partial _ (accepted_erasure_closed F p hacc) hn valid fuel0 fuel ee ops

/-- the hypotheses are met by the order of `Props/C01b.lean` (Parallel block, loops, conditions, called tasks) -/
example : Pfdl.Net.C01.richOrder.Closed ∧ ProgNoPloop false Pfdl.Net.C01.richOrder := by
  constructor
  · intro t ht
    simp only [Pfdl.Net.C01.richOrder, List.mem_cons, List.mem_singleton, List.not_mem_nil, or_false] at ht
    rcases ht with rfl | rfl | rfl <;> simp [ClosedL, Stmt.Closed, Prog.task?, Pfdl.Net.C01.richOrder]
  · intro t ht
    simp only [Pfdl.Net.C01.richOrder, List.mem_cons, List.mem_singleton, List.not_mem_nil, or_false] at ht
    rcases ht with rfl | rfl | rfl <;> simp [NoPloopL, NoPloop]

end Pfdl.Net.C09
