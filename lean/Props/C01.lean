import PfdlProofs.ApiInv
import Props.C14
/-! C01 – every order runs to completion exactly when all its services are done.

State-level statements over every reachable scheduler state (`Sched.Inv`, which holds after every
history of API calls, for every program, execution engine – values, completion order, re-entrant
completions – and fuel). -/
namespace Pfdl.Props.C01
open Pfdl

/-- No stall: in a reachable state in which no exception escaped, if nothing is awaited any more
    then the order is finished (the run tree has collapsed to `fin`). -/
theorem no_stall (s : Sched) (h : s.Inv) (hst : s.st.stuck = none) (ha : s.st.awaited = []) :
    s.run = .fin := by
  apply Run.fin_of_noWaiting s.run h.norm (h.clean hst)
  have hp := h.awaited_perm
  rw [ha] at hp
  exact List.perm_nil.1 hp.symm

/-- … and every outstanding service is awaited, i.e. its completion will be accepted (with C08):
    the awaited events are exactly the outstanding services. -/
theorem awaited_eq_outstanding (s : Sched) (h : s.Inv) : s.st.awaited.Perm s.outstanding :=
  h.awaited_perm

/-- Not early / final state: once the order is finished nothing is awaited any more. -/
theorem nothing_awaited_when_finished (s : Sched) (h : s.Inv) (hf : s.run = .fin) : s.st.awaited = [] := by
  have hp := h.awaited_perm
  rw [hf] at hp
  simpa using hp

/-- the scheduler's own claim: running exactly from the accepted start until the order is finished -/
def RunningOk (s : Sched) : Prop := s.running = (s.started && !s.run.isFin)

theorem finish_fields (s : Sched) (r : Run) (st : St) :
    (s.finish r st).1.running = (if r.isFin then false else s.running) ∧
    (s.finish r st).1.run.isFin = r.isFin ∧ (s.finish r st).1.started = s.started := by
  unfold Sched.finish
  split
  · rename_i h; simp [h]
  · rename_i h; simp [h]

theorem begin_running (s : Sched) (ee : EE) (fuel : Nat) (hr : s.running = true) :
    RunningOk (s.begin ee fuel).1 := by
  unfold RunningOk
  cases ht : s.prog.task? Generated.startTaskName with
  | none => rw [Sched.begin_none s ee fuel ht]; simp [hr]
  | some t =>
    rw [Sched.begin_some s ee fuel t ht]
    have := finish_fields ({ s with started := true, rootNote := s.rootTF t } : Sched)
      (enterBlk s.prog ee fuel t.body s.beginEnv (s.beginSt t)).1 (enterBlk s.prog ee fuel t.body s.beginEnv (s.beginSt t)).2
    rw [this.1, this.2.1, this.2.2]
    cases (enterBlk s.prog ee fuel t.body s.beginEnv (s.beginSt t)).1.isFin <;> simp [hr]

/-- `running` is right after every API call other than an external START event (finding K8):
    set by `start()` before the evaluation, cleared in the call that finishes the production task,
    never set again. -/
theorem step_running (s : Sched) (ee : EE) (fuel : Nat) (op : Op) (h : s.Inv) (hr : RunningOk s)
    (hop : op ≠ .fire .start) : RunningOk (s.step ee fuel op).sched := by
  cases op with
  | start =>
    simp only [Sched.step, Sched.start]
    split
    · split
      · rename_i hv hs
        rw [Sched.fire_start]
        split
        · exact begin_running _ ee fuel rfl
        · rename_i hc; simp at hs; simp [hv, hs] at hc
      · exact hr
    · exact hr
  | fire e =>
    cases e with
    | start => exact absurd rfl hop
    | svcFinished i =>
      simp only [Sched.step]
      rw [Sched.fire_svc]
      split
      · rename_i hc
        split
        · rename_i r st heq
          have hd := deliver_ok s.prog ee fuel i s.run { s.st with out := [] } r st heq
          have hstarted : s.started = true := by
            cases hst : s.started
            · have := h.notStarted hst
              have hh := hd.hit
              rw [this] at hh; simp at hh
            · rfl
          have hnotfin : s.run.isFin = false := by
            cases hf : s.run.isFin
            · rfl
            · have := Run.isFin_eq_true.1 hf
              have hh := hd.hit
              rw [this] at hh; simp at hh
          have := finish_fields s r st
          unfold RunningOk at hr ⊢
          simp only []
          rw [this.1, this.2.1, this.2.2, hr, hstarted, hnotfin]
          cases r.isFin <;> simp
        · exact hr
      · exact hr
    | other => exact hr
  | register k fn =>
    simp only [Sched.step, Sched.register]
    split <;> exact hr
  | attach o => exact hr
  | detach o =>
    simp only [Sched.step, Sched.detach]
    split
    · rename_i s' heq
      split at heq
      · simp at heq; subst heq; exact hr
      · simp at heq
    · exact hr

/-- From an accepted start until the production task is finished the scheduler reports itself
    running, afterwards not running – after every history of API calls that contains no external
    START event. -/
theorem running_iff (ee : EE) (fuel : Nat) : (ops : List Op) → (s : Sched) → s.Inv → RunningOk s →
    (∀ op ∈ ops, op ≠ .fire .start) → RunningOk (s.runOps ee fuel ops)
  | [], s, _, hr, _ => by simpa [Sched.runOps] using hr
  | op :: ops, s, h, hr, hops => by
      simp only [Sched.runOps]
      exact running_iff ee fuel ops _ (Sched.step_inv s ee fuel op h)
        (step_running s ee fuel op h hr (hops op (by simp))) (fun o ho => hops o (by simp [ho]))

theorem running_iff_init (P : Prog) (v : Bool) (ee : EE) (fuel : Nat) (ops : List Op)
    (hops : ∀ op ∈ ops, op ≠ .fire .start) : RunningOk ((Sched.init P v).runOps ee fuel ops) :=
  running_iff ee fuel ops _ (Sched.init_inv P v) (by simp [RunningOk, Sched.init]) hops

/-- The unrestricted statement is false on the current code: an order started through the public
    `fire_event` with the internal START event runs while `running` stays false (finding K8). -/
theorem running_iff_full_false :
    ∃ (P : Prog) (ee : EE) (fuel : Nat) (ops : List Op), ¬ RunningOk ((Sched.init P true).runOps ee fuel ops) := by
  refine ⟨{ tasks := [{ name := "productionTask", body := [.svc { name := "A", ins := [], line := 2 }], line := 1 }] },
    { ans := fun _ => none, imm := fun _ => false }, 10, [.fire .start], ?_⟩
  unfold RunningOk
  decide

/-- The final state is absorbing: once finished, every further event is rejected and changes
    nothing, and `start()` changes nothing. -/
theorem finished_absorbing (s : Sched) (ee : EE) (fuel : Nat) (h : s.Inv) (hs : s.started = true) (hf : s.run = .fin)
    (e : Event) :
    (s.fire ee fuel e).ret = false ∧ (s.fire ee fuel e).sched = s ∧ (s.start ee fuel).sched = s := by
  have haw := nothing_awaited_when_finished s h hf
  have hret : (s.fire ee fuel e).ret = false := by
    cases e with
    | start => simp [Sched.fire_start, hs]
    | svcFinished i => simp [Sched.fire_svc, haw]
    | other => simp [Sched.fire_other]
  refine ⟨hret, ?_, ?_⟩
  · cases e with
    | start => simp [Sched.fire_start, hs]
    | svcFinished i => simp [Sched.fire_svc, haw]
    | other => simp [Sched.fire_other]
  · simp only [Sched.start, hs]
    split <;> rfl

/-- The production task is reported finished exactly once, namely iff the order has finished (the run
    tree collapsed to `fin`, which by `no_stall`/`nothing_awaited_when_finished` is exactly when no
    completion is outstanding) – over the whole history of any reachable state. -/
theorem production_task_finished_once (s : Sched) (h : Pfdl.Props.C14.Reachable s) :
    ((rootNotes s.hist).filter (fun n => n.kind == .tf)).length = if s.started && s.run.isFin then 1 else 0 := by
  have ht := (Pfdl.Props.C14.reachable_inv h).2
  rw [ht.root]
  cases hs : s.started
  · simp
  · have hk := ht.rootK hs
    cases hf : s.run.isFin <;> simp [Sched.rootTS, hk.1]

/-- non-vacuity: an order with two services, one completed re-entrantly, runs to completion:
    finished, not running, nothing awaited -/
def exProg : Prog :=
  { tasks := [{ name := "productionTask", line := 1,
                body := [.svc { name := "A", ins := [], line := 2 }, .svc { name := "B", ins := [], line := 3 }] }] }
def exEE : EE := { ans := fun _ => none, imm := fun k => k == 1 }
def exState : Sched := (Sched.init exProg true).runOps exEE 20 [.start, .fire (.svcFinished 0)]

example : exState.run.isFin = true ∧ exState.running = false ∧ exState.st.awaited = [] ∧ exState.started = true := by
  decide

end Pfdl.Props.C01
