import PfdlProofs.Laws
/-! C03 – Parallel blocks fork all branches at once and join before continuing.

Statements about what the model does at a Parallel block, for every program, branch list, state,
execution engine and fuel. -/
namespace Pfdl.Props.C03
open Pfdl

/-- FORK: when a Parallel block is reached every task listed in it is started during that same
    scheduler call, in the order written (the same task may appear several times); notifications
    of tasks called inside the branches may lie in between. -/
theorem fork_all_at_once (P : Prog) (ee : EE) (f : Nat) (cs : List CallSite) (line : Nat) (env : Env) (s : St)
    (hst : (enter P ee (f+1) (.par cs line) env s).2.stuck = none) :
    (tsSites s.out ++ cs.map (fun c => (c.name, c.line))).Sublist (tsSites (enter P ee (f+1) (.par cs line) env s).2.out) := by
  simp only [enter] at hst ⊢
  split
  · rename_i h; rw [if_pos h] at hst; exact enterCalls_fork P ee f cs env env.inLoop _ 0 _ true s hst
  · rename_i h; rw [if_neg h] at hst; exact enterCalls_fork P ee f cs env env.inLoop _ 0 _ true s hst

/-- INDEPENDENCE: a completion delivered to a fork changes the run state of exactly one branch (the
    one waiting for it); all other branches keep their state -/
theorem branches_independent (P : Prog) (ee : EE) (f i : Nat) (rs rs' : List Run) (s s' : St)
    (h : deliverL P ee f i rs s = some (rs', s')) :
    ∃ k r', k < rs.length ∧ rs' = rs.set k r' ∧ deliver P ee f i (rs[k]?.getD .fin) s = some (r', s') ∧
      ∀ j, j < k → i ∉ (rs[j]?.getD .fin).waiting :=
  deliverL_frame P ee f i rs s rs' s' h

/-- JOIN: the statement after the block (`rest`) is entered in the very call in which the last
    branch finishes, and not before: while a branch is unfinished the block stays and `rest` is
    untouched; when the delivery makes all branches finished, `rest` is entered in the same call. -/
theorem join_then_continue (P : Prog) (ee : EE) (f i : Nat) (rs : List Run) (rest : List Stmt) (env : Env) (s : St)
    (rs' : List Run) (s1 : St) (h : deliverL P ee f i rs s = some (rs', s1)) :
    deliver P ee f i (.blk (.par rs) rest env) s =
      if rs'.all Run.isFin then some (enterBlk P ee f rest env s1) else some (.blk (.par rs') rest env, s1) := by
  simp only [deliver, h]
  by_cases hall : rs'.all Run.isFin = true
  · simp [hall]
  · simp [hall]

/-- a block is reported joined when entered only if every branch already finished within the call -/
theorem join_on_entry (P : Prog) (ee : EE) (f : Nat) (cs : List CallSite) (line : Nat) (env : Env) (s : St) :
    ((enter P ee (f+1) (.par cs line) env s).1 = .fin ↔
      (enterCalls P ee f cs env env.inLoop (fun _ => env.binds) 0 s.pend.length true s).1.all Run.isFin = true) := by
  simp only [enter]
  split
  · rename_i h; simp [h]
  · rename_i h; simp [h]

/-- in every reachable state a Parallel node that is still in the run tree has an unfinished branch
    (normal form), so "joined" and "all branches finished" coincide at all times -/
theorem open_fork_has_open_branch (rs : List Run) (h : (Run.par rs).Norm) : rs.all Run.isFin = false := by
  simp only [Run.Norm] at h; exact h.2

/-- non-vacuity: two branches of different length; forked in one call, joined by the last completion -/
def exProg : Prog :=
  { tasks := [{ name := "productionTask", line := 1,
                body := [.par [{ name := "a", ins := [], line := 3 }, { name := "b", ins := [], line := 4 }] 2,
                         .svc { name := "Z", ins := [], line := 5 }] },
              { name := "a", line := 7, body := [.svc { name := "A", ins := [], line := 8 }] },
              { name := "b", line := 10, body := [.svc { name := "B", ins := [], line := 11 }, .svc { name := "C", ins := [], line := 12 }] }] }
def exEE : EE := { ans := fun _ => none, imm := fun _ => false }
def s1 : Sched := (Sched.init exProg true).runOps exEE 50 [.start]
def s2 : Sched := s1.runOps exEE 50 [.fire (.svcFinished 1), .fire (.svcFinished 0)]
def s3 : Sched := s2.runOps exEE 50 [.fire (.svcFinished 2)]
example : tsSites s1.hist = [("productionTask", 1), ("a", 3), ("b", 4)] ∧ s1.outstanding = [0, 1] ∧
    s2.outstanding = [2] ∧ s3.outstanding = [3] := by decide

end Pfdl.Props.C03
