import PfdlModel.Net
/-! C08 at the net layer (the model of `Scheduler.fire_event` as the code does it, the one that is also called
    re-entrantly from inside notifications): an event that is not awaited is refused without any effect, whatever the
    state of the net - also in the middle of a delivery, also the completion that is being delivered right now (it
    has been taken out of the awaited events before it was forwarded). -/
namespace Pfdl.Net.C08
open Pfdl

/-- not awaited ⇒ refused, and the scheduler object is exactly as before (with fuel left) -/
theorem refused_no_effect (ee : EE) (f : Nat) (ev : AEv) (s : NS) (h : ev ∉ s.awaited) :
    fireEv ee (f + 1) ev s = (false, s) := by
  simp only [Net.fireEv]
  split
  · rfl
  · have : s.awaited.idxOf? ev = none := by
      unfold List.idxOf?
      rw [List.findIdx?_eq_none_iff]
      intro x hx
      cases hb : (x == ev) with
      | false => rfl
      | true =>
        have : x = ev := by simpa using hb
        subst this; exact absurd hx h
    rw [this]

/-- the public call: an event that is not awaited is answered False and leaves no trace beyond the emptied
    per-call output buffer -/
theorem fire_refused (ee : EE) (f : Nat) (ev : AEv) (s : NS) (h : ev ∉ s.awaited) :
    (step ee (f + 1) s (.fire ev)).ret = some false ∧
    (step ee (f + 1) s (.fire ev)).s = { s with out := #[], exc := none } := by
  simp only [Net.step]
  split
  · have := refused_no_effect ee f ev ({ s with out := #[], exc := none } : NS) h
    rw [this]
    exact ⟨rfl, rfl⟩
  · exact ⟨rfl, rfl⟩

/-- start() on an order whose start event has been consumed: answered True (valid program), nothing happens -/
theorem start_again_no_effect (ee : EE) (fuel : Nat) (s : NS) (hv : s.valid = true) (h : AEv.start ∉ s.awaited) :
    (step ee fuel s .start).ret = some true ∧ (step ee fuel s .start).s = { s with out := #[], exc := none } := by
  simp only [Net.step, hv]
  simp [h]

/-- while a completion is being delivered it is not awaited: the event is taken out of the awaited events before
    the net is evaluated (so reporting it again from inside a notification is refused) -/
theorem erased_before_delivery (l : List AEv) (ev : AEv) (idx : Nat) (h : l.idxOf? ev = some idx) (hn : l.Nodup) :
    ev ∉ l.eraseIdx idx := by
  unfold List.idxOf? at h
  have h1 := List.of_findIdx?_eq_some h
  have hlt : idx < l.length := by
    cases hq : l[idx]? with
    | none => simp [hq] at h1
    | some b => exact (List.getElem?_eq_some_iff.mp hq).1
  have hget : l[idx] = ev := by
    have : l[idx]? = some l[idx] := by simp [hlt]
    rw [this] at h1
    simpa using h1
  intro hm
  rw [List.mem_eraseIdx_iff_getElem] at hm
  obtain ⟨j, hj, hne, hje⟩ := hm
  exact hne ((List.getElem_inj hn).mp (hje.trans hget.symm))

end Pfdl.Net.C08
