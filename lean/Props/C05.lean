import PfdlProofs.Laws
set_option linter.unusedSimpArgs false
/-! C05 – loops iterate exactly as often as their bound or guard dictates. -/
namespace Pfdl.Props.C05
open Pfdl

/-- COUNTING LOOP, one step: the limit is read (anew, before every iteration); iteration `c` runs
    iff `c < limit`, with the counting variable bound to `c`; when the body completes within the
    call the next iteration is decided in the same call; the loop is left at the first `c` with
    `¬ c < limit` -/
theorem counting_step (P : Prog) (ee : EE) (f c : Nat) (v : String) (lim : Limit) (body : List Stmt) (env : Env) (s : St) (n : Rat)
    (h : (s.readLimit ee lim env.ctx).1 = some n) :
    iterC P ee (f+1) c v lim body env s =
      if (c : Rat) < n then
        (let x := enterBlk P ee f body { env with inLoop := true, binds := (v, c) :: env.binds } (s.readLimit ee lim env.ctx).2
         if x.1.isFin then iterC P ee f (c+1) v lim body env x.2 else (.cloop c v lim body env x.1, x.2))
      else (.fin, (s.readLimit ee lim env.ctx).2) := by
  simp only [iterC]
  split
  · rename_i hn; rw [hn] at h; simp at h
  · rename_i m hm
    rw [hm] at h; simp at h; subst h
    split
    · split
      · rename_i s1 heq; rw [heq]; simp
      · rename_i r s1 hne heq; rw [heq]; simp [Run.isFin_eq_false_of_ne hne]
    · rfl

/-- … and a blocked iteration resumes there: when the delivered completion finishes the body, the
    counter is advanced by one and the next iteration is decided in the same call -/
theorem counting_resume (P : Prog) (ee : EE) (f i c : Nat) (v : String) (lim : Limit) (body : List Stmt) (env : Env)
    (r : Run) (s s1 : St) (h : deliver P ee f i r s = some (.fin, s1)) :
    deliver P ee f i (.cloop c v lim body env r) s = some (iterC P ee f (c+1) v lim body env s1) := by
  simp only [deliver, h]

/-- a counting loop always starts at 0 when it is reached – every time it is reached -/
theorem counting_starts_at_zero (P : Prog) (ee : EE) (f : Nat) (v : String) (lim : Limit) (body : List Stmt) (line : Nat) (env : Env) (s : St) :
    enter P ee (f+1) (.cloop v lim body line) env s = iterC P ee f 0 v lim body env s := by simp [enter]

/-- EXACT COUNT (literal limit, bodies that complete within the call): if every execution of the
    body finishes within the call and announces exactly `m` services, a loop with literal limit `N`
    entered at counter `c ≤ N` finishes within the call having announced exactly `m * (N - c)`
    services – i.e. the body ran exactly `N - c` times (from `c = 0`: `max N 0` times) – for every
    fuel that suffices (no `outOfFuel`). -/
theorem counting_exact (P : Prog) (ee : EE) (v : String) (N : Nat) (body : List Stmt) (env : Env) (m : Nat)
    (hbody : ∀ f c s0, (enterBlk P ee f body { env with inLoop := true, binds := (v, c) :: env.binds } s0).2.stuck = none →
      (enterBlk P ee f body { env with inLoop := true, binds := (v, c) :: env.binds } s0).1 = .fin ∧
      (enterBlk P ee f body { env with inLoop := true, binds := (v, c) :: env.binds } s0).2.ctrS = s0.ctrS + m) :
    (f : Nat) → (c : Nat) → (s : St) → c ≤ N → (iterC P ee f c v (.lit N) body env s).2.stuck = none →
      (iterC P ee f c v (.lit N) body env s).1 = .fin ∧ (iterC P ee f c v (.lit N) body env s).2.ctrS = s.ctrS + m * (N - c)
  | 0, c, s, _, hst => by simp only [iterC] at hst; exact absurd hst (St.setStuck_stuck_ne _ _)
  | f+1, c, s, hc, hst => by
      have hlim : (s.readLimit ee (.lit (N : Int)) env.ctx) = (some ((N : Int) : Rat), s) := rfl
      rw [counting_step P ee f c v (.lit N) body env s ((N : Int) : Rat) (by rw [hlim])] at hst ⊢
      rw [hlim] at hst ⊢
      simp only [] at hst ⊢
      by_cases hlt : ((c : Rat) < ((N : Int) : Rat))
      · rw [if_pos hlt] at hst ⊢
        have hcN : c < N := by
          rw [Rat.intCast_natCast] at hlt
          exact Rat.natCast_lt_natCast.1 hlt
        by_cases hfin : (enterBlk P ee f body { env with inLoop := true, binds := (v, c) :: env.binds } s).1.isFin = true
        · rw [if_pos hfin] at hst ⊢
          have hok := iterC_ok P ee f (c+1) v (.lit N) body env
            (enterBlk P ee f body { env with inLoop := true, binds := (v, c) :: env.binds } s).2
          have hb := hbody f c s (hok.clean hst).2
          have ih := counting_exact P ee v N body env m hbody f (c+1) _ (by omega) hst
          refine ⟨ih.1, ?_⟩
          rw [ih.2, hb.2]
          have : N - c = (N - (c+1)) + 1 := by omega
          rw [this, Nat.mul_add]; omega
        · rw [if_neg hfin] at hst
          simp only [] at hst
          have hb := hbody f c s hst
          rw [hb.1] at hfin; simp at hfin
      · rw [if_neg hlt] at hst ⊢
        have hcN : ¬ c < N := by
          intro h
          apply hlt
          rw [Rat.intCast_natCast]
          exact Rat.natCast_lt_natCast.2 h
        have : N - c = 0 := by omega
        simp [this]

/-- WHILE LOOP, one step: the guard is evaluated before every iteration against current values (its
    variables are queried with the enclosing task instance as context); the body runs once per
    true evaluation; the loop is left at the first false one -/
theorem while_step (P : Prog) (ee : EE) (f : Nat) (e : Expr) (body : List Stmt) (env : Env) (s : St) (w : Val)
    (h : (s.evalExpr ee e env.ctx).1 = some w) :
    iterW P ee (f+1) e body env s =
      if w.truthy then
        (let x := enterBlk P ee f body { env with inLoop := true } (s.evalExpr ee e env.ctx).2
         if x.1.isFin then iterW P ee f e body env x.2 else (.wloop e body env x.1, x.2))
      else (.fin, (s.evalExpr ee e env.ctx).2) := by
  simp only [iterW]
  split
  · rename_i hn; rw [hn] at h; simp at h
  · rename_i m hm
    rw [hm] at h; simp at h; subst h
    split
    · split
      · rename_i s1 heq; rw [heq]; simp
      · rename_i r s1 hne heq; rw [heq]; simp [Run.isFin_eq_false_of_ne hne]
    · rfl

theorem while_resume (P : Prog) (ee : EE) (f i : Nat) (e : Expr) (body : List Stmt) (env : Env)
    (r : Run) (s s1 : St) (h : deliver P ee f i r s = some (.fin, s1)) :
    deliver P ee f i (.wloop e body env r) s = some (iterW P ee f e body env s1) := by
  simp only [deliver, h]

/-- non-vacuity of `counting_exact`: body `A` completing immediately, `m = 1`: `Loop i To 3 / Loop j To 2 / A`
    announces 6 services (nested loops restart at 0 each time they are reached) -/
def exProg : Prog :=
  { tasks := [{ name := "productionTask", line := 1,
                body := [.cloop "i" (.lit 3) [.cloop "j" (.lit 2) [.svc { name := "A", ins := [], line := 4 }] 3] 2] }] }
def exEE : EE := { ans := fun _ => none, imm := fun _ => true }
example : ((Sched.init exProg true).runOps exEE 30 [.start]).st.ctrS = 6 ∧
    ((Sched.init exProg true).runOps exEE 30 [.start]).run.isFin = true := by decide +kernel

theorem single_service_body (P : Prog) (ee : EE) (himm : ∀ k, ee.imm k = true) (site : CallSite) (v : String) (env : Env) :
    ∀ f c s0, (enterBlk P ee f [.svc site] { env with inLoop := true, binds := (v, c) :: env.binds } s0).2.stuck = none →
      (enterBlk P ee f [.svc site] { env with inLoop := true, binds := (v, c) :: env.binds } s0).1 = .fin ∧
      (enterBlk P ee f [.svc site] { env with inLoop := true, binds := (v, c) :: env.binds } s0).2.ctrS = s0.ctrS + 1 := by
  intro f c s0 hst
  match f with
  | 0 => simp only [enterBlk] at hst; exact absurd hst (St.setStuck_stuck_ne _ _)
  | 1 => simp only [enterBlk, enter] at hst; exact absurd hst (St.setStuck_stuck_ne _ _)
  | f+2 => simp [enterBlk, enter, himm]

end Pfdl.Props.C05
