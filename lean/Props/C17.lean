import PfdlProofs.Prov
import Props.C14
set_option linter.unusedSimpArgs false
/-! C17 – observers get a log mirroring the notifications; order-finished flagged once. -/
namespace Pfdl.Props.C17
open Pfdl Pfdl.Props.C14

/-- log entries among the outputs of a call: (observer, notification, order-finished flag) in order -/
def logs (outs : List Out) : List (Nat × Note × Bool) :=
  outs.filterMap (fun o => match o with | .log ob n f => some (ob, n, f) | _ => none)

/-- the notification a core event stands for (service started: `ann`; the other three kinds: `note`) -/
def Ev.notif : Ev → Option Note
  | .ann n => some n
  | .note n => some n
  | _ => none

/-- the order-finished flag as `on_task_finished` computes it -/
def flagOf (n : Note) : Bool := n.kind == .tf && n.name == Generated.startTaskName

theorem logs_append (a b : List Out) : logs (a ++ b) = logs a ++ logs b := by simp [logs]
theorem logs_all_inv (l : List Out) (h : ∀ x ∈ l, ∃ fn n, x = Out.inv fn n) : logs l = [] := by
  induction l with
  | nil => rfl
  | cons x l ih =>
    obtain ⟨fn, n, rfl⟩ := h x (by simp)
    have := ih (fun y hy => h y (by simp [hy]))
    simpa [logs] using this
theorem logs_map_inv (fs : List Nat) (n : Note) : logs (fs.map (Out.inv · n)) = [] :=
  logs_all_inv _ (by intro x hx; simp at hx; obtain ⟨a, _, rfl⟩ := hx; exact ⟨a, n, rfl⟩)
theorem logs_net (obs : List Nat) : logs (obs.map Out.netUpd) = [] := by
  induction obs with
  | nil => rfl
  | cons o obs ih => simp [logs] at ih ⊢
theorem logs_logOf (obs : List Nat) (n : Note) : logs (logOf obs n) = obs.map (fun o => (o, n, flagOf n)) := by
  induction obs with
  | nil => rfl
  | cons o obs ih => simp [logs, logOf, flagOf] at ih ⊢; exact ih

/-- what one core event contributes to the observers' log: one entry per attached observer, in
    attachment order, for exactly the events that are notifications -/
theorem log_of_event (ls : Listeners) (obs : List Nat) (e : Ev) :
    logs (expand ls obs e) = match Ev.notif e with
      | some n => obs.map (fun o => (o, n, flagOf n))
      | none => [] := by
  cases e with
  | ann n =>
    simp only [expand, logs_append, logs_logOf, Ev.notif]
    rw [logs_map_inv]; simp
  | late n => simp only [expand, Ev.notif]; rw [logs_map_inv]
  | note n =>
    simp only [expand, logs_append, logs_logOf, logs_map_inv, Ev.notif]
    split <;> simp [logs_net, logs]
  | var x c => rfl
  | fire i => rfl
  | ret i => rfl

/-- Mirror: the log entries issued during a call are, in order, one block per notification – every
    attached observer in attachment order – for exactly the task/service started/finished
    notifications of that call, naming the same entity and identifier (the entry *is* the note). -/
theorem mirror (ls : Listeners) (obs : List Nat) (evs : List Ev) :
    logs (evs.flatMap (expand ls obs)) = (evs.filterMap Ev.notif).flatMap (fun n => obs.map (fun o => (o, n, flagOf n))) := by
  induction evs with
  | nil => rfl
  | cons e evs ih =>
    simp only [List.flatMap_cons, logs_append, ih, log_of_event]
    cases h : Ev.notif e <;> simp [List.filterMap_cons, h]

/-- log entries and net notices only ever go to attached observers -/
theorem expand_receivers (ls : Listeners) (obs : List Nat) (e : Ev) (x : Out) (hx : x ∈ expand ls obs e) :
    (∀ a n f, x = Out.log a n f → a ∈ obs) ∧ (∀ a, x = Out.netUpd a → a ∈ obs) := by
  have hinv : ∀ (l : List Nat) (n : Note), x ∈ l.map (Out.inv · n) →
      (∀ a n f, x = Out.log a n f → a ∈ obs) ∧ (∀ a, x = Out.netUpd a → a ∈ obs) := by
    intro l n hm
    simp at hm
    obtain ⟨a, _, rfl⟩ := hm
    exact ⟨(by intro a n f h; cases h), (by intro a h; cases h)⟩
  have hlog : ∀ (n : Note), x ∈ logOf obs n →
      (∀ a n f, x = Out.log a n f → a ∈ obs) ∧ (∀ a, x = Out.netUpd a → a ∈ obs) := by
    intro n hm
    simp [logOf] at hm
    obtain ⟨a, ha, rfl⟩ := hm
    exact ⟨(by intro a' n' f h; cases h; exact ha), (by intro a h; cases h)⟩
  cases e with
  | ann n =>
    simp only [expand] at hx
    rcases List.mem_append.1 hx with h | h
    · exact hlog n h
    · exact hinv _ n h
  | late n => simp only [expand] at hx; exact hinv _ n hx
  | note n =>
    simp only [expand] at hx
    rcases List.mem_append.1 hx with h | h
    · rcases List.mem_append.1 h with h | h
      · exact hinv _ n h
      · split at h
        · simp at h
          obtain ⟨a, ha, rfl⟩ := h
          exact ⟨(by intro a n f h; cases h), (by intro a' h; cases h; exact ha)⟩
        · simp at h
    · exact hlog n h
  | var y c => simp [expand] at hx; subst hx; exact ⟨(by intro a n f h; cases h), (by intro a h; cases h)⟩
  | fire i => simp [expand] at hx; subst hx; exact ⟨(by intro a n f h; cases h), (by intro a h; cases h)⟩
  | ret i => simp [expand] at hx; subst hx; exact ⟨(by intro a n f h; cases h), (by intro a h; cases h)⟩

/-- a detached (not attached) observer receives nothing – no log entry, no net notice -/
theorem detached_receives_nothing (ls : Listeners) (obs : List Nat) (evs : List Ev) (o : Nat) (ho : o ∉ obs) :
    ∀ x ∈ evs.flatMap (expand ls obs) ++ obs.map Out.netUpd,
      (∀ n f, x ≠ Out.log o n f) ∧ x ≠ Out.netUpd o := by
  intro x hx
  rcases List.mem_append.1 hx with hx | hx
  · obtain ⟨e, _, hxe⟩ := List.mem_flatMap.1 hx
    have := expand_receivers ls obs e x hxe
    exact ⟨fun n f h => ho (this.1 o n f h), fun h => ho (this.2 o h)⟩
  · simp at hx
    obtain ⟨a, ha, rfl⟩ := hx
    exact ⟨(by simp), (by intro h; cases h; exact ho ha)⟩

/-- every accepted event (and an accepted start) is followed, before the call returns, by a
    net-updated notice to every attached observer: the outputs of the call end with it -/
theorem net_notice (s : Sched) (ee : EE) (fuel : Nat) (e : Event) (hacc : (s.fire ee fuel e).ret = true) :
    s.observers.map Out.netUpd <:+ (s.fire ee fuel e).out := by
  cases e with
  | other => simp [Sched.fire_other] at hacc
  | start =>
    rw [Sched.fire_start] at hacc ⊢
    split
    · exact List.suffix_append _ _
    · rename_i hc; rw [if_neg hc] at hacc; simp at hacc
  | svcFinished i =>
    rw [Sched.fire_svc] at hacc ⊢
    split
    · split
      · exact List.suffix_append _ _
      · rename_i hc _ hnone; rw [if_pos hc, hnone] at hacc; simp at hacc
    · rename_i hc; rw [if_neg hc] at hacc; simp at hacc

/-- the entries that carry the order-finished flag, over a list of core events -/
def flagged (evs : List Ev) : List Note := (evs.filterMap Ev.notif).filter flagOf

theorem flagged_eq_root (A : CallSite → Prop) (hA : ∀ c, A c → c.name ≠ Generated.startTaskName) (evs : List Ev)
    (h : ∀ e ∈ evs, e.FromR A) : flagged evs = (rootNotes evs).filter flagOf := by
  induction evs with
  | nil => rfl
  | cons e evs ih =>
    have hrest := ih (fun x hx => h x (by simp [hx]))
    have he := h e (by simp)
    unfold flagged at hrest ⊢
    rw [rootNotes_cons]
    cases e with
    | ann n =>
      rcases he with hf | ⟨m, hm, _⟩
      · obtain ⟨c, hc, hname, _⟩ := hf
        have hnf : flagOf n = false := by
          simp [flagOf]; intro _; rw [hname]; exact hA c hc
        by_cases hctx : n.ctx = none <;> simp [Ev.notif, Ev.rootNote, hctx, hnf, List.filter_cons, hrest]
      · cases hm
    | note n =>
      rcases he with hf | ⟨m, hm, hmc⟩
      · obtain ⟨c, hc, hname, _⟩ := hf
        have hnf : flagOf n = false := by
          simp [flagOf]; intro _; rw [hname]; exact hA c hc
        by_cases hctx : n.ctx = none <;> simp [Ev.notif, Ev.rootNote, hctx, hnf, List.filter_cons, hrest]
      · cases hm
        simp [Ev.notif, Ev.rootNote, hmc, List.filter_cons, hrest]
    | late n => simp only [List.filterMap_cons, Ev.notif, Ev.rootNote, Option.toList, List.nil_append]; exact hrest
    | var x c => simp only [List.filterMap_cons, Ev.notif, Ev.rootNote, Option.toList, List.nil_append]; exact hrest
    | fire i => simp only [List.filterMap_cons, Ev.notif, Ev.rootNote, Option.toList, List.nil_append]; exact hrest
    | ret i => simp only [List.filterMap_cons, Ev.notif, Ev.rootNote, Option.toList, List.nil_append]; exact hrest

/-- Exactly one log entry carries the order-finished flag, and only once the order has finished: it
    is the production task's task-finished entry – over the whole history of any reachable state of
    a program in which no call site names the production task (validation rejects recursion). -/
theorem flag_once (s : Sched) (h : Reachable s) (hno : ∀ c ∈ s.prog.sites, c.name ≠ Generated.startTaskName) :
    flagged s.hist = if s.started && s.run.isFin then [s.rootNote] else [] := by
  obtain ⟨P, v, ee, fuel, ops, rfl⟩ := h
  have hall := Sched.runOps_all ee fuel ops _ (Sched.init_inv P v) (Sched.init_tinv P v) (Sched.init_pinv P v)
  rw [flagged_eq_root (· ∈ ((Sched.init P v).runOps ee fuel ops).prog.sites) (fun c hc => hno c hc) _ hall.2.2.hist, hall.2.1.root]
  cases hs : ((Sched.init P v).runOps ee fuel ops).started
  · simp
  · have hk := hall.2.1.rootK hs
    have hn := hall.2.2.rootName hs
    cases hf : ((Sched.init P v).runOps ee fuel ops).run.isFin <;>
      simp [Sched.rootTS, flagOf, hk.1, hn, List.filter_cons]

/-- non-vacuity: two observers, one service; the finishing call logs SF then flagged TF, to both -/
def exProg : Prog :=
  { tasks := [{ name := "productionTask", line := 1, body := [.svc { name := "A", ins := [], line := 2 }] }] }
def exEE : EE := { ans := fun _ => none, imm := fun _ => false }
def exS : Sched := (((Sched.init exProg true).attach 4).attach 9).runOps exEE 20 [.start]
example : (logs (exS.fire exEE 20 (.svcFinished 0)).out).map (fun x => (x.1, x.2.1.kind, x.2.2))
    = [(4, .sf, false), (9, .sf, false), (4, .tf, true), (9, .tf, true)] := by decide

end Pfdl.Props.C17
