import Props.C10
import PfdlProofs.CheckTotal
set_option linter.unusedSimpArgs false
/-! C09 – validation is sound: accepted programs schedule without internal errors.

What acceptance guarantees statically (validation model), i.e. the absence of the static causes of
an internal error in the scheduler model (`Sched`: a task look-up that fails, a production task that
does not exist, unbounded unfolding of a self-call, a loop limit that is no number).  The dynamic
part – driving accepted programs with well-typed values to the end – is checked on the
implementation by the harness (with the scheduler correspondence of C01–C08 behind it);
Python's recursion limit is runtime (finding K9). -/
namespace Pfdl.Props.C09
open Pfdl Pfdl.Check Pfdl.Props.C10

/-- every task call of an accepted program – at any nesting depth, also as body of a parallel loop –
    names a defined task -/
theorem accepted_calls_resolve (p : Check.Prog) (h : validate p = some []) (t : Check.Task) (c : Call)
    (hn : Nested p t (.call c)) : (mkEnv p).task? c.name ≠ none := by
  intro hu
  exact unknown_task p [] h t c hn hu rfl

theorem par_bad (env : Env) (vars : List (String × Ty)) (c : Call) (hu : env.task? c.name = none) :
    (cs : List Call) → c ∈ cs → (a0 r : List Err) →
    cs.foldl (fun acc c => optAppend acc ((checkTaskCall env vars c).map (atLine c.line))) (some a0) = some r → r ≠ []
  | [], hc, _, _, _ => by simp at hc
  | d :: cs, hc, a0, r, h => by
      simp only [List.foldl_cons] at h
      cases hd : (checkTaskCall env vars d).map (atLine d.line) with
      | none =>
        rw [hd] at h
        have hnone : ∀ (l : List Call), l.foldl (fun acc c => optAppend acc ((checkTaskCall env vars c).map (atLine c.line))) none = none := by
          intro l; induction l with
          | nil => rfl
          | cons y ys ih =>
            simp only [List.foldl_cons]
            have : optAppend none ((checkTaskCall env vars y).map (atLine y.line)) = none := by
              cases (checkTaskCall env vars y).map (atLine y.line) <;> rfl
            rw [this]; exact ih
        have : optAppend (some a0) none = none := rfl
        rw [this, hnone] at h; simp at h
      | some y =>
        rw [hd] at h
        simp only [optAppend] at h
        simp at hc
        rcases hc with rfl | hc
        · -- this branch reports the unknown task; whatever follows keeps it
          have hy : y ≠ [] := by
            simp [checkTaskCall, hu, atLine] at hd
            rw [← hd]; simp
          have key : ∀ (l : List Call) (b0 r' : List Err), b0 ≠ [] →
              l.foldl (fun acc c => optAppend acc ((checkTaskCall env vars c).map (atLine c.line))) (some b0) = some r' → r' ≠ [] := by
            intro l
            induction l with
            | nil => intro b0 r' hb hr; simp at hr; subst hr; exact hb
            | cons z zs ih =>
              intro b0 r' hb hr
              simp only [List.foldl_cons] at hr
              cases hz : (checkTaskCall env vars z).map (atLine z.line) with
              | none =>
                rw [hz] at hr
                have : optAppend (some b0) none = none := rfl
                have hnone : ∀ (l : List Call), l.foldl (fun acc c => optAppend acc ((checkTaskCall env vars c).map (atLine c.line))) none = none := by
                  intro l; induction l with
                  | nil => rfl
                  | cons y ys ih2 =>
                    simp only [List.foldl_cons]
                    have : optAppend none ((checkTaskCall env vars y).map (atLine y.line)) = none := by
                      cases (checkTaskCall env vars y).map (atLine y.line) <;> rfl
                    rw [this]; exact ih2
                rw [this, hnone] at hr; simp at hr
              | some w =>
                rw [hz] at hr
                simp only [optAppend] at hr
                exact ih (b0 ++ w) r' (reports_of_append_left hb) hr
          exact key cs (a0 ++ y) r (reports_of_append_right hy) h
        · exact par_bad env vars c hu cs hc (a0 ++ y) r h

/-- … and so does every branch of every Parallel block -/
theorem accepted_parallel_branches_resolve (p : Check.Prog) (h : validate p = some []) (t : Check.Task) (cs : List Call) (l : Nat)
    (c : Call) (hn : Nested p t (.par cs l)) (hc : c ∈ cs) : (mkEnv p).task? c.name ≠ none := by
  intro hu
  apply nested_fault_reported p [] h t _ hn _ rfl
  simp only [Bad, checkStmt]
  intro hbad
  exact par_bad (mkEnv p) t.variables c hu cs hc [] [] hbad rfl

/-- an accepted program has its production task -/
theorem accepted_has_production_task (p : Check.Prog) (h : validate p = some []) :
    (mkEnv p).tasks.any (·.name == Generated.startTaskName) = true := by
  cases hb : (mkEnv p).tasks.any (·.name == Generated.startTaskName) with
  | true => rfl
  | false => exact absurd rfl (no_production_task p [] h hb)

/-- no task of an accepted program calls itself directly -/
theorem accepted_no_direct_recursion (p : Check.Prog) (h : validate p = some []) (t : Check.Task) (c : Call)
    (hm : t ∈ (mkEnv p).tasks) (hc : c ∈ callsL t.body) : c.name ≠ t.name := by
  intro hself
  exact recursion_direct p [] h t c hm hc hself rfl

/-- a loop limit of an accepted program that is given as attribute access is typed `number`
    (so the scheduler's limit comparison gets a number from a well-typed execution engine) -/
theorem accepted_limits_are_numbers (p : Check.Prog) (h : validate p = some []) (t : Check.Task)
    (par : Bool) (v : String) (path : List String) (body : List Stmt) (line : Nat)
    (hn : Nested p t (.cloop par v (some path) body line)) :
    exprIsNumber (mkEnv p) t.variables (.path path) = some true := by
  cases hnum : exprIsNumber (mkEnv p) t.variables (.path path) with
  | some b =>
    cases b with
    | true => rfl
    | false =>
      exfalso
      apply nested_fault_reported p [] h t _ hn _ rfl
      simp only [Bad, checkStmt, checkLimit, hnum]
      cases hacc : checkAccessExpr (mkEnv p) t.variables path <;> simp [atLine]
  | none =>
    exfalso
    apply nested_fault_reported p [] h t _ hn _ rfl
    simp only [Bad, checkStmt, checkLimit, hnum]
    cases hacc : checkAccessExpr (mkEnv p) t.variables path <;> simp [atLine]

/-- the guards of an accepted program - Conditions and While Loops at any nesting depth - contain, at any depth of
    the expression, only And / Or whose operands count as boolean: the scheduler's `operator.and_` / `or_` never get a
    float (the TypeError repaired by `fix:` 454dcae) -/
theorem accepted_condition_logic_ok (p : Check.Prog) (h : validate p = some []) (t : Check.Task)
    (e : Expr) (ps fs : List Stmt) (line : Nat) (hn : Nested p t (.cond e ps fs line)) :
    LogicOk (mkEnv p) t.variables e :=
  Classical.byContradiction fun hb => logic_operand_in_condition p [] h t e ps fs line hn hb rfl

theorem accepted_while_logic_ok (p : Check.Prog) (h : validate p = some []) (t : Check.Task)
    (e : Expr) (body : List Stmt) (line : Nat) (hn : Nested p t (.wloop e body line)) :
    LogicOk (mkEnv p) t.variables e :=
  Classical.byContradiction fun hb => logic_operand_in_while_guard p [] h t e body line hn hb rfl

/-- more generally: in the guards of an accepted program every operator is applied, at every depth, to operands of
    its kind (arithmetic to numbers, ordering to two numbers or two strings, And / Or to booleans) - so the Python
    operators the scheduler applies get operands they are defined on, as far as the checker's notions of number /
    string / boolean go (K7a: a boolean counts as a number, harmless in Python) -/
theorem accepted_condition_operands_ok (p : Check.Prog) (h : validate p = some []) (t : Check.Task)
    (e : Expr) (ps fs : List Stmt) (line : Nat) (hn : Nested p t (.cond e ps fs line)) :
    OperandsOk (mkEnv p) t.variables e :=
  Classical.byContradiction fun hb => ill_typed_operand_in_condition p [] h t e ps fs line hn hb rfl

theorem accepted_while_operands_ok (p : Check.Prog) (h : validate p = some []) (t : Check.Task)
    (e : Expr) (body : List Stmt) (line : Nat) (hn : Nested p t (.wloop e body line)) :
    OperandsOk (mkEnv p) t.variables e :=
  Classical.byContradiction fun hb => ill_typed_operand_in_while_guard p [] h t e body line hn hb rfl

end Pfdl.Props.C09
