import PfdlProofs.CheckTotal
import Props.C08
/-! C16 – validation always returns a verdict and the verdict matches the error output.

`Check.validate` models visitor + semantic checker on a syntactically valid program; `none` stands
for an exception escaping.  Arbitrary text through the ANTLR runtime (tokenisation, error recovery,
the recursion limit) is not modelled: there the property is enforced by the harness on mutated /
random texts (never raises, valid ⇔ no output, invalid ⇒ inert). -/
namespace Pfdl.Props.C16
open Pfdl Pfdl.Check

/-- the verdict is "valid" exactly when nothing was printed (and nothing raised) -/
theorem verdict_iff_no_output (p : Check.Prog) : accepts p = true ↔ validate p = some [] := by
  unfold accepts
  cases h : validate p with
  | none => simp
  | some es => cases es <;> simp

/-- TOTAL after parsing: for every program the parser can produce – well-formed or not, with any
    fault at any depth – visitor + semantic checker return a verdict; no look-up raises.
    (`goodProg`: attribute accesses have the shape the grammar gives them – an index only directly
    after an attribute.)  This theorem was false for the code as found (undeclared variables in
    operands, attribute access through arrays, negation as operand …): each counter-example was
    replayed on the implementation and repaired ("fix:" commits). -/
theorem total_after_parsing (p : Check.Prog) (hg : goodProg p = true) : ∃ errs, validate p = some errs :=
  validate_total p hg

/-- for an invalid program no order can be started: `start` reports failure, every event is
    rejected, the scheduler state does not change (scheduler model, C08) -/
theorem invalid_inert (s : Sched) (ee : EE) (fuel : Nat) (e : Event) (hv : s.valid = false) :
    (s.start ee fuel).ret = false ∧ (s.start ee fuel).sched = s ∧
    (s.fire ee fuel e).ret = false ∧ (s.fire ee fuel e).sched = s :=
  Pfdl.Props.C08.invalid_inert s ee fuel e hv

end Pfdl.Props.C16
