import PfdlProofs.ApiTrace
/-! C14 – instance identifiers are unique within an order and stable per instance.

`hist` is the (ghost) list of all core events a scheduler has emitted so far; `ssIds`/`tsIds` are
the identifiers carried by its service-started / task-started notifications in order, `sfIds`/`tfIds`
those of the finished notifications.  All statements hold after every history of API calls, for
every program, execution engine and fuel (`Sched.runOps_tinv`).  The model numbers identifiers as the
test-id mode does; the UUID mode is tied to it by the correspondence (canonical renaming). -/
namespace Pfdl.Props.C14
open Pfdl

/-- reachable: state after some history of API calls on a fresh scheduler -/
def Reachable (s : Sched) : Prop := ∃ P v ee fuel ops, s = (Sched.init P v).runOps ee fuel ops

theorem reachable_inv {s : Sched} (h : Reachable s) : s.Inv ∧ s.TInv := by
  obtain ⟨P, v, ee, fuel, ops, rfl⟩ := h
  exact Sched.runOps_tinv ee fuel ops _ (Sched.init_inv P v) (Sched.init_tinv P v)

/-- identifiers are issued consecutively: the k-th announced service carries id k, the k-th started
    task id k (what the test-id mode promises) -/
theorem ids_consecutive (s : Sched) (h : Reachable s) :
    ssIds s.hist = List.range s.st.ctrS ∧ tsIds s.hist = List.range s.st.ctrT :=
  ⟨(reachable_inv h).2.ss, (reachable_inv h).2.ts⟩

/-- no two service instances of an order carry the same identifier – loops and copies made by
    parallel loops included -/
theorem unique_services (s : Sched) (h : Reachable s) : (ssIds s.hist).Nodup := by
  rw [(reachable_inv h).2.ss]; exact List.nodup_range

/-- no two task instances of an order carry the same identifier -/
theorem unique_tasks (s : Sched) (h : Reachable s) : (tsIds s.hist).Nodup := by
  rw [(reachable_inv h).2.ts]; exact List.nodup_range

/-- the identifier reported when a service finishes was announced when it started, and is reported
    at most once; a task instance is reported finished under the identifier it was started with -/
theorem finished_ids_were_started (s : Sched) (h : Reachable s) (j : Nat) :
    (sfIds s.hist).count j ≤ (ssIds s.hist).count j ∧ (tfIds s.hist).count j ≤ (tsIds s.hist).count j := by
  have ht := (reachable_inv h).2
  have a := ht.sf j
  have b := ht.tf j
  omega

/-- The identifier whose completion event is accepted is the one reported finished, in that very
    call and before anything else happens: the core events of an accepted `service_finished i`
    begin with the service-finished notification for `i`. -/
theorem accepted_id_is_finished_id (s : Sched) (ee : EE) (fuel : Nat) (i : Nat) (h : Reachable s)
    (hacc : (s.fire ee fuel (.svcFinished i)).ret = true) :
    ∃ n : Note, n.kind = .sf ∧ n.id = i ∧
      [Ev.note n] <+: ((s.fire ee fuel (.svcFinished i)).sched.hist.drop s.hist.length) := by
  have hi := reachable_inv h
  rw [Sched.fire_svc] at hacc ⊢
  split
  · split
    · rename_i r st heq
      have hd := deliver_trace s.prog ee fuel i s.run { s.st with out := [] } r st heq hi.2.wf
      obtain ⟨n, hk, hid, hp⟩ := hd.first
      refine ⟨n, hk, hid, ?_⟩
      have hh := (Sched.finish_hist s r st).1
      simp only []
      rw [hh, List.drop_left']
      · simp at hp
        exact List.IsPrefix.trans hp (List.prefix_append _ _)
      · rfl
    · rename_i hc _ hnone
      rw [if_pos hc, hnone] at hacc
      simp at hacc
  · rename_i hc
    rw [if_neg hc] at hacc
    simp at hacc

/-- non-vacuity: a loop announces the same service three times with three different identifiers -/
def exProg : Prog :=
  { tasks := [{ name := "productionTask", line := 1,
                body := [.cloop "i" (.lit 3) [.svc { name := "A", ins := [], line := 3 }] 2] }] }
def exEE : EE := { ans := fun _ => none, imm := fun _ => true }
example : ssIds ((Sched.init exProg true).runOps exEE 50 [.start]).hist = [0, 1, 2] := by decide

end Pfdl.Props.C14
