import PfdlProofs.ApiInv
/-! C08 – only awaited events are accepted, each once; rejected events change nothing.

Model: `Sched.fire`, `Sched.start` (PfdlModel/Api.lean) over the structural core.  "Reachable" is
`Sched.Inv`, which holds after every history of API calls (`Sched.runOps_inv`). -/
namespace Pfdl.Props.C08
open Pfdl

/-- A completion event is accepted exactly when its service has been announced and has not
    completed yet (is a waiting leaf of the run) – in every reachable state, for every program,
    execution engine and fuel. -/
theorem accept_iff (s : Sched) (ee : EE) (fuel : Nat) (i : Nat) (h : s.Inv) :
    (s.fire ee fuel (.svcFinished i)).ret = true ↔ i ∈ s.outstanding := by
  rw [Sched.fire_svc]
  unfold Sched.outstanding
  constructor
  · intro hr
    split at hr
    · rename_i hc
      simp at hc
      have : 0 < s.st.awaited.count i := List.count_pos_iff.2 hc.2
      rw [h.perm i] at this
      exact List.count_pos_iff.1 this
    · simp at hr
  · intro hi
    have hcnt : 0 < s.run.waiting.count i := List.count_pos_iff.2 hi
    rw [← h.perm i] at hcnt
    have haw : i ∈ s.st.awaited := List.count_pos_iff.1 hcnt
    have hv : s.valid = true := by
      cases hv : s.valid
      · have := h.notStarted (h.invalid hv)
        rw [this] at hi; simp at hi
      · rfl
    have hc : (s.valid && s.st.awaited.contains i) = true := by simp [hv, haw]
    rw [if_pos hc]
    split
    · rfl
    · rename_i hnone
      exact absurd hi (deliver_none _ _ _ _ _ _ hnone)

/-- Events of any other kind are never accepted once the order has been started
    (the internal START event is the only other event the code ever awaits). -/
theorem accept_iff_partial (s : Sched) (ee : EE) (fuel : Nat) (e : Event) (h : s.Inv) (hs : s.started = true) :
    (s.fire ee fuel e).ret = true ↔ ∃ i, e = .svcFinished i ∧ i ∈ s.outstanding := by
  cases e with
  | start => simp [Sched.fire_start, hs]
  | svcFinished i =>
    rw [accept_iff s ee fuel i h]
    constructor
    · intro hi; exact ⟨i, rfl, hi⟩
    · rintro ⟨j, hj, hi⟩; cases hj; exact hi
  | other => simp [Sched.fire_other]

/-- The full statement ("accepted iff it reports completion of an outstanding service") is false
    on the current code before `start()`: the public `fire_event` accepts the internal START event
    (finding K8).  Witness: a valid one-task program, nothing called yet. -/
theorem accept_iff_full_false :
    ∃ (s : Sched) (ee : EE) (fuel : Nat), s.Inv ∧ (s.fire ee fuel .start).ret = true := by
  refine ⟨Sched.init { tasks := [{ name := "productionTask", body := [], line := 1 }] } true,
    { ans := fun _ => none, imm := fun _ => false }, 5, Sched.init_inv _ _, ?_⟩
  decide

/-- A rejected event changes nothing and produces nothing: the state is *equal* to the state before,
    so every continuation behaves as if the event had never been sent. -/
theorem reject_noop (s : Sched) (ee : EE) (fuel : Nat) (e : Event) (hr : (s.fire ee fuel e).ret = false) :
    (s.fire ee fuel e).sched = s ∧ (s.fire ee fuel e).out = [] := by
  cases e with
  | start =>
    rw [Sched.fire_start] at hr ⊢
    split
    · rename_i hc; rw [if_pos hc] at hr; simp at hr
    · exact ⟨rfl, rfl⟩
  | svcFinished i =>
    rw [Sched.fire_svc] at hr ⊢
    split
    · rename_i hc
      rw [if_pos hc] at hr
      split
      · rename_i r st heq; rw [heq] at hr; simp at hr
      · exact ⟨rfl, rfl⟩
    · exact ⟨rfl, rfl⟩
  | other => exact ⟨rfl, rfl⟩

/-- hence: a history with a rejected event inserted ends in the same state as the history without it -/
theorem as_if_never_sent (s : Sched) (ee : EE) (fuel : Nat) (e : Event) (ops : List Op)
    (hr : (s.fire ee fuel e).ret = false) :
    s.runOps ee fuel (.fire e :: ops) = s.runOps ee fuel ops := by
  simp only [Sched.runOps, Sched.step]
  rw [(reject_noop s ee fuel e hr).1]

/-- Calling `start` again (once the order was started, whether it is in progress or finished)
    never restarts, duplicates or un-finishes: same state, no output. -/
theorem start_idempotent (s : Sched) (ee : EE) (fuel : Nat) (hs : s.started = true) :
    (s.start ee fuel).sched = s ∧ (s.start ee fuel).out = [] := by
  unfold Sched.start
  split
  · simp [hs]
  · exact ⟨rfl, rfl⟩

/-- an invalid program: `start` reports failure, every event is rejected, nothing changes (also C16) -/
theorem invalid_inert (s : Sched) (ee : EE) (fuel : Nat) (e : Event) (hv : s.valid = false) :
    (s.start ee fuel).ret = false ∧ (s.start ee fuel).sched = s ∧
    (s.fire ee fuel e).ret = false ∧ (s.fire ee fuel e).sched = s := by
  refine ⟨by simp [Sched.start, hv], by simp [Sched.start, hv], ?_, ?_⟩ <;>
  · cases e <;> simp [Sched.fire_start, Sched.fire_svc, Sched.fire_other, hv]

/-- non-vacuity: a reachable state with an outstanding service whose completion is accepted -/
example : ∃ (s : Sched) (ee : EE) (fuel : Nat), s.Inv ∧ s.outstanding = [0] ∧
    (s.fire ee fuel (.svcFinished 0)).ret = true ∧ (s.fire ee fuel (.svcFinished 1)).ret = false := by
  let P : Prog := { tasks := [{ name := "productionTask", body := [.svc { name := "A", ins := [], line := 2 }], line := 1 }] }
  let ee : EE := { ans := fun _ => none, imm := fun _ => false }
  refine ⟨(Sched.init P true).runOps ee 10 [.start], ee, 10, Sched.runOps_inv ee 10 _ _ (Sched.init_inv _ _), ?_, ?_, ?_⟩ <;>
  decide

end Pfdl.Props.C08
