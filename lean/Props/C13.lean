import PfdlModel.Basic
import PfdlModel.ExprParse
/-! C13 – guards and conditions evaluate to their arithmetic / logical value. -/
namespace Pfdl.Props.C13
open Pfdl Pfdl.Generated Pfdl.ExprParse

/-- the 12 binary operators of the grammar, with the Python function each must denote -/
def expectedOps : List (String × PyOp) :=
  [("<", .lt), ("<=", .le), (">", .gt), (">=", .ge), ("==", .eq), ("!=", .ne),
   ("And", .and_), ("Or", .or_), ("+", .add), ("-", .sub), ("*", .mul), ("/", .truediv)]

/-- Every operator of the language is in `helpers.parse_operator`'s table (re-extracted from the
    source on every run) and maps to the Python function with its ordinary meaning. -/
theorem table_complete : ∀ p ∈ expectedOps, opTable.lookup p.1 = some p.2 := by
  decide

/-! ### ordinary semantics, stated without the operator table -/

/-- ordinary values: a number or a truth value -/
inductive OV where
  | num (q : Rat)
  | bool (b : Bool)
deriving DecidableEq

def OV.truth : OV → Bool
  | .num q => q != 0
  | .bool b => b

def Val.toOV : Val → Option OV
  | .num q _ => some (.num q)
  | .bool b => some (.bool b)
  | _ => none

/-- ordinary arithmetic, comparison and boolean meaning of one operator on typed operands;
    `none`: ill-typed, or a division by zero -/
def binSem (op : String) (a b : OV) : Option OV :=
  match op, a, b with
  | "+", .num x, .num y => some (.num (x + y))
  | "-", .num x, .num y => some (.num (x - y))
  | "*", .num x, .num y => some (.num (x * y))
  | "/", .num x, .num y => if y = 0 then none else some (.num (x / y))
  | "<", .num x, .num y => some (.bool (decide (x < y)))
  | "<=", .num x, .num y => some (.bool (decide (x ≤ y)))
  | ">", .num x, .num y => some (.bool (decide (x > y)))
  | ">=", .num x, .num y => some (.bool (decide (x ≥ y)))
  | "==", .num x, .num y => some (.bool (decide (x = y)))
  | "!=", .num x, .num y => some (.bool (decide (x ≠ y)))
  | "==", .bool x, .bool y => some (.bool (decide (x = y)))
  | "!=", .bool x, .bool y => some (.bool (decide (x ≠ y)))
  | "And", .bool x, .bool y => some (.bool (x && y))
  | "Or", .bool x, .bool y => some (.bool (x || y))
  | _, _, _ => none

/-- the value of a tree under ordinary semantics, for the value `v` of its root variable: parentheses are
    transparent, attribute paths are resolved field by field -/
def sem (v : Val) : Expr → Option OV
  | .lit w => Val.toOV w
  | .path [] => none
  | .path (_ :: segs) => (v.follow segs).bind Val.toOV
  | .not e => match sem v e with
    | some (.bool b) => some (.bool (!b))
    | _ => none
  | .paren e => sem v e
  | .bin op l r => match sem v l, sem v r with
    | some a, some b => binSem op a b
    | _, _ => none
  | .none => none

theorem applyOp_sem {op : String} {a b : Val} {x y r : OV} (ha : Val.toOV a = some x) (hb : Val.toOV b = some y)
    (h : binSem op x y = some r) : ∃ w, applyOp op a b = some w ∧ Val.toOV w = some r := by
  unfold binSem at h
  split at h
  all_goals first
    | (cases a <;> cases b <;> simp [Val.toOV] at ha hb
       obtain rfl := ha; obtain rfl := hb
       first
        | (simp only [Option.some.injEq] at h; subst h
           simp [applyOp, opTable, List.lookup, applyPyOp, Val.toNum?, Val.toOV]
           try (first | exact Bool.beq_eq_decide_eq _ _ | (rename_i b1 b2; cases b1 <;> cases b2 <;> decide)))
        | (split at h
           · simp at h
           · rename_i hy
             simp only [Option.some.injEq] at h; subst h
             simp [applyOp, opTable, List.lookup, applyPyOp, Val.toNum?, Val.toOV, hy]))
    | simp at h

/-- **Evaluation = ordinary value.**  For every expression tree and every value of its root variable: if
    the tree has a value under ordinary semantics (it is well typed and divides by nothing that is zero) then
    `execute_expression` yields exactly that value — with the operator table re-extracted from the source. -/
theorem exec_eq_sem (v : Val) : ∀ (e : Expr) (k : Nat) (r : OV), sem v e = some r →
    ∃ w, (e.exec (fun _ => some v) k).1 = some w ∧ Val.toOV w = some r
  | .lit w, k, r, h => ⟨w, by simp [Expr.exec], by simpa [sem] using h⟩
  | .path [], k, r, h => by simp [sem] at h
  | .path (x :: segs), k, r, h => by
    simp only [sem] at h
    cases hf : v.follow segs with
    | none => simp [hf] at h
    | some w => exact ⟨w, by simp [Expr.exec, hf], by simpa [hf] using h⟩
  | .not e, k, r, h => by
    simp only [sem] at h
    split at h
    · rename_i b hb
      obtain ⟨w, hw, ho⟩ := exec_eq_sem v e k _ hb
      simp only [Option.some.injEq] at h
      subst h
      refine ⟨.bool (!w.truthy), by simp [Expr.exec, hw], ?_⟩
      cases w <;> simp [Val.toOV] at ho
      subst ho
      simp [Val.toOV, Val.truthy]
    · simp at h
  | .paren e, k, r, h => by
    obtain ⟨w, hw, ho⟩ := exec_eq_sem v e k r (by simpa [sem] using h)
    exact ⟨w, by simpa [Expr.exec] using hw, ho⟩
  | .bin op l r', k, r, h => by
    simp only [sem] at h
    split at h
    · rename_i a b ha hb
      obtain ⟨wa, hwa, hoa⟩ := exec_eq_sem v l k a ha
      obtain ⟨wb, hwb, hob⟩ := exec_eq_sem v r' (k + (l.exec (fun _ => some v) k).2.length) b hb
      obtain ⟨w, hw, ho⟩ := applyOp_sem hoa hob h
      refine ⟨w, ?_, ho⟩
      simp only [Expr.exec]
      rw [show l.exec (fun _ => some v) k = ((l.exec (fun _ => some v) k).1, (l.exec (fun _ => some v) k).2) from rfl]
      simp only [hwa]
      rw [show r'.exec (fun _ => some v) (k + (l.exec (fun _ => some v) k).2.length) = (some wb, (r'.exec (fun _ => some v) (k + (l.exec (fun _ => some v) k).2.length)).2) by rw [← hwb]]
      simp [hw]
    · simp at h
  | .none, k, r, h => by simp [sem] at h

/-- the decision the scheduler takes (`bool(...)` of the evaluation) is the truth value -/
theorem decision_eq_truth (v : Val) (e : Expr) (k : Nat) (r : OV) (h : sem v e = some r) :
    ((e.exec (fun _ => some v) k).1.map Val.truthy) = some r.truth := by
  obtain ⟨w, hw, ho⟩ := exec_eq_sem v e k r h
  rw [hw]
  cases w <;> simp [Val.toOV] at ho <;> subst ho <;> simp [Val.truthy, OV.truth]

/-! ### precedence: the ranks of the generated parser (re-extracted from `PFDLParser.py` on every run) -/

def rank (o : String) : Option Nat := (precTable.lookup o).map (·.1)

/-- both operators are in the table and the first ranks strictly above the second -/
def above (o1 o2 : String) : Bool :=
  match rank o1, rank o2 with
  | some p, some q => decide (q < p)
  | _, _ => false

/-- multiplication and division bind tighter than addition and subtraction -/
theorem mul_div_above_add_sub : ∀ m ∈ ["*", "/"], ∀ a ∈ ["+", "-"], above m a = true := by decide
/-- these bind tighter than comparisons -/
theorem add_sub_above_comparisons : ∀ a ∈ ["+", "-"], ∀ c ∈ ["<", "<=", ">", ">=", "==", "!="],
    above a c = true := by decide
/-- comparisons bind tighter than And, And tighter than Or -/
theorem comparisons_above_and_above_or : (∀ c ∈ ["<", "<=", ">", ">=", "==", "!="], above c "And" = true) ∧
    above "And" "Or" = true := by decide
/-- operators associate to the left: the right operand of every operator must bind strictly tighter -/
theorem left_associative : ∀ e ∈ precTable, e.2.2 = e.2.1 + 1 := by decide
/-- negation binds tighter than And / Or and looser than a comparison (`!a < b` is `!(a < b)`) -/
theorem negation_rank : rank "And" = some 3 ∧ rank "<" = some 5 ∧ 3 < unaryPrec ∧ unaryPrec < 5 := by
  decide

/-- **Finding K10 (witness).**  `*` and `/` do not have one rank: the grammar lists them as separate
    alternatives, so `*` binds tighter and `a / b * c` is read `a / (b * c)`. -/
theorem k10_witness : rank "*" ≠ rank "/" ∧
    ∀ a b c : Expr, parse [.atom a, .op "/", .atom b, .op "*", .atom c] = some (.bin "/" a (.bin "*" b c)) := by
  refine ⟨by decide, ?_⟩
  intro a b c
  simp [parse, parseE, loopE, precTable, List.lookup]

/-- the same split between `-` and `+` (`a + b - c` is read `a + (b - c)`) does not change the value -/
theorem minus_plus_split_harmless (x y z : Rat) : x + (y - z) = x + y - z := by
  rw [Rat.sub_eq_add_neg, Rat.sub_eq_add_neg, Rat.add_assoc]

/-! readings of three-operand texts, for arbitrary operands -/
section
variable (a b c : Expr)
example : parse [.atom a, .op "+", .atom b, .op "*", .atom c] = some (.bin "+" a (.bin "*" b c)) := by
  simp [parse, parseE, loopE, precTable, List.lookup]
example : parse [.atom a, .op "*", .atom b, .op "+", .atom c] = some (.bin "+" (.bin "*" a b) c) := by
  simp [parse, parseE, loopE, precTable, List.lookup]
example : parse [.atom a, .op "-", .atom b, .op "-", .atom c] = some (.bin "-" (.bin "-" a b) c) := by
  simp [parse, parseE, loopE, precTable, List.lookup]
example : parse [.atom a, .op "/", .atom b, .op "/", .atom c] = some (.bin "/" (.bin "/" a b) c) := by
  simp [parse, parseE, loopE, precTable, List.lookup]
example : parse [.atom a, .op "<", .atom b, .op "And", .atom c] = some (.bin "And" (.bin "<" a b) c) := by
  simp [parse, parseE, loopE, precTable, List.lookup]
example : parse [.atom a, .op "Or", .atom b, .op "And", .atom c] = some (.bin "Or" a (.bin "And" b c)) := by
  simp [parse, parseE, loopE, precTable, List.lookup]
example : parse [.lpar, .atom a, .op "+", .atom b, .rpar, .op "*", .atom c] = some (.bin "*" (.paren (.bin "+" a b)) c) := by
  simp [parse, parseE, loopE, precTable, List.lookup]
example : parse [.bang, .atom a, .op "And", .atom b] = some (.bin "And" (.not a) b) := by
  simp [parse, parseE, loopE, precTable, List.lookup, unaryPrec]
end

/-! non-vacuity: a well-typed expression over a struct value -/
def v0 : Val := .struct [("n", .num 3 false), ("b", .bool true), ("m", .struct [("n", .num (1/2) true)])]
def e0 : Expr := .bin "And" (.path ["r", "b"]) (.bin ">=" (.bin "*" (.path ["r", "m", "n"]) (.lit (.num 2 false))) (.lit (.num 1 false)))
example : ∃ r, sem v0 e0 = some r ∧ r.truth = true := ⟨.bool true, by decide +kernel, rfl⟩

end Pfdl.Props.C13
