import PfdlModel.Basic
import PfdlModel.ExprParse
import PfdlModel.Surface
import PfdlProofs.ParseRoundTrip
import PfdlProofs.Regroup
/-! C13 – guards and conditions evaluate to their arithmetic / logical value. -/
namespace Pfdl.Props.C13
open Pfdl Pfdl.Generated Pfdl.ExprParse Pfdl.Surface

/-- the 12 binary operators of the grammar, with the Python function each must denote -/
def expectedOps : List (String × PyOp) :=
  [("<", .lt), ("<=", .le), (">", .gt), (">=", .ge), ("==", .eq), ("!=", .ne),
   ("And", .and_), ("Or", .or_), ("+", .add), ("-", .sub), ("*", .mul), ("/", .truediv)]

/-- Every operator of the language is in `helpers.parse_operator`'s table (re-extracted from the
    source on every run) and maps to the Python function with its ordinary meaning. -/
theorem table_complete : ∀ p ∈ expectedOps, opTable.lookup p.1 = some p.2 := by
  decide

/-! ### ordinary semantics, stated without the operator table -/

/-- ordinary values: a number or a truth value -/
inductive OV where
  | num (q : Rat)
  | bool (b : Bool)
deriving DecidableEq

def OV.truth : OV → Bool
  | .num q => q != 0
  | .bool b => b

def Val.toOV : Val → Option OV
  | .num q _ => some (.num q)
  | .bool b => some (.bool b)
  | _ => none

/-- ordinary arithmetic, comparison and boolean meaning of one operator on typed operands;
    `none`: ill-typed, or a division by zero -/
def binSem (op : String) (a b : OV) : Option OV :=
  match op, a, b with
  | "+", .num x, .num y => some (.num (x + y))
  | "-", .num x, .num y => some (.num (x - y))
  | "*", .num x, .num y => some (.num (x * y))
  | "/", .num x, .num y => if y = 0 then none else some (.num (x / y))
  | "<", .num x, .num y => some (.bool (decide (x < y)))
  | "<=", .num x, .num y => some (.bool (decide (x ≤ y)))
  | ">", .num x, .num y => some (.bool (decide (x > y)))
  | ">=", .num x, .num y => some (.bool (decide (x ≥ y)))
  | "==", .num x, .num y => some (.bool (decide (x = y)))
  | "!=", .num x, .num y => some (.bool (decide (x ≠ y)))
  | "==", .bool x, .bool y => some (.bool (decide (x = y)))
  | "!=", .bool x, .bool y => some (.bool (decide (x ≠ y)))
  | "And", .bool x, .bool y => some (.bool (x && y))
  | "Or", .bool x, .bool y => some (.bool (x || y))
  | _, _, _ => none

/-- the value of a tree under ordinary semantics, for the value `v` of its root variable: parentheses are
    transparent, attribute paths are resolved field by field -/
def sem (v : Val) : Expr → Option OV
  | .lit w => Val.toOV w
  | .path [] => none
  | .path (_ :: segs) => (v.follow segs).bind Val.toOV
  | .not e => match sem v e with
    | some (.bool b) => some (.bool (!b))
    | _ => none
  | .paren e => sem v e
  | .bin op l r => match sem v l, sem v r with
    | some a, some b => binSem op a b
    | _, _ => none
  | .none => none

theorem applyOp_sem {op : String} {a b : Val} {x y r : OV} (ha : Val.toOV a = some x) (hb : Val.toOV b = some y)
    (h : binSem op x y = some r) : ∃ w, applyOp op a b = some w ∧ Val.toOV w = some r := by
  unfold binSem at h
  split at h
  all_goals first
    | (cases a <;> cases b <;> simp [Val.toOV] at ha hb
       obtain rfl := ha; obtain rfl := hb
       first
        | (simp only [Option.some.injEq] at h; subst h
           simp [applyOp, opTable, List.lookup, applyPyOp, Val.toNum?, Val.toOV]
           try (first | exact Bool.beq_eq_decide_eq _ _ | (rename_i b1 b2; cases b1 <;> cases b2 <;> decide)))
        | (split at h
           · simp at h
           · rename_i hy
             simp only [Option.some.injEq] at h; subst h
             simp [applyOp, opTable, List.lookup, applyPyOp, Val.toNum?, Val.toOV, hy]))
    | simp at h

/-- **Evaluation = ordinary value.**  For every expression tree and every value of its root variable: if
    the tree has a value under ordinary semantics (it is well typed and divides by nothing that is zero) then
    `execute_expression` yields exactly that value — with the operator table re-extracted from the source. -/
theorem exec_eq_sem (v : Val) : ∀ (e : Expr) (k : Nat) (r : OV), sem v e = some r →
    ∃ w, (e.exec (fun _ => some v) k).1 = some w ∧ Val.toOV w = some r
  | .lit w, k, r, h => ⟨w, by simp [Expr.exec], by simpa [sem] using h⟩
  | .path [], k, r, h => by simp [sem] at h
  | .path (x :: segs), k, r, h => by
    simp only [sem] at h
    cases hf : v.follow segs with
    | none => simp [hf] at h
    | some w => exact ⟨w, by simp [Expr.exec, hf], by simpa [hf] using h⟩
  | .not e, k, r, h => by
    simp only [sem] at h
    split at h
    · rename_i b hb
      obtain ⟨w, hw, ho⟩ := exec_eq_sem v e k _ hb
      simp only [Option.some.injEq] at h
      subst h
      refine ⟨.bool (!w.truthy), by simp [Expr.exec, hw], ?_⟩
      cases w <;> simp [Val.toOV] at ho
      subst ho
      simp [Val.toOV, Val.truthy]
    · simp at h
  | .paren e, k, r, h => by
    obtain ⟨w, hw, ho⟩ := exec_eq_sem v e k r (by simpa [sem] using h)
    exact ⟨w, by simpa [Expr.exec] using hw, ho⟩
  | .bin op l r', k, r, h => by
    simp only [sem] at h
    split at h
    · rename_i a b ha hb
      obtain ⟨wa, hwa, hoa⟩ := exec_eq_sem v l k a ha
      obtain ⟨wb, hwb, hob⟩ := exec_eq_sem v r' (k + (l.exec (fun _ => some v) k).2.length) b hb
      obtain ⟨w, hw, ho⟩ := applyOp_sem hoa hob h
      refine ⟨w, ?_, ho⟩
      simp only [Expr.exec]
      rw [show l.exec (fun _ => some v) k = ((l.exec (fun _ => some v) k).1, (l.exec (fun _ => some v) k).2) from rfl]
      simp only [hwa]
      rw [show r'.exec (fun _ => some v) (k + (l.exec (fun _ => some v) k).2.length) = (some wb, (r'.exec (fun _ => some v) (k + (l.exec (fun _ => some v) k).2.length)).2) by rw [← hwb]]
      simp [hw]
    · simp at h
  | .none, k, r, h => by simp [sem] at h

/-- the decision the scheduler takes (`bool(...)` of the evaluation) is the truth value -/
theorem decision_eq_truth (v : Val) (e : Expr) (k : Nat) (r : OV) (h : sem v e = some r) :
    ((e.exec (fun _ => some v) k).1.map Val.truthy) = some r.truth := by
  obtain ⟨w, hw, ho⟩ := exec_eq_sem v e k r h
  rw [hw]
  cases w <;> simp [Val.toOV] at ho <;> subst ho <;> simp [Val.truthy, OV.truth]

/-! ### precedence: the ranks of the generated parser (re-extracted from `PFDLParser.py` on every run) -/

def rank (o : String) : Option Nat := (precTable.lookup o).map (·.1)

/-- both operators are in the table and the first ranks strictly above the second -/
def above (o1 o2 : String) : Bool :=
  match rank o1, rank o2 with
  | some p, some q => decide (q < p)
  | _, _ => false

/-- multiplication and division bind tighter than addition and subtraction -/
theorem mul_div_above_add_sub : ∀ m ∈ ["*", "/"], ∀ a ∈ ["+", "-"], above m a = true := by decide
/-- these bind tighter than comparisons -/
theorem add_sub_above_comparisons : ∀ a ∈ ["+", "-"], ∀ c ∈ ["<", "<=", ">", ">=", "==", "!="],
    above a c = true := by decide
/-- comparisons bind tighter than And, And tighter than Or -/
theorem comparisons_above_and_above_or : (∀ c ∈ ["<", "<=", ">", ">=", "==", "!="], above c "And" = true) ∧
    above "And" "Or" = true := by decide
/-- operators associate to the left: the right operand of every operator must bind strictly tighter -/
theorem left_associative : ∀ e ∈ precTable, e.2.2 = e.2.1 + 1 := by decide
/-- negation binds tighter than And / Or and looser than a comparison (`!a < b` is `!(a < b)`) -/
theorem negation_rank : rank "And" = some 3 ∧ rank "<" = some 5 ∧ 3 < unaryPrec ∧ unaryPrec < 5 := by
  decide

/-- **Finding K10 (witness).**  `*` and `/` do not have one rank: the grammar lists them as separate
    alternatives, so `*` binds tighter and `a / b * c` is read `a / (b * c)`. -/
theorem k10_witness : rank "*" ≠ rank "/" ∧
    ∀ a b c : Expr, parse [.atom a, .op "/", .atom b, .op "*", .atom c] = some (.bin "/" a (.bin "*" b c)) := by
  refine ⟨by decide, ?_⟩
  intro a b c
  simp [parse, parseWith, parseE, loopE, precTable, List.lookup]

/-- the same split between `-` and `+` (`a + b - c` is read `a + (b - c)`) does not change the value -/
theorem minus_plus_split_harmless (x y z : Rat) : x + (y - z) = x + y - z := by
  rw [Rat.sub_eq_add_neg, Rat.sub_eq_add_neg, Rat.add_assoc]


/-! ### the parser reads exactly the canonical tree of its table -/

/-- **Characterisation of the reading.**  For the table re-extracted from the generated parser: a token list
    (atoms = values) is read as `t` iff `t` is the canonical tree of the table — every operator's left operand
    is what the loop at that level had built (no open right-edge level would have taken the operator: tighter
    binds first, equal rank associates to the left), its right operand is canonical at the operator's
    right-operand level, `paren` nodes are exactly the parentheses — and `t` has exactly those tokens. -/
theorem reading_iff (ts : List Tok) (hok : TokOk ts) (t : Expr) :
    parse ts = some t ↔ Canon precTable unaryPrec 0 t ∧ flat t = ts :=
  parseWith_iff precTable unaryPrec ts hok t

/-- the extracted table is the ordinary table except that `/` and `+` rank one step lower -/
theorem table_vs_ordinary : precTable = ordTable.map (fun e =>
    if e.1 = "/" ∨ e.1 = "+" then (e.1, e.2.1 - 1, e.2.2 - 1) else e) := by decide

/-- the ordinary reading is the canonical tree of the ordinary table (same theorem, other table) -/
theorem ordinary_reading_iff (ts : List Tok) (hok : TokOk ts) (s : Expr) :
    parseWith ordTable unaryPrec ts = some s ↔ Canon ordTable unaryPrec 0 s ∧ flat s = ts :=
  parseWith_iff ordTable unaryPrec ts hok s

/-- **Agreement on the common fragment.**  A tree that is canonical for both tables is the reading of its
    tokens under both: the grammar reads the text as ordinary precedence does. -/
theorem common_fragment_agrees (s : Expr) (ho : Canon ordTable unaryPrec 0 s) (hg : Canon precTable unaryPrec 0 s) :
    parse (flat s) = some s ∧ parseWith ordTable unaryPrec (flat s) = some s :=
  ⟨parseWith_flat precTable unaryPrec s hg, parseWith_flat ordTable unaryPrec s ho⟩

theorem flat_rot : ∀ s : Expr, flat (rot s) = flat s
  | .bin o l r => by
    unfold rot
    by_cases ho : o = "-"
    · subst ho
      simp only [if_true]
      have ihl := flat_rot l
      have ihr := flat_rot r
      split
      · rename_i x y heq
        rw [heq] at ihl
        simp only [flat] at ihl ⊢
        rw [ihr, ← ihl]
        simp
      · simp only [flat, ihl, ihr]
    · simp only [ho, if_false, flat, flat_rot l, flat_rot r]
  | .paren e => by simp [rot, flat, flat_rot e]
  | .not e => by simp [rot, flat, flat_rot e]
  | .lit v => by simp [rot]
  | .path q => by simp [rot]
  | .none => by simp [rot]

theorem binSem_regroup (a b c : Option OV) :
    (match a, (match b, c with | some y, some z => binSem "-" y z | _, _ => none) with
      | some x, some w => binSem "+" x w | _, _ => none) =
    (match (match a, b with | some x, some y => binSem "+" x y | _, _ => none), c with
      | some w, some z => binSem "-" w z | _, _ => none) := by
  cases a with
  | none => cases b <;> cases c <;> simp
  | some x =>
    cases b with
    | none => cases c <;> simp
    | some y =>
      cases c with
      | none => cases x <;> cases y <;> simp [binSem]
      | some z =>
        cases x <;> cases y <;> cases z <;> simp [binSem]
        rename_i q1 q2 q3
        rw [Rat.sub_eq_add_neg, Rat.sub_eq_add_neg, Rat.add_assoc]

/-- **The regrouping never changes the value**, for every tree and every value of the variables -/
theorem sem_rot (v : Val) : ∀ s : Expr, sem v (rot s) = sem v s
  | .bin o l r => by
    unfold rot
    by_cases ho : o = "-"
    · subst ho
      simp only [if_true]
      have ihl := sem_rot v l
      have ihr := sem_rot v r
      split
      · rename_i x y heq
        rw [heq] at ihl
        simp only [sem] at ihl ⊢
        rw [ihr, ← ihl]
        exact binSem_regroup (sem v x) (sem v y) (sem v r)
      · simp only [sem, ihl, ihr]
    · simp only [ho, if_false, sem, sem_rot v l, sem_rot v r]
  | .paren e => by simp [rot, sem, sem_rot v e]
  | .not e => by simp [rot, sem, sem_rot v e]
  | .lit w => by simp [rot]
  | .path q => by simp [rot]
  | .none => by simp [rot]

/-- **From the ordinary reading to the decision.**  If `s` is the ordinary reading of a text and the
    regrouped tree is canonical for the grammar's table (decidable for every concrete tree by `canonB`; false
    exactly for the shapes of finding K10), then the grammar reads the text as `rot s`, and for every value of
    the variables the scheduler's decision is the truth value of `s` under ordinary semantics. -/
theorem decision_of_ordinary_reading (s : Expr) (hg : Canon precTable unaryPrec 0 (rot s))
    (v : Val) (k : Nat) (r : OV) (hs : sem v s = some r) :
    parse (flat s) = some (rot s) ∧ (((rot s).exec (fun _ => some v) k).1.map Val.truthy) = some r.truth := by
  refine ⟨?_, decision_eq_truth v (rot s) k r (by rw [sem_rot]; exact hs)⟩
  have := parseWith_flat precTable unaryPrec (rot s) hg
  rwa [flat_rot] at this

def sK10' : Expr := .bin "*" (.bin "/" (.lit (.num 8 false)) (.lit (.num 2 false))) (.lit (.num 2 false))

/-- **Precedence, in general.**  For every token list (atoms = values) whose ordinary reading `s` - the canonical
    tree of the ordinary table: `*` `/` one rank, `+` `-` one rank below, comparisons, And, Or, everything
    left-associative, parentheses group - does not contain the shape of finding K10 (a product whose left operand is
    an unparenthesised quotient): the grammar reads the text as the regrouped tree `rot s`, and for every value of the
    variables for which `s` has an ordinary value, the decision the scheduler takes is the truth value of `s`. -/
theorem precedence_general (ts : List Tok) (hok : TokOk ts) (s : Expr)
    (hread : parseWith ordTable unaryPrec ts = some s) (hk : noK10 s = true) :
    parse ts = some (rot s) ∧
    ∀ (v : Val) (k : Nat) (r : OV), sem v s = some r →
      (((rot s).exec (fun _ => some v) k).1.map Val.truthy) = some r.truth := by
  obtain ⟨hc, hf⟩ := (ordinary_reading_iff ts hok s).1 hread
  have hg : Canon precTable unaryPrec 0 (rot s) := canon_rot s 0 (by simp [LevelOk]) hc hk
  refine ⟨?_, fun v k r hs => (decision_of_ordinary_reading s hg v k r hs).2⟩
  have := parseWith_flat precTable unaryPrec (rot s) hg
  rw [flat_rot, hf] at this
  exact this

/-- the K10 shape is exactly what the general theorem excludes: for the witness the two readings differ in value -/
theorem k10_value_differs :
    let s := sK10'
    noK10 s = false ∧ sem (.bool true) s = some (.num 8) ∧
    (∃ t, parse (flat s) = some t ∧ sem (.bool true) t = some (.num 2)) := by
  refine ⟨by decide, by decide +kernel, ⟨.bin "/" (.lit (.num 8 false)) (.bin "*" (.lit (.num 2 false)) (.lit (.num 2 false))), ?_, by decide +kernel⟩⟩
  simp [sK10', flat, parse, parseWith, parseE, loopE, precTable, List.lookup]

theorem canonB_iff (T : Table) (u : Nat) : ∀ (p : Nat) (t : Expr), canonB T u p t = true ↔ Canon T u p t
  | p, .paren e => by simp [canonB, Canon, canonB_iff T u 0 e]
  | p, .not e => by simp [canonB, Canon, canonB_iff T u u e]
  | p, .bin o l r => by
    simp only [canonB, Canon]
    cases hl : T.lookup o with
    | none => simp
    | some x =>
      obtain ⟨pr, rp⟩ := x
      simp [canonB_iff T u p l, canonB_iff T u rp r, and_assoc]
  | p, .lit v => by simp [canonB, Canon]
  | p, .path q => by simp [canonB, Canon]
  | p, .none => by simp [canonB, Canon]

/-! readings of three-operand texts, for arbitrary operands -/
section
variable (a b c : Expr)
example : parse [.atom a, .op "+", .atom b, .op "*", .atom c] = some (.bin "+" a (.bin "*" b c)) := by
  simp [parse, parseWith, parseE, loopE, precTable, List.lookup]
example : parse [.atom a, .op "*", .atom b, .op "+", .atom c] = some (.bin "+" (.bin "*" a b) c) := by
  simp [parse, parseWith, parseE, loopE, precTable, List.lookup]
example : parse [.atom a, .op "-", .atom b, .op "-", .atom c] = some (.bin "-" (.bin "-" a b) c) := by
  simp [parse, parseWith, parseE, loopE, precTable, List.lookup]
example : parse [.atom a, .op "/", .atom b, .op "/", .atom c] = some (.bin "/" (.bin "/" a b) c) := by
  simp [parse, parseWith, parseE, loopE, precTable, List.lookup]
example : parse [.atom a, .op "<", .atom b, .op "And", .atom c] = some (.bin "And" (.bin "<" a b) c) := by
  simp [parse, parseWith, parseE, loopE, precTable, List.lookup]
example : parse [.atom a, .op "Or", .atom b, .op "And", .atom c] = some (.bin "Or" a (.bin "And" b c)) := by
  simp [parse, parseWith, parseE, loopE, precTable, List.lookup]
example : parse [.lpar, .atom a, .op "+", .atom b, .rpar, .op "*", .atom c] = some (.bin "*" (.paren (.bin "+" a b)) c) := by
  simp [parse, parseWith, parseE, loopE, precTable, List.lookup]
example : parse [.bang, .atom a, .op "And", .atom b] = some (.bin "And" (.not a) b) := by
  simp [parse, parseWith, parseE, loopE, precTable, List.lookup, unaryPrec]
end

/-! non-vacuity: a well-typed expression over a struct value -/
def v0 : Val := .struct [("n", .num 3 false), ("b", .bool true), ("m", .struct [("n", .num (1/2) true)])]
def e0 : Expr := .bin "And" (.path ["r", "b"]) (.bin ">=" (.bin "*" (.path ["r", "m", "n"]) (.lit (.num 2 false))) (.lit (.num 1 false)))
example : ∃ r, sem v0 e0 = some r ∧ r.truth = true := ⟨.bool true, by decide +kernel, rfl⟩

/-- `r.n + 1 * 2 - 3 < 4 And r.b`: its ordinary reading is not canonical for the grammar (the `-` after `+`),
    the regrouped tree is, and it is what the parser model reads -/
def s1 : Expr :=
  .bin "And" (.bin "<" (.bin "-" (.bin "+" (.path ["r", "n"]) (.bin "*" (.lit (.num 1 false)) (.lit (.num 2 false))))
    (.lit (.num 3 false))) (.lit (.num 4 false))) (.path ["r", "b"])
example : canonB ordTable unaryPrec 0 s1 = true ∧ canonB precTable unaryPrec 0 s1 = false ∧
    canonB precTable unaryPrec 0 (rot s1) = true := by decide +kernel
/-- the shape of K10 is ordinary-canonical, and neither it nor its regrouping is canonical for the grammar -/
def sK10 : Expr := .bin "*" (.bin "/" (.lit (.num 8 false)) (.lit (.num 2 false))) (.lit (.num 2 false))
example : canonB ordTable unaryPrec 0 sK10 = true ∧ canonB precTable unaryPrec 0 (rot sK10) = false := by
  decide +kernel

end Pfdl.Props.C13
