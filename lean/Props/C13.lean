import PfdlModel.Basic
/-! C13 – guards and conditions evaluate to their arithmetic/logical value (operator table part). -/
namespace Pfdl.Props.C13
open Pfdl Pfdl.Generated

/-- the 12 binary operators of the grammar, with the Python function each must denote -/
def expectedOps : List (String × PyOp) :=
  [("<", .lt), ("<=", .le), (">", .gt), (">=", .ge), ("==", .eq), ("!=", .ne),
   ("And", .and_), ("Or", .or_), ("+", .add), ("-", .sub), ("*", .mul), ("/", .truediv)]

/-- Every operator of the language is in `helpers.parse_operator`'s table (re-extracted from the
    source on every run) and maps to the Python function with its ordinary meaning. -/
theorem table_complete : ∀ p ∈ expectedOps, opTable.lookup p.1 = some p.2 := by
  decide

end Pfdl.Props.C13
