import PfdlProofs.CheckLemmas
import PfdlProofs.CheckLogic
set_option linter.unusedSimpArgs false
/-! C10 – validation rejects every catalogued static error wherever it occurs.

`validate p = some errs` : validation of the (syntactically valid) program returns and prints
`errs`; the verdict is "valid" iff `errs = []`.  The theorems say: a fault of the class, at ANY
nesting depth of loops and conditions (incl. parallel-loop bodies) of ANY task, makes `errs ≠ []`.
Classes proved here; the remaining classes of the catalogue (struct literals, argument types,
expression typing, mutual recursion) are covered by the correspondence/monitor over the fault
generator. -/
namespace Pfdl.Props.C10
open Pfdl Pfdl.Check

/-- position: a statement `x` nested anywhere in the body of a task of the program -/
def Nested (p : Prog) (t : Task) (x : Stmt) : Prop := t ∈ (mkEnv p).tasks ∧ x ∈ subStmtsL t.body

/-- the generic step: a nested statement that is on its own not fine makes the program invalid -/
theorem nested_fault_reported (p : Prog) (errs : List Err) (h : validate p = some errs) (t : Task) (x : Stmt)
    (hn : Nested p t x) (hb : Bad (checkStmt (mkEnv p) t.variables x)) : errs ≠ [] :=
  validate_of_nested_stmt p errs h t hn.1 x hn.2 hb

/-- UNKNOWN TASK in a task call – anywhere (also as body of a parallel loop) -/
theorem unknown_task (p : Prog) (errs : List Err) (h : validate p = some errs) (t : Task) (c : Call)
    (hn : Nested p t (.call c)) (hu : (mkEnv p).task? c.name = none) : errs ≠ [] := by
  apply nested_fault_reported p errs h t _ hn
  simp [Bad, checkStmt, checkTaskCall, hu, atLine]

/-- ILL-FORMED PARALLEL LOOP: the body is not exactly one task call -/
theorem ill_formed_parallel_loop (p : Prog) (errs : List Err) (h : validate p = some errs) (t : Task)
    (v : String) (lim : Option (List String)) (body : List Stmt) (line : Nat)
    (hn : Nested p t (.cloop true v lim body line)) (hb : singleCall? body = none) : errs ≠ [] := by
  apply nested_fault_reported p errs h t _ hn
  simp only [Bad, checkStmt, hb]
  split
  · simp
  · simp [atLine]
  · simp

/-- the body of a parallel loop is ill-formed unless it is exactly one task call -/
theorem singleCall_iff (body : List Stmt) (c : Call) : singleCall? body = some c ↔ body = [.call c] := by
  unfold singleCall?
  cases body with
  | nil => simp
  | cons s ss =>
    cases ss with
    | cons s2 ss2 => simp
    | nil => cases s <;> simp

/-- UNKNOWN VARIABLE used as input of a service – anywhere -/
theorem unknown_variable_as_service_input (p : Prog) (errs : List Err) (h : validate p = some errs) (t : Task) (c : Call) (y : String)
    (hn : Nested p t (.svc c)) (hy : Arg.var y ∈ c.ins) (hu : lookupLast t.variables y = none) : errs ≠ [] := by
  apply nested_fault_reported p errs h t _ hn
  simp only [Bad, checkStmt, checkCallParams, checkCallInputs]
  intro hbad
  simp [atLine] at hbad
  have := hbad.1 (.var y) hy
  simp [checkArg, hu] at this

/-- UNKNOWN VARIABLE used as input of a task call whose task exists – anywhere -/
theorem unknown_variable_as_call_input (p : Prog) (errs : List Err) (h : validate p = some errs) (t : Task) (c : Call) (y : String)
    (hn : Nested p t (.call c)) (hy : Arg.var y ∈ c.ins) (hu : lookupLast t.variables y = none) : errs ≠ [] := by
  apply nested_fault_reported p errs h t _ hn
  simp only [Bad, checkStmt, checkTaskCall]
  split
  · simp [atLine]
  · split
    · simp [atLine]
    · rename_i hnil
      simp only [checkCallParams, checkCallInputs, List.append_eq_nil_iff] at hnil
      have := List.flatMap_eq_nil_iff.1 hnil.1 (.var y) hy
      simp [checkArg, hu] at this

/-- WRONG NUMBER OF ARGUMENTS in a call whose own parameters are fine -/
theorem call_arity (p : Prog) (errs : List Err) (h : validate p = some errs) (t : Task) (c : Call) (callee : Task)
    (hn : Nested p t (.call c)) (hc : (mkEnv p).task? c.name = some callee)
    (hlen : (dedupBy (·.1) callee.ins []).length ≠ c.ins.length) : errs ≠ [] := by
  apply nested_fault_reported p errs h t _ hn
  simp only [Bad, checkStmt, checkTaskCall, hc]
  split
  · simp [atLine]
  · simp [checkCallMatches, hlen, atLine]

/-- NO productionTask -/
theorem no_production_task (p : Prog) (errs : List Err) (h : validate p = some errs)
    (hno : (mkEnv p).tasks.any (·.name == Generated.startTaskName) = false) : errs ≠ [] := by
  unfold validate at h
  simp only [] at h
  split at h
  · simp at h
  · simp at h
    rw [← h]
    have hne : ¬ ∃ x, x ∈ (mkEnv p).tasks ∧ x.name = Generated.startTaskName := by
      intro ⟨x, hx, hnm⟩
      have : (mkEnv p).tasks.any (·.name == Generated.startTaskName) = true :=
        List.any_eq_true.2 ⟨x, hx, by simp [hnm]⟩
      rw [hno] at this; simp at this
    simp [hne]

/-- UNDECLARED TASK OUTPUT -/
theorem undeclared_task_output (p : Prog) (errs : List Err) (h : validate p = some errs) (t : Task) (o : String)
    (ht : t ∈ (mkEnv p).tasks) (ho : o ∈ t.outs) (hu : lookupLast t.variables o = none) : errs ≠ [] := by
  cases hct : checkTask (mkEnv p) t with
  | none =>
    unfold validate at h
    simp only [] at h
    split at h
    · simp at h
    · rename_i all hall
      obtain ⟨y, hy, _⟩ := (foldl_optAppend_some (checkTask (mkEnv p)) (mkEnv p).tasks [] all hall).2 t ht
      rw [hct] at hy; simp at hy
  | some te =>
    apply validate_of_task p errs h t ht te hct
    unfold checkTask at hct
    simp only [] at hct
    split at hct
    · simp at hct
    · simp at hct
      rw [← hct]
      intro hnil
      simp only [List.append_eq_nil_iff] at hnil
      have := List.flatMap_eq_nil_iff.1 hnil.2.2 o ho
      simp [hu] at this

/-- UNKNOWN TYPE of a struct attribute -/
theorem unknown_type_in_struct (p : Prog) (errs : List Err) (h : validate p = some errs) (s : Struct) (a : String × Ty)
    (hs : s ∈ (mkEnv p).structs) (ha : a ∈ s.attrs) (hu : checkVarDef (mkEnv p) a.2 ≠ []) : errs ≠ [] := by
  unfold validate at h
  simp only [] at h
  split at h
  · simp at h
  · simp at h
    rw [← h]
    intro hnil
    simp only [List.append_eq_nil_iff] at hnil
    have h1 := List.flatMap_eq_nil_iff.1 hnil.2.2.1 s hs
    simp only [atLine, List.map_eq_nil_iff] at h1
    have h2 := List.flatMap_eq_nil_iff.1 h1 a ha
    exact hu h2

/-- DIRECT RECURSION: a task that calls itself (anywhere in its body, also inside Parallel blocks) -/
theorem recursion_direct (p : Prog) (errs : List Err) (h : validate p = some errs) (t : Task) (c : Call)
    (hm : t ∈ (mkEnv p).tasks) (hc : c ∈ callsL t.body) (hself : c.name = t.name) : errs ≠ [] := by
  unfold validate at h
  simp only [] at h
  split at h
  · simp at h
  · simp at h
    rw [← h]
    intro hnil
    simp only [List.append_eq_nil_iff] at hnil
    have hrec := hnil.2.2.2.2.1
    unfold recursionErrs at hrec
    have h1 := List.flatMap_eq_nil_iff.1 hrec t hm
    have h2 := List.filterMap_eq_nil_iff.1 h1 c hc
    have : (reaches (mkEnv p) t.name (reachFuel (mkEnv p)) [c.name] []).1 = true := by
      unfold reachFuel
      simp [reaches, hself]
    simp [this] at h2

/-- non-vacuity: an unknown task inside Loop > Condition > Failed > Parallel Loop is reported -/
def exCall : Check.Call := { name := "nope", ins := [], outs := [], line := 8 }
def exSvc : Check.Call := { name := "A", ins := [], outs := [], line := 5 }
def exTask : Check.Task :=
  { name := "productionTask", ins := [], outs := [], line := 1,
      body := [.cloop false "i" none [.cond (.lit (.bool true)) [.svc exSvc] [.cloop true "j" none [.call exCall] 7] 3] 2] }
def exProg : Check.Prog := { structs := [], tasks := [exTask] }
example : (validate exProg).map (fun es => es.map (fun e => (e.kind, e.line))) = some [("unknown_task", 8)] := by decide +kernel

/-- a guard that `checkTopExpr` lets pass has only And / Or with boolean operands, at every depth -/
theorem topExpr_logicOk (env : Env) (vars : List (String × Ty)) (e : Expr) (line : Nat)
    (h : (checkTopExpr env vars e).map (atLine line) = some []) : LogicOk env vars e := by
  cases hc : checkTopExpr env vars e with
  | none => simp [hc] at h
  | some ks =>
    have hk : ks = [] := by
      cases ks with
      | nil => rfl
      | cons k ks => simp [hc, atLine] at h
    subst hk
    unfold checkTopExpr at hc
    split at hc
    · simp at hc
    · exact checkExpr_logicOk env vars e hc

/-- And / Or WITH AN OPERAND THAT IS NO BOOLEAN, anywhere inside the guard of a While Loop – below
    comparisons, arithmetic, negations and parentheses alike (the defect repaired by `fix:` 454dcae:
    `(r.n And r.m) < 3` was accepted) -/
theorem logic_operand_in_while_guard (p : Prog) (errs : List Err) (h : validate p = some errs) (t : Task)
    (e : Expr) (body : List Stmt) (line : Nat) (hn : Nested p t (.wloop e body line))
    (hb : ¬ LogicOk (mkEnv p) t.variables e) : errs ≠ [] := by
  apply nested_fault_reported p errs h t _ hn
  intro hs
  simp only [checkStmt] at hs
  obtain ⟨a, b, _, hb2, hab⟩ := optAppend_some hs
  have hbn : b = [] := (List.append_eq_nil_iff.mp hab.symm).2
  subst hbn
  exact hb (topExpr_logicOk _ _ e line hb2)

/-- the same for the guard of a Condition -/
theorem logic_operand_in_condition (p : Prog) (errs : List Err) (h : validate p = some errs) (t : Task)
    (e : Expr) (ps fs : List Stmt) (line : Nat) (hn : Nested p t (.cond e ps fs line))
    (hb : ¬ LogicOk (mkEnv p) t.variables e) : errs ≠ [] := by
  apply nested_fault_reported p errs h t _ hn
  intro hs
  simp only [checkStmt] at hs
  obtain ⟨a, b, _, hb2, hab⟩ := optAppend_some hs
  have hbn : b = [] := (List.append_eq_nil_iff.mp hab.symm).2
  subst hbn
  exact hb (topExpr_logicOk _ _ e line hb2)

/-- not vacuous, and the repaired case itself: with `n, m : number`, `(r.n And r.m) < 3` is not `LogicOk` -/
example : ¬ LogicOk ⟨[⟨"R", [("n", .name "number"), ("m", .name "number")], 1⟩], []⟩ [("r", .name "R")]
    (.bin "<" (.paren (.bin "And" (.path ["r", "n"]) (.path ["r", "m"]))) (.lit (.num 3 false))) := by
  intro h
  simp only [LogicOk] at h
  have h2 := (h.1.2.2 (by decide)).1
  have hf : exprIsBoolean ⟨[⟨"R", [("n", .name "number"), ("m", .name "number")], 1⟩], []⟩ [("r", .name "R")]
      (.path ["r", "n"]) = some false := by decide +kernel
  rw [hf] at h2
  cases h2

/-- a guard that `checkTopExpr` lets pass applies every operator, at every depth, to operands of its kind -/
theorem topExpr_operandsOk (env : Env) (vars : List (String × Ty)) (e : Expr) (line : Nat)
    (h : (checkTopExpr env vars e).map (atLine line) = some []) : OperandsOk env vars e := by
  cases hc : checkTopExpr env vars e with
  | none => simp [hc] at h
  | some ks =>
    have hk : ks = [] := by
      cases ks with
      | nil => rfl
      | cons k ks => simp [hc, atLine] at h
    subst hk
    unfold checkTopExpr at hc
    split at hc
    · simp at hc
    · exact checkExpr_operandsOk env vars e hc

/-- AN OPERAND OF THE WRONG KIND - a non-number under + - * /, neither two numbers nor two strings under
    < > <= >=, a non-boolean under And / Or - anywhere inside the guard of a While Loop, at any depth of the
    expression (the catalogue class `expr_ill_typed_operand`, as far as the checker's own notions of number /
    string / boolean go: findings K7a / K7b are what these notions admit) -/
theorem ill_typed_operand_in_while_guard (p : Prog) (errs : List Err) (h : validate p = some errs) (t : Task)
    (e : Expr) (body : List Stmt) (line : Nat) (hn : Nested p t (.wloop e body line))
    (hb : ¬ OperandsOk (mkEnv p) t.variables e) : errs ≠ [] := by
  apply nested_fault_reported p errs h t _ hn
  intro hs
  simp only [checkStmt] at hs
  obtain ⟨a, b, _, hb2, hab⟩ := optAppend_some hs
  have hbn : b = [] := (List.append_eq_nil_iff.mp hab.symm).2
  subst hbn
  exact hb (topExpr_operandsOk _ _ e line hb2)

/-- the same for the guard of a Condition -/
theorem ill_typed_operand_in_condition (p : Prog) (errs : List Err) (h : validate p = some errs) (t : Task)
    (e : Expr) (ps fs : List Stmt) (line : Nat) (hn : Nested p t (.cond e ps fs line))
    (hb : ¬ OperandsOk (mkEnv p) t.variables e) : errs ≠ [] := by
  apply nested_fault_reported p errs h t _ hn
  intro hs
  simp only [checkStmt] at hs
  obtain ⟨a, b, _, hb2, hab⟩ := optAppend_some hs
  have hbn : b = [] := (List.append_eq_nil_iff.mp hab.symm).2
  subst hbn
  exact hb (topExpr_operandsOk _ _ e line hb2)

/-- not vacuous: with `s : string`, `(r.s + 1) > 2` is not `OperandsOk` (the sum, two levels down) -/
example : ¬ OperandsOk ⟨[⟨"R", [("s", .name "string"), ("m", .name "number")], 1⟩], []⟩ [("r", .name "R")]
    (.bin ">" (.paren (.bin "+" (.path ["r", "s"]) (.lit (.num 1 false)))) (.lit (.num 2 false))) := by
  intro h
  simp only [OperandsOk] at h
  have h2 := (h.1.2.2.1 (by decide)).1
  have hf : exprIsNumber ⟨[⟨"R", [("s", .name "string"), ("m", .name "number")], 1⟩], []⟩ [("r", .name "R")]
      (.path ["r", "s"]) = some false := by decide +kernel
  rw [hf] at h2
  cases h2

end Pfdl.Props.C10
