import PfdlProofs.NetIds
/-! C14 / C08 at the net layer, for EVERY program (parallel loops, the run-time rebuilding of the net and the shapes of
    the known findings included), every execution engine with all its re-entrant reports, every fuel and every
    history of API calls:

    * the completions that are awaited are pairwise different and each carries an identifier the scheduler has
      handed out (`awaited_completions_distinct`) - "no two service instances ever carry the same identifier" for the
      instances that are outstanding, in test-id mode;
    * while the completion of a service is being delivered it is not awaited, so reporting it again - also from inside
      a notification of that very delivery - is refused (`delivered_not_awaited`; with `Net.C08.refused_no_effect`
      this is "accepted … each once").

    Identifiers in UUID mode are a fresh source outside the model. -/
namespace Pfdl.Net.C14
open Pfdl

theorem generate_ids (P : Prog) (valid : Bool) (fuel : Nat) : IdInv (generate P valid fuel) := by
  have h0 : IdInv ({ prog := P, valid := valid } : NS) := ⟨by intro u hu; simp at hu, by simp [svcPart]⟩
  unfold generate
  cases ht : P.task? Generated.startTaskName with
  | none => exact ⟨by intro u hu; simp at hu, by simp [svcPart]⟩
  | some t =>
    simp only
    split
    · exact h0
    · exact ⟨by intro u hu; simp at hu, by simp [svcPart]⟩

theorem step_ids (ee : EE) (fuel : Nat) (s : NS) (op : Op) (h : IdInv s) : IdInv (step ee fuel s op).s := by
  have K := ikeeps (ee := ee) fuel
  have h0 : IdInv { s with out := #[], exc := none } := ⟨h.below, h.nodup⟩
  cases op with
  | start =>
    simp only [Net.step]
    split
    · split
      · exact K.fireEv AEv.start _ ⟨h.below, h.nodup⟩
      · exact h0
    · exact h0
  | finish k =>
    simp only [Net.step]
    split
    · exact h0
    · rename_i id _
      split
      · have := K.fireEv (AEv.svc (Uid.id id)) ({ s with out := #[], exc := none, inProg := k :: s.inProg } : NS) ⟨h.below, h.nodup⟩
        repeat' split
        all_goals exact ⟨this.below, this.nodup⟩
      · repeat' split
        all_goals exact ⟨h.below, h.nodup⟩
  | fire e =>
    simp only [Net.step]
    split
    · exact K.fireEv e _ h0
    · exact h0
  | other => exact h0
  | register k fn =>
    simp only [Net.step]
    split
    · exact h0
    · exact ⟨h.below, h.nodup⟩
  | attach o => exact ⟨h.below, h.nodup⟩
  | detach o =>
    simp only [Net.step]
    split
    · exact ⟨h.below, h.nodup⟩
    · exact h0.fr (fr_raise _ _)

theorem history_ids (ee : EE) (fuel : Nat) : ∀ (ops : List Op) (s : NS), IdInv s → IdInv (runOps ee fuel s ops)
  | [], _, h => h
  | op :: ops, s, h => by simp only [runOps]; exact history_ids ee fuel ops _ (step_ids ee fuel s op h)

/-- **the awaited completions are pairwise different, each with an identifier that has been handed out** -/
theorem awaited_completions_distinct (P : Prog) (valid : Bool) (fuel0 fuel : Nat) (ee : EE) (ops : List Op) :
    (svcPart (runOps ee fuel (generate P valid fuel0) ops).awaited).Nodup ∧
    ∀ u, AEv.svc u ∈ (runOps ee fuel (generate P valid fuel0) ops).awaited →
      ∃ n, u = Uid.id n ∧ n < (runOps ee fuel (generate P valid fuel0) ops).ctrS :=
  let h := history_ids ee fuel ops _ (generate_ids P valid fuel0)
  ⟨h.nodup, h.below⟩

/-- in any state the evaluator can reach (`IdInv` holds of all of them: `Net.ikeeps`): once the awaited completion
    has been taken out of the awaited events - which `fire_event` does before it evaluates the net - it is not
    awaited any more -/
theorem delivered_not_awaited (s : NS) (h : IdInv s) (u : Uid) (idx : Nat) (hidx : s.awaited.idxOf? (AEv.svc u) = some idx) :
    AEv.svc u ∉ s.awaited.eraseIdx idx := by
  intro hm
  have hre := reinsert_eq s.awaited (AEv.svc u) idx hidx
  have hnd := h.nodup
  rw [← hre] at hnd
  -- the event occurs in the erased list and once more at its own position
  have hsplit : AEv.svc u ∈ (s.awaited.eraseIdx idx).take idx ∨ AEv.svc u ∈ (s.awaited.eraseIdx idx).drop idx := by
    have := List.take_append_drop idx (s.awaited.eraseIdx idx)
    rw [← this] at hm
    exact List.mem_append.mp hm
  have hp : ∀ l : List AEv, AEv.svc u ∈ l → AEv.svc u ∈ svcPart l := by
    intro l hl; unfold svcPart; exact List.mem_filter.mpr ⟨hl, rfl⟩
  unfold svcPart at hnd
  rw [List.filter_append, List.filter_append] at hnd
  have hmid : AEv.svc u ∈ List.filter (fun e => match e with | .svc _ => true | _ => false) [AEv.svc u] := by simp
  rcases hsplit with hs | hs
  · have h1 := (List.nodup_append.mp hnd).1
    have h2 := (List.nodup_append.mp h1).2.2
    exact h2 _ (hp _ hs) _ hmid rfl
  · have h2 := (List.nodup_append.mp hnd).2.2
    exact h2 _ (List.mem_append_right _ hmid) _ (hp _ hs) rfl

def quietEE : EE := { ans := fun _ => none, imm := fun _ => false, immOther := fun _ => false, immSf := fun _ => false }
def twoSvc : Prog :=
  { tasks := [{ name := "productionTask", line := 1,
                body := [Stmt.svc { name := "A", ins := [], line := 2 }, Stmt.svc { name := "B", ins := [], line := 3 }] }] }

/-- non-vacuity: after the start of a two-service order one completion is awaited, after it the next one -/
example : (runOps quietEE 1000 (generate twoSvc true 1000) [Op.start]).awaited = [AEv.svc (Uid.id 0)] := by decide +kernel
example : (runOps quietEE 1000 (generate twoSvc true 1000) [Op.start, Op.fire (AEv.svc (Uid.id 0))]).awaited = [AEv.svc (Uid.id 1)] := by
  decide +kernel

end Pfdl.Net.C14
