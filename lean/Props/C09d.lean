import PfdlProofs.NetSafeAll
import Props.C09c
/-! C09 at the level of the net, EVERY accepted program - parallel loops and the rebuilding of the net at run time
    included.

    For every program whose task calls resolve (what acceptance gives: `accepted_erasure_closed`), every fuel, every
    execution engine (any values, completions reported from inside notifications) and every history of API calls: the
    exception flag after each call is empty, a failing evaluation of what the engine answered (`EvalError`), the
    model's own fuel, or `ValueError`.  The model's `IndexError` / `KeyError` branches - `tasks[...]`, `svcs[...]`,
    `place_dict[...]` - are unreachable although task and service objects, transitions and callbacks are created while
    the order runs.

    `ValueError` stays admitted: it is the documented error of `detach` for an observer that is not attached, and it
    is the `callbacks.remove(callback)` of `evaluate_petri_net`, reachable code on the shapes of the known findings
    K1 / K2 (a callback removed twice when two parallel loops share a transition) - not excluded here. -/
namespace Pfdl.Net.C09
open Pfdl

/-- what holds between two API calls (the exception flag of the last call aside) -/
structure CoreA (P : Prog) (s : NS) : Prop where
  prog : s.prog = P
  cbOk : ∀ (t : Nat) (l : List (Nat × Cb)), s.cbs[t]? = some l → ∀ c ∈ l, CbOk P true s.tasks.size s.svcs.size c.2
  pd : ∀ (i : Nat) (a : SvcApi), s.svcs[i]? = some a → (dictGet s.placeDict a.uid).isSome = true
  aw : ∀ u, AEv.svc u ∈ s.awaited → (dictGet s.placeDict u).isSome = true

theorem AInv.coreA {P : Prog} {s : NS} (h : AInv P s) : CoreA P s := ⟨h.prog, h.cbOk, h.pd, h.aw⟩

theorem step_safe_all {P : Prog} (hc : P.Closed) (ee : EE) (fuel : Nat) (s : NS) (op : Op) (h : CoreA P s) :
    CoreA P (step ee fuel s op).s ∧ ExcOkA (step ee fuel s op).s.exc := by
  have K := akeeps (ee := ee) hc fuel
  have h0 : AInv P { s with out := #[], exc := none } := ⟨h.prog, h.cbOk, h.pd, h.aw, Or.inl rfl⟩
  have fin : ∀ s' : NS, AInv P s' → CoreA P s' ∧ ExcOkA s'.exc := fun s' hs' => ⟨AInv.coreA hs', hs'.exc⟩
  cases op with
  | start =>
    simp only [Net.step]
    split
    · split
      · have hb0 : AInv P ({ s with out := #[], exc := none, running := true } : NS) := ⟨h.prog, h.cbOk, h.pd, h.aw, Or.inl rfl⟩
        exact fin _ (K.fireEv AEv.start _ hb0).inv
      · exact fin _ h0
    · exact fin _ h0
  | finish k =>
    simp only [Net.step]
    split
    · exact fin _ h0
    · rename_i id _
      have hb : AInv P ({ s with out := #[], exc := none, inProg := k :: s.inProg } : NS) :=
        ⟨h.prog, h.cbOk, h.pd, h.aw, Or.inl rfl⟩
      split
      · have := (K.fireEv (AEv.svc (Uid.id id)) _ hb).inv
        repeat' split
        all_goals exact fin _ ⟨this.prog, this.cbOk, this.pd, this.aw, this.exc⟩
      · repeat' split
        all_goals exact fin _ ⟨h.prog, h.cbOk, h.pd, h.aw, Or.inl rfl⟩
  | fire e =>
    simp only [Net.step]
    split
    · exact fin _ (K.fireEv e _ h0).inv
    · exact fin _ h0
  | other => exact fin _ h0
  | register k fn =>
    simp only [Net.step]
    split
    · exact fin _ h0
    · exact fin _ ⟨h.prog, h.cbOk, h.pd, h.aw, Or.inl rfl⟩
  | attach o => exact fin _ ⟨h.prog, h.cbOk, h.pd, h.aw, Or.inl rfl⟩
  | detach o =>
    simp only [Net.step]
    split
    · exact fin _ ⟨h.prog, h.cbOk, h.pd, h.aw, Or.inl rfl⟩
    · exact fin _ (h0.raiseOk "ValueError" (Or.inr (Or.inr rfl)))

/-- after a history: the core invariant, and the exception flag of the last call -/
theorem history_safe_all {P : Prog} (hc : P.Closed) (ee : EE) (fuel : Nat) :
    ∀ (ops : List Op) (s : NS), CoreA P s → ExcOkA s.exc →
      CoreA P (runOps ee fuel s ops) ∧ ExcOkA (runOps ee fuel s ops).exc
  | [], s, h, hr => by simpa [runOps] using And.intro h hr
  | op :: ops, s, h, _ => by
      simp only [runOps]
      have h1 := step_safe_all hc ee fuel s op h
      exact history_safe_all hc ee fuel ops _ h1.1 h1.2

/-- the net that construction delivers meets the invariant -/
theorem generate_coreA (P : Prog) (hc : P.Closed) (valid : Bool) (fuel0 : Nat) : CoreA P (generate P valid fuel0) := by
  have hg := generate_ginv (ap := true) P hc (progNoPloop_true P) valid fuel0
  refine ⟨hg.prog, hg.cbOk, hg.pd, ?_⟩
  intro u hu
  exfalso
  revert hu
  unfold generate
  cases ht : P.task? Generated.startTaskName with
  | none => simp
  | some t =>
    simp only
    split
    · simp
    · simp

/-- **no look-up error, every program whose calls resolve** (parallel loops included): whatever the engine answers
    and reports and whatever the application calls, the exception flag after the last call is empty, a failing
    evaluation, the model's fuel, or `ValueError` -/
theorem no_lookup_error (P : Prog) (hc : P.Closed) (valid : Bool) (fuel0 fuel : Nat) (ee : EE) (ops : List Op) :
    ExcOkA (runOps ee fuel (generate P valid fuel0) ops).exc := by
  have hr : ExcOkA (generate P valid fuel0).exc := by
    rcases generate_exc (ap := true) P hc (progNoPloop_true P) valid fuel0 with he | he
    · exact Or.inl he
    · exact Or.inr (Or.inr (Or.inl he))
  exact (history_safe_all hc ee fuel ops _ (generate_coreA P hc valid fuel0) hr).2

/-- in the words of the model's exception names -/
theorem never_index_or_key_error (P : Prog) (hc : P.Closed) (valid : Bool) (fuel0 fuel : Nat) (ee : EE) (ops : List Op) :
    (runOps ee fuel (generate P valid fuel0) ops).exc ≠ some "IndexError" ∧
    (runOps ee fuel (generate P valid fuel0) ops).exc ≠ some "KeyError" := by
  have h := no_lookup_error P hc valid fuel0 fuel ee ops
  constructor <;> (intro he; rw [he] at h; rcases h with h | h | h | h <;> simp at h)

/-- with acceptance: the calls of an accepted program resolve (`accepted_erasure_closed`) -/
theorem accepted_no_lookup_error (p : Check.Prog) (F : Fill) (hacc : Check.accepts p = true)
    (valid : Bool) (fuel0 fuel : Nat) (ee : EE) (ops : List Op) :
    ExcOkA (runOps ee fuel (generate (erase F p) valid fuel0) ops).exc :=
  no_lookup_error _ (accepted_erasure_closed F p hacc) valid fuel0 fuel ee ops

/-- an order with a parallel loop over a variable limit inside a Parallel block, next to a loop: its calls resolve -/
def loopOrder : Prog :=
  { tasks := [
      { name := "productionTask", line := 1,
        body := [Stmt.svc { name := "A", ins := [], line := 2 },
                 Stmt.par [{ name := "fan", ins := [], line := 4 }, { name := "one", ins := [], line := 5 }] 3,
                 Stmt.cloop "k" (Limit.lit 2) [Stmt.ploop "i" (Limit.path ["r", "n"]) { name := "one", ins := [], line := 8 } 7] 6] },
      { name := "fan", line := 20,
        body := [Stmt.ploop "j" (Limit.lit 3) { name := "one", ins := [], line := 22 } 21] },
      { name := "one", line := 30, body := [Stmt.svc { name := "G", ins := [], line := 31 }] }] }

/-- the hypothesis is met by a program whose net is rebuilt while the order runs -/
example : loopOrder.Closed := by
  intro t ht
  simp only [loopOrder, List.mem_cons, List.not_mem_nil, or_false] at ht
  rcases ht with rfl | rfl | rfl <;> simp [ClosedL, Stmt.Closed, Prog.task?, loopOrder]

end Pfdl.Net.C09
