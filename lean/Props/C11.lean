import PfdlProofs.CheckOrder
import PfdlProofs.CheckComplete
/-! C11 – validation accepts every well-formed program; the verdict does not depend on the order of the
    top-level definitions. -/
namespace Pfdl.Props.C11
open Pfdl Pfdl.Check Pfdl.Generated

/-- **Accepted iff every definition is good** (`Check.Good`): names are unique; every declared type
    exists; every task passes its checks in the environment of the *whole* program (so forward references
    are legal); no call lies on a cycle; the production task exists.  No other condition enters the verdict. -/
theorem accepted_iff_good (p : Check.Prog) : accepts p = true ↔ Good p := by
  unfold accepts
  rw [beq_iff_eq]
  exact validate_nil_iff p

/-- **Order independence.**  For every program and every permutation of its struct definitions and of its
    task definitions the verdict is the same. -/
theorem verdict_order_independent (p q : Check.Prog) (hs : p.structs.Perm q.structs) (ht : p.tasks.Perm q.tasks) :
    accepts p = accepts q := by
  rw [Bool.eq_iff_iff, accepted_iff_good, accepted_iff_good]
  exact ⟨Good.perm hs ht, Good.perm hs.symm ht.symm⟩

/-- every check reads the environment only through look-ups by name: two environments that answer every
    look-up alike give the same result for every task (the reason why definitions may come in any order) -/
theorem checks_depend_on_lookups_only {e1 e2 : Env} (h : e1.Equiv e2) (t : Check.Task) :
    checkTask e1 t = checkTask e2 t :=
  checkTask_congr h t

/-- **Well-typed conditions and loop guards are accepted** (typing rules: `Check.ExprTy`) -/
theorem well_typed_condition_accepted {env : Env} {vars : List (String × Ty)} {e : Expr}
    (h : ExprTy env vars e .boolean) : checkTopExpr env vars e = some [] :=
  wellTyped_condition_accepted h

/-- **Any nesting of statements**: a statement is accepted iff its parts are — blocks statement by
    statement, a Condition iff both branches and its expression, loops iff limit / guard and body, a Parallel
    iff each of its calls.  Nothing depends on where a statement is nested. -/
theorem nesting_compositional (env : Env) (vars : List (String × Ty)) :
    (∀ ss, checkStmts env vars ss = some [] ↔ ∀ s ∈ ss, checkStmt env vars s = some []) ∧
    (∀ e p f l, checkStmt env vars (.cond e p f l) = some [] ↔
      checkStmts env vars p = some [] ∧ checkStmts env vars f = some [] ∧ checkTopExpr env vars e = some []) ∧
    (∀ e b l, checkStmt env vars (.wloop e b l) = some [] ↔
      checkStmts env vars b = some [] ∧ checkTopExpr env vars e = some []) ∧
    (∀ v lim b l, checkStmt env vars (.cloop false v lim b l) = some [] ↔
      checkLimit env vars lim = some [] ∧ checkStmts env vars b = some []) ∧
    (∀ v lim c l, checkStmt env vars (.cloop true v lim [.call c] l) = some [] ↔
      checkLimit env vars lim = some [] ∧ checkTaskCall env vars c = some []) ∧
    (∀ cs l, checkStmt env vars (.par cs l) = some [] ↔ ∀ c ∈ cs, checkTaskCall env vars c = some []) ∧
    (∀ c, checkStmt env vars (.svc c) = some [] ↔ checkCallParams env vars c = []) ∧
    (∀ c, checkStmt env vars (.call c) = some [] ↔ checkTaskCall env vars c = some []) :=
  ⟨checkStmts_nil_iff env vars, checkStmt_cond_nil_iff env vars, checkStmt_wloop_nil_iff env vars,
   checkStmt_cloop_nil_iff env vars, checkStmt_ploop_nil_iff env vars, checkStmt_par_nil_iff env vars,
   checkStmt_svc_nil_iff env vars, checkStmt_call_nil_iff env vars⟩

/-! non-vacuity -/

def sP : Check.Struct := { name := "P", attrs := [("n", .name "number"), ("b", .name "boolean")], line := 1 }
def cS : Check.Call := { name := "S", ins := [], outs := [("r", .name "P")], line := 6 }
def cOther : Check.Call := { name := "other", ins := [.var "r"], outs := [], line := 10 }
def cT : Check.Call := { name := "T", ins := [.path ["x", "n"]], outs := [], line := 14 }
def g0 : Expr := .bin "And" (.path ["r", "b"]) (.bin "<" (.path ["r", "n"]) (.lit (.num 3 false)))
def tA : Check.Task :=
  { name := "productionTask", ins := [], outs := [], line := 5, body := [.svc cS, .cond g0 [.call cOther] [] 7] }
def tB : Check.Task := { name := "other", ins := [("x", .name "P")], outs := [], line := 12, body := [.svc cT] }
def p0 : Check.Prog := { structs := [sP], tasks := [tA, tB] }
def p1 : Check.Prog := { structs := [sP], tasks := [tB, tA] }

example : accepts p0 = true ∧ accepts p1 = true := by decide +kernel
example : ExprTy (mkEnv p0) tA.variables g0 .boolean :=
  .logic _ _ _ (by simp) (.path _ .boolean (by decide +kernel) (by decide +kernel))
    (.ordNum _ _ _ (by simp) (.path _ .number (by decide +kernel) (by decide +kernel)) (.num _ _))

end Pfdl.Props.C11
