import PfdlProofs.NetCertSound
/-! C01 at the net layer (the model of generator.py / logic.py / the callbacks as the code does them):
    "… afterwards … the net holds exactly one token, in its final place".

    PARTIAL.  Proved: for every net that has no parallel-loop callback (no part that is rebuilt at run time) and
    whose certificate `certCheck` succeeds (decided by the driver for every generated program; the weights come
    from `inferWeights`), for every execution engine (values, completions reported from inside notifications - its
    own, other outstanding ones, ones that are being delivered -, from inside service-finished notifications), every
    fuel and every history of API calls:
      * the net is never changed, the weighted token sum is 0 before the start event is accepted and the weight of
        the start place afterwards (`weighted_sum_constant`);
      * whenever the final place is marked it holds exactly one token and every other place of positive weight -
        every place on a control-flow path - is empty (`final_place_exclusive_partial`).
    Not proved: that the places of weight 0 (decision places, "finished" places of services) are empty at the end -
    that is the accounting of the structural model (C01.no_stall, nothing_awaited_when_finished) and is observed
    on the real marking by the monitor; nets with parallel loops (rebuilt at run time; known findings K1-K5 live
    there); that `generate` always yields a certifiable net (checked per generated program, not proved for all). -/
namespace Pfdl.Net.C01
open Pfdl

theorem wsumL_ge_one (w : Nat → Int) (hw : ∀ p, 0 ≤ w p) (l : List Place) (i a : Nat) (pa : Place)
    (ha : l[a]? = some pa) : w (i + a) * (pa.tokens : Int) ≤ wsumL w i l := by
  have nonneg : ∀ (l : List Place) (i : Nat), 0 ≤ wsumL w i l := by
    intro l
    induction l with
    | nil => intro i; simp [wsumL]
    | cons p ps ih =>
      intro i
      simp only [wsumL]
      have h1 : 0 ≤ w i * (p.tokens : Int) := Int.mul_nonneg (hw i) (Int.natCast_nonneg _)
      have h2 := ih (i + 1)
      omega
  have e1 := wsumL_modify w (fun pl => { pl with tokens := 0 }) l i a pa ha
  have h3 := nonneg (l.modify a (fun pl => { pl with tokens := 0 })) i
  have c0 : (((({ pa with tokens := 0 } : Place).tokens : Nat)) : Int) = 0 := rfl
  rw [c0] at e1
  have ea : w (i + a) * (0 - (pa.tokens : Int)) = - (w (i + a) * (pa.tokens : Int)) := by
    rw [Int.mul_sub]; simp
  rw [ea] at e1
  omega

section
variable (wa : Array Int) (s0 : NS) (hcert : certCheck wa s0 = true) (ee : EE) (fuel : Nat) (ops : List Op)
  (hops : ∀ op ∈ ops, op.External)
include hcert hops

theorem pre_or_inv :
    Pre (wOf wa) s0.trans s0.cbs s0.places.size s0.startPlace (runOps ee fuel s0 ops) ∨
    Inv (wOf wa) s0.trans s0.cbs s0.places.size (wOf wa s0.startPlace) (runOps ee fuel s0 ops) := by
  have hc := certCheck_sound wa s0 hcert
  apply history_keeps hc.cert hc.startIn fuel ops s0 hops
  left
  exact ⟨rfl, rfl, rfl, hc.pd, hc.awaited, wsumL_zero _ _ _ hc.empty, rfl⟩

/-- the net is never rebuilt and the weighted token sum is constant -/
theorem weighted_sum_constant :
    (runOps ee fuel s0 ops).trans = s0.trans ∧ (runOps ee fuel s0 ops).cbs = s0.cbs ∧
    (runOps ee fuel s0 ops).places.size = s0.places.size ∧
    (wsum (wOf wa) (runOps ee fuel s0 ops).places = 0 ∨
     wsum (wOf wa) (runOps ee fuel s0 ops).places = wOf wa s0.startPlace) := by
  rcases pre_or_inv wa s0 hcert ee fuel ops hops with h | h
  · exact ⟨h.trans, h.cbs, h.size, Or.inl h.sum⟩
  · exact ⟨h.trans, h.cbs, h.size, Or.inr h.sum⟩

/-- **whenever the final place is marked, it holds exactly one token and no other place of positive weight is
    marked** - for every engine, fuel and history -/
theorem final_place_exclusive_partial (hfin : 1 ≤ (runOps ee fuel s0 ops).tokens s0.finalPlace) :
    (runOps ee fuel s0 ops).tokens s0.finalPlace = 1 ∧
    ∀ p, p ≠ s0.finalPlace → 0 < wOf wa p → (runOps ee fuel s0 ops).tokens p = 0 := by
  have hc := certCheck_sound wa s0 hcert
  generalize hs : runOps ee fuel s0 ops = s at hfin
  have hpi := pre_or_inv wa s0 hcert ee fuel ops hops
  rw [hs] at hpi
  -- the final place exists in `s` and carries `tf ≥ 1` tokens
  have hget : ∃ pf, s.places.toList[s0.finalPlace]? = some pf ∧ s.tokens s0.finalPlace = pf.tokens := by
    unfold NS.tokens at hfin ⊢
    cases hq : s.places[s0.finalPlace]? with
    | none => simp [hq] at hfin
    | some pf => exact ⟨pf, by simpa using hq, by simp⟩
  obtain ⟨pf, hpf, htf⟩ := hget
  have hW : 0 < wOf wa s0.finalPlace := by rw [hc.final]; exact hc.pos
  have h1 := wsumL_ge_one (wOf wa) hc.nonneg s.places.toList 0 s0.finalPlace pf hpf
  simp only [Nat.zero_add] at h1
  have htf1 : 1 ≤ pf.tokens := by rw [← htf]; exact hfin
  have hge : wOf wa s0.finalPlace * 1 ≤ wOf wa s0.finalPlace * (pf.tokens : Int) :=
    Int.mul_le_mul_of_nonneg_left (by omega) (Int.le_of_lt hW)
  rcases hpi with h | h
  · -- not started: the sum is 0, the final place cannot be marked
    have : wsumL (wOf wa) 0 s.places.toList = 0 := h.sum
    omega
  · have hsum : wsumL (wOf wa) 0 s.places.toList = wOf wa s0.finalPlace := by
      have : wsumL (wOf wa) 0 s.places.toList = wOf wa s0.startPlace := h.sum
      rw [this, hc.final]
    constructor
    · -- two tokens would weigh more than the whole net
      rw [htf]
      by_cases h2 : 2 ≤ pf.tokens
      · have : wOf wa s0.finalPlace * 2 ≤ wOf wa s0.finalPlace * (pf.tokens : Int) :=
          Int.mul_le_mul_of_nonneg_left (by omega) (Int.le_of_lt hW)
        omega
      · omega
    · intro p hp hwp
      unfold NS.tokens
      cases hq : s.places[p]? with
      | none => simp
      | some pp =>
        simp
        have hq' : s.places.toList[p]? = some pp := by simpa using hq
        have h2 := wsumL_ge_two (wOf wa) hc.nonneg s.places.toList 0 s0.finalPlace p pf pp (Ne.symm hp) hpf hq'
        simp only [Nat.zero_add] at h2
        by_cases hpp : 1 ≤ pp.tokens
        · have : wOf wa p * 1 ≤ wOf wa p * (pp.tokens : Int) :=
            Int.mul_le_mul_of_nonneg_left (by omega) (Int.le_of_lt hwp)
          omega
        · omega
end

def twoServices : Prog :=
  { tasks := [{ name := "productionTask", line := 1,
                body := [Stmt.svc { name := "A", ins := [], line := 2 }, Stmt.svc { name := "B", ins := [], line := 3 }] }] }

/-- the hypotheses are met: a two-service order certifies with the inferred weights -/
example : certCheck (inferWeights (generate twoServices true 1000)) (generate twoServices true 1000) = true
    ∧ hasPloop (generate twoServices true 1000) = false := by decide +kernel

/-- a Parallel block of two tasks, a counting loop, a condition with and without a Failed branch, a while loop -/
def richOrder : Prog :=
  { tasks := [
      { name := "productionTask", line := 1,
        body := [Stmt.svc { name := "A", ins := [], line := 2 },
                 Stmt.par [{ name := "t1", ins := [], line := 4 }, { name := "t2", ins := [], line := 5 }] 3,
                 Stmt.cloop "i" (Limit.lit 2) [Stmt.svc { name := "B", ins := [], line := 7 }, Stmt.call { name := "t2", ins := [], line := 8 }] 6,
                 Stmt.cond (Expr.lit (Val.bool true)) [Stmt.svc { name := "C", ins := [], line := 11 }] [Stmt.svc { name := "D", ins := [], line := 13 }] 9] },
      { name := "t1", line := 20,
        body := [Stmt.wloop (Expr.path ["r", "b"]) [Stmt.svc { name := "E", ins := [], line := 22 }] 21,
                 Stmt.cond (Expr.path ["r", "b"]) [Stmt.svc { name := "F", ins := [], line := 25 }] [] 23] },
      { name := "t2", line := 30, body := [Stmt.svc { name := "G", ins := [], line := 31 }] }] }

example : certCheck (inferWeights (generate richOrder true 1000)) (generate richOrder true 1000) = true
    ∧ hasPloop (generate richOrder true 1000) = false
    ∧ (generate richOrder true 1000).trans.size = 29 := by decide +kernel

end Pfdl.Net.C01
