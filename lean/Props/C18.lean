import PfdlProofs.Prov
/-! C18 – behaviour is independent of configuration and of other scheduler instances.

In the model a scheduler instance is a value and an API call a function of that value alone, so
repeatability and independence from other instances hold by construction (they are what the
correspondence run checks on the implementation: same case repeated, and driven while other live
schedulers are created and driven in between, with events addressed to the wrong instance).
What *is* a statement about the model: scheduling does not depend on who is listening. -/
namespace Pfdl.Props.C18
open Pfdl

/-- the same scheduler with other registered listeners / attached observers -/
def withLs (s : Sched) (l : Listeners) (o : List Nat) : Sched := { s with ls := l, observers := o }

theorem finish_withLs (s : Sched) (r : Run) (st : St) (l : Listeners) (o : List Nat) :
    ((withLs s l o).finish r st).1 = withLs (s.finish r st).1 l o ∧ ((withLs s l o).finish r st).2 = (s.finish r st).2 := by
  unfold Sched.finish withLs
  split <;> exact ⟨rfl, rfl⟩

theorem begin_withLs (s : Sched) (ee : EE) (fuel : Nat) (l : Listeners) (o : List Nat) :
    ((withLs s l o).begin ee fuel).1 = withLs (s.begin ee fuel).1 l o ∧ ((withLs s l o).begin ee fuel).2 = (s.begin ee fuel).2 := by
  cases hopt : s.prog.task? Generated.startTaskName with
  | none =>
    rw [Sched.begin_none s ee fuel hopt, Sched.begin_none (withLs s l o) ee fuel hopt]
    exact ⟨rfl, rfl⟩
  | some t =>
    rw [Sched.begin_some s ee fuel t hopt, Sched.begin_some (withLs s l o) ee fuel t hopt]
    exact finish_withLs ({ s with started := true, rootNote := s.rootTF t } : Sched)
      (enterBlk s.prog ee fuel t.body s.beginEnv (s.beginSt t)).1 (enterBlk s.prog ee fuel t.body s.beginEnv (s.beginSt t)).2 l o

/-- Non-interference: registered callbacks and attached observers influence neither the verdict on
    an event nor anything the scheduler does next – the resulting state is the same up to the
    listener/observer lists, and so is the sequence of core events (hence the notification sequence
    is the same whether observers are attached or not, drawing on or off: neither is read by the
    scheduling functions). -/
theorem fire_independent_of_listeners (s : Sched) (ee : EE) (fuel : Nat) (e : Event) (l : Listeners) (o : List Nat) :
    ((withLs s l o).fire ee fuel e).ret = (s.fire ee fuel e).ret ∧
    ((withLs s l o).fire ee fuel e).sched = withLs (s.fire ee fuel e).sched l o := by
  cases e with
  | other => exact ⟨rfl, rfl⟩
  | start =>
    rw [Sched.fire_start, Sched.fire_start]
    have hb := begin_withLs s ee fuel l o
    by_cases hc : (s.valid && !s.started) = true
    · have hc' : ((withLs s l o).valid && !(withLs s l o).started) = true := hc
      rw [if_pos hc, if_pos hc']
      exact ⟨rfl, hb.1⟩
    · have hc' : ¬ ((withLs s l o).valid && !(withLs s l o).started) = true := hc
      rw [if_neg hc, if_neg hc']
      exact ⟨rfl, rfl⟩
  | svcFinished i =>
    rw [Sched.fire_svc, Sched.fire_svc]
    by_cases hc : (s.valid && s.st.awaited.contains i) = true
    · have hc' : ((withLs s l o).valid && (withLs s l o).st.awaited.contains i) = true := hc
      rw [if_pos hc, if_pos hc']
      have hd' : deliver (withLs s l o).prog ee fuel i (withLs s l o).run { (withLs s l o).st with out := [] }
          = deliver s.prog ee fuel i s.run { s.st with out := [] } := rfl
      rw [hd']
      cases hd : deliver s.prog ee fuel i s.run { s.st with out := [] } with
      | none => exact ⟨rfl, rfl⟩
      | some p =>
        obtain ⟨r, st⟩ := p
        exact ⟨rfl, (finish_withLs s r st l o).1⟩
    · have hc' : ¬ ((withLs s l o).valid && (withLs s l o).st.awaited.contains i) = true := hc
      rw [if_neg hc, if_neg hc']
      exact ⟨rfl, rfl⟩

theorem start_independent_of_listeners (s : Sched) (ee : EE) (fuel : Nat) (l : Listeners) (o : List Nat) :
    ((withLs s l o).start ee fuel).ret = (s.start ee fuel).ret ∧
    ((withLs s l o).start ee fuel).sched = withLs (s.start ee fuel).sched l o := by
  unfold Sched.start
  by_cases hv : s.valid = true
  · have hv' : (withLs s l o).valid = true := hv
    rw [if_pos hv, if_pos hv']
    by_cases hs : (!s.started) = true
    · have hs' : (!(withLs s l o).started) = true := hs
      rw [if_pos hs, if_pos hs']
      have := fire_independent_of_listeners { s with running := true } ee fuel .start l o
      exact ⟨rfl, this.2⟩
    · have hs' : ¬ (!(withLs s l o).started) = true := hs
      rw [if_neg hs, if_neg hs']
      exact ⟨rfl, rfl⟩
  · have hv' : ¬ (withLs s l o).valid = true := hv
    rw [if_neg hv, if_neg hv']
    exact ⟨rfl, rfl⟩

/-- the events an execution engine can send: start and fire calls -/
def EngineOps (ops : List Op) : Prop := ∀ op ∈ ops, op = .start ∨ ∃ e, op = .fire e

/-- over whole histories of engine calls: same history of core events, same final scheduling state -/
theorem history_independent_of_listeners (ee : EE) (fuel : Nat) (l : Listeners) (o : List Nat) :
    (ops : List Op) → EngineOps ops → (s : Sched) →
    (withLs s l o).runOps ee fuel ops = withLs (s.runOps ee fuel ops) l o
  | [], _, s => rfl
  | op :: ops, h, s => by
      have hrest : EngineOps ops := fun x hx => h x (by simp [hx])
      simp only [Sched.runOps]
      rcases h op (by simp) with rfl | ⟨e, rfl⟩
      · simp only [Sched.step]
        rw [(start_independent_of_listeners s ee fuel l o).2]
        exact history_independent_of_listeners ee fuel l o ops hrest _
      · simp only [Sched.step]
        rw [(fire_independent_of_listeners s ee fuel e l o).2]
        exact history_independent_of_listeners ee fuel l o ops hrest _

/-- repeatability: the state after a history is a function of program, execution engine and history -/
theorem deterministic (P : Prog) (v : Bool) (ee : EE) (fuel : Nat) (ops : List Op) (a b : Sched)
    (ha : a = (Sched.init P v).runOps ee fuel ops) (hb : b = (Sched.init P v).runOps ee fuel ops) : a = b := by
  rw [ha, hb]

end Pfdl.Props.C18
