import PfdlModel.Net
/-! C20 / C17 at the net layer: what one task notification hands to the listeners and observers, read off the model
    of `on_task_started` / `on_task_finished` as the code does them (for service notifications the listeners may nest
    further scheduler calls; their fan-out is covered by the structural model and the correspondence). -/
namespace Pfdl.Net.C20
open Pfdl

theorem out_foldl_emit {α} (g : α → NOut) : ∀ (l : List α) (s : NS),
    (l.foldl (fun s a => s.emit (g a)) s).out = s.out ++ (l.map g).toArray
  | [], s => by simp
  | a :: l, s => by
      simp only [List.foldl_cons, List.map_cons]
      rw [out_foldl_emit g l]
      simp [NS.emit]

theorem obs_foldl_emit {α} (g : α → NOut) : ∀ (l : List α) (s : NS),
    (l.foldl (fun s a => s.emit (g a)) s).observers = s.observers
  | [], _ => rfl
  | a :: l, s => by simp only [List.foldl_cons]; rw [obs_foldl_emit g l]; rfl

theorem out_logAll (s : NS) (n : Note) (b : Bool) :
    (s.logAll n b).out = s.out ++ (s.observers.map (fun o => NOut.log o n b)).toArray := by
  unfold NS.logAll; exact out_foldl_emit (fun o => NOut.log o n b) s.observers s
theorem out_netAll (s : NS) : s.netAll.out = s.out ++ (s.observers.map NOut.netUpd).toArray := by
  unfold NS.netAll; exact out_foldl_emit (fun o => NOut.netUpd o) s.observers s
theorem obs_netAll (s : NS) : s.netAll.observers = s.observers := by
  unfold NS.netAll; exact obs_foldl_emit (fun o => NOut.netUpd o) s.observers s

/-- a task-finished notification: every registered function once, in registration order, with one and the same
    argument; then the observers in attachment order - for a task named like the production task first the
    net-updated notice, and the log entry carries the order-finished flag exactly then -/
theorem task_finished_fanout (ee : EE) (f t : Nat) (s : NS) :
    (runCb ee (f + 1) (.taskFinished t) s).out =
      s.out ++ (s.ls.tf.map (fun fn => NOut.inv fn (s.noteT .tf t))).toArray ++
        (if (s.noteT .tf t).name == Generated.startTaskName then
          (s.observers.map NOut.netUpd).toArray ++ (s.observers.map (fun o => NOut.log o (s.noteT .tf t) true)).toArray
         else (s.observers.map (fun o => NOut.log o (s.noteT .tf t) false)).toArray) := by
  simp only [Net.runCb]
  have hout := out_foldl_emit (fun fn => NOut.inv fn (s.noteT .tf t)) s.ls.tf s
  have hobs := obs_foldl_emit (fun fn => NOut.inv fn (s.noteT .tf t)) s.ls.tf s
  generalize List.foldl (fun x fn => NS.emit x (NOut.inv fn (s.noteT .tf t))) s s.ls.tf = X at hout hobs ⊢
  split
  · rw [out_logAll, out_netAll, obs_netAll]
    show (X.out ++ (List.map NOut.netUpd X.observers).toArray) ++ _ = _
    rw [hout, hobs]
    simp [Array.append_assoc]
  · rw [out_logAll, hout, hobs]

/-- registering a function that is already registered is refused and changes nothing; a new one is appended -/
theorem register_refused (ee : EE) (fuel : Nat) (s : NS) (k : Kind) (fn : Nat) (h : (s.ls.get k).contains fn = true) :
    (step ee fuel s (.register k fn)).ret = some false ∧ (step ee fuel s (.register k fn)).s.ls = s.ls := by
  have hm : fn ∈ s.ls.get k := by simpa using h
  simp only [Net.step]
  split
  · exact ⟨rfl, rfl⟩
  · rename_i hc; simp [hm] at hc

theorem register_appends (ee : EE) (fuel : Nat) (s : NS) (k : Kind) (fn : Nat) (h : (s.ls.get k).contains fn = false) :
    (step ee fuel s (.register k fn)).ret = some true ∧
    ((step ee fuel s (.register k fn)).s.ls.get k) = s.ls.get k ++ [fn] := by
  simp only [Net.step]
  split
  · rename_i hc
    have : (s.ls.get k).contains fn = true := hc
    rw [h] at this; cases this
  · refine ⟨rfl, ?_⟩
    cases k <;> rfl

end Pfdl.Net.C20
