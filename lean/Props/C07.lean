import Props.C14
/-! C07 – start/finish notifications are balanced, nested and correctly attributed.

Proved for every reachable scheduler state (any program, execution engine, fuel, API history):
balance and uniqueness of started/finished notifications, the production task's notifications,
timeliness of service-finished.  Not carried by a theorem yet (monitor + correspondence only):
"the context of a notification is an *open* task instance" and the full bracket structure. -/
namespace Pfdl.Props.C07
open Pfdl Pfdl.Props.C14

/-- every service-started is followed by at most one service-finished for that instance, none
    without its start; a service is finished or still outstanding, never both, never lost:
    started = finished + outstanding, identifier by identifier -/
theorem services_balanced (s : Sched) (h : Reachable s) (j : Nat) :
    (ssIds s.hist).count j = (sfIds s.hist).count j + s.outstanding.count j ∧ (sfIds s.hist).count j ≤ 1 := by
  have ht := (reachable_inv h).2
  have a := ht.sf j
  have hn := unique_services s h
  have : (ssIds s.hist).count j ≤ 1 := List.nodup_iff_count.1 hn j
  exact ⟨a, by omega⟩

/-- the same for task instances: started = finished + open (called tasks inside the run tree, and
    the production task while the order is in progress) -/
theorem tasks_balanced (s : Sched) (h : Reachable s) (j : Nat) :
    (tsIds s.hist).count j = (tfIds s.hist).count j + s.run.openTasks.count j + s.rootOpen.count j ∧
    (tfIds s.hist).count j ≤ 1 := by
  have ht := (reachable_inv h).2
  have a := ht.tf j
  have hn := unique_tasks s h
  have : (tsIds s.hist).count j ≤ 1 := List.nodup_iff_count.1 hn j
  exact ⟨a, by omega⟩

/-- once the order has finished every started instance has been reported finished exactly once -/
theorem all_finished_at_end (s : Sched) (h : Reachable s) (hs : s.started = true) (hf : s.run = .fin) (j : Nat) :
    (sfIds s.hist).count j = (ssIds s.hist).count j ∧ (tfIds s.hist).count j = (tsIds s.hist).count j := by
  have a := (services_balanced s h j).1
  have b := (tasks_balanced s h j).1
  simp [Sched.outstanding, Sched.rootOpen, hf, hs] at a b
  omega

/-- The production task is first and last: the notifications without context in the whole history
    are exactly its task-started, and – iff the order has finished – its task-finished after it;
    every other notification carries a context. -/
theorem production_task_notes (s : Sched) (h : Reachable s) :
    rootNotes s.hist = if s.started then (if s.run.isFin then [s.rootTS, s.rootNote] else [s.rootTS]) else [] :=
  (reachable_inv h).2.root

/-- a service-finished notification is issued in the very call that delivers the completion -/
theorem service_finished_timely (s : Sched) (ee : EE) (fuel : Nat) (i : Nat) (h : Reachable s)
    (hacc : (s.fire ee fuel (.svcFinished i)).ret = true) :
    ∃ n : Note, n.kind = .sf ∧ n.id = i ∧
      [Ev.note n] <+: ((s.fire ee fuel (.svcFinished i)).sched.hist.drop s.hist.length) :=
  accepted_id_is_finished_id s ee fuel i h hacc

/-- non-vacuity: Parallel with two branches, completions in reverse order: 3 tasks and 2 services
    started and finished, production task first and last -/
def exProg : Prog :=
  { tasks := [{ name := "productionTask", line := 1,
                body := [.par [{ name := "t", ins := [], line := 3 }, { name := "t", ins := [], line := 4 }] 2] },
              { name := "t", line := 6, body := [.svc { name := "A", ins := [], line := 7 }] }] }
def exEE : EE := { ans := fun _ => none, imm := fun _ => false }
def exState : Sched := (Sched.init exProg true).runOps exEE 50 [.start, .fire (.svcFinished 1), .fire (.svcFinished 0)]
example : tsIds exState.hist = [0, 1, 2] ∧ tfIds exState.hist = [2, 1, 0] ∧ ssIds exState.hist = [0, 1] ∧
    sfIds exState.hist = [1, 0] ∧ exState.run.isFin = true := by decide

end Pfdl.Props.C07
