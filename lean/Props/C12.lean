import PfdlProofs.DenterLemmas
/-! C12 – the parsed model is a faithful image of the source text: the layout part.

What is proved here is the indentation-sensitive half of the property: which characters are layout
(`Denter.scan`, the lexer's skip rules) and how INDENT / DEDENT tokens are synthesised from line breaks
(`Denter.denter`, antlr_denter's DenterHelper as PFDLLexer drives it).  The grammar proper (ANTLR's generated
parser) and the visitor are compared with the generating AST directly by the correspondence harness. -/
namespace Pfdl.Props.C12
open Pfdl Pfdl.Denter

/-- **Total, balanced**: for every raw token stream the synthesis terminates without popping the empty
    indentation stack (Python: IndexError) and closes exactly the blocks it opened. -/
theorem blocks_balanced (ts : List Raw) :
    ∃ o, denter ts = some o ∧ o.count .dedent = o.count .indent :=
  denter_ok ts

/-- **CRLF**: a `\r` in front of the line feed does not change the indentation that is read. -/
theorem crlf_indent (n : Nat) : indentOf true n = indentOf false n := by
  rw [indentOf_eq, indentOf_eq]

/-- **CRLF line ends do not change the token stream** (whatever mixture of line ends the text uses). -/
theorem crlf_irrelevant (c : Bool) (ts : List Raw) (st : List Nat) :
    run st none (ts.map (Raw.withCr c)) = run st none ts := by
  simpa using run_crlf c ts st none

/-- **Blank lines, lines of blanks, comment lines**: they reach the denter as consecutive NL tokens (the
    lexer skips blanks and comments), and of consecutive NL tokens only the last one counts. -/
theorem blank_lines_irrelevant (pre post : List Raw) (a c : Bool) (b d : Nat) (st : List Nat) :
    run st none (pre ++ .nl a b :: .nl c d :: post) = run st none (pre ++ .nl c d :: post) :=
  run_nl_nl pre a c b d post st none

/-- leading blank / comment lines are dropped -/
theorem leading_lines_irrelevant (a : Bool) (b : Nat) (ts : List Raw) : denter (.nl a b :: ts) = denter ts := by
  simp [denter]

/-- **Missing final newline**: a line break (with or without blanks after it) at the very end is irrelevant. -/
theorem final_newline_irrelevant (pre : List Raw) (a : Bool) (b : Nat) (st : List Nat) :
    run st none (pre ++ [.nl a b]) = run st none pre :=
  run_final_nl pre a b st none

/-- **Indentation width**: the token stream is a function of the nesting depths alone — for every rendering
    of the lines whose indentations express the depths (`Renders`: same block, same indentation; nested block,
    any deeper indentation; closed block, back at the enclosing indentation). -/
theorem nesting_from_depths {ls : List Line} (h : Renders [0] ls) :
    denter (.tok 0 :: rawOf ls) = some (.tok :: specOut 0 (ls.map Line.depth)) := by
  simp [denter, run_spec h StackOk.base]

theorem indentation_width_irrelevant {ls1 ls2 : List Line} (h1 : Renders [0] ls1) (h2 : Renders [0] ls2)
    (hd : ls1.map Line.depth = ls2.map Line.depth) :
    denter (.tok 0 :: rawOf ls1) = denter (.tok 0 :: rawOf ls2) :=
  width_irrelevant h1 h2 hd

/-! the lexer's skip rules, character by character -/

/-- **Trailing blanks**: a blank in front of a line break (outside a string) leaves the lexer in the state
    the line break alone leads to. -/
theorem trailing_blank_irrelevant (s : Lx) (h : s.mode = .code ∨ s.mode = .comment) :
    step (step s ' ') '\n' = step s '\n' := by
  rcases h with h | h
  · by_cases hj : s.json = 0
    · simp [step, stepCode, h, hj]
    · simp [step, stepCode, h, hj]
  · by_cases hj : s.json = 0
    · simp [step, stepCode, h, hj]
    · simp [step, stepCode, h, hj]

/-- **Comments**: a `#` and everything up to the line break leave the lexer in the state the line break
    alone leads to. -/
theorem comment_irrelevant (s : Lx) (h : s.mode = .code) (cs : List Char) (hcs : ∀ c ∈ cs, c ≠ '\n') :
    step (cs.foldl step (step s '#')) '\n' = step s '\n' := by
  have key : ∀ (cs : List Char) (t : Lx), t.mode = .comment → (∀ c ∈ cs, c ≠ '\n') →
      (cs.foldl step t).mode = .comment ∧ (cs.foldl step t).json = t.json ∧ (cs.foldl step t).out = t.out ∧
      (cs.foldl step t).inTok = t.inTok := by
    intro cs
    induction cs with
    | nil => intro t ht _; simp [ht]
    | cons c cs ih =>
      intro t ht hc
      have hne : c ≠ '\n' := hc c (by simp)
      have h1 : (step t c).mode = .comment := by simp [step, ht, hne]
      obtain ⟨a, b, c', d⟩ := ih (step t c) h1 (fun x hx => hc x (by simp [hx]))
      refine ⟨by simpa using a, ?_, ?_, ?_⟩
      · simp only [List.foldl_cons]; rw [b]; simp [step, ht, hne]
      · simp only [List.foldl_cons]; rw [c']; simp [step, ht, hne]
      · simp only [List.foldl_cons]; rw [d]; simp [step, ht, hne]
  have h0 : (step s '#').mode = .comment := by
    by_cases hj : s.json = 0 <;> simp [step, stepCode, h, hj]
  obtain ⟨a, b, c, d⟩ := key cs (step s '#') h0 hcs
  have hb : (step s '#').json = s.json := by by_cases hj : s.json = 0 <;> simp [step, stepCode, h, hj]
  have hc : (step s '#').out = s.out := by by_cases hj : s.json = 0 <;> simp [step, stepCode, h, hj]
  generalize hT : cs.foldl step (step s '#') = T at a b c d
  cases T with
  | mk mode json col inTok out =>
    simp at a b c d
    subst a
    by_cases hj : s.json = 0
    · simp [step, stepCode, h, hj, b, c]
    · simp [step, stepCode, h, hj, b, c]

/-! non-vacuity and concrete readings -/

/-- indentation widths 4/8 and 2/3 express the same nesting -/
example : Renders [0] [⟨4, 1⟩, ⟨4, 1⟩, ⟨8, 2⟩, ⟨0, 0⟩] ∧ Renders [0] [⟨2, 1⟩, ⟨2, 1⟩, ⟨3, 2⟩, ⟨0, 0⟩] := by
  refine ⟨?_, ?_⟩
  · refine .deeper (by decide) rfl (.same rfl rfl (.deeper (by decide) rfl (.shallower (k := 2) (by decide) rfl rfl (.nil _))))
  · refine .deeper (by decide) rfl (.same rfl rfl (.deeper (by decide) rfl (.shallower (k := 2) (by decide) rfl rfl (.nil _))))

example : pattern "Struct A\n    a: number\nEnd\n" = some "tItNDtN" := by decide
example : pattern "# c\n\nStruct A  \r\n  a: number # x\r\n\r\n   \r\nEnd" = some "tItNDtN" := by decide
/-- inside a struct literal line breaks are not layout -/
example : pattern "A\n In\n  S\n   {\n \"a\":\n1}\n" = pattern "A\n In\n  S\n   {\"a\":1}\n" := by decide

end Pfdl.Props.C12
