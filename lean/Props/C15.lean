import PfdlProofs.Prov
import Props.C14
/-! C15 – call parameters reach the execution engine in order, isolated, with loop indices resolved. -/
namespace Pfdl.Props.C15
open Pfdl Pfdl.Props.C14

/-- the substitution touches nothing but array indexes written with a counting variable:
    same number of parameters, in the same order; variables and struct literals unchanged;
    a path keeps its length and every element that is not an index -/
theorem subst_shape (b : List (String × Nat)) (ps : List Param) :
    (substParams b ps).length = ps.length ∧
    ∀ k (h : k < ps.length),
      match ps[k] with
      | .var x => (substParams b ps)[k]'(by simp [substParams]; exact h) = .var x
      | .lit s v => (substParams b ps)[k]'(by simp [substParams]; exact h) = .lit s v
      | .path p => ∃ q, (substParams b ps)[k]'(by simp [substParams]; exact h) = .path q ∧ q.length = p.length ∧
          ∀ j (hj : j < p.length), (∀ v, p[j] ≠ .idx v) → q[j]? = some p[j] := by
  refine ⟨by simp [substParams], ?_⟩
  intro k h
  have hk : (substParams b ps)[k]'(by simp [substParams]; exact h) = substParam b ps[k] := by simp [substParams]
  rw [hk]
  cases hp : ps[k] with
  | var x => simp [substParam]
  | lit s v => simp [substParam]
  | path p =>
    simp only [substParam]
    refine ⟨_, rfl, by simp, ?_⟩
    intro j hj hne
    simp only [List.getElem?_map, List.getElem?_eq_getElem hj, Option.map_some]
    cases hseg : p[j] with
    | name a => simp [substSeg]
    | idxNum n => simp [substSeg]
    | idx v => exact absurd hseg (hne v)

/-- an index written with counting variable `v` is delivered as the iteration number bound to `v`
    (innermost binding), an index over anything else is delivered as written -/
theorem subst_index (b : List (String × Nat)) (v : String) :
    substSeg b (.idx v) = (match b.lookup v with | some k => .idxNum k | none => .idx v) := rfl

/-- iteration `c` of a counting loop over `v` binds `v` to `c` for the statements of its body: a
    service called directly in the body is announced with `[v]` resolved to `c` -/
theorem loop_body_binding (P : Prog) (ee : EE) (f : Nat) (env : Env) (s : St) (v : String) (c : Nat) (site : CallSite) :
    ∃ n rest, (enter P ee (f+1) (.svc site) { env with inLoop := true, binds := (v, c) :: env.binds } s).2.out
        = s.out ++ Ev.ann n :: rest ∧
      n.params = substParams ((v, c) :: env.binds) site.ins ∧ n.name = site.name ∧ n.line = site.line := by
  simp only [enter]
  split
  · exact ⟨noteOf .ss site s.ctrS (some env.ctx) (substParams ((v, c) :: env.binds) site.ins), _,
      by simp [St.emit, St.emits]; rfl, rfl, rfl, rfl⟩
  · exact ⟨noteOf .ss site s.ctrS (some env.ctx) (substParams ((v, c) :: env.binds) site.ins), _,
      by simp [St.emit]; rfl, rfl, rfl, rfl⟩

/-- Every started/finished notification below the production task, in the whole history of any
    reachable state, names a call site written in the program (name and source line) and carries the
    input parameters written at that call site – same number, same order, variables and struct
    literals untouched – with array indexes resolved under some binding of counting variables.
    Delivery is a function of the immutable program: nothing an execution engine does to a list it
    received can reach a later notification (the model has no other source of parameters). -/
theorem params_from_call_site (s : Sched) (h : Reachable s) (n : Note)
    (hn : Ev.ann n ∈ s.hist ∨ (Ev.note n ∈ s.hist ∧ n.ctx ≠ none)) :
    ∃ c ∈ s.prog.sites, n.name = c.name ∧ n.line = c.line ∧ ∃ b, n.params = substParams b c.ins := by
  obtain ⟨P, v, ee, fuel, ops, rfl⟩ := h
  have hall := Sched.runOps_all ee fuel ops _ (Sched.init_inv P v) (Sched.init_tinv P v) (Sched.init_pinv P v)
  rcases hn with hn | ⟨hn, hctx⟩
  · rcases hall.2.2.hist _ hn with hf | ⟨m, hm, _⟩
    · obtain ⟨c, hc, h1, h2, h3⟩ := hf
      exact ⟨c, hc, h1, h2, h3⟩
    · cases hm
  · rcases hall.2.2.hist _ hn with hf | ⟨m, hm, hm2⟩
    · obtain ⟨c, hc, h1, h2, h3⟩ := hf
      exact ⟨c, hc, h1, h2, h3⟩
    · cases hm; exact absurd hm2 hctx

/-- non-vacuity: `Loop i To 2 / A In r.parts[i]`, both services immediate: `[0]` then `[1]` -/
def exProg : Prog :=
  { tasks := [{ name := "productionTask", line := 1,
                body := [.cloop "i" (.lit 2) [.svc { name := "A", ins := [.path [.name "r", .name "parts", .idx "i"]], line := 3 }] 2] }] }
def exEE : EE := { ans := fun _ => none, imm := fun _ => true }
def annParams (evs : List Ev) : List (List Param) := evs.filterMap (fun e => match e with | .ann n => some n.params | _ => none)
example : (annParams ((Sched.init exProg true).runOps exEE 50 [.start]).hist).map (fun ps => ps.map (fun p => match p with
      | .path q => q | _ => [])) = [[[.name "r", .name "parts", .idxNum 0]], [[.name "r", .name "parts", .idxNum 1]]] := by
  decide

end Pfdl.Props.C15
