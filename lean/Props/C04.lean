import PfdlProofs.Laws
set_option linter.unusedSimpArgs false
/-! C04 – a Condition executes exactly the branch its expression selects. -/
namespace Pfdl.Props.C04
open Pfdl

/-- the queries `execute_expression` issues are the attribute paths of the expression, left to
    right, one per path – whenever the evaluation does not raise -/
theorem exec_queries (ans : Nat → Option Val) : (e : Expr) → (k : Nat) → (v : Val) →
    (e.exec ans k).1 = some v → (e.exec ans k).2 = e.queries
  | .lit w, k, v, _ => rfl
  | .path [], k, v, h => by simp [Expr.exec] at h
  | .path (x :: segs), k, v, _ => rfl
  | .not e, k, v, h => by
      simp only [Expr.exec] at h ⊢
      cases he : (e.exec ans k).1 with
      | none => rw [he] at h; simp at h
      | some w => exact exec_queries ans e k w he
  | .paren e, k, v, h => by
      simp only [Expr.exec] at h ⊢
      exact exec_queries ans e k v h
  | .bin op l r, k, v, h => by
      simp only [Expr.exec] at h ⊢
      cases hl : (l.exec ans k).1 with
      | none => simp [hl] at h
      | some a =>
        simp only [hl] at h ⊢
        cases hr : (r.exec ans (k + (l.exec ans k).2.length)).1 with
        | none => simp [hr] at h
        | some b =>
          have h1 := exec_queries ans l k a hl
          have h2 := exec_queries ans r (k + (l.exec ans k).2.length) b hr
          rw [h1] at h2
          simp [Expr.queries, h1, h2]
  | .none, k, v, h => by simp [Expr.exec] at h

/-- EVALUATION IN CONTEXT: reaching a Condition queries exactly the variables of its expression,
    in order, each with the enclosing task instance as context, against the values the execution
    engine holds at that moment (the next answers of the engine) -/
theorem condition_queries (ee : EE) (e : Expr) (ctx : Nat) (s : St) (v : Val) (h : (s.evalExpr ee e ctx).1 = some v) :
    (s.evalExpr ee e ctx).2.out = s.out ++ e.queries.map (fun x => Ev.var x ctx) ∧
    (s.evalExpr ee e ctx).1 = (e.exec ee.ans s.nq).1 := by
  have hq := exec_queries ee.ans e s.nq v h
  refine ⟨?_, rfl⟩
  show s.out ++ (e.exec ee.ans s.nq).2.map (fun x => Ev.var x ctx) = _
  rw [hq]

/-- SELECTION: exactly the selected branch is entered – Passed iff the value is truthy; the other
    branch's statements are dropped (they are not part of the resulting run state, nothing of them
    is ever started).  Failed absent and value false: the Condition is complete at once, so by the
    block law (C02) the next statement is entered in the same call; either way the enclosing task's
    block continues normally. -/
theorem selects_branch (P : Prog) (ee : EE) (f : Nat) (e : Expr) (p q : List Stmt) (line : Nat) (env : Env) (s : St) (v : Val)
    (h : (s.evalExpr ee e env.ctx).1 = some v) :
    enter P ee (f+1) (.cond e p q line) env s =
      if v.truthy then enterBlk P ee f p env (s.evalExpr ee e env.ctx).2
      else enterBlk P ee f q env (s.evalExpr ee e env.ctx).2 := by
  simp only [enter]
  split
  · rename_i hn; rw [hn] at h; simp at h
  · rename_i w hw
    rw [hw] at h
    simp at h
    subst h
    rfl

theorem no_failed_branch_continues (P : Prog) (ee : EE) (f : Nat) (e : Expr) (p : List Stmt) (line : Nat) (env : Env) (s : St) (v : Val)
    (h : (s.evalExpr ee e env.ctx).1 = some v) (hv : v.truthy = false) :
    enter P ee (f+2) (.cond e p [] line) env s = (.fin, (s.evalExpr ee e env.ctx).2) := by
  rw [selects_branch P ee (f+1) e p [] line env s v h]
  simp [hv, enterBlk]

/-- the decision is the truth value of the expression's value (Python `bool(value)`) -/
theorem truthy_bool (b : Bool) : (Val.bool b).truthy = b := rfl

/-- non-vacuity: `Condition r.b / Passed A / Failed B` with r.b = false announces B -/
def exProg : Prog :=
  { tasks := [{ name := "productionTask", line := 1,
                body := [.cond (.path ["r", "b"]) [.svc { name := "A", ins := [], line := 4 }] [.svc { name := "B", ins := [], line := 6 }] 2] }] }
def exEE : EE := { ans := fun _ => some (.struct [("b", .bool false)]), imm := fun _ => false }
def names (evs : List Ev) : List String := evs.filterMap (fun e => match e with | .ann n => some n.name | _ => none)
example : names ((Sched.init exProg true).runOps exEE 50 [.start]).hist = ["B"] := by decide

end Pfdl.Props.C04
