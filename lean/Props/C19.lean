import PfdlProofs.CheckLines
/-! C19 – reported errors point into the offending construct.

The model locates a message at the start line of the statement / definition whose ANTLR context
(or a sub-context inside it) the code passes to `print_error`; the correspondence compares this
with the line the implementation prints (which must lie inside that construct's span). -/
namespace Pfdl.Props.C19
open Pfdl Pfdl.Check

/-- NO LINE OUTSIDE THE FILE: every message carries line 1 or the start line of a struct, task,
    statement or Parallel-branch call that occurs in the program -/
theorem in_file (p : Prog) (errs : List Err) (h : validate p = some errs) :
    ∀ e ∈ errs, e.line = 1 ∨ e.line ∈ p.nodeLines :=
  validate_lines p errs h

/-- messages of a statement's check point into that statement: they carry the start line of the
    statement itself, of a statement nested in it or of a call of a Parallel block in it -/
theorem within_statement (env : Env) (vars : List (String × Ty)) (s : Stmt) (errs : List Err)
    (h : checkStmt env vars s = some errs) : ∀ e ∈ errs, e.line ∈ s.lines :=
  checkStmt_lines env vars s errs h

/-- a faulty service call / task call (unknown task, unknown variable, bad attribute access, bad
    struct literal, wrong arity or argument types) is reported at the call's own line -/
theorem call_fault_at_call (env : Env) (vars : List (String × Ty)) (c : Call) (errs : List Err) :
    (checkStmt env vars (.svc c) = some errs → ∀ e ∈ errs, e.line = c.line) ∧
    (checkStmt env vars (.call c) = some errs → ∀ e ∈ errs, e.line = c.line) := by
  constructor
  · intro h e he; have := checkStmt_lines env vars _ errs h e he; simpa [Stmt.lines] using this
  · intro h e he; have := checkStmt_lines env vars _ errs h e he; simpa [Stmt.lines] using this

/-- an unknown task is reported exactly at the calling statement -/
theorem unknown_task_at_call (env : Env) (vars : List (String × Ty)) (c : Call) (hu : env.task? c.name = none) :
    checkStmt env vars (.call c) = some [⟨"unknown_task", c.line⟩] := by
  simp [checkStmt, checkTaskCall, hu, atLine]

/-- the whole-file message (no productionTask) carries line 1 -/
theorem no_production_task_at_line_1 (p : Prog) (errs : List Err) (h : validate p = some errs)
    (hno : (mkEnv p).tasks.any (·.name == Generated.startTaskName) = false) :
    (⟨"no_production_task", 1⟩ : Err) ∈ errs := by
  unfold validate at h
  simp only [] at h
  split at h
  · simp at h
  · simp at h
    rw [← h]
    have hne : ¬ ∃ x, x ∈ (mkEnv p).tasks ∧ x.name = Generated.startTaskName := by
      intro ⟨x, hx, hnm⟩
      have : (mkEnv p).tasks.any (·.name == Generated.startTaskName) = true :=
        List.any_eq_true.2 ⟨x, hx, by simp [hnm]⟩
      rw [hno] at this; simp at this
    simp [hne]

end Pfdl.Props.C19
