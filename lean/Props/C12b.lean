import PfdlProofs.SyntaxRoundTrip
import PfdlProofs.ParseRoundTrip
/-! C12 – the parsed model is a faithful image of the source text: the grammar part.

`Pfdl.Syntax` models the statement level of `PFDLParser.g4` and what `PFDLTreeVisitor` keeps of every rule, over
the token stream of lexer + denter.  The theorems say that the model the parser builds is exactly the one that
was written: for every model the grammar can express, the tokens of its text are read back into that model –
definitions, statements, parameters, literals, expressions, in source order, with the nesting of the blocks
and the line of every construct – whichever of the three placements each struct literal uses.
The tie to the implementation: `tools/syntax_tie.py` feeds the token stream of the real lexer + denter to the
compiled model and compares its answer with the Process object the real visitor built, for every generated
text and layout, and the accept / reject verdict with the generated parser's on mutated texts. -/
namespace Pfdl.Props.C12
open Pfdl Pfdl.Syntax

/-- **The model is the image of the text**: reading the tokens of a model gives that model back. -/
theorem model_is_image_of_text (sty : Style) (ds : List Def) (hok : ∀ d ∈ ds, d.Ok) :
    parse (prDefs sty ds) = some ds :=
  parse_print sty ds hok

/-- **Nothing is merged, dropped or reordered**: two different models never have the same text. -/
theorem different_models_different_text (sty : Style) (ds ds' : List Def)
    (hok : ∀ d ∈ ds, d.Ok) (hok' : ∀ d ∈ ds', d.Ok) (h : prDefs sty ds = prDefs sty ds') : ds = ds' := by
  have h1 := parse_print sty ds hok
  have h2 := parse_print sty ds' hok'
  rw [h] at h1
  rw [h1] at h2
  exact Option.some.inj h2

/-- **Placement of struct literals is layout**: on the line of the struct name, on the next line, or indented
    below it – the model is the same. -/
theorem literal_placement_irrelevant (sty sty' : Style) (ds : List Def)
    (hok : ∀ d ∈ ds, d.Ok) : parse (prDefs sty ds) = parse (prDefs sty' ds) := by
  rw [parse_print sty ds hok, parse_print sty' ds hok]

/-- the expressions the `expression` rule of the generated parser produces (canonical for the precedence
    table re-extracted from `PFDLParser.py`) satisfy the side condition of the theorems above -/
theorem grammar_expressions_ok (e : Expr)
    (hc : ExprParse.Canon Generated.precTable Generated.unaryPrec 0 e) : ExprOk e :=
  ExprParse.parseWith_flat Generated.precTable Generated.unaryPrec e hc

/-- the line recorded for a statement is the line of its first token (`ctx.start.line`) -/
def stmtLine : Stmt → Nat
  | .svc c => c.line
  | .call c => c.line
  | .par _ l => l
  | .wloop _ _ l => l
  | .cloop _ _ _ _ l => l
  | .cond _ _ _ l => l

theorem statement_line_is_first_token (sty : Style) (s : Stmt) :
    ((prStmt sty s).head?).map (·.line) = some (stmtLine s) := by
  cases s with
  | svc c => simp [prStmt, stmtLine, t]
  | call c => simp [prStmt, stmtLine, t]
  | par cs l => simp [prStmt, stmtLine, t]
  | wloop e b l => simp [prStmt, stmtLine, t]
  | cloop p v lim b l => cases p <;> simp [prStmt, stmtLine, t]
  | cond e p q l => cases q <;> simp [prStmt, stmtLine, t]

/-! a concrete model with every kind of construct meets the hypotheses (the theorems are not vacuous) -/

def exStyle : Style := fun s _ => if s == "S" then .indented else .nextLine

def exModel : List Def := [
  .struct ⟨"S", [("a", ⟨.prim "number", none⟩), ("b", ⟨.struct "T", some (.int 3)⟩)], 1⟩,
  .task ⟨"productionTask", [("x", ⟨.struct "S", none⟩)],
    [.svc ⟨"A", [.var "x", .path "x" [("a", none), ("b", some (.name "i"))], .lit "S" [], .lit "T" [("\"k\"", .num "1"), ("\"l\"", .arr [.bool true, .obj [("\"m\"", .str "\"x\"")]])]],
        [("y", ⟨.struct "S", some .none⟩)], 7⟩,
     .cloop true "i" (.int 3) [.call ⟨"t", [], [], 9⟩] 8,
     .cond (.bin "<" (.path ["x", "a"]) (.lit (.num 3 false))) [.svc ⟨"B", [], [], 12⟩]
        (some [.par [⟨"t", [], [], 14⟩, ⟨"u", [.var "x"], [], 15⟩] 13]) 10,
     .wloop (.bin "And" (.lit (.bool true)) (.not (.paren (.path ["x", "c"]))))
        [.cloop false "j" (.path "x" [("n", none)]) [.svc ⟨"C", [], [("z", ⟨.prim "string", none⟩)], 18⟩] 17] 16],
    ["x", "y"], 5⟩]

theorem exModel_ok : ∀ d ∈ exModel, d.Ok := by
  intro d hd
  simp only [exModel, List.mem_cons, List.mem_nil_iff, or_false] at hd
  rcases hd with rfl | rfl
  · simp [Def.Ok]
  · refine ⟨by simp, ?_⟩
    have e1 : ExprOk (.bin "<" (.path ["x", "a"]) (.lit (.num 3 false))) := by unfold ExprOk; rfl
    have e2 : ExprOk (.bin "And" (.lit (.bool true)) (.not (.paren (.path ["x", "c"])))) := by unfold ExprOk; rfl
    simp [StmtsOk, Stmt.Ok, Call.Ok, Param.Ok, Limit.Ok, e1, e2]

example : parse (prDefs exStyle exModel) = some exModel := model_is_image_of_text exStyle exModel exModel_ok

end Pfdl.Props.C12
