import PfdlProofs.Laws
/-! C02 – statements of a block run strictly in sequence, without lost wake-ups.

What the model does at a block, for every program, block, environment, state, engine and fuel. -/
namespace Pfdl.Props.C02
open Pfdl

/-- IN ORDER, ONE AT A TIME: a block enters its first statement; only if that statement completes
    within the call is the next one entered (in the same call); otherwise the remaining statements
    are kept untouched – nothing belonging to them has been started -/
theorem block_in_order (P : Prog) (ee : EE) (f : Nat) (st : Stmt) (rest : List Stmt) (env : Env) (s : St) :
    enterBlk P ee (f+1) (st :: rest) env s =
      if (enter P ee f st env s).1.isFin then enterBlk P ee f rest env (enter P ee f st env s).2
      else (.blk (enter P ee f st env s).1 rest env, (enter P ee f st env s).2) := by
  simp only [enterBlk]
  split
  · rename_i s1 heq; rw [heq]; simp
  · rename_i r s1 hne heq
    rw [heq]
    simp [Run.isFin_eq_false_of_ne hne]

/-- NO LOST WAKE-UP: when the completion delivered to a block finishes its current statement, the
    next statement is entered during that same call; when it does not, the rest stays untouched;
    a completion that belongs to nothing inside the current statement does not touch the block -/
theorem block_handover (P : Prog) (ee : EE) (f i : Nat) (r : Run) (rest : List Stmt) (env : Env) (s : St) :
    deliver P ee f i (.blk r rest env) s =
      match deliver P ee f i r s with
      | none => none
      | some (r', s1) => if r'.isFin then some (enterBlk P ee f rest env s1) else some (.blk r' rest env, s1) := by
  simp only [deliver]
  split
  · rename_i h; simp [h]
  · rename_i s1 h; simp [h]
  · rename_i r1 s1 hne h
    simp [h, Run.isFin_eq_false_of_ne hne]

/-- the last statement of a block hands over to the block's own end in the same call -/
theorem block_end (P : Prog) (ee : EE) (f : Nat) (env : Env) (s : St) :
    enterBlk P ee (f+1) [] env s = (.fin, s) := by simp [enterBlk]

/-- EXACTLY ONCE: each statement of the block is entered at most once per execution of the block –
    the list of statements still to be entered only ever shrinks, by one statement per hand-over:
    after a delivery the block's remaining list is a suffix of the old one -/
theorem rest_shrinks (P : Prog) (ee : EE) (f i : Nat) (r : Run) (rest : List Stmt) (env : Env) (s : St)
    (r' : Run) (rest' : List Stmt) (env' : Env) (s' : St)
    (h : deliver P ee f i (.blk r rest env) s = some (.blk r' rest' env', s')) : rest' <:+ rest := by
  rw [block_handover] at h
  split at h
  · simp at h
  · rename_i r1 s1 hd
    split at h
    · -- continuation: enterBlk over `rest` returns a block over a suffix of `rest`
      simp at h
      have : ∀ (f : Nat) (b : List Stmt) (s0 : St) (q : Run) (b' : List Stmt) (e' : Env) (s2 : St),
          enterBlk P ee f b env s0 = (.blk q b' e', s2) → b' <:+ b := by
        intro f
        induction f with
        | zero => intro b s0 q b' e' s2 hh; simp [enterBlk] at hh
        | succ f ih =>
          intro b s0 q b' e' s2 hh
          cases b with
          | nil => simp [enterBlk] at hh
          | cons st b =>
            simp only [enterBlk] at hh
            split at hh
            · exact (ih b _ q b' e' s2 hh).trans (List.suffix_cons _ _)
            · simp at hh; obtain ⟨_, rfl, _⟩ := hh.1; exact List.suffix_cons _ _
      exact this f rest s1 r' rest' env' s' h
    · simp at h
      obtain ⟨⟨_, rfl, _⟩, _⟩ := h
      exact List.suffix_refl _

/-- non-vacuity: A; B; C – each announced only after its predecessor completed, in that call -/
def exProg : Prog :=
  { tasks := [{ name := "productionTask", line := 1,
                body := [.svc { name := "A", ins := [], line := 2 }, .svc { name := "B", ins := [], line := 3 },
                         .svc { name := "C", ins := [], line := 4 }] }] }
def exEE : EE := { ans := fun _ => none, imm := fun _ => false }
def s1 : Sched := (Sched.init exProg true).runOps exEE 50 [.start]
example : s1.outstanding = [0] ∧ (s1.runOps exEE 50 [.fire (.svcFinished 0)]).outstanding = [1] ∧
    (s1.runOps exEE 50 [.fire (.svcFinished 0), .fire (.svcFinished 1)]).outstanding = [2] := by decide

end Pfdl.Props.C02
