import Props.C09
import Props.C11
import Props.C13
import PfdlProofs.Erase
/-! C09 – soundness across the two models (validation model -> scheduler model). -/
namespace Pfdl.Props.C09
open Pfdl

/-! ### soundness across the two models: an accepted program never makes the scheduler model raise -/

/-- **No internal error.**  Take any accepted program; the program the scheduler runs is that program with its
    types erased (`erase`, for any choice of the parameter values and limit literals the validation model does not
    keep).  For every execution engine whose answers make the guards, conditions and loop limits of the program
    evaluate (`Evaluates`: a value is there, the operators apply, limits are whole numbers - what a well-typed
    engine delivers, see `evaluates_of_fixed_value`), for every fuel and EVERY history of API calls, the scheduler
    model never raises: the only other cause of an internal error in the model, a call of an undefined task, is
    excluded by acceptance (`accepted_erasure_closed`). -/
theorem no_internal_error (p : Check.Prog) (F : Fill) (ee : EE) (fuel : Nat) (ops : List Op)
    (hacc : Check.accepts p = true) (hev : (erase F p).Evaluates ee) :
    ((Sched.init (erase F p) true).runOps ee fuel ops).st.stuck ≠ some .raised := by
  have hsafe : (erase F p).Safe ee := Prog.safe_of (accepted_erasure_closed F p hacc) hev
  have hinv := Sched.runOps_safe (ee := ee) fuel ops (Sched.init (erase F p) true) hsafe (Sched.init_safe _ _ _)
  exact hinv.ok

/-- an engine that holds one value for the variable: an expression that has an ordinary value under it evaluates -/
theorem evaluates_of_fixed_value (ee : EE) (v : Val) (hans : ∀ k, ee.ans k = some v) (e : Expr) (r : Props.C13.OV)
    (h : Props.C13.sem v e = some r) : EvalOk ee e := by
  intro k
  have hfun : ee.ans = fun _ => some v := funext hans
  obtain ⟨w, hw, _⟩ := Props.C13.exec_eq_sem v e k r h
  rw [hfun, hw]
  simp

/-- the model raises only for the named causes: on a program whose calls resolve and whose guards and limits
    evaluate, no history raises (the statement for arbitrary scheduler programs) -/
theorem raises_only_for_named_causes (P : Prog) (ee : EE) (fuel : Nat) (ops : List Op) (valid : Bool)
    (hc : P.Closed) (he : P.Evaluates ee) :
    ((Sched.init P valid).runOps ee fuel ops).st.stuck ≠ some .raised :=
  (Sched.runOps_safe (ee := ee) fuel ops (Sched.init P valid) (Prog.safe_of hc he) (Sched.init_safe _ _ _)).ok

/-- non-vacuity: an accepted program, erased, with an engine holding a fixed value -/
example : Check.accepts Props.C11.p0 = true := by decide +kernel

end Pfdl.Props.C09
