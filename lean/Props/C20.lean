import PfdlProofs.Prov
import Props.C14
set_option linter.unusedSimpArgs false
/-! C20 – every registered callback fires once per notification, in registration order. -/
namespace Pfdl.Props.C20
open Pfdl Pfdl.Props.C14

/-- listener invocations among the outputs of a call: (function, notification) in order -/
def invs (outs : List Out) : List (Nat × Note) :=
  outs.filterMap (fun o => match o with | .inv fn n => some (fn, n) | _ => none)

theorem invs_append (a b : List Out) : invs (a ++ b) = invs a ++ invs b := by simp [invs]
theorem invs_map_inv (fs : List Nat) (n : Note) : invs (fs.map (Out.inv · n)) = fs.map (·, n) := by
  induction fs with
  | nil => rfl
  | cons f fs ih => simp [invs] at ih ⊢; exact ih
theorem invs_logOf (obs : List Nat) (n : Note) : invs (logOf obs n) = [] := by
  induction obs with
  | nil => rfl
  | cons o obs ih => simp [invs, logOf] at ih ⊢
theorem invs_net (obs : List Nat) : invs (obs.map Out.netUpd) = [] := by
  induction obs with
  | nil => rfl
  | cons o obs ih => simp [invs] at ih ⊢

/-- registering: refused (False) exactly when the function is already registered for that kind -/
theorem register_ret (s : Sched) (k : Kind) (fn : Nat) :
    (s.register k fn).ret = !(s.ls.get k).contains fn := by
  unfold Sched.register; split <;> simp_all

/-- a refused registration changes nothing; an accepted one appends the function at the end of the
    list of its kind and leaves the other kinds alone -/
theorem register_effect (s : Sched) (k : Kind) (fn : Nat) :
    ((s.register k fn).ret = false → (s.register k fn).sched = s) ∧
    ((s.register k fn).ret = true → (s.register k fn).sched.ls.get k = s.ls.get k ++ [fn] ∧
        ∀ k', k' ≠ k → (s.register k fn).sched.ls.get k' = s.ls.get k') := by
  unfold Sched.register
  split
  · simp
  · refine ⟨by simp, fun _ => ⟨?_, ?_⟩⟩
    · cases k <;> simp [Listeners.get, Listeners.set]
    · intro k' hk; cases k <;> cases k' <;> simp_all [Listeners.get, Listeners.set]

/-- a task-started / task-finished / service-finished notification invokes exactly the functions
    registered for its kind, each once, in registration order, with the same argument -/
theorem fanout (ls : Listeners) (obs : List Nat) (n : Note) :
    invs (expand ls obs (.note n)) = (ls.get n.kind).map (·, n) := by
  simp only [expand, invs_append, invs_map_inv, invs_logOf]
  split <;> simp [invs_net, invs]


/-- a service-started notification invokes the registered functions once each in registration
    order as well; if the execution engine's function reports completion from inside its call, the
    functions registered after it run when that nested call has returned (`late`) -/
theorem fanout_service_started (ls : Listeners) (obs : List Nat) (n : Note) :
    invs (expand ls obs (.ann n)) ++ invs (expand ls obs (.late n)) = ls.ss.map (·, n) := by
  simp only [expand, invs_append, invs_map_inv, invs_logOf, List.nil_append]
  rw [← List.map_append, List.take_append_drop]

/-- variable queries, nested calls and returns invoke no listener -/
theorem fanout_other (ls : Listeners) (obs : List Nat) (x : String) (c i : Nat) :
    invs (expand ls obs (.var x c)) = [] ∧ invs (expand ls obs (.fire i)) = [] ∧ invs (expand ls obs (.ret i)) = [] :=
  ⟨rfl, rfl, rfl⟩

/-- the listener lists never contain a function twice, after any history of API calls -/
def LsNodup (s : Sched) : Prop := ∀ k, (s.ls.get k).Nodup

theorem step_ls (s : Sched) (ee : EE) (fuel : Nat) (op : Op) (h : LsNodup s) : LsNodup (s.step ee fuel op).sched := by
  have hfin : ∀ (x : Sched) r st, (x.finish r st).1.ls = x.ls := by
    intro x r st; unfold Sched.finish; split <;> rfl
  have hbegin : ∀ (x : Sched), (x.begin ee fuel).1.ls = x.ls := by
    intro x
    cases hopt : x.prog.task? Generated.startTaskName with
    | none => rw [Sched.begin_none x ee fuel hopt]
    | some t => rw [Sched.begin_some x ee fuel t hopt, hfin]
  have hfire : ∀ (x : Sched) e, (x.fire ee fuel e).sched.ls = x.ls := by
    intro x e
    cases e with
    | start => rw [Sched.fire_start]; split <;> simp [hbegin]
    | svcFinished i => rw [Sched.fire_svc]; split <;> (try split) <;> simp [hfin]
    | other => rfl
  cases op with
  | start =>
    have : (s.step ee fuel .start).sched.ls = s.ls := by
      simp only [Sched.step, Sched.start]; split <;> (try split) <;> simp [hfire]
    intro k; rw [this]; exact h k
  | fire e => intro k; rw [show (s.step ee fuel (.fire e)).sched.ls = s.ls from hfire s e]; exact h k
  | register k fn =>
    intro k'
    have he := register_effect s k fn
    cases hr : (s.register k fn).ret
    · have := he.1 hr
      simp only [Sched.step]; rw [this]; exact h k'
    · have := he.2 hr
      simp only [Sched.step]
      by_cases hk : k' = k
      · subst hk
        rw [this.1]
        have hnot : fn ∉ s.ls.get k' := by
          have := register_ret s k' fn
          rw [hr] at this
          simpa using this.symm
        exact List.nodup_append.2 ⟨h k', by simp, by intro a ha b hb; simp at hb; subst hb; exact fun e => hnot (e ▸ ha)⟩
      · rw [this.2 k' hk]; exact h k'
  | attach o => exact h
  | detach o =>
    simp only [Sched.step, Sched.detach]
    split
    · rename_i s' heq
      split at heq
      · simp at heq; subst heq; exact h
      · simp at heq
    · exact h

theorem listeners_nodup (s : Sched) (h : Reachable s) : LsNodup s := by
  obtain ⟨P, v, ee, fuel, ops, rfl⟩ := h
  have : ∀ (ops : List Op) (x : Sched), LsNodup x → LsNodup (x.runOps ee fuel ops) := by
    intro ops
    induction ops with
    | nil => intro x hx; exact hx
    | cons op ops ih => intro x hx; simp only [Sched.runOps]; exact ih _ (step_ls x ee fuel op hx)
  exact this ops _ (by intro k; cases k <;> simp [Sched.init, Listeners.get])

/-- so: every function registered before a notification is invoked exactly once for it – the
    functions invoked for a notification are a duplicate-free list -/
theorem each_once (s : Sched) (h : Reachable s) (n : Note) :
    ((invs (expand s.ls s.observers (.note n))).map (·.1)).Nodup ∧
    ((invs (expand s.ls s.observers (.ann n)) ++ invs (expand s.ls s.observers (.late n))).map (·.1)).Nodup := by
  have hn := listeners_nodup s h
  refine ⟨?_, ?_⟩
  · rw [fanout]; simpa [List.map_map, Function.comp_def] using hn n.kind
  · rw [fanout_service_started]; simpa [List.map_map, Function.comp_def, Listeners.get] using hn .ss

/-- non-vacuity: three registrations with a repetition, two listeners fire in order -/
example :
    let s0 := Sched.init { tasks := [{ name := "productionTask", body := [], line := 1 }] } true
    let r1 := s0.register .ts 5
    let r2 := r1.sched.register .ts 7
    let r3 := r2.sched.register .ts 5
    (r1.ret, r2.ret, r3.ret, r3.sched.ls.ts) = (true, true, false, [5, 7]) := by decide

end Pfdl.Props.C20
