import PfdlProofs.Laws
import Props.C03
set_option linter.unusedSimpArgs false
/-! C06 – a parallel loop starts exactly N concurrent task instances and joins them. -/
namespace Pfdl.Props.C06
open Pfdl

/-- each time a parallel loop is reached its limit is evaluated once, at that moment (one variable
    query with the enclosing task instance as context, or none for a literal); a limit below 1
    (`int(limit)` is 0 or negative; a fraction below 1 as well - repaired by `fix:` c664640) starts
    nothing and the loop is complete at once (next statement in the same call, by C02);
    otherwise it forks exactly `⌊N⌋` copies of its task call, the k-th with the counting
    variable bound to `k` -/
theorem ploop_step (P : Prog) (ee : EE) (f : Nat) (v : String) (lim : Limit) (c : CallSite) (line : Nat) (env : Env) (s : St) (n : Rat)
    (h : (s.readLimit ee lim env.ctx).1 = some n) :
    enter P ee (f+1) (.ploop v lim c line) env s =
      if n < 1 then (.fin, (s.readLimit ee lim env.ctx).2)
      else
        (let x := enterCalls P ee f (List.replicate n.floor.toNat c) env false (fun k => (v, k) :: env.binds) 0
                    (s.readLimit ee lim env.ctx).2.pend.length true (s.readLimit ee lim env.ctx).2
         if x.1.all Run.isFin then (.fin, x.2) else (.par x.1, x.2)) := by
  simp only [enter]
  split
  · rename_i hn; rw [hn] at h; simp at h
  · rename_i m hm
    rw [hm] at h; simp at h; subst h
    rfl

/-- the limit read costs at most one query and nothing else -/
theorem limit_read_once (s : St) (ee : EE) (lim : Limit) (ctx : Nat) :
    (s.readLimit ee lim ctx).2.out = s.out ∨ ∃ x, (s.readLimit ee lim ctx).2.out = s.out ++ [Ev.var x ctx] := by
  rcases St.readLimit_cases s ee lim ctx with h | ⟨x, h⟩
  · exact Or.inl (by rw [h])
  · exact Or.inr ⟨x, by rw [h]; rfl⟩

/-- EXACTLY N, IN THAT CALL: a parallel loop whose limit evaluates to the natural number `N`
    announces, within the call that reaches it, `N` task-started notifications of its task (in a
    row up to notifications of tasks called inside the instances) – unless the call gets stuck -/
theorem starts_N_instances (P : Prog) (ee : EE) (f : Nat) (v : String) (lim : Limit) (c : CallSite) (line : Nat) (env : Env) (s : St) (N : Nat)
    (h : (s.readLimit ee lim env.ctx).1 = some (N : Rat)) (hN : 0 < N)
    (hst : (enter P ee (f+1) (.ploop v lim c line) env s).2.stuck = none) :
    (tsSites (s.readLimit ee lim env.ctx).2.out ++ List.replicate N (c.name, c.line)).Sublist
      (tsSites (enter P ee (f+1) (.ploop v lim c line) env s).2.out) := by
  rw [ploop_step P ee f v lim c line env s (N : Rat) h] at hst ⊢
  have hpos : ¬ ((N : Rat) < 1) := by
    intro hlt
    have h1 : ((1 : Nat) : Rat) ≤ (N : Rat) := Rat.natCast_le_natCast.2 hN
    exact absurd hlt (Rat.not_lt.2 (by simpa using h1))
  rw [if_neg hpos] at hst ⊢
  have hnum : (N : Rat).floor.toNat = N := by
    rw [(Rat.intCast_natCast N).symm, Rat.floor_intCast]; simp
  rw [hnum] at hst ⊢
  dsimp only at hst ⊢
  have hfork := enterCalls_fork P ee f (List.replicate N c) env false (fun k => (v, k) :: env.binds) 0
    (s.readLimit ee lim env.ctx).2.pend.length true (s.readLimit ee lim env.ctx).2
  simp only [List.map_replicate] at hfork
  split
  · rename_i hall; rw [if_pos hall] at hst; exact hfork hst
  · rename_i hall; rw [if_neg hall] at hst; exact hfork hst

/-- NONE IF N IS BELOW 1 (0, negative, or a fraction below 1) -/
theorem starts_none (P : Prog) (ee : EE) (f : Nat) (v : String) (lim : Limit) (c : CallSite) (line : Nat) (env : Env) (s : St) (n : Rat)
    (h : (s.readLimit ee lim env.ctx).1 = some n) (hn : n < 1) :
    enter P ee (f+1) (.ploop v lim c line) env s = (.fin, (s.readLimit ee lim env.ctx).2) := by
  rw [ploop_step P ee f v lim c line env s n h, if_pos hn]

/-- JOIN: a parallel loop's instances form a fork like a Parallel block's branches: the following
    statement is entered in the call in which the last instance finishes (C03.join_then_continue),
    instances progress independently (C03.branches_independent). -/
theorem join_then_continue (P : Prog) (ee : EE) (f i : Nat) (rs : List Run) (rest : List Stmt) (env : Env) (s : St)
    (rs' : List Run) (s1 : St) (h : deliverL P ee f i rs s = some (rs', s1)) :
    deliver P ee f i (.blk (.par rs) rest env) s =
      if rs'.all Run.isFin then some (enterBlk P ee f rest env s1) else some (.blk (.par rs') rest env, s1) :=
  Pfdl.Props.C03.join_then_continue P ee f i rs rest env s rs' s1 h

/-- non-vacuity: `Parallel Loop i To r.n / t`, r.n = 3: three instances in the starting call; N = 0: none -/
def exProg : Prog :=
  { tasks := [{ name := "productionTask", line := 1,
                body := [.ploop "i" (.path ["r", "n"]) { name := "t", ins := [.path [.name "r", .name "parts", .idx "i"]], line := 3 } 2,
                         .svc { name := "Z", ins := [], line := 4 }] },
              { name := "t", line := 6, body := [.svc { name := "A", ins := [], line := 7 }] }] }
def ee3 : EE := { ans := fun _ => some (.struct [("n", .num 3 false)]), imm := fun _ => false }
def ee0 : EE := { ans := fun _ => some (.struct [("n", .num 0 false)]), imm := fun _ => false }
example : tsSites ((Sched.init exProg true).runOps ee3 50 [.start]).hist = [("productionTask", 1), ("t", 3), ("t", 3), ("t", 3)] ∧
    ((Sched.init exProg true).runOps ee3 50 [.start]).outstanding = [0, 1, 2] := by decide +kernel
example : tsSites ((Sched.init exProg true).runOps ee0 50 [.start]).hist = [("productionTask", 1)] ∧
    ((Sched.init exProg true).runOps ee0 50 [.start]).outstanding = [0] := by decide +kernel

end Pfdl.Props.C06
