import Props.C01
import Props.C08
import Props.C13
