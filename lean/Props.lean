import Props.C01
import Props.C07
import Props.C08
import Props.C13
import Props.C14
