import Props.C13
