import PfdlProofs.StLemmas
import PfdlProofs.Norm
import PfdlProofs.Account
import PfdlProofs.Deliver
import PfdlProofs.ApiInv
