import PfdlModel.Syntax
import PfdlModel.Check
/-! The front end as one function: the token stream of a text is parsed (`Syntax.parse`, the model of the generated
    parser + visitor), the result is handed to the validation model (`Check.validate`, the model of the
    semantic checker).  `toProg` is the (trivial) change of representation between the two models: types as the
    checker compares them, attribute accesses as the lists the visitor builds, struct literals reduced to the
    shape `Struct.from_json` keeps.  Core Lean only. -/
namespace Pfdl.Front
open Pfdl

def idxStr : Syntax.Idx → String
  | .none => "[]"
  | .int n => "[" ++ toString n ++ "]"
  | .name x => "[" ++ x ++ "]"

def tyOf (v : Syntax.VarTy) : Check.Ty :=
  let b := match v.base with | .prim s => s | .struct s => s
  match v.arr with
  | none => .name b
  | some (.int n) => .arr b n
  | some _ => .arr b (-1)     -- `[]`; `[name]` is reported by the visitor as a syntax error

def typed (ds : List (String × Syntax.VarTy)) : List (String × Check.Ty) := ds.map (fun (x, v) => (x, tyOf v))

/-- `visitAttribute_access`: the names and `[i]` strings in order -/
def segs (root : String) (ss : List Syntax.Seg) : List String :=
  root :: ss.flatMap (fun (s, a) => s :: (match a with | none => [] | some i => [idxStr i]))

/-- the text of a JSON_STRING token without its quotes -/
def unquote (s : String) : String := ((s.drop 1).dropEnd 1).toString

mutual
def litOf : Json.JV → Check.Lit
  | .str _ => .str
  | .num _ => .num
  | .bool _ => .bool
  | .obj fs => .struct (fieldsOf fs)
  | .arr xs => .arr (litsOf xs)
def fieldsOf : List (String × Json.JV) → List (String × Check.Lit)
  | [] => []
  | (k, v) :: rest => (unquote k, litOf v) :: fieldsOf rest
def litsOf : List Json.JV → List Check.Lit
  | [] => []
  | v :: rest => litOf v :: litsOf rest
end

def argOf : Syntax.Param → Check.Arg
  | .var x => .var x
  | .path x ss => .path (segs x ss)
  | .lit s fs => .lit s (fieldsOf fs)

def callOf (c : Syntax.Call) : Check.Call :=
  { name := c.name, ins := c.ins.map argOf, outs := typed c.outs, line := c.line }

mutual
def stmtOf : Syntax.Stmt → Check.Stmt
  | .svc c => .svc (callOf c)
  | .call c => .call (callOf c)
  | .par cs l => .par (cs.map callOf) l
  | .wloop e b l => .wloop e (stmtsOf b) l
  | .cloop p v lim b l =>
    .cloop p v (match lim with | .int _ => none | .path x ss => some (segs x ss)) (stmtsOf b) l
  | .cond e p none l => .cond e (stmtsOf p) [] l
  | .cond e p (some q) l => .cond e (stmtsOf p) (stmtsOf q) l
def stmtsOf : List Syntax.Stmt → List Check.Stmt
  | [] => []
  | s :: ss => stmtOf s :: stmtsOf ss
end

def structsOf : List Syntax.Def → List Check.Struct
  | [] => []
  | .struct s :: ds => { name := s.name, attrs := typed s.attrs, line := s.line } :: structsOf ds
  | .task _ :: ds => structsOf ds

def tasksOf : List Syntax.Def → List Check.Task
  | [] => []
  | .struct _ :: ds => tasksOf ds
  | .task k :: ds =>
    { name := k.name, ins := typed k.ins, outs := k.outs, body := stmtsOf k.body, line := k.line } :: tasksOf ds

/-- the Process model as the checker sees it (definitions in source order) -/
def toProg (ds : List Syntax.Def) : Check.Prog := { structs := structsOf ds, tasks := tasksOf ds }

inductive Answer where
  | syntaxError                       -- the parser does not read the text
  | raised                            -- the checker raises (never, for what the current code accepts: C16)
  | verdict (errs : List Check.Err)   -- valid iff `errs = []`
deriving Repr, Inhabited

/-- lexer + denter output ↦ what `parse_string` answers -/
def validateTokens (ts : Syntax.TS) : Answer :=
  match Syntax.parse ts with
  | none => .syntaxError
  | some ds =>
    match Check.validate (toProg ds) with
    | none => .raised
    | some errs => .verdict errs

end Pfdl.Front
