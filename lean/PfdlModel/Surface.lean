import PfdlModel.ExprParse
/-! The ordinary reading of an expression text and its relation to the grammar's reading: the ordinary
    precedence table of property C13, the regrouping the grammar applies to additive chains, a decidable
    canonicity test.  Core Lean only. -/
namespace Pfdl.Surface
open Pfdl Generated ExprParse

/-- the ordinary table of the property: `*` `/` one rank, `+` `-` one rank below, comparisons, And, Or;
    every operator left-associative.  (The rank of `!` is not fixed by the property: the grammar's is used.) -/
def ordTable : Table :=
  [("*", 9, 10), ("/", 9, 10), ("-", 7, 8), ("+", 7, 8), ("<", 5, 6), ("<=", 5, 6), (">", 5, 6), (">=", 5, 6),
   ("==", 5, 6), ("!=", 5, 6), ("And", 3, 4), ("Or", 2, 3)]


/-- the regrouping the grammar applies to additive chains: `(x + y) - z` is read `x + (y - z)` -/
def rot : Expr → Expr
  | .bin o l r =>
    if o = "-" then
      match rot l with
      | .bin "+" x y => .bin "+" x (.bin "-" y (rot r))
      | l' => .bin "-" l' (rot r)
    else .bin o (rot l) (rot r)
  | .paren e => .paren (rot e)
  | .not e => .not (rot e)
  | e => e


/-- decidable form of `Canon` -/
def canonB (T : Table) (u : Nat) : Nat → Expr → Bool
  | _, .paren e => canonB T u 0 e
  | _, .not e => canonB T u u e
  | p, .bin o l r => match T.lookup o with
    | some (pr, rp) => decide (p ≤ pr) && canonB T u p l && (spine T u l).all (fun q => decide (pr < q)) && canonB T u rp r
    | none => false
  | _, _ => true


/-- the shape of finding K10: a product whose left operand is an unparenthesised quotient -/
def noK10 : Expr → Bool
  | .bin o l r => !(o == "*" && (match l with | .bin "/" _ _ => true | _ => false)) && noK10 l && noK10 r
  | .paren e => noK10 e
  | .not e => noK10 e
  | _ => true


/-- token lists as strings (for comparison in the driver) -/
def tokStr : List Tok → List String
  | [] => []
  | .lpar :: r => "(" :: tokStr r
  | .rpar :: r => ")" :: tokStr r
  | .bang :: r => "!" :: tokStr r
  | .op o :: r => o :: tokStr r
  | .atom (.path [x]) :: r => x :: tokStr r
  | .atom _ :: r => "?" :: tokStr r

end Pfdl.Surface
