import PfdlModel.Basic
/-! The structural scheduler model: what `generator.py` + `logic.py` + `scheduler.py` do together,
    as a fuel-indexed recursive interpreter over the program (see DESIGN.md §2.2).

    One external API call = one run of `enter…`/`deliver`; Python's call stack (nested
    `evaluate_petri_net` inside decision callbacks and inside re-entrant `fire_event`) is the
    recursion of the interpreter.  Core Lean only. -/
namespace Pfdl
open Generated

/-! ### Programs -/

/-- element of an attribute path in a call parameter: `a` in `x.a`, or an array index `[i]` / `[0]` / `[]` -/
inductive Seg where
  | name (a : String)
  | idx (v : String)          -- `[v]` as written: a counting variable, a literal index, or empty
  | idxNum (k : Nat)          -- `[k]`: a counting variable resolved to the iteration number
deriving Repr, Inhabited, DecidableEq

inductive Param where
  | var (x : String)
  | path (p : List Seg)
  | lit (struct : String) (v : Val)
deriving Repr, Inhabited

inductive Limit where
  | lit (n : Int)
  | path (p : List String)
deriving Repr, Inhabited

structure CallSite where
  name : String
  ins : List Param
  line : Nat
deriving Repr, Inhabited

inductive Stmt where
  | svc (c : CallSite)
  | call (c : CallSite)
  | par (cs : List CallSite) (line : Nat)
  | cond (e : Expr) (passed failed : List Stmt) (line : Nat)   -- failed = [] : no Failed block
  | cloop (var : String) (lim : Limit) (body : List Stmt) (line : Nat)
  | wloop (e : Expr) (body : List Stmt) (line : Nat)
  | ploop (var : String) (lim : Limit) (c : CallSite) (line : Nat)
deriving Repr, Inhabited

structure Task where
  name : String
  body : List Stmt
  line : Nat
deriving Repr, Inhabited

structure Prog where
  tasks : List Task
deriving Repr, Inhabited

/-- `process.tasks[name]` (the visitor keeps the first definition of a name) -/
def Prog.task? (p : Prog) (name : String) : Option Task :=
  p.tasks.find? (·.name == name)

/-! ### Notifications -/

inductive Kind where
  | ts | tf | ss | sf
deriving Repr, DecidableEq, Inhabited

/-- what a started/finished notification carries -/
structure Note where
  kind : Kind
  name : String          -- task / service name
  line : Nat             -- call site (source line of the call statement; the task's line for the root)
  id : Nat               -- instance identifier (test-id numbering)
  ctx : Option Nat       -- identifier of the enclosing task instance (`none`: production task)
  params : List Param    -- input parameters as delivered
deriving Repr, Inhabited

/-- core events of one scheduler call, in order -/
inductive Ev where
  | ann (n : Note)       -- service started: log entry, then the listeners up to and including the execution engine's
  | late (n : Note)      -- … the listeners registered after the EE's, once a nested completion has returned
  | note (n : Note)      -- task started / task finished / service finished: listeners, then the log entry
  | var (name : String) (ctx : Nat)      -- variable access function called
  | fire (id : Nat)      -- execution engine calls `fire_event(service_finished id)` from inside its `ss` listener
  | ret (id : Nat)       -- … and that nested call returns (True)
deriving Repr, Inhabited

/-! ### Execution engine, environment, state -/

/-- The execution engine as the scheduler sees it: the answer to the k-th variable query and
    whether the k-th announced service is reported finished from inside its own announcement. -/
structure EE where
  ans : Nat → Option Val
  imm : Nat → Bool

/-- static environment of a statement inside a task instance -/
structure Env where
  ctx : Nat                       -- id of the enclosing task instance
  inLoop : Bool                   -- the generator's `in_loop` flag
  binds : List (String × Nat)     -- counting variables of the enclosing loops of this task instance
deriving Repr, Inhabited

inductive Stuck where
  | raised        -- a Python exception escapes (look-up fails, operator raises, EE returned None …)
  | outOfFuel     -- the model's fuel ran out (never a verdict)
deriving Repr, DecidableEq, Inhabited

/-- run state of a statement / block: mirrors the unfolded program -/
inductive Run where
  | wait (id : Nat) (n : Note)                       -- announced service, completion outstanding
  | blk (cur : Run) (rest : List Stmt) (env : Env)   -- block: current statement, remaining statements
  | call (n : Note) (body : Run)                     -- open task instance (`n` = its task-finished note)
  | par (branches : List Run)                        -- Parallel / parallel loop: one run per branch
  | cloop (c : Nat) (var : String) (lim : Limit) (body : List Stmt) (env : Env) (cur : Run)
  | wloop (e : Expr) (body : List Stmt) (env : Env) (cur : Run)
  | fin
  | stuck (why : Stuck)
deriving Repr, Inhabited

def Run.isFin : Run → Bool
  | .fin => true
  | _ => false

structure St where
  ctrT : Nat := 0                 -- test_id_counters[0]
  ctrS : Nat := 0                 -- test_id_counters[1]
  nq : Nat := 0                   -- number of variable queries so far
  nann : Nat := 0                 -- number of services announced so far
  out : List Ev := []             -- events of the current call
  awaited : List Nat := []        -- ids of the awaited `service_finished` events
  pend : List (Nat × Note) := []  -- open nested `fire_event` calls (innermost first): service id, its started note
  stuck : Option Stuck := none
deriving Repr, Inhabited

def St.emit (s : St) (e : Ev) : St := { s with out := s.out ++ [e] }
def St.emits (s : St) (es : List Ev) : St := { s with out := s.out ++ es }

/-- the nested calls opened above stack height `h` return -/
def St.flush (s : St) (h : Nat) : St :=
  let n := s.pend.length - h
  { s with out := s.out ++ (s.pend.take n).flatMap (fun p => [Ev.ret p.1, Ev.late p.2]), pend := s.pend.drop n }

/-- `substitute_loop_indexes`: an element `[i]` of an attribute path becomes `[k]`; only elements written
    as an array index are touched -/
def substSeg (binds : List (String × Nat)) : Seg → Seg
  | .idx v => match binds.lookup v with
    | some k => .idxNum k
    | none => .idx v
  | seg => seg

def substParam (binds : List (String × Nat)) : Param → Param
  | .path p => .path (p.map (substSeg binds))
  | q => q

def substParams (binds : List (String × Nat)) (ps : List Param) : List Param :=
  ps.map (substParam binds)

/-- one variable query: answer and new state (event emitted, query counter advanced) -/
def St.query (s : St) (ee : EE) (name : String) (ctx : Nat) : Option Val × St :=
  (ee.ans s.nq, { s with nq := s.nq + 1, out := s.out ++ [.var name ctx] })

/-- evaluate an expression in a task context: all queries it issues are emitted -/
def St.evalExpr (s : St) (ee : EE) (e : Expr) (ctx : Nat) : Option Val × St :=
  let (v, qs) := e.exec ee.ans s.nq
  (v, { s with nq := s.nq + qs.length, out := s.out ++ qs.map (fun x => Ev.var x ctx) })

/-- `get_loop_limit` -/
def St.readLimit (s : St) (ee : EE) (lim : Limit) (ctx : Nat) : Option (Rat) × St :=
  match lim with
  | .lit n => (some (n : Rat), s)
  | .path [] => (none, s)
  | .path (x :: segs) =>
    let (v, s) := s.query ee x ctx
    (((v.bind (·.follow segs)).bind (·.toNum?)).map (·.1), s)

def St.setStuck (s : St) (w : Stuck) : St :=
  { s with stuck := match s.stuck with | some x => some x | none => some w }

def noteOf (k : Kind) (c : CallSite) (id : Nat) (ctx : Option Nat) (ps : List Param) : Note :=
  { kind := k, name := c.name, line := c.line, id := id, ctx := ctx, params := ps }

mutual
/-- enter one statement (its entry transition fires and the callbacks run) -/
def enter (P : Prog) (ee : EE) : Nat → Stmt → Env → St → Run × St
  | 0, _, _, s => (.stuck .outOfFuel, s.setStuck .outOfFuel)
  | f+1, .svc c, env, s =>
      -- on_service_started: fresh id, awaited event, listeners, (re-entrant completion), log entry
      let id := s.ctrS
      let ps := substParams env.binds c.ins
      let nS := noteOf .ss c id (some env.ctx) ps
      let nF := noteOf .sf c id (some env.ctx) ps
      let k := s.nann
      let s := { s with ctrS := id + 1, nann := k + 1, awaited := s.awaited ++ [id] }.emit (.ann nS)
      if ee.imm k then
        -- the EE reports completion from inside its listener: service_done fires in the nested call
        let s := s.emits [.fire id, .note nF]
        (.fin, { s with awaited := s.awaited.erase id, pend := (id, nS) :: s.pend })
      else
        (.wait id nF, s.emit (.late nS))
  | f+1, .call c, env, s => enterCall P ee f c env env.inLoop env.binds s
  | f+1, .par cs _, env, s =>
      let (rs, s) := enterCalls P ee f cs env env.inLoop (fun _ => env.binds) 0 s.pend.length true s
      if rs.all Run.isFin then (.fin, s) else (.par rs, s)
  | f+1, .cond e passed failed _, env, s =>
      let (v, s) := s.evalExpr ee e env.ctx
      match v with
      | none => (.stuck .raised, s.setStuck .raised)
      | some v =>
        if v.truthy then enterBlk P ee f passed env s
        else enterBlk P ee f failed env s          -- no Failed block: empty, finishes at once
  | f+1, .cloop var lim body _, env, s => iterC P ee f 0 var lim body env s
  | f+1, .wloop e body _, env, s => iterW P ee f e body env s
  | f+1, .ploop var lim c _, env, s =>
      -- on_parallel_loop_started: the limit is read once, N task calls are generated and started
      let (n, s) := s.readLimit ee lim env.ctx
      match n with
      | none => (.stuck .raised, s.setStuck .raised)
      | some n =>
        if n < 1 then (.fin, s)           -- `int(limit)` is 0 or negative: no task at all
        else
          let cnt := n.floor.toNat        -- a fractional limit counts as its integral part
          let (rs, s) := enterCalls P ee f (List.replicate cnt c) env false
                            (fun k => (var, k) :: env.binds) 0 s.pend.length true s
          if rs.all Run.isFin then (.fin, s) else (.par rs, s)

/-- enter a block: run statements in order until one does not finish within this call -/
def enterBlk (P : Prog) (ee : EE) : Nat → List Stmt → Env → St → Run × St
  | 0, _, _, s => (.stuck .outOfFuel, s.setStuck .outOfFuel)
  | _+1, [], _, s => (.fin, s)
  | f+1, st :: rest, env, s =>
      match enter P ee f st env s with
      | (.fin, s) => enterBlk P ee f rest env s
      | (r, s) => (.blk r rest env, s)

/-- a task call: task-started, body, task-finished if the body completed within this call -/
def enterCall (P : Prog) (ee : EE) : Nat → CallSite → Env → Bool → List (String × Nat) → St → Run × St
  | 0, _, _, _, _, s => (.stuck .outOfFuel, s.setStuck .outOfFuel)
  | f+1, c, env, inLoop, binds, s =>
      match P.task? c.name with
      | none => (.stuck .raised, s.setStuck .raised)
      | some t =>
        let id := s.ctrT
        let ps := substParams binds c.ins
        let nS := noteOf .ts c id (some env.ctx) ps
        let nF := noteOf .tf c id (some env.ctx) ps
        let s := { s with ctrT := id + 1 }.emit (.note nS)
        match enterBlk P ee f t.body { ctx := id, inLoop := inLoop, binds := [] } s with
        | (.fin, s) => (.fin, s.emit (.note nF))
        | (r, s) => (.call nF r, s)

/-- the branches of a fork, in order; `h` = height of the nested-call stack when the fork was reached;
    `allFin` = all branches entered so far have already finished -/
def enterCalls (P : Prog) (ee : EE) : Nat → List CallSite → Env → Bool → (Nat → List (String × Nat)) →
    Nat → Nat → Bool → St → List Run × St
  | 0, _, _, _, _, _, _, _, s => ([.stuck .outOfFuel], s.setStuck .outOfFuel)
  | _+1, [], _, _, _, _, _, _, s => ([], s)
  | f+1, c :: cs, env, inLoop, bindsOf, k, h, allFin, s =>
      let (r, s) := enterCall P ee f c env inLoop (bindsOf k) s
      let allFin := allFin && r.isFin
      -- the nested calls opened while entering this branch return before the next branch's callbacks
      -- run – unless this was the last branch and the join fires inside them
      let s := if cs.isEmpty && allFin then s else s.flush h
      let (rs, s) := enterCalls P ee f cs env inLoop bindsOf (k + 1) h allFin s
      (r :: rs, s)

/-- counting loop: `on_counting_loop_started` with counter value `c` -/
def iterC (P : Prog) (ee : EE) : Nat → Nat → String → Limit → List Stmt → Env → St → Run × St
  | 0, _, _, _, _, _, s => (.stuck .outOfFuel, s.setStuck .outOfFuel)
  | f+1, c, var, lim, body, env, s =>
      let (n, s) := s.readLimit ee lim env.ctx
      match n with
      | none => (.stuck .raised, s.setStuck .raised)
      | some n =>
        if (c : Rat) < n then
          match enterBlk P ee f body { env with inLoop := true, binds := (var, c) :: env.binds } s with
          | (.fin, s) => iterC P ee f (c + 1) var lim body env s
          | (r, s) => (.cloop c var lim body env r, s)
        else (.fin, s)

/-- while loop: `on_while_loop_started` -/
def iterW (P : Prog) (ee : EE) : Nat → Expr → List Stmt → Env → St → Run × St
  | 0, _, _, _, s => (.stuck .outOfFuel, s.setStuck .outOfFuel)
  | f+1, e, body, env, s =>
      let (v, s) := s.evalExpr ee e env.ctx
      match v with
      | none => (.stuck .raised, s.setStuck .raised)
      | some v =>
        if v.truthy then
          match enterBlk P ee f body { env with inLoop := true } s with
          | (.fin, s) => iterW P ee f e body env s
          | (r, s) => (.wloop e body env r, s)
        else (.fin, s)
end

mutual
/-- deliver the completion of service `i` (a token on its "finished" place): the first waiting leaf
    with that id finishes and everything it enables runs.  `none`: no such leaf (nothing happens). -/
def deliver (P : Prog) (ee : EE) (f : Nat) (i : Nat) : Run → St → Option (Run × St)
  | .wait j n, s =>
      if i = j then some (.fin, { s with awaited := s.awaited.erase i }.emit (.note n))
      else none
  | .blk r rest env, s =>
      match deliver P ee f i r s with
      | none => none
      | some (.fin, s) => some (enterBlk P ee f rest env s)
      | some (r', s) => some (.blk r' rest env, s)
  | .call n r, s =>
      match deliver P ee f i r s with
      | none => none
      | some (.fin, s) => some (.fin, s.emit (.note n))
      | some (r', s) => some (.call n r', s)
  | .par rs, s =>
      match deliverL P ee f i rs s with
      | none => none
      | some (rs', s) => if rs'.all Run.isFin then some (.fin, s) else some (.par rs', s)
  | .cloop c var lim body env r, s =>
      match deliver P ee f i r s with
      | none => none
      | some (.fin, s) => some (iterC P ee f (c + 1) var lim body env s)
      | some (r', s) => some (.cloop c var lim body env r', s)
  | .wloop e body env r, s =>
      match deliver P ee f i r s with
      | none => none
      | some (.fin, s) => some (iterW P ee f e body env s)
      | some (r', s) => some (.wloop e body env r', s)
  | .fin, _ => none
  | .stuck _, _ => none
def deliverL (P : Prog) (ee : EE) (f : Nat) (i : Nat) : List Run → St → Option (List Run × St)
  | [], _ => none
  | r :: rs, s =>
      match deliver P ee f i r s with
      | some (r', s) => some (r' :: rs, s)
      | none =>
        match deliverL P ee f i rs s with
        | some (rs', s) => some (r :: rs', s)
        | none => none
end

mutual
/-- ids of the services a run is waiting for, left to right -/
def Run.waiting : Run → List Nat
  | .wait i _ => [i]
  | .blk r _ _ => r.waiting
  | .call _ r => r.waiting
  | .par rs => Run.waitingL rs
  | .cloop _ _ _ _ _ r => r.waiting
  | .wloop _ _ _ r => r.waiting
  | .fin => []
  | .stuck _ => []
def Run.waitingL : List Run → List Nat
  | [] => []
  | r :: rs => r.waiting ++ Run.waitingL rs
end

end Pfdl
