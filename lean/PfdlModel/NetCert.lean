import PfdlModel.Net
/-! A certificate for a generated net: weights of the places under which every transition is balanced
    (a place invariant).  `inferWeights` proposes weights from the structure of the net (not trusted),
    `certCheck` decides whether they are a certificate (proved sound in `PfdlProofs/NetCertSound.lean`). -/
namespace Pfdl.Net

def wOf (wa : Array Int) (p : Nat) : Int := (wa[p]?).getD 0

def sumWA (wa : Array Int) (l : List Nat) : Int := (l.map (wOf wa)).sum

def ctlZeroB (wa : Array Int) : Cb → Bool
  | .cond _ a b _ => wOf wa a == 0 && wOf wa b == 0
  | .wloop _ a b _ => wOf wa a == 0 && wOf wa b == 0
  | .cloop _ _ _ a b _ => wOf wa a == 0 && wOf wa b == 0
  | _ => true

/-- the decidable certificate: balanced transitions with pairwise different inputs and existing outputs, no
    parallel-loop callback, weight 0 on every place the scheduler marks itself, non-negative weights, the start and
    the final place weigh the same (> 0), an empty net that awaits its start -/
def certCheck (wa : Array Int) (s : NS) : Bool :=
  s.trans.toList.all (fun tr => decide tr.ins.Nodup && tr.outs.all (fun p => decide (p < s.places.size))
      && sumWA wa tr.ins == sumWA wa tr.outs)
  && s.cbs.toList.all (fun l => l.all (fun c => !c.2.isPloop && ctlZeroB wa c.2))
  && s.placeDict.all (fun e => wOf wa e.2 == 0)
  && wa.toList.all (fun x => decide (0 ≤ x))
  && wOf wa s.finalPlace == wOf wa s.startPlace && decide (0 < wOf wa s.startPlace)
  && decide (s.startPlace < s.places.size) && decide (s.finalPlace < s.places.size)
  && s.places.toList.all (fun p => p.tokens == 0)
  && s.awaited == [AEv.start]

/-- does the net have a parallel-loop callback (a part that is rebuilt at run time)? -/
def hasPloop (s : NS) : Bool := s.cbs.toList.any (fun l => l.any (fun c => c.2.isPloop))

/-- propose weights: the start place gets the product of all fan-outs, places without a producing transition get 0,
    every transition hands the sum of its inputs on to its outputs in equal shares -/
def inferWeights (s : NS) : Array Int :=
  let np := s.places.size
  let produced : Array Bool := s.trans.foldl (fun a tr => tr.outs.foldl (fun a p => a.setIfInBounds p true) a) (Array.replicate np false)
  let w0 : Int := s.trans.foldl (fun a tr => if tr.outs.length ≥ 2 then a * tr.outs.length else a) 1
  let init : Array (Option Int) := (Array.range np).map (fun p =>
    if p == s.startPlace then some w0 else if produced.getD p false then none else some 0)
  let round (known : Array (Option Int)) : Array (Option Int) × Bool :=
    s.trans.foldl (fun (acc : Array (Option Int) × Bool) tr =>
      let (known, changed) := acc
      if tr.outs.isEmpty || tr.outs.all (fun p => (known.getD p none).isSome) then (known, changed) else
      match tr.ins.foldl (fun (a : Option Int) p => match a, known.getD p none with
          | some x, some y => some (x + y)
          | _, _ => none) (some 0) with
      | none => (known, changed)
      | some total =>
        let share := total / (tr.outs.length : Int)
        (tr.outs.foldl (fun k p => if (k.getD p none).isSome then k else k.setIfInBounds p (some share)) known, true))
      (known, false)
  let rec loop : Nat → Array (Option Int) → Array (Option Int)
    | 0, k => k
    | n+1, k => match round k with
      | (k', true) => loop n k'
      | (k', false) => k'
  (loop (s.trans.size + 1) init).map (·.getD 0)

end Pfdl.Net
