import PfdlModel.Basic
/-! The `expression` rule of the generated parser (`PFDLParser.expression`, ANTLR's precedence-climbing
    rewrite of the left-recursive rule) over the precedence table re-extracted from `PFDLParser.py`,
    producing the tree `PFDLTreeVisitor.visitExpression` builds.  Core Lean only. -/
namespace Pfdl.ExprParse
open Pfdl Generated

/-- expression tokens; a `value` (number with sign, boolean, string, attribute access) is one atom that
    carries its visitor image -/
inductive Tok where
  | lpar | rpar | bang
  | op (o : String)
  | atom (e : Expr)
deriving Repr, Inhabited

mutual
/-- `expression(_p)`: a primary (parenthesised expression, negation, value), then the operator loop -/
def parseE : Nat → Nat → List Tok → Option (Expr × List Tok)
  | 0, _, _ => none
  | fuel + 1, p, .lpar :: rest =>
    match parseE fuel 0 rest with
    | some (e, .rpar :: rest') => loopE fuel p (.paren e) rest'
    | _ => none
  | fuel + 1, p, .bang :: rest =>
    match parseE fuel unaryPrec rest with
    | some (e, rest') => loopE fuel p (.not e) rest'
    | none => none
  | fuel + 1, p, .atom a :: rest => loopE fuel p a rest
  | _ + 1, _, _ => none
/-- the `while` loop of the rule: an operator whose precedence is at least `_p` extends the left operand -/
def loopE : Nat → Nat → Expr → List Tok → Option (Expr × List Tok)
  | 0, _, _, _ => none
  | fuel + 1, p, lhs, .op o :: rest =>
    match precTable.lookup o with
    | some (prec, rprec) =>
      if p ≤ prec then
        match parseE fuel rprec rest with
        | some (rhs, rest') => loopE fuel p (.bin o lhs rhs) rest'
        | none => none
      else some (lhs, .op o :: rest)
    | none => some (lhs, .op o :: rest)
  | _ + 1, _, lhs, ts => some (lhs, ts)
end

/-- a whole expression: all tokens must be consumed -/
def parse (ts : List Tok) : Option Expr :=
  match parseE (2 * ts.length + 2) 0 ts with
  | some (e, []) => some e
  | _ => none

end Pfdl.ExprParse
