import PfdlModel.Basic
/-! The `expression` rule of the generated parser (`PFDLParser.expression`, ANTLR's precedence-climbing
    rewrite of the left-recursive rule), producing the tree `PFDLTreeVisitor.visitExpression` builds.
    The parser is generic in the table (operator -> precedence of `precpred`, minimum precedence of the right
    operand) and the operand level of `!`; `parse` instantiates it with the table re-extracted from
    `PFDLParser.py`.  Core Lean only. -/
namespace Pfdl.ExprParse
open Pfdl Generated

inductive Tok where
  | lpar | rpar | bang
  | op (o : String)
  | atom (e : Expr)
deriving Repr, Inhabited

abbrev Table := List (String × Nat × Nat)

mutual
def parseE (T : Table) (u : Nat) : Nat → Nat → List Tok → Option (Expr × List Tok)
  | 0, _, _ => none
  | fuel + 1, p, .lpar :: rest =>
    match parseE T u fuel 0 rest with
    | some (e, .rpar :: rest') => loopE T u fuel p (.paren e) rest'
    | _ => none
  | fuel + 1, p, .bang :: rest =>
    match parseE T u fuel u rest with
    | some (e, rest') => loopE T u fuel p (.not e) rest'
    | none => none
  | fuel + 1, p, .atom a :: rest => loopE T u fuel p a rest
  | _ + 1, _, _ => none
def loopE (T : Table) (u : Nat) : Nat → Nat → Expr → List Tok → Option (Expr × List Tok)
  | 0, _, _, _ => none
  | fuel + 1, p, lhs, .op o :: rest =>
    match T.lookup o with
    | some (prec, rprec) =>
      if p ≤ prec then
        match parseE T u fuel rprec rest with
        | some (rhs, rest') => loopE T u fuel p (.bin o lhs rhs) rest'
        | none => none
      else some (lhs, .op o :: rest)
    | none => some (lhs, .op o :: rest)
  | _ + 1, _, lhs, ts => some (lhs, ts)
end

def parseWith (T : Table) (u : Nat) (ts : List Tok) : Option Expr :=
  match parseE T u (2 * ts.length + 2) 0 ts with
  | some (e, []) => some e
  | _ => none

/-- the tokens of a tree: in-order, parentheses exactly where the tree has a `paren` node -/
def flat : Expr → List Tok
  | .paren e => .lpar :: flat e ++ [.rpar]
  | .not e => .bang :: flat e
  | .bin o l r => flat l ++ .op o :: flat r
  | e => [.atom e]

def isLeaf : Expr → Bool
  | .paren _ | .not _ | .bin _ _ _ => false
  | _ => true

/-- the loop levels that are open along the right edge of a tree -/
def spine (T : Table) (u : Nat) : Expr → List Nat
  | .not e => u :: spine T u e
  | .bin o _ r => match T.lookup o with
    | some (_, rp) => rp :: spine T u r
    | none => []
  | _ => []

/-- the parser of the implementation: the table and the operand level of `!` as re-extracted from `PFDLParser.py` -/
def parse (ts : List Tok) : Option Expr := parseWith precTable unaryPrec ts

end Pfdl.ExprParse
