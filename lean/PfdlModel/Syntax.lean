import PfdlModel.ExprParse
import PfdlModel.Json
/-! The statement level of `PFDLParser.g4` (rules `program` … `attribute_access`) together with what
    `PFDLTreeVisitor` keeps of each rule, over the token stream that `PFDLLexer` + `DenterHelper` deliver
    (INDENT / DEDENT / NL already synthesised, comments and blanks gone).

    * an expression arrives as the run of its tokens (`Tk.ex`), grouped into operands as `ExprParse` wants
      them; it is parsed with the table parser of `ExprParse` (the generated parser's `expression` rule);
    * a struct literal arrives as one token carrying the run of its JSON-mode tokens; it is parsed with the
      JSON sub-grammar of `PfdlModel.Json` (rules `json_object` … `json_array`);
    * every token carries its line, the parser records the line of the first token of every definition,
      statement and call (`ctx.start.line`, what `print_error` reports).

    `prProg` is the inverse direction: the token stream of a model in the layout the denter produces
    (one NL per line end, a DEDENT per closed block); the three placements of a struct literal that the
    grammar allows are a parameter of the printer.  Core Lean only. -/
namespace Pfdl.Syntax
open Pfdl

inductive Kw where
  | struct | task | in_ | out | loop | while | to | parallel | condition | passed | failed | end_
deriving Repr, DecidableEq, Inhabited

inductive Tk where
  | kw (k : Kw)
  | up (s : String)          -- STARTS_WITH_UPPER_C_STR
  | lo (s : String)          -- STARTS_WITH_LOWER_C_STR
  | prim (s : String)        -- NUMBER_P / STRING_P / BOOLEAN_P
  | colon | dot | lbr | rbr
  | int (n : Nat)            -- INTEGER
  | nl | ind | ded
  | ex (t : ExprParse.Tok)   -- a token of an expression
  | json (toks : List Json.JTok)   -- the token run of a whole json_object (lexer mode JSON)
deriving Repr, Inhabited

structure Tok where
  k : Tk
  line : Nat
deriving Repr, Inhabited

abbrev TS := List Tok

/-! ### the model the visitor builds -/

/-- `array: '[' (INTEGER | name)? ']'` -/
inductive Idx where
  | none | int (n : Nat) | name (x : String)
deriving Repr, DecidableEq, Inhabited

inductive Base where
  | prim (s : String) | struct (s : String)
deriving Repr, DecidableEq, Inhabited

structure VarTy where
  base : Base
  arr : Option Idx
deriving Repr, DecidableEq, Inhabited

/-- one `.name array?` step of an attribute access -/
abbrev Seg := String × Option Idx

inductive Param where
  | var (x : String)
  | path (root : String) (segs : List Seg)
  | lit (struct : String) (fields : List (String × Json.JV))
deriving Repr, Inhabited

inductive Limit where
  | int (n : Nat)
  | path (root : String) (segs : List Seg)
deriving Repr, DecidableEq, Inhabited

structure Call where
  name : String
  ins : List Param
  outs : List (String × VarTy)
  line : Nat
deriving Repr, Inhabited

inductive Stmt where
  | svc (c : Call)
  | call (c : Call)
  | par (cs : List Call) (line : Nat)
  | wloop (e : Expr) (body : List Stmt) (line : Nat)
  | cloop (parallel : Bool) (var : String) (lim : Limit) (body : List Stmt) (line : Nat)
  | cond (e : Expr) (passed : List Stmt) (failed : Option (List Stmt)) (line : Nat)
deriving Repr, Inhabited

structure Struct where
  name : String
  attrs : List (String × VarTy)
  line : Nat
deriving Repr, DecidableEq, Inhabited

structure Task where
  name : String
  ins : List (String × VarTy)
  body : List Stmt
  outs : List String
  line : Nat
deriving Repr, Inhabited

inductive Def where
  | struct (s : Struct)
  | task (t : Task)
deriving Repr, Inhabited

/-! ### parser -/

/-- `NL*` -/
def dropNl : TS → TS
  | ⟨.nl, _⟩ :: r => dropNl r
  | r => r

/-- `NL+` -/
def pNl1 : TS → Option TS
  | ⟨.nl, _⟩ :: r => some (dropNl r)
  | _ => none

/-- after `[`: `(INTEGER | name)? ']'` -/
def pIdxClose : TS → Option (Idx × TS)
  | ⟨.rbr, _⟩ :: r => some (.none, r)
  | ⟨.int n, _⟩ :: ⟨.rbr, _⟩ :: r => some (.int n, r)
  | ⟨.lo x, _⟩ :: ⟨.rbr, _⟩ :: r => some (.name x, r)
  | _ => none

/-- `array?` -/
def pArrOpt : TS → Option (Option Idx × TS)
  | ⟨.lbr, _⟩ :: r =>
    match pIdxClose r with
    | some (i, r') => some (some i, r')
    | none => none
  | r => some (none, r)

/-- `variable_type: primitive array?` -/
def pVarTy : TS → Option (VarTy × TS)
  | ⟨.prim s, _⟩ :: r =>
    match pArrOpt r with
    | some (a, r') => some (⟨.prim s, a⟩, r')
    | none => none
  | ⟨.up s, _⟩ :: r =>
    match pArrOpt r with
    | some (a, r') => some (⟨.struct s, a⟩, r')
    | none => none
  | _ => none

/-- `variable_definition: name ':' variable_type` -/
def pVarDef : TS → Option ((String × VarTy) × TS)
  | ⟨.lo x, _⟩ :: ⟨.colon, _⟩ :: r =>
    match pVarTy r with
    | some (t, r') => some ((x, t), r')
    | none => none
  | _ => none

def startsLo : TS → Bool
  | ⟨.lo _, _⟩ :: _ => true
  | _ => false

/-- `(variable_definition NL+)+` -/
def pVarDefs : Nat → TS → Option (List (String × VarTy) × TS)
  | 0, _ => none
  | f + 1, ts =>
    match pVarDef ts with
    | some (d, r) =>
      match pNl1 r with
      | some r' =>
        if startsLo r' then
          match pVarDefs f r' with
          | some (ds, r'') => some (d :: ds, r'')
          | none => none
        else some ([d], r')
      | none => none
    | none => none

/-- `(name NL+)+` of `task_out` -/
def pNames : Nat → TS → Option (List String × TS)
  | 0, _ => none
  | f + 1, ⟨.lo x, _⟩ :: r =>
    match pNl1 r with
    | some r' =>
      if startsLo r' then
        match pNames f r' with
        | some (xs, r'') => some (x :: xs, r'')
        | none => none
      else some ([x], r')
    | none => none
  | _ + 1, _ => none

/-- `('.' name array?)*` -/
def pSegs : Nat → TS → Option (List Seg × TS)
  | 0, _ => none
  | f + 1, ⟨.dot, _⟩ :: ⟨.lo s, _⟩ :: r =>
    match pArrOpt r with
    | some (a, r') =>
      match pSegs f r' with
      | some (ss, r'') => some ((s, a) :: ss, r'')
      | none => none
    | none => none
  | _ + 1, r => some ([], r)

/-- `parameter NL+ | struct_initialization` -/
def pParam (f : Nat) : TS → Option (Param × TS)
  | ⟨.lo x, _⟩ :: r =>
    match pSegs f r with
    | some (ss, r') =>
      match pNl1 r' with
      | some r'' => some (if ss.isEmpty then .var x else .path x ss, r'')
      | none => none
    | none => none
  | ⟨.up s, _⟩ :: ⟨.ind, _⟩ :: ⟨.json j, _⟩ :: r =>
    match Json.parseObj j with
    | some fs =>
      match pNl1 r with
      | some (⟨.ded, _⟩ :: r') => some (.lit s fs, r')
      | _ => none
    | none => none
  | ⟨.up s, _⟩ :: r =>
    match dropNl r with
    | ⟨.json j, _⟩ :: r' =>
      match Json.parseObj j with
      | some fs => some (.lit s fs, dropNl r')
      | none => none
    | _ => none
  | _ => none

def startsParam : TS → Bool
  | ⟨.lo _, _⟩ :: _ => true
  | ⟨.up _, _⟩ :: _ => true
  | _ => false

/-- `(parameter NL+ | struct_initialization)+` -/
def pParams : Nat → TS → Option (List Param × TS)
  | 0, _ => none
  | f + 1, ts =>
    match pParam f ts with
    | some (p, r) =>
      if startsParam r then
        match pParams f r with
        | some (ps, r') => some (p :: ps, r')
        | none => none
      else some ([p], r)
    | none => none

/-- `call_input?` -/
def pCallIn (f : Nat) : TS → Option (List Param × TS)
  | ⟨.kw .in_, _⟩ :: ⟨.ind, _⟩ :: r =>
    match pParams f r with
    | some (ps, ⟨.ded, _⟩ :: r') => some (ps, r')
    | _ => none
  | r => some ([], r)

/-- `call_output?` -/
def pCallOut (f : Nat) : TS → Option (List (String × VarTy) × TS)
  | ⟨.kw .out, _⟩ :: ⟨.ind, _⟩ :: r =>
    match pVarDefs f r with
    | some (ds, ⟨.ded, _⟩ :: r') => some (ds, r')
    | _ => none
  | r => some ([], r)

/-- what follows the name of a service / task call: `NL+ | INDENT call_input? call_output? DEDENT` -/
def pCallRest (f : Nat) : TS → Option ((List Param × List (String × VarTy)) × TS)
  | ⟨.nl, _⟩ :: r => some (([], []), dropNl r)
  | ⟨.ind, _⟩ :: r =>
    match pCallIn f r with
    | some (ins, r') =>
      match pCallOut f r' with
      | some (outs, ⟨.ded, _⟩ :: r'') => some ((ins, outs), r'')
      | _ => none
    | none => none
  | _ => none

/-- `task_call+` of `parallel` -/
def pCalls : Nat → TS → Option (List Call × TS)
  | 0, _ => none
  | f + 1, ⟨.lo s, l⟩ :: r =>
    match pCallRest f r with
    | some ((ins, outs), r') =>
      if startsLo r' then
        match pCalls f r' with
        | some (cs, r'') => some (⟨s, ins, outs, l⟩ :: cs, r'')
        | none => none
      else some ([⟨s, ins, outs, l⟩], r')
    | none => none
  | _ + 1, _ => none

/-- the tokens of an expression: the longest run of expression tokens -/
def takeEx : TS → List ExprParse.Tok × TS
  | ⟨.ex t, _⟩ :: r => let (es, r') := takeEx r; (t :: es, r')
  | r => ([], r)

/-- `expression` -/
def pExpr (ts : TS) : Option (Expr × TS) :=
  match takeEx ts with
  | (es, r) =>
    match ExprParse.parse es with
    | some e => some (e, r)
    | none => none

/-- `attribute_access | INTEGER` after `To` -/
def pLimit (f : Nat) : TS → Option (Limit × TS)
  | ⟨.int n, _⟩ :: r => some (.int n, r)
  | ⟨.lo x, _⟩ :: r =>
    match pSegs f r with
    | some (ss, r') => if ss.isEmpty then none else some (.path x ss, r')
    | none => none
  | _ => none

def startsStmt : TS → Bool
  | ⟨.lo _, _⟩ :: _ => true
  | ⟨.up _, _⟩ :: _ => true
  | ⟨.kw .parallel, _⟩ :: _ => true
  | ⟨.kw .loop, _⟩ :: _ => true
  | ⟨.kw .condition, _⟩ :: _ => true
  | _ => false

mutual
/-- `statement` -/
def pStmt : Nat → TS → Option (Stmt × TS)
  | 0, _ => none
  | f + 1, ⟨.up s, l⟩ :: r =>
    match pCallRest f r with
    | some ((ins, outs), r') => some (.svc ⟨s, ins, outs, l⟩, r')
    | none => none
  | f + 1, ⟨.lo s, l⟩ :: r =>
    match pCallRest f r with
    | some ((ins, outs), r') => some (.call ⟨s, ins, outs, l⟩, r')
    | none => none
  | f + 1, ⟨.kw .parallel, l⟩ :: ⟨.ind, _⟩ :: r =>
    match pCalls f r with
    | some (cs, ⟨.ded, _⟩ :: r') => some (.par cs l, r')
    | _ => none
  | f + 1, ⟨.kw .parallel, l⟩ :: ⟨.kw .loop, _⟩ :: ⟨.lo v, _⟩ :: ⟨.kw .to, _⟩ :: r =>
    match pLimit f r with
    | some (lim, ⟨.ind, _⟩ :: r') =>
      match pStmts f r' with
      | some (b, ⟨.ded, _⟩ :: r'') => some (.cloop true v lim b l, r'')
      | _ => none
    | _ => none
  | f + 1, ⟨.kw .loop, l⟩ :: ⟨.kw .while, _⟩ :: r =>
    match pExpr r with
    | some (e, ⟨.ind, _⟩ :: r') =>
      match pStmts f r' with
      | some (b, ⟨.ded, _⟩ :: r'') => some (.wloop e b l, r'')
      | _ => none
    | _ => none
  | f + 1, ⟨.kw .loop, l⟩ :: ⟨.lo v, _⟩ :: ⟨.kw .to, _⟩ :: r =>
    match pLimit f r with
    | some (lim, ⟨.ind, _⟩ :: r') =>
      match pStmts f r' with
      | some (b, ⟨.ded, _⟩ :: r'') => some (.cloop false v lim b l, r'')
      | _ => none
    | _ => none
  | f + 1, ⟨.kw .condition, l⟩ :: ⟨.ind, _⟩ :: r =>
    match pExpr r with
    | some (e, r1) =>
      match pNl1 r1 with
      | some (⟨.ded, _⟩ :: ⟨.kw .passed, _⟩ :: ⟨.ind, _⟩ :: r2) =>
        match pStmts f r2 with
        | some (p, ⟨.ded, _⟩ :: ⟨.kw .failed, _⟩ :: ⟨.ind, _⟩ :: r3) =>
          match pStmts f r3 with
          | some (q, ⟨.ded, _⟩ :: r4) => some (.cond e p (some q) l, r4)
          | _ => none
        | some (p, ⟨.ded, _⟩ :: r3) => some (.cond e p none l, r3)
        | _ => none
      | _ => none
    | none => none
  | _ + 1, _ => none
/-- `statement+` -/
def pStmts : Nat → TS → Option (List Stmt × TS)
  | 0, _ => none
  | f + 1, ts =>
    match pStmt f ts with
    | some (s, r) =>
      if startsStmt r then
        match pStmts f r with
        | some (ss, r') => some (s :: ss, r')
        | none => none
      else some ([s], r)
    | none => none
end

/-- `struct` after the keyword -/
def pStruct (f : Nat) (l : Nat) : TS → Option (Struct × TS)
  | ⟨.up s, _⟩ :: ⟨.ind, _⟩ :: r =>
    match pVarDefs f r with
    | some (ds, ⟨.ded, _⟩ :: ⟨.kw .end_, _⟩ :: r') => some (⟨s, ds, l⟩, r')
    | _ => none
  | _ => none

/-- `task_in?` -/
def pTaskIn (f : Nat) : TS → Option (List (String × VarTy) × TS)
  | ⟨.kw .in_, _⟩ :: ⟨.ind, _⟩ :: r =>
    match pVarDefs f r with
    | some (ds, ⟨.ded, _⟩ :: r') => some (ds, r')
    | _ => none
  | r => some ([], r)

/-- `task_out?` -/
def pTaskOut (f : Nat) : TS → Option (List String × TS)
  | ⟨.kw .out, _⟩ :: ⟨.ind, _⟩ :: r =>
    match pNames f r with
    | some (xs, ⟨.ded, _⟩ :: r') => some (xs, r')
    | _ => none
  | r => some ([], r)

/-- `task` after the keyword -/
def pTask (f : Nat) (l : Nat) : TS → Option (Task × TS)
  | ⟨.lo s, _⟩ :: ⟨.ind, _⟩ :: r =>
    match pTaskIn f r with
    | some (ins, r1) =>
      match pStmts f r1 with
      | some (b, r2) =>
        match pTaskOut f r2 with
        | some (outs, ⟨.ded, _⟩ :: ⟨.kw .end_, _⟩ :: r3) => some (⟨s, ins, b, outs, l⟩, r3)
        | _ => none
      | none => none
    | none => none
  | _ => none

/-- `program: (NL | struct | task)* EOF` -/
def pDefs : Nat → TS → Option (List Def)
  | 0, _ => none
  | _ + 1, [] => some []
  | f + 1, ⟨.nl, _⟩ :: r => pDefs f r
  | f + 1, ⟨.kw .struct, l⟩ :: r =>
    match pStruct f l r with
    | some (s, r') =>
      match pDefs f r' with
      | some ds => some (.struct s :: ds)
      | none => none
    | none => none
  | f + 1, ⟨.kw .task, l⟩ :: r =>
    match pTask f l r with
    | some (t, r') =>
      match pDefs f r' with
      | some ds => some (.task t :: ds)
      | none => none
    | none => none
  | _ + 1, _ => none

/-- the parser: every rule consumes a token per unit of fuel at most -/
def parse (ts : TS) : Option (List Def) := pDefs (ts.length + 1) ts

/-! ### printer -/

def t (k : Tk) (line : Nat := 0) : Tok := ⟨k, line⟩

def prIdx : Idx → TS
  | .none => []
  | .int n => [t (.int n)]
  | .name x => [t (.lo x)]

def prArr : Option Idx → TS
  | none => []
  | some i => t .lbr :: prIdx i ++ [t .rbr]

def prVarTy (v : VarTy) : TS :=
  (match v.base with
   | .prim s => t (.prim s)
   | .struct s => t (.up s)) :: prArr v.arr

def prVarDefs : List (String × VarTy) → TS
  | [] => []
  | (x, v) :: ds => t (.lo x) :: t .colon :: prVarTy v ++ t .nl :: prVarDefs ds

def prNames : List String → TS
  | [] => []
  | x :: xs => t (.lo x) :: t .nl :: prNames xs

def prSegs : List Seg → TS
  | [] => []
  | (s, a) :: ss => t .dot :: t (.lo s) :: prArr a ++ prSegs ss

/-- the three placements of a struct literal the grammar allows: on the line of the struct name, on the
    next line with the same indentation, on the next line indented -/
inductive LitStyle where
  | sameLine | nextLine | indented
deriving Repr, DecidableEq, Inhabited

/-- the placement chosen for a literal (any function of the literal) -/
abbrev Style := String → List (String × Json.JV) → LitStyle

def prParam (sty : Style) : Param → TS
  | .var x => [t (.lo x), t .nl]
  | .path x ss => t (.lo x) :: prSegs ss ++ [t .nl]
  | .lit s fs =>
    match sty s fs with
    | .sameLine => [t (.up s), t (.json (Json.prVal (.obj fs))), t .nl]
    | .nextLine => [t (.up s), t .nl, t (.json (Json.prVal (.obj fs))), t .nl]
    | .indented => [t (.up s), t .ind, t (.json (Json.prVal (.obj fs))), t .nl, t .ded]

def prParams (sty : Style) : List Param → TS
  | [] => []
  | p :: ps => prParam sty p ++ prParams sty ps

def prCallRest (sty : Style) (ins : List Param) (outs : List (String × VarTy)) : TS :=
  if ins.isEmpty && outs.isEmpty then [t .nl]
  else t .ind ::
    (if ins.isEmpty then [] else t (.kw .in_) :: t .ind :: prParams sty ins ++ [t .ded]) ++
    (if outs.isEmpty then [] else t (.kw .out) :: t .ind :: prVarDefs outs ++ [t .ded]) ++ [t .ded]

def prCalls (sty : Style) : List Call → TS
  | [] => []
  | c :: cs => t (.lo c.name) c.line :: prCallRest sty c.ins c.outs ++ prCalls sty cs

def prExpr (e : Expr) : TS := (ExprParse.flat e).map (fun x => t (.ex x))

def prLimit : Limit → TS
  | .int n => [t (.int n)]
  | .path x ss => t (.lo x) :: prSegs ss

mutual
def prStmt (sty : Style) : Stmt → TS
  | .svc c => t (.up c.name) c.line :: prCallRest sty c.ins c.outs
  | .call c => t (.lo c.name) c.line :: prCallRest sty c.ins c.outs
  | .par cs l => t (.kw .parallel) l :: t .ind :: prCalls sty cs ++ [t .ded]
  | .wloop e b l => t (.kw .loop) l :: t (.kw .while) :: prExpr e ++ t .ind :: prStmts sty b ++ [t .ded]
  | .cloop true v lim b l =>
    t (.kw .parallel) l :: t (.kw .loop) :: t (.lo v) :: t (.kw .to) :: prLimit lim ++ t .ind :: prStmts sty b ++ [t .ded]
  | .cloop false v lim b l =>
    t (.kw .loop) l :: t (.lo v) :: t (.kw .to) :: prLimit lim ++ t .ind :: prStmts sty b ++ [t .ded]
  | .cond e p none l =>
    t (.kw .condition) l :: t .ind :: prExpr e ++ t .nl :: t .ded :: t (.kw .passed) :: t .ind :: prStmts sty p ++ [t .ded]
  | .cond e p (some q) l =>
    t (.kw .condition) l :: t .ind :: prExpr e ++ t .nl :: t .ded :: t (.kw .passed) :: t .ind :: prStmts sty p ++
      t .ded :: t (.kw .failed) :: t .ind :: prStmts sty q ++ [t .ded]
def prStmts (sty : Style) : List Stmt → TS
  | [] => []
  | s :: ss => prStmt sty s ++ prStmts sty ss
end

def prStruct (s : Struct) : TS :=
  t (.kw .struct) s.line :: t (.up s.name) :: t .ind :: prVarDefs s.attrs ++ [t .ded, t (.kw .end_), t .nl]

def prTaskIn (ins : List (String × VarTy)) : TS :=
  if ins.isEmpty then [] else t (.kw .in_) :: t .ind :: prVarDefs ins ++ [t .ded]

def prTaskOut (outs : List String) : TS :=
  if outs.isEmpty then [] else t (.kw .out) :: t .ind :: prNames outs ++ [t .ded]

def prTask (sty : Style) (k : Task) : TS :=
  t (.kw .task) k.line :: t (.lo k.name) :: t .ind ::
    prTaskIn k.ins ++ prStmts sty k.body ++ prTaskOut k.outs ++ [t .ded, t (.kw .end_), t .nl]

def prDefs (sty : Style) : List Def → TS
  | [] => []
  | .struct s :: ds => prStruct s ++ prDefs sty ds
  | .task k :: ds => prTask sty k ++ prDefs sty ds

/-! ### what the grammar demands of a model (`+` repetitions are non-empty; an expression is one the
    `expression` rule produces) -/

def ExprOk (e : Expr) : Prop := ExprParse.parse (ExprParse.flat e) = some e

def Param.Ok : Param → Prop
  | .path _ ss => ss ≠ []
  | _ => True

def Limit.Ok : Limit → Prop
  | .path _ ss => ss ≠ []
  | _ => True

def Call.Ok (c : Call) : Prop := ∀ p ∈ c.ins, p.Ok

mutual
def Stmt.Ok : Stmt → Prop
  | .svc c => c.Ok
  | .call c => c.Ok
  | .par cs _ => cs ≠ [] ∧ ∀ c ∈ cs, c.Ok
  | .wloop e b _ => ExprOk e ∧ b ≠ [] ∧ StmtsOk b
  | .cloop _ _ lim b _ => lim.Ok ∧ b ≠ [] ∧ StmtsOk b
  | .cond e p none _ => ExprOk e ∧ p ≠ [] ∧ StmtsOk p
  | .cond e p (some q) _ => ExprOk e ∧ p ≠ [] ∧ StmtsOk p ∧ q ≠ [] ∧ StmtsOk q
def StmtsOk : List Stmt → Prop
  | [] => True
  | s :: ss => s.Ok ∧ StmtsOk ss
end

def Def.Ok : Def → Prop
  | .struct s => s.attrs ≠ []
  | .task k => k.body ≠ [] ∧ StmtsOk k.body

end Pfdl.Syntax
