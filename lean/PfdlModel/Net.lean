import PfdlModel.Api
/-! The net layer: `petri_net/generator.py` (construct by construct, creation order of places,
    transitions, arcs and callbacks), `petri_net/logic.py` (`evaluate_petri_net`: scan from 0,
    restart after each firing, the parallel-loop special case, `fire_event`) and the callbacks of
    `scheduler.py` that work on the net (`on_*`), *as the code does it*: one global marking, the
    callback lists are live Python lists (iteration by position, removal while iterating), the
    parallel loop rebuilds the net at run time.  Python's call stack is the recursion (fuel).

    Unlike `Sched` (the documented behaviour, structural) this model has the global state the code
    has, so completions reported re-entrantly for *other* services are inside it, and the known
    findings about the run-time net surgery are behaviours of this model too.  Core Lean only. -/
namespace Pfdl.Net
open Pfdl Generated

/-- identifiers: a uuid4 drawn at object creation, or a test id -/
inductive Uid where
  | fresh (k : Nat)
  | id (n : Nat)
deriving Repr, DecidableEq, Inhabited

/-- as printed in notifications (fresh uuids never reach a notification in a sound run) -/
def Uid.toNat : Uid → Nat
  | .id n => n
  | .fresh k => 1000000 + k

structure Place where
  tokens : Nat := 0
  alive : Bool := true
deriving Repr, Inhabited

/-- arcs of a transition: input places (consumed from), output places (produced to) -/
structure Trans where
  ins : List Nat := []
  outs : List Nat := []
deriving Repr, Inhabited

/-- the `functools.partial` objects stored in `transition_dict` -/
inductive Cb where
  | taskStarted (t : Nat)
  | taskFinished (t : Nat)
  | svcStarted (s : Nat)
  | svcFinished (s : Nat)
  | cond (e : Expr) (thenP elseP ctx : Nat)
  | wloop (e : Expr) (thenP elseP ctx : Nat)
  | cloop (line : Nat) (var : String) (lim : Limit) (thenP elseP ctx : Nat)
  | ploop (var : String) (lim : Limit) (c : CallSite) (place t1 t2 ctx : Nat)
deriving Repr, Inhabited

def Cb.isPloop : Cb → Bool
  | .ploop .. => true
  | _ => false

/-- `TaskAPI` objects -/
structure TaskApi where
  name : String
  line : Nat
  parent : Option Nat
  call : Option CallSite
  inLoop : Bool
  uid : Uid
  params : List Param
deriving Repr, Inhabited

/-- `ServiceAPI` objects -/
structure SvcApi where
  c : CallSite
  ctx : Nat
  inLoop : Bool
  uid : Uid
  params : List Param
deriving Repr, Inhabited

/-- keys of `loop_counters[task uuid]`: a CountingLoop object (identified by its line) or the
    name of the counting variable of a parallel loop -/
inductive LoopKey where
  | loop (line : Nat) (var : String)
  | pvar (var : String)
deriving Repr, DecidableEq, Inhabited

def LoopKey.var : LoopKey → String
  | .loop _ v => v
  | .pvar v => v

/-- values: an int, or a `ParallelLoopCounter` object (a cell) -/
inductive CtrVal where
  | cnt (n : Nat)
  | cell (i : Nat)
deriving Repr, Inhabited

/-- entries of `awaited_events` -/
inductive AEv where
  | start
  | setPlace (p : Nat)
  | svc (u : Uid)
deriving Repr, DecidableEq, Inhabited

/-- what listeners, observers and the execution engine see, in order -/
inductive NOut where
  | inv (fn : Nat) (n : Note)
  | log (obs : Nat) (n : Note) (flag : Bool)
  | netUpd (obs : Nat)
  | var (name : String) (ctx : Nat)
  | fire (id : Nat)
  | ret (id : Nat) (ok : Bool)
deriving Repr, Inhabited

/-- the scripted execution engine (the harness's `impl.Run`) -/
structure EE where
  ans : Nat → Option Val
  imm : Nat → Bool          -- complete the k-th announced service from inside its announcement
  immOther : Nat → Bool     -- … report other outstanding services from inside the k-th announcement
  immSf : Nat → Bool        -- … from inside the k-th service-finished notification

/-- Python dict with insertion order -/
def dictSet {κ ν} [DecidableEq κ] (d : List (κ × ν)) (k : κ) (v : ν) : List (κ × ν) :=
  if d.any (·.1 = k) then d.map (fun e => if e.1 = k then (k, v) else e) else d ++ [(k, v)]

def dictGet {κ ν} [DecidableEq κ] (d : List (κ × ν)) (k : κ) : Option ν :=
  (d.find? (·.1 = k)).map (·.2)

def dictDel {κ ν} [DecidableEq κ] (d : List (κ × ν)) (k : κ) : List (κ × ν) :=
  d.filter (fun e => !(e.1 = k))

/-- the whole scheduler object -/
structure NS where
  prog : Prog
  valid : Bool := true
  places : Array Place := #[]
  trans : Array Trans := #[]
  cbs : Array (List (Nat × Cb)) := #[]          -- transition_dict (serial number of the partial, callback)
  ncb : Nat := 0
  placeDict : List (Uid × Nat) := []
  tasks : Array TaskApi := #[]
  svcs : Array SvcApi := #[]
  nfresh : Nat := 0
  startPlace : Nat := 0
  finalPlace : Nat := 0
  loopCtrs : List (Uid × List (LoopKey × CtrVal)) := []
  cells : Array Int := #[]
  awaited : List AEv := []
  ctrT : Nat := 0
  ctrS : Nat := 0
  running : Bool := false
  ls : Listeners := {}
  observers : List Nat := []
  -- the execution engine's own bookkeeping
  nq : Nat := 0
  announced : Array Nat := #[]
  pending : List Nat := []
  inProg : List Nat := []
  nSf : Nat := 0
  -- result of the call in progress
  out : Array NOut := #[]
  exc : Option String := none
  oof : Bool := false
deriving Inhabited

def NS.raise (s : NS) (e : String) : NS :=
  match s.exc with
  | some _ => s
  | none => { s with exc := some e }

def NS.outOfFuel (s : NS) : NS := { s.raise "outOfFuel" with oof := true }

def NS.emit (s : NS) (o : NOut) : NS := { s with out := s.out.push o }

/-! ### net primitives (`create_place`, `create_transition`, `add_input`, `add_output`, `add_callback`) -/

/-- `create_place`: the new place has index `s.places.size` -/
def NS.pushPlace (s : NS) : NS := { s with places := s.places.push {} }

/-- `create_transition`: the new transition has index `s.trans.size` -/
def NS.pushTrans (s : NS) : NS := { s with trans := s.trans.push {}, cbs := s.cbs.push [] }

/-- `net.add_input(place, transition)`: the transition consumes from the place -/
def NS.addIn (s : NS) (p t : Nat) : NS :=
  { s with trans := s.trans.modify t (fun tr => { tr with ins := tr.ins ++ [p] }) }

/-- `net.add_output(place, transition)`: the transition produces to the place -/
def NS.addOut (s : NS) (p t : Nat) : NS :=
  { s with trans := s.trans.modify t (fun tr => { tr with outs := tr.outs ++ [p] }) }

def NS.addCb (s : NS) (t : Nat) (cb : Cb) : NS :=
  { s with cbs := s.cbs.modify t (fun l => l ++ [(s.ncb, cb)]), ncb := s.ncb + 1 }

/-- a new `TaskAPI` object (index `s.tasks.size`) with a uuid4 -/
def NS.pushTask (s : NS) (name : String) (line : Nat) (parent : Option Nat) (call : Option CallSite)
    (inLoop : Bool) : NS :=
  let api : TaskApi := { name, line, parent, call, inLoop, uid := .fresh s.nfresh,
                         params := match call with | some c => c.ins | none => [] }
  { s with tasks := s.tasks.push api, nfresh := s.nfresh + 1 }

/-- a new `ServiceAPI` object (index `s.svcs.size`) with a uuid4, registered in `place_dict` under that uuid with
    its "finished" place -/
def NS.pushSvc (s : NS) (c : CallSite) (ctx : Nat) (inLoop : Bool) (finished : Nat) : NS :=
  let api : SvcApi := { c, ctx, inLoop, uid := .fresh s.nfresh, params := c.ins }
  { s with svcs := s.svcs.push api, nfresh := s.nfresh + 1,
           placeDict := dictSet s.placeDict (Uid.fresh s.nfresh) finished }

/-! ### the generator -/

mutual
/-- `generate_statements`: returns the last connections of the last statement -/
def genStmts : Nat → List Stmt → (ctx first last : Nat) → (inLoop : Bool) → (prev : Nat) → (single : Bool) →
    NS → List Nat × NS
  | 0, _, _, _, _, _, _, _, s => ([], s.outOfFuel)
  | _+1, [], _, _, _, _, _, _, s => ([], s)
  | f+1, [st], ctx, first, last, inLoop, prev, single, s =>
      genStmt f st ctx (if single then first else prev) last inLoop s
  | f+1, st :: rest, ctx, first, last, inLoop, prev, single, s =>
      let cur := s.trans.size
      let s := s.pushTrans
      let s := (genStmt f st ctx prev cur inLoop s).2
      genStmts f rest ctx first last inLoop cur single s

/-- one statement between two transitions -/
def genStmt : Nat → Stmt → (ctx t1 t2 : Nat) → (inLoop : Bool) → NS → List Nat × NS
  | 0, _, _, _, _, _, s => ([], s.outOfFuel)
  | _+1, .svc c, ctx, t1, t2, inLoop, s =>
      -- generate_service
      let api := s.svcs.size
      let started := s.places.size
      let s := s.pushPlace
      let finished := s.places.size
      let s := s.pushPlace
      let s := s.pushSvc c ctx inLoop finished
      let done := s.places.size
      let s := s.pushPlace
      let doneT := s.trans.size
      let s := s.pushTrans
      let s := s.addCb t1 (.svcStarted api)
      let s := s.addCb doneT (.svcFinished api)
      let s := s.addIn started doneT
      let s := s.addIn finished doneT
      let s := s.addOut done doneT
      let s := s.addOut started t1
      let s := s.addIn done t2
      ([doneT], s)
  | f+1, .call c, ctx, t1, t2, inLoop, s => genCall f c ctx t1 t2 inLoop s
  | f+1, .par cs _, ctx, t1, t2, inLoop, s =>
      -- generate_parallel
      let sync := s.trans.size
      let s := s.pushTrans
      let pf := s.places.size
      let s := s.pushPlace
      let s := genCalls f cs ctx t1 sync inLoop s
      let s := s.addOut pf sync
      let s := s.addIn pf t2
      ([sync], s)
  | f+1, .cond e passed failed _, ctx, t1, t2, inLoop, s =>
      -- generate_condition
      let passedP := s.places.size
      let s := s.pushPlace
      let failedP := s.places.size
      let s := s.pushPlace
      let exprP := s.places.size
      let s := s.pushPlace
      let fp := s.trans.size
      let s := s.pushTrans
      let ff := s.trans.size
      let s := s.pushTrans
      let s := s.addIn exprP fp
      let s := s.addIn exprP ff
      let s := s.addIn passedP fp
      let s := s.addIn failedP ff
      let finP := s.places.size
      let s := s.pushPlace
      let sp := s.trans.size
      let s := s.pushTrans
      let s := s.addOut finP sp
      let s := (genStmts f passed ctx fp sp inLoop fp (passed.length ≤ 1) s).2
      let s := s.addOut exprP t1
      let s := s.addIn finP t2
      let s := s.addCb t1 (.cond e passedP failedP ctx)
      if failed.isEmpty then
        let s := s.addOut finP ff
        ([sp, ff], s)
      else
        let sf := s.trans.size
      let s := s.pushTrans
        let s := (genStmts f failed ctx ff sf inLoop ff (failed.length ≤ 1) s).2
        let s := s.addOut finP sf
        ([sp, sf], s)
  | f+1, .cloop var lim body line, ctx, t1, t2, _, s =>
      -- generate_counting_loop
      let loopP := s.places.size
      let s := s.pushPlace
      let stmP := s.places.size
      let s := s.pushPlace
      let finP := s.places.size
      let s := s.pushPlace
      let cp := s.trans.size
      let s := s.pushTrans
      let cf := s.trans.size
      let s := s.pushTrans
      let isd := s.trans.size
      let s := s.pushTrans
      let s := s.addIn loopP cp
      let s := s.addIn stmP cp
      let s := s.addIn loopP cf
      let s := s.addIn finP cf
      let s := s.addOut loopP isd
      let doneP := s.places.size
      let s := s.pushPlace
      let s := (genStmts f body ctx cp isd true cp (body.length ≤ 1) s).2
      let s := s.addOut doneP cf
      let s := s.addOut loopP t1
      let s := s.addIn doneP t2
      let s := s.addCb t1 (.cloop line var lim stmP finP ctx)
      let s := s.addCb isd (.cloop line var lim stmP finP ctx)
      ([cf], s)
  | f+1, .wloop e body _, ctx, t1, t2, _, s =>
      -- generate_while_loop
      let loopP := s.places.size
      let s := s.pushPlace
      let stmP := s.places.size
      let s := s.pushPlace
      let finP := s.places.size
      let s := s.pushPlace
      let cp := s.trans.size
      let s := s.pushTrans
      let cf := s.trans.size
      let s := s.pushTrans
      let isd := s.trans.size
      let s := s.pushTrans
      let s := s.addIn loopP cp
      let s := s.addIn stmP cp
      let s := s.addIn loopP cf
      let s := s.addIn finP cf
      let s := s.addOut loopP isd
      let doneP := s.places.size
      let s := s.pushPlace
      let s := (genStmts f body ctx cp isd true cp (body.length ≤ 1) s).2
      let s := s.addOut loopP t1
      let s := s.addIn doneP t2
      let s := s.addCb t1 (.wloop e stmP finP ctx)
      let s := s.addCb isd (.wloop e stmP finP ctx)
      let s := s.addOut doneP cf
      ([cf], s)
  | _+1, .ploop var lim c _, ctx, t1, t2, _, s =>
      -- generate_parallel_loop: a placeholder; the loop is built when it is reached
      let pl := s.places.size
      let s := s.pushPlace
      let s := s.addOut pl t1
      let s := s.addIn pl t2
      let s := s.addCb t1 (.ploop var lim c pl t1 t2 ctx)
      ([t2], s)

/-- `generate_task_call` -/
def genCall : Nat → CallSite → (ctx t1 t2 : Nat) → (inLoop : Bool) → NS → List Nat × NS
  | 0, _, _, _, _, _, s => ([], s.outOfFuel)
  | f+1, c, ctx, t1, t2, inLoop, s =>
      match s.prog.task? c.name with
      | none => ([], s.raise "KeyError")
      | some t =>
        let nctx := s.tasks.size
        let s := s.pushTask t.name c.line (some ctx) (some c) inLoop
        let s := s.addCb t1 (.taskStarted nctx)
        let r := genStmts f t.body nctx t1 t2 inLoop t1 (t.body.length ≤ 1) s
        (r.1, r.1.foldl (fun s l => s.addCb l (.taskFinished nctx)) r.2)

/-- the task calls of a Parallel block, in order -/
def genCalls : Nat → List CallSite → (ctx t1 t2 : Nat) → (inLoop : Bool) → NS → NS
  | 0, _, _, _, _, _, s => s.outOfFuel
  | _+1, [], _, _, _, _, s => s
  | f+1, c :: cs, ctx, t1, t2, inLoop, s =>
      let s := (genCall f c ctx t1 t2 inLoop s).2
      genCalls f cs ctx t1 t2 inLoop s
end

/-- `generate_petri_net` (+ `setup_scheduling`: the START event is awaited) -/
def generate (P : Prog) (valid : Bool) (fuel : Nat) : NS :=
  let s : NS := { prog := P, valid := valid }
  match P.task? startTaskName with
  | none => { s with valid := false }
  | some t =>
    if !valid then s else
    let root := s.tasks.size
    let s := s.pushTask t.name t.line none none false
    let s := { s with tasks := s.tasks.modify root (fun a => { a with uid := .id 0 }) }
    let started := s.places.size
    let s := s.pushPlace
    let c1 := s.trans.size
    let s := s.pushTrans
    let s := s.addCb c1 (.taskStarted root)
    let s := s.addIn started c1
    let finished := s.places.size
    let s := s.pushPlace
    let c2 := s.trans.size
    let s := s.pushTrans
    let s := (genStmts fuel t.body root c1 c2 false c1 (t.body.length ≤ 1) s).2
    let s := s.addOut finished c2
    let s := s.addCb c2 (.taskFinished root)
    { s with startPlace := started, finalPlace := finished, awaited := [.start] }

/-! ### the token game -/

def NS.tokens (s : NS) (p : Nat) : Nat := (s.places[p]?.map (·.tokens)).getD 0

def NS.enabled (s : NS) (t : Nat) : Bool :=
  match s.trans[t]? with
  | some tr => tr.ins.all (fun p => 1 ≤ s.tokens p)
  | none => false

def NS.fireT (s : NS) (t : Nat) : NS :=
  match s.trans[t]? with
  | some tr =>
    let ps := tr.ins.foldl (fun ps p => ps.modify p (fun pl => { pl with tokens := pl.tokens - 1 })) s.places
    let ps := tr.outs.foldl (fun ps p => ps.modify p (fun pl => { pl with tokens := pl.tokens + 1 })) ps
    { s with places := ps }
  | none => s

def NS.hasPlace (s : NS) (p : Nat) : Bool := (s.places[p]?.map (·.alive)).getD false

/-- SNAKES `remove_place`: the place and all its arcs disappear -/
def NS.removePlace (s : NS) (p : Nat) : NS :=
  { s with places := s.places.modify p (fun pl => { pl with alive := false, tokens := 0 }),
           trans := s.trans.map (fun tr => { ins := tr.ins.filter (· != p), outs := tr.outs.filter (· != p) }) }

def NS.addToken (s : NS) (p : Nat) : NS :=
  { s with places := s.places.modify p (fun pl => { pl with tokens := pl.tokens + 1 }) }

/-- number of tokens in the net, and "exactly one token, in the final place" -/
def NS.marked (s : NS) : Nat := s.places.foldl (fun n p => n + p.tokens) 0
def NS.finalMarking (s : NS) : Bool := s.marked == 1 && s.tokens s.finalPlace == 1

/-! ### scheduler callbacks -/

def NS.taskUid (s : NS) (t : Nat) : Uid := (s.tasks[t]?.map (·.uid)).getD (.fresh 0)

/-- `current_loop_counters` of `substitute_loop_indexes`: variable name -> value, later keys win -/
def curCounters (d : List (LoopKey × CtrVal)) : List (String × CtrVal) :=
  d.foldl (fun acc e => dictSet acc e.1.var e.2) []

/-- counting variables written as an array index in the parameters, in order of appearance -/
def mentionedVars (ps : List Param) : List String :=
  ps.flatMap (fun p => match p with
    | .path segs => segs.filterMap (fun g => match g with | .idx v => some v | _ => none)
    | _ => [])

/-- `substitute_loop_indexes(call_api)` for a call made in task context `ctx`; a parallel-loop counter
    is raised once per call that mentions its variable -/
def NS.substitute (s : NS) (ctx : Option Nat) (ps : List Param) : List Param × NS :=
  match ctx with
  | none => (ps, s)
  | some c =>
    match dictGet s.loopCtrs (s.taskUid c) with
    | none => (ps, s)
    | some d =>
      let cur := curCounters d
      let vars := (mentionedVars ps).eraseDups
      -- raise the cells of the parallel-loop counters that are mentioned
      let cells := vars.foldl (fun cells v => match dictGet cur v with
        | some (.cell i) => cells.modify i (· + 1)
        | _ => cells) s.cells
      let binds : List (String × Nat) := cur.filterMap (fun e => match e.2 with
        | .cnt n => some (e.1, n)
        | .cell i => some (e.1, ((cells[i]?).getD 0).toNat))
      (substParams binds ps, { s with cells := cells })

def NS.noteT (s : NS) (k : Kind) (t : Nat) : Note :=
  match s.tasks[t]? with
  | some a => { kind := k, name := a.name, line := a.line, id := a.uid.toNat,
                ctx := a.parent.map (fun p => (s.taskUid p).toNat), params := a.params }
  | none => default

def NS.noteS (s : NS) (k : Kind) (i : Nat) : Note :=
  match s.svcs[i]? with
  | some a => { kind := k, name := a.c.name, line := a.c.line, id := a.uid.toNat,
                ctx := some (s.taskUid a.ctx).toNat, params := a.params }
  | none => default

def NS.logAll (s : NS) (n : Note) (flag : Bool) : NS :=
  s.observers.foldl (fun s o => s.emit (.log o n flag)) s

def NS.netAll (s : NS) : NS :=
  s.observers.foldl (fun s o => s.emit (.netUpd o)) s

/-- `execute_expression` in a task context -/
def NS.evalExpr (s : NS) (ee : EE) (e : Expr) (ctx : Nat) : Option Val × NS :=
  let (v, qs) := e.exec ee.ans s.nq
  let c := (s.taskUid ctx).toNat
  (v, { s with nq := s.nq + qs.length, out := qs.foldl (fun o x => o.push (.var x c)) s.out })

/-- `get_loop_limit` -/
def NS.readLimit (s : NS) (ee : EE) (lim : Limit) (ctx : Nat) : Option Rat × NS :=
  match lim with
  | .lit n => (some (n : Rat), s)
  | .path [] => (none, s)
  | .path (x :: segs) =>
    let v := ee.ans s.nq
    let s := { s with nq := s.nq + 1 }.emit (.var x (s.taskUid ctx).toNat)
    (((v.bind (·.follow segs)).bind (·.toNum?)).map (·.1), s)

/-- `on_counting_loop_started`, the counter: 0 at the first visit of this loop in this task instance, else one more -/
def NS.bumpCounter (s : NS) (ctx line : Nat) (var : String) : Nat × NS :=
  let u := s.taskUid ctx
  let d := (dictGet s.loopCtrs u).getD []
  let key := LoopKey.loop line var
  let c := match dictGet d key with
    | some (.cnt c) => c + 1
    | some (.cell _) => 0      -- not reachable: parallel loops use the variable name as key
    | none => 0
  (c, { s with loopCtrs := dictSet s.loopCtrs u (dictSet d key (.cnt c)) })

/-- `del self.loop_counters[task_context.uuid][loop]` -/
def NS.dropCounter (s : NS) (ctx line : Nat) (var : String) : NS :=
  let u := s.taskUid ctx
  let d := (dictGet s.loopCtrs u).getD []
  { s with loopCtrs := dictSet s.loopCtrs u (dictDel d (LoopKey.loop line var)) }

/-- `for callback in callbacks: if it is the parallel-loop callback: temp = callback; callbacks.remove(temp)`:
    iteration by position over the list that is being changed (the element after a removed one is skipped) -/
def extractPloop (l : List (Nat × Cb)) (pos : Nat) (temp : Option Cb) : Nat → Option Cb × List (Nat × Cb)
  | 0 => (temp, l)
  | g+1 =>
    match l[pos]? with
    | none => (temp, l)
    | some (_, cb) =>
      if cb.isPloop then extractPloop (l.eraseIdx pos) (pos + 1) (some cb) g
      else extractPloop l (pos + 1) temp g

mutual
/-- `PetriNetLogic.evaluate_petri_net` -/
def evaluate (ee : EE) : Nat → NS → NS
  | 0, s => s.outOfFuel
  | f+1, s => scan ee f s.trans.size 0 s

/-- the while loop over the snapshot of the transitions -/
def scan (ee : EE) : Nat → Nat → Nat → NS → NS
  | 0, _, _, s => s.outOfFuel
  | f+1, n, i, s =>
    if s.exc.isSome then s
    else if n ≤ i then s
    else if s.enabled i then
      let l := s.cbs[i]?.getD []
      -- `for callback in callbacks: if it is the parallel-loop callback: temp = callback; callbacks.remove(temp)`
      -- (iteration by position over the list that is being changed)
      let (temp, l) := extractPloop l 0 none (l.length + 1)
      match temp with
      | some cb =>
        let s := { s with cbs := s.cbs.set! i l }
        -- the other callbacks first (each is removed once it has run), then the parallel loop; the transition is not fired here
        let s := runCopy ee f i l s
        if s.exc.isSome then s else runCb ee f cb s
      | none =>
        let s := s.fireT i
        let s := runLive ee f i 0 s
        scan ee f n 0 s
    else scan ee f n (i + 1) s

/-- `for callback in callbacks: callback()` over the live list of transition `t` -/
def runLive (ee : EE) : Nat → Nat → Nat → NS → NS
  | 0, _, _, s => s.outOfFuel
  | f+1, t, pos, s =>
    if s.exc.isSome then s else
    match (s.cbs[t]?.getD [])[pos]? with
    | none => s
    | some (_, cb) => runLive ee f t (pos + 1) (runCb ee f cb s)

/-- `for callback in list(callbacks): callback(); callbacks.remove(callback)` -/
def runCopy (ee : EE) : Nat → Nat → List (Nat × Cb) → NS → NS
  | 0, _, _, s => s.outOfFuel
  | _+1, _, [], s => s
  | f+1, t, (k, cb) :: rest, s =>
    if s.exc.isSome then s else
    let s := runCb ee f cb s
    if s.exc.isSome then s else
    let l := s.cbs[t]?.getD []
    if l.any (·.1 == k) then
      runCopy ee f t rest { s with cbs := s.cbs.set! t (l.filter (·.1 != k)) }
    else s.raise "ValueError"

/-- one callback of `scheduler.py` -/
def runCb (ee : EE) : Nat → Cb → NS → NS
  | 0, _, s => s.outOfFuel
  | f+1, .taskStarted t, s =>
      -- on_task_started
      match s.tasks[t]? with
      | none => s.raise "IndexError"
      | some a =>
        let uid := Uid.id s.ctrT
        let ps := if a.inLoop then (match a.call with | some c => c.ins | none => a.params) else a.params
        let s := { s with ctrT := s.ctrT + 1 }
        let (ps, s) := s.substitute a.parent ps
        let s := { s with tasks := s.tasks.modify t (fun a => { a with uid := uid, params := ps }) }
        let n := s.noteT .ts t
        let s := s.ls.ts.foldl (fun s fn => s.emit (.inv fn n)) s
        s.logAll n false
  | f+1, .taskFinished t, s =>
      -- on_task_finished
      let n := s.noteT .tf t
      let s := s.ls.tf.foldl (fun s fn => s.emit (.inv fn n)) s
      if n.name == startTaskName then
        let s := { s with running := false }
        let s := s.netAll
        s.logAll n true
      else s.logAll n false
  | f+1, .svcStarted i, s =>
      -- on_service_started
      match s.svcs[i]? with
      | none => s.raise "IndexError"
      | some a =>
        let uid := Uid.id s.ctrS
        let s := { s with ctrS := s.ctrS + 1 }
        match dictGet s.placeDict a.uid with
        | none => s.raise "KeyError"
        | some fin =>
          let s := { s with placeDict := dictSet s.placeDict uid fin }
          let (ps, s) := if a.inLoop then s.substitute (some a.ctx) a.c.ins else (a.params, s)
          let s := { s with svcs := s.svcs.modify i (fun a => { a with uid := uid, params := ps }),
                            awaited := s.awaited ++ [AEv.svc uid] }
          let s := s.logAll (s.noteS .ss i) false
          listenSS ee f i s.ls.ss s
  | f+1, .svcFinished i, s =>
      let s := listenSF ee f i s.ls.sf s
      -- the log entry names the service as the API object says now (a nested run may have started it again)
      if s.exc.isSome then s else s.logAll (s.noteS .sf i) false
  | f+1, .cond e thenP elseP ctx, s =>
      let (v, s) := s.evalExpr ee e ctx
      match v with
      | none => s.raise "EvalError"
      | some v =>
        let p := if v.truthy then thenP else elseP
        (fireEv ee f (AEv.setPlace p) { s with awaited := s.awaited ++ [.setPlace p] }).2
  | f+1, .wloop e thenP elseP ctx, s =>
      let (v, s) := s.evalExpr ee e ctx
      match v with
      | none => s.raise "EvalError"
      | some v =>
        let p := if v.truthy then thenP else elseP
        (fireEv ee f (AEv.setPlace p) { s with awaited := s.awaited ++ [.setPlace p] }).2
  | f+1, .cloop line var lim thenP elseP ctx, s =>
      -- on_counting_loop_started
      let (c, s) := s.bumpCounter ctx line var
      let (n, s) := s.readLimit ee lim ctx
      match n with
      | none => s.raise "EvalError"
      | some n =>
        if (c : Rat) < n then
          (fireEv ee f (AEv.setPlace thenP) { s with awaited := s.awaited ++ [.setPlace thenP] }).2
        else
          -- the loop is left: its counter is forgotten
          let s := { s.dropCounter ctx line var with awaited := s.awaited ++ [.setPlace elseP] }
          (fireEv ee f (AEv.setPlace elseP) s).2
  | f+1, .ploop var lim c place t1 t2 ctx, s =>
      -- on_parallel_loop_started
      let (n, s) := s.readLimit ee lim ctx
      match n with
      | none => s.raise "EvalError"
      | some n =>
        let s :=
          -- `task_count = int(limit)`: a limit below 1, a fraction as well, stands for no task
          if 1 ≤ n then
            let cnt := n.floor.toNat
            (List.range cnt).foldl (fun s _ =>
              let (_, s) := genCall f c ctx t1 t2 false s
              let u := s.taskUid ctx
              let d := (dictGet s.loopCtrs u).getD []
              let s := { s with cells := s.cells.push (-1) }
              { s with loopCtrs := dictSet s.loopCtrs u (dictSet d (.pvar var) (.cell (s.cells.size - 1))) }) s
          else
            -- generate_empty_parallel_loop
            let p := s.places.size
            let s := s.pushPlace
            (s.addOut p t1).addIn p t2
        if s.exc.isSome then s else
        let s := if s.hasPlace place then s.removePlace place else s
        evaluate ee f s

/-- the service-started listeners in registration order; the execution engine's is function 0.  Every listener
    is handed the same API object: it sees it as it is when its turn comes -/
def listenSS (ee : EE) : Nat → Nat → List Nat → NS → NS
  | 0, _, _, s => s.outOfFuel
  | _+1, _, [], s => s
  | f+1, i, fn :: fns, s =>
    if s.exc.isSome then s else
    let n := s.noteS .ss i
    let s := s.emit (.inv fn n)
    let s := if fn == eeFn then eeStarted ee f n.id s else s
    listenSS ee f i fns s

/-- the execution engine's service-started listener: book-keeping, then the scripted re-entrant reports -/
def eeStarted (ee : EE) : Nat → Nat → NS → NS
  | 0, _, s => s.outOfFuel
  | f+1, id, s =>
    let k := s.announced.size
    let s := { s with announced := s.announced.push id, pending := s.pending ++ [k] }
    let s := if ee.immOther k then eeOther ee f k s else s
    if s.exc.isSome then s
    else if ee.imm k then complete ee f k s else s

/-- cross re-entrancy: a completion that is being delivered right now is reported again (even announcements
    only), then the oldest other outstanding service is reported -/
def eeOther (ee : EE) : Nat → Nat → NS → NS
  | 0, _, s => s.outOfFuel
  | f+1, k, s =>
    let s := eeAgain ee f k s
    match (s.pending.filter (fun j => j != k && !s.inProg.contains j)).head? with
    | some j => complete ee f j s
    | none => s

/-- a completion that is being delivered right now is reported again -/
def eeAgain (ee : EE) : Nat → Nat → NS → NS
  | 0, _, s => s.outOfFuel
  | f+1, k, s =>
    match (s.inProg.filter (· != k)).head? with
    | some j => if k % 2 == 0 then complete ee f j s else s
    | none => s

/-- the service-finished listeners -/
def listenSF (ee : EE) : Nat → Nat → List Nat → NS → NS
  | 0, _, _, s => s.outOfFuel
  | _+1, _, [], s => s
  | f+1, i, fn :: fns, s =>
    if s.exc.isSome then s else
    let n := s.noteS .sf i
    let s := s.emit (.inv fn n)
    let s := if fn == eeFn then eeFinished ee f s else s
    listenSF ee f i fns s

/-- the execution engine's service-finished listener -/
def eeFinished (ee : EE) : Nat → NS → NS
  | 0, s => s.outOfFuel
  | f+1, s =>
    let k := s.nSf
    let s := { s with nSf := k + 1 }
    if ee.immSf k then
      match (s.pending.filter (fun j => !s.inProg.contains j)).head? with
      | some j => complete ee f j s
      | none => s
    else s

/-- the execution engine reports the k-th announced service from inside a callback -/
def complete (ee : EE) : Nat → Nat → NS → NS
  | 0, _, s => s.outOfFuel
  | f+1, k, s =>
    match s.announced[k]? with
    | none => s
    | some id =>
      let s := { s with inProg := k :: s.inProg }.emit (.fire id)
      let (r, s) := fireEv ee f (AEv.svc (.id id)) s
      if s.exc.isSome then { s with inProg := s.inProg.drop 1 } else
      let s := s.emit (.ret id r)
      let s := if r then { s with pending := s.pending.erase k } else s
      { s with inProg := s.inProg.drop 1 }

/-- `Scheduler.fire_event` + `PetriNetLogic.fire_event` -/
def fireEv (ee : EE) : Nat → AEv → NS → Bool × NS
  | 0, _, s => (false, s.outOfFuel)
  | f+1, ev, s =>
    if s.exc.isSome then (false, s) else
    match s.awaited.idxOf? ev with
    | none => (false, s)
    | some idx =>
      let s := { s with awaited := s.awaited.eraseIdx idx }
      let place : Option Nat := match ev with
        | .start => some s.startPlace
        | .setPlace p => some p
        | .svc u => dictGet s.placeDict u
      match place with
      | none => (false, s.raise "KeyError")
      | some p =>
        if s.hasPlace p then
          let s := evaluate ee f (s.addToken p)
          if s.exc.isSome then (false, s) else (true, s.netAll)
        else (false, { s with awaited := (s.awaited.take idx) ++ [ev] ++ (s.awaited.drop idx) })
end

/-! ### the public API -/

inductive Op where
  | start
  | finish (k : Nat)            -- the execution engine reports the k-th announced service
  | fire (e : AEv)              -- any other event (`none` of the awaited kinds: refused)
  | other                       -- an event of another type / with other data
  | register (k : Kind) (fn : Nat)
  | attach (o : Nat)
  | detach (o : Nat)
deriving Repr, Inhabited

structure CallResult where
  ret : Option Bool
  s : NS

/-- one external API call (the output buffer and the exception flag are per call) -/
def step (ee : EE) (fuel : Nat) (s : NS) (op : Op) : CallResult :=
  let s := { s with out := #[], exc := none }
  match op with
  | .start =>
      if s.valid then
        if s.awaited.contains .start then
          let (_, s) := fireEv ee fuel .start { s with running := true }
          { ret := some true, s }
        else { ret := some true, s }
      else { ret := some false, s }
  | .finish k =>
      match s.announced[k]? with
      | none => { ret := none, s }
      | some id =>
        let s := { s with inProg := k :: s.inProg }
        let (r, s) := if s.valid then fireEv ee fuel (AEv.svc (.id id)) s else (false, s)
        let s := if r then { s with pending := s.pending.erase k } else s
        { ret := some r, s := { s with inProg := s.inProg.drop 1 } }
  | .fire e =>
      let (r, s) := if s.valid then fireEv ee fuel e s else (false, s)
      { ret := some r, s }
  | .other => { ret := some false, s }
  | .register k fn =>
      if (s.ls.get k).contains fn then { ret := some false, s }
      else { ret := some true, s := { s with ls := s.ls.set k (s.ls.get k ++ [fn]) } }
  | .attach o => { ret := none, s := { s with observers := s.observers ++ [o] } }
  | .detach o =>
      if s.observers.contains o then { ret := none, s := { s with observers := s.observers.erase o } }
      else { ret := none, s := s.raise "ValueError" }

end Pfdl.Net

namespace Pfdl.Net

/-- state after a history of API calls -/
def runOps (ee : EE) (fuel : Nat) (s : NS) : List Op → NS
  | [] => s
  | op :: ops => runOps ee fuel (step ee fuel s op).s ops

end Pfdl.Net
