import PfdlModel.Generated
/-! Values, expressions as the visitor builds them, `execute_expression`.
    Core Lean only (no Mathlib). -/
namespace Pfdl
open Generated

/-- Values an execution engine returns / Python values inside expressions.
    Numbers are exact rationals with Python's int/float distinction as a flag. -/
inductive Val where
  | num (q : Rat) (isFloat : Bool)
  | bool (b : Bool)
  | str (s : String)
  | struct (fields : List (String × Val))
  | arr (elems : List Val)
deriving Repr, Inhabited

/-- `variable.attributes[name]`; `none` models the raised exception. -/
def Val.attr : Val → String → Option Val
  | .struct fs, a => fs.lookup a
  | _, _ => none

/-- follow an attribute path field by field -/
def Val.follow : Val → List String → Option Val
  | v, [] => some v
  | v, a :: rest => match v.attr a with
    | some w => w.follow rest
    | none => none

/-- Python `bool(v)` -/
def Val.truthy : Val → Bool
  | .num q _ => q != 0
  | .bool b => b
  | .str s => s != ""
  | .struct _ => true
  | .arr es => !es.isEmpty

/-- numeric reading of a value (Python: `bool` is a subclass of `int`) -/
def Val.toNum? : Val → Option (Rat × Bool)
  | .num q f => some (q, f)
  | .bool b => some (if b then 1 else 0, false)
  | _ => none

/-- result of `operator.<op>(a, b)`; `none` = the call raises (TypeError, ZeroDivisionError) or is
    outside the modelled fragment (bitwise `&`/`|` on integers). -/
def applyPyOp (op : PyOp) (a b : Val) : Option Val :=
  let cmp (f : Rat → Rat → Bool) (g : String → String → Bool) : Option Val :=
    match a, b with
    | .str x, .str y => some (.bool (g x y))
    | _, _ => match a.toNum?, b.toNum? with
      | some (x, _), some (y, _) => some (.bool (f x y))
      | _, _ => none
  let arith (f : Rat → Rat → Rat) : Option Val :=
    match a.toNum?, b.toNum? with
    | some (x, fx), some (y, fy) => some (.num (f x y) (fx || fy))
    | _, _ => none
  let eqv : Option Bool :=
    match a, b with
    | .str x, .str y => some (x == y)
    | .str _, _ => some false
    | _, .str _ => some false
    | _, _ => match a.toNum?, b.toNum? with
      | some (x, _), some (y, _) => some (x == y)
      | _, _ => none   -- structs/arrays: outside the modelled fragment
  match op with
  | .gt => cmp (fun x y => decide (y < x)) (fun x y => decide (y < x))
  | .ge => cmp (fun x y => decide (y ≤ x)) (fun x y => decide (y ≤ x))
  | .lt => cmp (fun x y => decide (x < y)) (fun x y => decide (x < y))
  | .le => cmp (fun x y => decide (x ≤ y)) (fun x y => decide (x ≤ y))
  | .eq => eqv.map .bool
  | .ne => eqv.map (fun r => .bool (!r))
  | .and_ => match a, b with
    | .bool x, .bool y => some (.bool (x && y))
    | _, _ => none
  | .or_ => match a, b with
    | .bool x, .bool y => some (.bool (x || y))
    | _, _ => none
  | .add => arith (· + ·)
  | .sub => arith (· - ·)
  | .mul => arith (· * ·)
  | .truediv => match a.toNum?, b.toNum? with
    | some (x, _), some (y, _) => if y == 0 then none else some (.num (x / y) true)
    | _, _ => none
  | _ => none

/-- `helpers.parse_operator(op)(a, b)`: dict look-up in the extracted table, then the call -/
def applyOp (op : String) (a b : Val) : Option Val :=
  match opTable.lookup op with
  | some f => applyPyOp f a b
  | none => none

/-- Expression trees exactly as `PFDLTreeVisitor.visitExpression` builds them. -/
inductive Expr where
  | lit (v : Val)                         -- casted number / boolean, or the raw text of a string literal
  | path (p : List String)                -- attribute access list
  | not (e : Expr)                        -- {unOp: "!", value: e}
  | paren (e : Expr)                      -- {left: "(", binOp: e, right: ")"}
  | bin (op : String) (l r : Expr)        -- {binOp: op, left: l, right: r}
  | none                                  -- the visitor returned None (string literal as whole expression)
deriving Repr, Inhabited

/-- `Scheduler.execute_expression`.  `ans k` is what the variable access function returns at its
    k-th invocation (counted over the whole run); the second component lists the root names
    queried, in order (one query per attribute path, both operands always evaluated, left first).
    `none` as value = the evaluation raises. -/
def Expr.exec (ans : Nat → Option Val) : Expr → Nat → Option Val × List String
  | .lit v, _ => (some v, [])
  | .path [], _ => (Option.none, [])
  | .path (x :: segs), k => ((ans k).bind (·.follow segs), [x])
  | .not e, k =>
      let (v, q) := e.exec ans k
      (v.map (fun w => .bool (!w.truthy)), q)
  | .paren e, k => e.exec ans k
  | .bin op l r, k =>
      let (a, q1) := l.exec ans k
      match a with
      | Option.none => (Option.none, q1)
      | some a =>
        let (b, q2) := r.exec ans (k + q1.length)
        (b.bind (applyOp op a ·), q1 ++ q2)
  | .none, _ => (Option.none, [])

/-- the root names an expression queries when nothing raises -/
def Expr.queries : Expr → List String
  | .lit _ => []
  | .path [] => []
  | .path (x :: _) => [x]
  | .not e => e.queries
  | .paren e => e.queries
  | .bin _ l r => l.queries ++ r.queries
  | .none => []

end Pfdl
