/-! Layout: the part of `PFDLLexer.g4` that decides which characters are layout (comments, blanks,
    line breaks, JSON mode) and the INDENT / DEDENT synthesis of `antlr_denter.DenterHelper`
    as `PFDLLexer.nextToken` drives it (`ignore_eof = False`).
    Core Lean only (no Mathlib). -/
namespace Pfdl.Denter

/-- raw tokens as `super().nextToken()` delivers them, reduced to what the denter looks at:
    `NL: '\r'? '\n' ' '*` with its text shape, any other token with its column. EOF is the end of the list. -/
inductive Raw where
  | nl (cr : Bool) (spaces : Nat)
  | tok (col : Nat)
deriving Repr, DecidableEq, Inhabited

inductive Out where
  | indent | dedent | nl | tok
deriving Repr, DecidableEq, Inhabited

/-- `handle_newline_token`: `indent = len(nl_text) - 1; if indent > 0 and nl_text[0] == '\r': indent -= 1` -/
def indentOf (cr : Bool) (spaces : Nat) : Nat :=
  let len := (if cr then 1 else 0) + 1 + spaces
  let indent := len - 1
  if indent > 0 && cr then indent - 1 else indent

/-- the `while True` loop of `unwind_to`: pops until the target level is found; an indentation between two
    open levels re-opens a block (INDENT); popping the empty list would raise (`none`). -/
def unwindGo (target : Nat) : List Nat → Option (List Out × List Nat)
  | [] => none
  | prev :: st =>
    if prev = target then some ([], st)
    else if prev < target then some ([.indent], prev :: st)
    else match unwindGo target st with
      | some (o, st') => some (.dedent :: o, st')
      | none => none

/-- `unwind_to(target)`: a NL, the DEDENTs, and the new stack -/
def unwind (target : Nat) (st : List Nat) : Option (List Out × List Nat) :=
  match unwindGo target st with
  | some (o, st') => some (.nl :: o, target :: st')
  | none => none

/-- the main loop after `init_if_first_run`; `pendingNl` = the last NL of the run being merged -/
def run : List Nat → Option (Bool × Nat) → List Raw → Option (List Out)
  | st, _, [] =>
    -- EOF (directly, or after a run of NLs): `apply` unwinds everything
    match unwind 0 st with
    | some (o, _) => some o
    | none => none
  | st, _, .nl cr n :: rest => run st (some (cr, n)) rest
  | st, none, .tok _ :: rest =>
    match run st none rest with
    | some o => some (.tok :: o)
    | none => none
  | st, some (cr, n), .tok _ :: rest =>
    let indent := indentOf cr n
    match st with
    | [] => none
    | prev :: _ =>
      if indent = prev then
        match run st none rest with
        | some o => some (.nl :: .tok :: o)
        | none => none
      else if prev < indent then
        match run (indent :: st) none rest with
        | some o => some (.indent :: .tok :: o)
        | none => none
      else
        match unwind indent st with
        | some (o1, st') =>
          match run st' none rest with
          | some o => some (o1 ++ .tok :: o)
          | none => none
        | none => none

/-- `init_if_first_run` followed by the main loop: leading NLs are dropped, a first token that does not
    start in column 0 opens a block -/
def denter : List Raw → Option (List Out)
  | .nl _ _ :: rest => denter rest
  | .tok col :: rest =>
    if col > 0 then
      match run [col, 0] none rest with
      | some o => some (.indent :: .tok :: o)
      | none => none
    else
      match run [0] none rest with
      | some o => some (.tok :: o)
      | none => none
  | [] =>
    -- only NLs: EOF is the first real token
    match unwind 0 [0] with
    | some (o, _) => some o
    | none => none

/-! The lexer's view of layout, character by character. -/

inductive Mode where
  | code
  | comment
  | nlrun (cr : Bool) (n : Nat)
  | sawCr
  | str (esc : Bool)
deriving Repr, DecidableEq, Inhabited

structure Lx where
  mode : Mode := .code
  json : Nat := 0          -- depth of the JSON mode stack
  col : Nat := 0
  inTok : Bool := false    -- the previous character belonged to a token (consecutive ones are merged)
  out : List Raw := []     -- reversed
deriving Repr, Inhabited

def Lx.emitTok (s : Lx) : Lx :=
  if s.inTok then s else { s with out := .tok s.col :: s.out, inTok := true }

/-- one character in `code` mode -/
def stepCode (s : Lx) (c : Char) : Lx :=
  if s.json = 0 then
    if c = '#' then { s with mode := .comment, inTok := false }
    else if c = ' ' || c = '\t' then { s with inTok := false }
    else if c = '\r' then { s with mode := .sawCr, inTok := false }
    else if c = '\n' then { s with mode := .nlrun false 0, inTok := false }
    else if c = '"' then { s.emitTok with mode := .str false }
    else if c = '{' then { s.emitTok with json := 1 }
    else s.emitTok
  else
    if c = '#' then { s with mode := .comment, inTok := false }
    else if c = ' ' || c = '\t' || c = '\n' || c = '\r' then { s with inTok := false }
    else if c = '"' then { s.emitTok with mode := .str false }
    else if c = '{' then { s.emitTok with json := s.json + 1 }
    else if c = '}' then { s.emitTok with json := s.json - 1 }
    else s.emitTok

def step (s : Lx) (c : Char) : Lx :=
  let s' : Lx :=
    match s.mode with
    | .code => stepCode s c
    | .comment => if c = '\n' then stepCode { s with mode := .code } c else s
    | .nlrun cr n =>
      if c = ' ' then { s with mode := .nlrun cr (n + 1) }
      else stepCode { s with mode := .code, out := .nl cr n :: s.out } c
    | .sawCr => if c = '\n' then { s with mode := .nlrun true 0 } else stepCode { s with mode := .code } c
    | .str esc =>
      if esc then (if c = '"' then { s with mode := .str false } else if c = '\\' then s else { s with mode := .str false })
      else if c = '\\' then { s with mode := .str true }
      else if c = '"' then { s with mode := .code }
      else s
  { s' with col := if c = '\n' then 0 else s.col + 1 }

def finish (s : Lx) : List Raw :=
  match s.mode with
  | .nlrun cr n => (Raw.nl cr n :: s.out).reverse
  | _ => s.out.reverse

def scan (text : List Char) : List Raw := finish (text.foldl step {})

def Out.char : Out → Char
  | .indent => 'I' | .dedent => 'D' | .nl => 'N' | .tok => 't'

/-- consecutive ordinary tokens merged into one -/
def collapse : List Out → List Out
  | .tok :: .tok :: rest => collapse (.tok :: rest)
  | c :: rest => c :: collapse rest
  | [] => []

/-- text to the INDENT / DEDENT / NL pattern (consecutive ordinary tokens merged into one `t`) -/
def pattern (text : String) : Option String :=
  (denter (scan text.toList)).map (fun o => String.ofList ((collapse o).map Out.char))

end Pfdl.Denter
