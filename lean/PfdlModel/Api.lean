import PfdlModel.Sched
/-! The public API of `Scheduler` on top of the structural core: `start`, `fire_event`,
    `register_callback_*`, `attach`, `detach`; fan-out of notifications to listeners and observers. -/
namespace Pfdl
open Generated

/-- events as the execution engine can build them -/
inductive Event where
  | start                       -- Event("start_production_task", {})
  | svcFinished (id : Nat)      -- Event("service_finished", {"service_uuid": id})
  | other                       -- anything else (other type, other data, unknown id format)
deriving Repr, DecidableEq, Inhabited

structure Listeners where
  ts : List Nat := []
  tf : List Nat := []
  ss : List Nat := []
  sf : List Nat := []
deriving Repr, Inhabited

def Listeners.get (l : Listeners) : Kind → List Nat
  | .ts => l.ts | .tf => l.tf | .ss => l.ss | .sf => l.sf

def Listeners.set (l : Listeners) (k : Kind) (fs : List Nat) : Listeners :=
  match k with
  | .ts => { l with ts := fs } | .tf => { l with tf := fs }
  | .ss => { l with ss := fs } | .sf => { l with sf := fs }

/-- what listeners and observers see -/
inductive Out where
  | inv (fn : Nat) (n : Note)                   -- listener `fn` of kind `n.kind` invoked with `n`
  | log (obs : Nat) (n : Note) (flag : Bool)    -- LOG_EVENT update: entry for `n`, order-finished flag
  | netUpd (obs : Nat)                          -- PETRI_NET update (scheduler id)
  | var (name : String) (ctx : Nat)
  | fire (id : Nat)
  | ret (id : Nat)
deriving Repr, Inhabited

/-- one scheduler instance -/
structure Sched where
  prog : Prog
  valid : Bool                  -- pfdl_file_valid
  started : Bool := false       -- the START event has been consumed
  running : Bool := false
  run : Run := .fin             -- run state of the production task (`fin` before start and after the end)
  rootNote : Note := default
  st : St := {}
  ls : Listeners := {}
  observers : List Nat := []
  hist : List Ev := []          -- ghost: all core events so far (read by no operation)
deriving Inhabited

/-- the function id under which the execution engine registers its service-started listener -/
def eeFn : Nat := 0

/-- log entry for the observers -/
def logOf (obs : List Nat) (n : Note) : List Out :=
  obs.map (fun o => Out.log o n (n.kind == .tf && n.name == startTaskName))

/-- fan-out of one core event -/
def expand (ls : Listeners) (obs : List Nat) : Ev → List Out
  | .ann n =>
      -- service started: log entry first, then the listeners in registration order; the EE's
      -- listener may nest a completion, the listeners after it run when that nested call has
      -- returned (`late`)
      logOf obs n ++ (ls.ss.take (ls.ss.idxOf eeFn + 1)).map (Out.inv · n)
  | .late n => (ls.ss.drop (ls.ss.idxOf eeFn + 1)).map (Out.inv · n)
  | .note n =>
      -- `on_task_finished` of the production task issues a PETRI_NET notice between listeners and log
      (ls.get n.kind).map (Out.inv · n)
        ++ (if n.kind == .tf && n.name == startTaskName then obs.map Out.netUpd else [])
        ++ logOf obs n
  | .var x c => [.var x c]
  | .fire i => [.fire i]
  | .ret i => [.ret i]

/-- result of one API call -/
structure CallResult where
  ret : Bool
  out : List Out
  sched : Sched

def Sched.finish (s : Sched) (r : Run) (st : St) : Sched × List Ev :=
  -- close the call: production task finished?  all nested calls return
  if r.isFin then
    let n := s.rootNote
    let st := st.emit (.note n)
    let st := st.flush 0
    ({ s with run := .fin, running := false, st := { st with out := [] }, hist := s.hist ++ st.out }, st.out)
  else
    let st := st.flush 0
    ({ s with run := r, st := { st with out := [] }, hist := s.hist ++ st.out }, st.out)

/-- consume the START event: the production task starts -/
def Sched.begin (s : Sched) (ee : EE) (fuel : Nat) : Sched × List Ev :=
  match s.prog.task? startTaskName with
  | none => ({ s with started := true, run := .stuck .raised, st := s.st.setStuck .raised }, [])   -- KeyError (a valid program has a production task)
  | some t =>
    let id := s.st.ctrT
    let c : CallSite := { name := t.name, ins := [], line := t.line }
    let nS := noteOf .ts c id none []
    let nF := noteOf .tf c id none []
    let st := { s.st with ctrT := id + 1, out := [] }.emit (.note nS)
    let (r, st) := enterBlk s.prog ee fuel t.body { ctx := id, inLoop := false, binds := [] } st
    { s with started := true, rootNote := nF }.finish r st

/-- `Scheduler.fire_event` -/
def Sched.fire (s : Sched) (ee : EE) (fuel : Nat) (e : Event) : CallResult :=
  match e with
  | .start =>
      -- the internal START event sits in `awaited_events` until it is consumed
      if s.valid && !s.started then
        let (s', evs) := s.begin ee fuel
        { ret := true, out := (evs.flatMap (expand s.ls s.observers)) ++ s.observers.map Out.netUpd, sched := s' }
      else { ret := false, out := [], sched := s }
  | .svcFinished i =>
      if s.valid && s.st.awaited.contains i then
        match deliver s.prog ee fuel i s.run { s.st with out := [] } with
        | some (r, st) =>
          let (s', evs) := s.finish r st
          { ret := true, out := (evs.flatMap (expand s.ls s.observers)) ++ s.observers.map Out.netUpd, sched := s' }
        | none => { ret := false, out := [], sched := s }   -- awaited but nowhere waiting: unreachable (theorem)
      else { ret := false, out := [], sched := s }
  | .other => { ret := false, out := [], sched := s }

/-- `Scheduler.start` -/
def Sched.start (s : Sched) (ee : EE) (fuel : Nat) : CallResult :=
  if s.valid then
    if !s.started then
      let r := ({ s with running := true }).fire ee fuel .start
      -- `running` is set before the evaluation, so an order that completes inside start() ends not running
      { r with ret := true }
    else { ret := true, out := [], sched := s }
  else { ret := false, out := [], sched := s }

/-- `register_callback_<kind>` -/
def Sched.register (s : Sched) (k : Kind) (fn : Nat) : CallResult :=
  if (s.ls.get k).contains fn then { ret := false, out := [], sched := s }
  else { ret := true, out := [], sched := { s with ls := s.ls.set k (s.ls.get k ++ [fn]) } }

def Sched.attach (s : Sched) (o : Nat) : Sched := { s with observers := s.observers ++ [o] }

/-- `detach`: `list.remove` – `none` if the observer is not attached (ValueError) -/
def Sched.detach (s : Sched) (o : Nat) : Option Sched :=
  if s.observers.contains o then some { s with observers := s.observers.erase o } else none

def Sched.finished (s : Sched) : Bool := s.started && s.run.isFin && s.st.stuck.isNone

end Pfdl

namespace Pfdl

/-- the calls an execution engine / application can make -/
inductive Op where
  | start
  | fire (e : Event)
  | register (k : Kind) (fn : Nat)
  | attach (o : Nat)
  | detach (o : Nat)
deriving Repr, Inhabited

/-- one API call; `ret` of attach is `true`, of a failing detach (`ValueError`) `false` -/
def Sched.step (ee : EE) (fuel : Nat) (s : Sched) : Op → CallResult
  | .start => s.start ee fuel
  | .fire e => s.fire ee fuel e
  | .register k fn => s.register k fn
  | .attach o => { ret := true, out := [], sched := s.attach o }
  | .detach o => match s.detach o with
    | some s' => { ret := true, out := [], sched := s' }
    | none => { ret := false, out := [], sched := s }

/-- state after a history of calls -/
def Sched.runOps (ee : EE) (fuel : Nat) (s : Sched) : List Op → Sched
  | [] => s
  | op :: ops => (s.step ee fuel op).sched.runOps ee fuel ops

/-- a freshly constructed scheduler -/
def Sched.init (P : Prog) (valid : Bool) : Sched :=
  { prog := P, valid := valid && (P.task? Generated.startTaskName).isSome }   -- a valid program has a production task

/-- services announced and not yet completed -/
def Sched.outstanding (s : Sched) : List Nat := s.run.waiting

end Pfdl
