import PfdlModel.Basic
/-! Model of `pfdl_tree_visitor.py` (what it reports) + `semantic_error_checker.py` + `helpers.py`:
    the static validation of a syntactically valid PFDL program.

    An error message is abstracted to its kind and to the start line of the statement / definition
    whose ANTLR context (or a sub-context of it) the code passes to `print_error` (line 1 for the
    whole-file error).  A check function returns the list of errors it prints; where the code
    branches on the boolean a check returns, the model branches on "printed nothing" (in the code
    every check returns False exactly when it or a callee printed an error).  Core Lean only. -/
namespace Pfdl.Check
open Pfdl Pfdl.Generated

/-- a declared type: a name (primitive or struct) or an array of a named element type -/
inductive Ty where
  | name (s : String)
  | arr (elem : String) (len : Int)        -- `Array.length`: -1 = not specified
deriving Repr, DecidableEq, Inhabited

/-- Python `str(type)` (types are compared through it) -/
def Ty.str : Ty → String
  | .name s => s
  | .arr e l => e ++ "[" ++ (if l == -1 then "" else toString l) ++ "]"

/-- values inside a struct literal, as `Struct.from_json` keeps them (only their shape matters) -/
inductive Lit where
  | num | bool | str
  | struct (fields : List (String × Lit))
  | arr (elems : List Lit)
deriving Repr, Inhabited

/-- a call parameter -/
inductive Arg where
  | var (x : String)
  | path (p : List String)
  | lit (struct : String) (fields : List (String × Lit))
deriving Repr, Inhabited

structure Call where
  name : String
  ins : List Arg
  outs : List (String × Ty)
  line : Nat
deriving Repr, Inhabited

inductive Stmt where
  | svc (c : Call)
  | call (c : Call)
  | par (cs : List Call) (line : Nat)
  | cond (e : Expr) (passed failed : List Stmt) (line : Nat)
  | cloop (parallel : Bool) (var : String) (lim : Option (List String)) (body : List Stmt) (line : Nat)
      -- `lim = none`: integer literal; `some p`: attribute access
  | wloop (e : Expr) (body : List Stmt) (line : Nat)
deriving Repr, Inhabited

structure Task where
  name : String
  ins : List (String × Ty)
  outs : List String
  body : List Stmt
  line : Nat
deriving Repr, Inhabited

structure Struct where
  name : String
  attrs : List (String × Ty)
  line : Nat
deriving Repr, Inhabited

/-- a syntactically valid program: definitions in source order, duplicates possible -/
structure Prog where
  structs : List Struct
  tasks : List Task
deriving Repr, Inhabited

structure Err where
  kind : String
  line : Nat
deriving Repr, DecidableEq, Inhabited

/-! ### the visitor's dictionaries (first definition of a name wins) -/

def dedupBy {α : Type} (key : α → String) : List α → List String → List α
  | [], _ => []
  | x :: xs, seen => if seen.contains (key x) then dedupBy key xs seen else x :: dedupBy key xs (key x :: seen)

/-- errors the visitor prints for the later definitions of a name -/
def dupErrs {α : Type} (key : α → String) (kind : String) (line : α → Nat) : List α → List String → List Err
  | [], _ => []
  | x :: xs, seen =>
    if seen.contains (key x) then ⟨kind, line x⟩ :: dupErrs key kind line xs seen
    else dupErrs key kind line xs (key x :: seen)

mutual
/-- Out definitions of every call anywhere in a statement (`task.variables` is flow-insensitive) -/
def Stmt.outDefs : Stmt → List (String × Ty)
  | .svc c => c.outs
  | .call c => c.outs
  | .par cs _ => cs.flatMap (·.outs)
  | .cond _ p f _ => outDefsL p ++ outDefsL f
  | .cloop _ _ _ b _ => outDefsL b
  | .wloop _ b _ => outDefsL b
def outDefsL : List Stmt → List (String × Ty)
  | [] => []
  | s :: ss => s.outDefs ++ outDefsL ss
end

/-- `task.variables`: In parameters, then Out definitions in visiting order; a later definition of a
    name overwrites the type (dict assignment) – except inside one Out block, where the first wins -/
def Task.variables (t : Task) : List (String × Ty) := t.ins ++ outDefsL t.body

/-- dict look-up with "last assignment wins" -/
def lookupLast (vars : List (String × Ty)) (x : String) : Option Ty := vars.reverse.lookup x

structure Env where
  structs : List Struct      -- de-duplicated: the `process.structs` dict
  tasks : List Task          -- de-duplicated: the `process.tasks` dict

def Env.struct? (env : Env) (n : String) : Option Struct := env.structs.find? (·.name == n)
def Env.task? (env : Env) (n : String) : Option Task := env.tasks.find? (·.name == n)

/-- `struct.attributes[a]` on the de-duplicated attribute dict (first definition wins) -/
def Struct.attr? (s : Struct) (a : String) : Option Ty := s.attrs.lookup a

def isIndex (seg : String) : Bool := seg.startsWith "[" && seg.endsWith "]"

/-! ### helper checks

Below the level of statements every message is located at the statement / definition being checked,
so these functions return message *kinds*; `checkStmt` / `checkTask` / `validate` attach the line. -/

abbrev Kinds := List String

/-- `variable_type_exists` -/
def typeExists (env : Env) (n : String) : Bool :=
  match n.toList.head? with
  | some ch => if ch.isUpper then (env.struct? n).isSome else primitives.contains n
  | none => false      -- (`variable_type[0]` on an empty name cannot occur: names come from the lexer)

/-- `check_if_variable_definition_is_valid` -/
def checkVarDef (env : Env) (ty : Ty) : Kinds :=
  let ok := match ty with
    | .name n => typeExists env n
    | .arr e _ => typeExists env e
  if ok then [] else ["unknown_datatype"]

/-- `check_attribute_access`: the variable is declared with a struct type and every attribute exists;
    an attribute followed by an index must be an array (whose elements are structs if the access
    continues), one followed by a further attribute must be a struct -/
def checkAccessFrom (env : Env) : Struct → List String → Kinds
  | _, [] => []
  | pred, a :: rest =>
    if isIndex a then checkAccessFrom env pred rest
    else
      match pred.attr? a with
      | none => ["no_attribute"]
      | some ty =>
        match rest with
        | [] => []
        | nxt :: after =>
          if isIndex nxt then
            match ty with
            | .arr e _ =>
              match after with
              | [] => []
              | _ :: _ => match env.struct? e with
                | some s => checkAccessFrom env s rest
                | none => ["elements_no_structs"]
            | .name _ => ["not_an_array"]
          else
            match ty with
            | .name n => match env.struct? n with
              | some s => checkAccessFrom env s rest
              | none => ["not_a_struct"]
            | .arr _ _ => ["not_a_struct"]

def checkAccess (env : Env) (vars : List (String × Ty)) (p : List String) : Kinds :=
  match p with
  | [] => []
  | x :: rest =>
    match lookupLast vars x with
    | some (.name n) => match env.struct? n with
      | some s => checkAccessFrom env s rest
      | none => ["unknown_variable"]
    | _ => ["unknown_variable"]

/-- `check_attribute_access_in_expression`: additionally no array index -/
def checkAccessExpr (env : Env) (vars : List (String × Ty)) (p : List String) : Kinds :=
  match checkAccess env vars p with
  | e :: es => e :: es
  | [] => if p.any isIndex then ["array_in_expression"] else []

/-- `helpers.get_type_of_variable_list`: follows attributes and array indexes; `none` = raises
    (undeclared variable, unknown attribute, attribute of a non-struct, index on a non-array) -/
def typeOfPathFrom (env : Env) : Ty → List String → Option Ty
  | ty, [] => some ty
  | ty, a :: rest =>
    if isIndex a then
      match ty with
      | .arr e _ => typeOfPathFrom env (.name e) rest
      | .name _ => none
    else
      match ty with
      | .name n => match env.struct? n with
        | some s => match s.attr? a with
          | some ty' => typeOfPathFrom env ty' rest
          | none => none
        | none => none
      | .arr _ _ => none

def typeOfPath (env : Env) (vars : List (String × Ty)) (p : List String) : Option Ty :=
  match p with
  | [] => none
  | x :: rest => match lookupLast vars x with
    | some ty => typeOfPathFrom env ty rest
    | none => none

/-! ### struct literals -/

/-- `check_type_of_value` for a value of primitive expected type / struct name -/
def litHasType (v : Lit) (ty : String) : Bool :=
  if ty == "number" then (match v with | .num => true | _ => false)
  else if ty == "boolean" then (match v with | .bool => true | _ => false)
  else if ty == "string" then (match v with | .str => true | _ => false)
  else true     -- a struct value has been given the expected name before; anything else "was a string"

mutual
/-- `check_instantiated_struct_attributes` for a literal named `name` -/
def checkLit (env : Env) : Nat → String → List (String × Lit) → Kinds
  | 0, _, _ => ["fuel"]
  | f+1, name, fields =>
    match env.struct? name with
    | none => ["unknown_struct"]
    | some sd =>
      -- missing attribute: the first one only
      let missing := match sd.attrs.find? (fun a => !(fields.map (·.1)).contains a.1) with
        | some _ => ["missing_attribute"]
        | none => []
      missing ++ checkFields env f sd fields
/-- per attribute of the literal: unknown attribute, else wrong type (short-circuit `and`) -/
def checkFields (env : Env) : Nat → Struct → List (String × Lit) → Kinds
  | 0, _, _ => ["fuel"]
  | _+1, _, [] => []
  | f+1, sd, (a, v) :: rest =>
    (match sd.attr? a with
     | none => ["unknown_attribute"]
     | some ty => checkFieldType env f ty v) ++ checkFields env f sd rest
/-- `check_for_wrong_attribute_type_in_struct` -/
def checkFieldType (env : Env) : Nat → Ty → Lit → Kinds
  | 0, _, _ => ["fuel"]
  | f+1, .name n, v =>
    if (env.struct? n).isSome then
      match v with
      | .struct fs => checkLit env f n fs
      | _ => ["wrong_attribute_type"]
    else if litHasType v n then [] else ["wrong_attribute_type"]
  | f+1, .arr e len, v =>
    match v with
    | .arr elems =>
      let inner := checkArray env f e len elems
      if inner.isEmpty then [] else inner ++ ["wrong_attribute_type"]
    | _ => ["wrong_attribute_type"]
/-- `check_array`: stops at the first bad element; then the length -/
def checkArray (env : Env) : Nat → String → Int → List Lit → Kinds
  | 0, _, _, _ => ["fuel"]
  | f+1, e, len, elems =>
    let elemErrs := checkElems env f e elems
    if !elemErrs.isEmpty then elemErrs
    else
      -- `Array.length` of an instantiated array is -1 when it has no values
      let n : Int := if elems.isEmpty then -1 else elems.length
      if len != -1 && n != len then ["array_length"] else []
def checkElems (env : Env) : Nat → String → List Lit → Kinds
  | 0, _, _ => ["fuel"]
  | _+1, _, [] => []
  | f+1, e, v :: rest =>
    let errs := match v with
      | .struct fs => checkLit env f e fs
      | .arr _ => []                      -- nested lists are dropped by `parse_json`
      | _ => if (env.struct? e).isSome then ["array_element_type"]   -- a Struct is expected
             else if litHasType v e then [] else ["array_element_type"]
    if !errs.isEmpty then errs else checkElems env f e rest
end

mutual
/-- size of a literal: enough fuel for checking it -/
def Lit.size : Lit → Nat
  | .struct fs => 1 + sizeF fs
  | .arr es => 1 + sizeL es
  | _ => 1
def sizeF : List (String × Lit) → Nat
  | [] => 0
  | (_, v) :: r => v.size + sizeF r
def sizeL : List Lit → Nat
  | [] => 0
  | v :: r => v.size + sizeL r
end

/-! ### expressions -/

/-- the operators whose operands have to be boolean -/
def boolOps : List String := ["And", "Or"]

/-- `expression_is_number`; `none` = raises (look-up of an unresolvable attribute access) -/
def exprIsNumber (env : Env) (vars : List (String × Ty)) : Expr → Option Bool
  | .lit (.num _ _) => some true
  | .lit (.bool _) => some true
  | .lit _ => some false
  | .path p => match typeOfPath env vars p with
    | some ty => some (ty == .name "number")
    | none => none
  | .paren e => exprIsNumber env vars e
  | .bin op l r =>
    if boolOps.contains op then some false   -- And / Or: a boolean, its operands are not looked at
    else match exprIsNumber env vars l with
    | some true => exprIsNumber env vars r
    | other => other
  | .not _ => some false    -- a negation is a boolean
  | .none => some false

/-- `expression_is_string` -/
def exprIsString (env : Env) (vars : List (String × Ty)) : Expr → Option Bool
  | .lit (.str _) => some true
  | .path p => match typeOfPath env vars p with
    | some ty => some (ty == .name "string")
    | none => none
  | .paren e => exprIsString env vars e      -- parentheses do not change the type
  | _ => some false

/-- `expression_is_boolean` (on an operand that has passed `check_expression`); `none` = raises -/
def exprIsBoolean (env : Env) (vars : List (String × Ty)) : Expr → Option Bool
  | .lit (.bool _) => some true
  | .lit _ => some false
  | .path p => match typeOfPath env vars p with
    | some ty => some (ty == .name "boolean")
    | none => none
  | .not _ => some true
  | .paren e => exprIsBoolean env vars e
  | .bin op _ _ => some (!arithOps.contains op)
  | .none => some false

/-- `check_attribute_accesses_in_operand`: the messages for all attribute accesses inside an operand -/
def operandAccessErrs (env : Env) (vars : List (String × Ty)) : Expr → Kinds
  | .path p => checkAccessExpr env vars p
  | .not e => operandAccessErrs env vars e
  | .paren e => operandAccessErrs env vars e
  | .bin _ l r => operandAccessErrs env vars l ++ operandAccessErrs env vars r
  | _ => []

/-- `check_expression` and the functions it dispatches to; `none` = raises -/
def checkExpr (env : Env) (vars : List (String × Ty)) : Expr → Option Kinds
  | .lit _ => some []
  | .none => some []
  | .path p =>
    match checkAccessExpr env vars p with
    | e :: es => some (e :: es)
    | [] =>
      match typeOfPath env vars p with
      | none => none
      | some ty => if ty == .name "number" || ty == .name "boolean" then some [] else some ["not_boolean"]
  | .not e =>
    match checkExpr env vars e with
    | none => none
    | some (x :: xs) => some (x :: xs)
    | some [] => match exprIsString env vars e with
      | none => none
      | some true => some ["string_negated"]
      | some false => some []
  | .paren e => checkExpr env vars e
  | .bin op l r =>
    -- every attribute access inside the operands must be resolvable before a type is looked up
    match operandAccessErrs env vars l with
    | e :: es => some (e :: es)
    | [] =>
      match operandAccessErrs env vars r with
      | e :: es => some (e :: es)
      | [] =>
        if ordOps.contains op then
          match exprIsNumber env vars l with
          | none => none
          | some ln =>
            match (if ln then exprIsNumber env vars r else some false) with
            | none => none
            | some true => some []
            | some false =>
              match exprIsString env vars l with
              | none => none
              | some ls =>
                match (if ls then exprIsString env vars r else some false) with
                | none => none
                | some true => some []
                | some false => some ["comparison_types"]
        else if arithOps.contains op then
          match exprIsNumber env vars l with
          | none => none
          | some ln =>
            match (if ln then exprIsNumber env vars r else some false) with
            | none => none
            | some true => some []
            | some false => some ["arithmetic_types"]
        else
          match checkExpr env vars l with
          | none => none
          | some (e :: es) => some (e :: es)
          | some [] =>
            match checkExpr env vars r with
            | none => none
            | some (e :: es) => some (e :: es)
            | some [] =>
              if boolOps.contains op then
                match exprIsBoolean env vars l with
                | none => none
                | some bl =>
                  match (if bl then exprIsBoolean env vars r else some false) with
                  | none => none
                  | some true => some []
                  | some false => some ["and_or_types"]
              else some []

/-- the whole expression of a Condition / While Loop: not a string literal, then `check_expression` -/
def checkTopExpr (env : Env) (vars : List (String × Ty)) (e : Expr) : Option Kinds :=
  match e with
  | .lit (.str _) => some ["string_condition"]
  | _ => checkExpr env vars e

/-! ### calls -/

/-- one input parameter of `check_call_input_parameters` -/
def checkArg (env : Env) (vars : List (String × Ty)) : Arg → Kinds
  | .lit n fs => checkLit env (4 * (1 + sizeF fs) + 4) n fs
  | .path p => checkAccess env vars p
  | .var x => if (lookupLast vars x).isSome then [] else ["unknown_variable_input"]

/-- `check_call_input_parameters` (messages of all parameters) -/
def checkCallInputs (env : Env) (vars : List (String × Ty)) (c : Call) : Kinds :=
  c.ins.flatMap (checkArg env vars)

/-- `check_call_output_parameters` -/
def checkCallOutputs (env : Env) (c : Call) : Kinds :=
  (dedupBy (·.1) c.outs []).flatMap (fun o => checkVarDef env o.2)

/-- `check_call_parameters` -/
def checkCallParams (env : Env) (vars : List (String × Ty)) (c : Call) : Kinds :=
  checkCallInputs env vars c ++ checkCallOutputs env c

/-- the type check of one argument against the formal parameter; `none` = raises -/
def checkArgType (env : Env) (vars : List (String × Ty)) (formal : Ty) : Arg → Option Kinds
  | .var x => match lookupLast vars x with
    | some ty => if ty.str != formal.str then some ["input_type"] else some []
    | none => some ["input_type"]
  | .path p => match typeOfPath env vars p with
    | none => none
    | some ty => if ty.str != formal.str then some ["input_type"] else some []
  | .lit n _ => if Ty.name n != formal then some ["input_type"] else some []

def optKAppend (a b : Option Kinds) : Option Kinds :=
  match a, b with
  | some x, some y => some (x ++ y)
  | _, _ => none

/-- `check_if_task_call_matches_with_called_task`; `none` = raises -/
def checkCallMatches (env : Env) (vars : List (String × Ty)) (c : Call) (callee : Task) : Option Kinds :=
  let calleeIns := dedupBy (·.1) callee.ins []
  let callOuts := dedupBy (·.1) c.outs []
  if calleeIns.length != c.ins.length then some ["input_length"]
  else if callee.outs.length != callOuts.length then some ["output_length"]
  else
    let inErrs : Option Kinds := (c.ins.zip calleeIns).foldl
      (fun acc x => optKAppend acc (checkArgType env vars x.2.2 x.1)) (some [])
    let outErrs : Kinds := (callOuts.zip callee.outs).flatMap (fun (o, v) =>
      match lookupLast callee.variables v with
      | some ty => if ty.str != o.2.str then ["output_type"] else []
      | none => [])
    optKAppend inErrs (some outErrs)

/-- `check_task_call` -/
def checkTaskCall (env : Env) (vars : List (String × Ty)) (c : Call) : Option Kinds :=
  match env.task? c.name with
  | none => some ["unknown_task"]
  | some callee =>
    match checkCallParams env vars c with
    | e :: es => some (e :: es)          -- `and`: the matching is skipped
    | [] => checkCallMatches env vars c callee

/-! ### statements -/

/-- attach the line of the statement / definition being checked -/
def atLine (line : Nat) (ks : Kinds) : List Err := ks.map (fun k => ⟨k, line⟩)

def optAppend (a b : Option (List Err)) : Option (List Err) :=
  match a, b with
  | some x, some y => some (x ++ y)
  | _, _ => none

/-- the body of a well-formed parallel loop: exactly one task call -/
def singleCall? (b : List Stmt) : Option Call :=
  match b with
  | [] => none
  | s :: rest =>
    match rest with
    | [] => (match s with
      | .call c => some c
      | _ => none)
    | _ :: _ => none

/-- `check_counting_loop_limit` -/
def checkLimit (env : Env) (vars : List (String × Ty)) : Option (List String) → Option Kinds
  | none => some []
  | some p => match checkAccessExpr env vars p with
    | e :: es => some (e :: es)
    | [] => match exprIsNumber env vars (.path p) with
      | none => none
      | some true => some []
      | some false => some ["limit_not_number"]

mutual
def checkStmt (env : Env) (vars : List (String × Ty)) : Stmt → Option (List Err)
  | .svc c => some (atLine c.line (checkCallParams env vars c))
  | .call c => (checkTaskCall env vars c).map (atLine c.line)
  | .par cs _ => cs.foldl (fun acc c => optAppend acc ((checkTaskCall env vars c).map (atLine c.line))) (some [])
  | .wloop e body line => optAppend (checkStmts env vars body) ((checkTopExpr env vars e).map (atLine line))
  | .cond e p f line =>
      optAppend (optAppend (checkStmts env vars p) (checkStmts env vars f)) ((checkTopExpr env vars e).map (atLine line))
  | .cloop parallel _ lim body line =>
      match checkLimit env vars lim with
      | none => none
      | some (e :: es) => some (atLine line (e :: es))
      | some [] =>
        if parallel then
          match singleCall? body with
          | some c => (checkTaskCall env vars c).map (atLine c.line)
          | none => some [⟨"parallel_loop_body", line⟩]
        else checkStmts env vars body
def checkStmts (env : Env) (vars : List (String × Ty)) : List Stmt → Option (List Err)
  | [] => some []
  | s :: ss => optAppend (checkStmt env vars s) (checkStmts env vars ss)
end

/-! ### recursion -/

mutual
/-- the task calls inside a statement (not across calls), with their lines -/
def Stmt.calls : Stmt → List Call
  | .svc _ => []
  | .call c => [c]
  | .par cs _ => cs
  | .cond _ p f _ => callsL p ++ callsL f
  | .cloop _ _ _ b _ => callsL b
  | .wloop _ b _ => callsL b
def callsL : List Stmt → List Call
  | [] => []
  | s :: ss => s.calls ++ callsL ss
end

def calleesL (b : List Stmt) : List String := (callsL b).map (·.name)

/-- `reaches(name, target, visited)` of `check_for_recursive_task_calls`: depth-first search over
    the names in `work`, sharing the visited set (Python's `any` stops at the first hit) -/
def reaches (env : Env) (target : String) : Nat → List String → List String → Bool × List String
  | 0, _, visited => (false, visited)
  | _, [], visited => (false, visited)
  | f+1, name :: more, visited =>
    let here : Bool × List String :=
      if name == target then (true, visited)
      else
        match env.task? name with
        | none => (false, visited)
        | some t =>
          if visited.contains name then (false, visited)
          else reaches env target f (calleesL t.body) (name :: visited)
    if here.1 then here else reaches env target f more here.2

def reachFuel (env : Env) : Nat :=
  (env.tasks.length + 1) * (env.tasks.length + 1) + (env.tasks.flatMap (fun t => calleesL t.body)).length + 2

/-- every task call that lies on a cycle of the call graph is reported, at the call -/
def recursionErrs (env : Env) : List Err :=
  env.tasks.flatMap (fun t =>
    (callsL t.body).filterMap (fun c =>
      if (reaches env t.name (reachFuel env) [c.name] []).1 then some ⟨"recursion", c.line⟩ else none))

/-! ### the whole validation -/

/-- errors printed by the visitor: duplicate definitions -/
def visitorErrs (p : Prog) : List Err :=
  dupErrs (·.name) "duplicate_struct" (·.line) p.structs []
  ++ p.structs.flatMap (fun s => dupErrs (·.1) "duplicate_attribute" (fun _ => s.line) s.attrs [])
  ++ dupErrs (·.name) "duplicate_task" (·.line) p.tasks []
  ++ p.tasks.flatMap (fun t => dupErrs (·.1) "duplicate_in_param" (fun _ => t.line) t.ins [])

mutual
def Stmt.dupOutErrs : Stmt → List Err
  | .svc c => dupErrs (·.1) "duplicate_out_param" (fun _ => c.line) c.outs []
  | .call c => dupErrs (·.1) "duplicate_out_param" (fun _ => c.line) c.outs []
  | .par cs _ => cs.flatMap (fun c => dupErrs (·.1) "duplicate_out_param" (fun _ => c.line) c.outs [])
  | .cond _ p f _ => dupOutErrsL p ++ dupOutErrsL f
  | .cloop _ _ _ b _ => dupOutErrsL b
  | .wloop _ b _ => dupOutErrsL b
def dupOutErrsL : List Stmt → List Err
  | [] => []
  | s :: ss => s.dupOutErrs ++ dupOutErrsL ss
end

def mkEnv (p : Prog) : Env :=
  { structs := (dedupBy (·.name) p.structs []).map (fun s => { s with attrs := dedupBy (·.1) s.attrs [] }),
    tasks := dedupBy (·.name) p.tasks [] }

/-- `check_tasks` for one task -/
def checkTask (env : Env) (t : Task) : Option (List Err) :=
  let vars := t.variables
  match checkStmts env vars t.body with
  | none => none
  | some se =>
    let inErrs := atLine t.line ((dedupBy (·.1) t.ins []).flatMap (fun i => checkVarDef env i.2))
    let outErrs := t.outs.flatMap (fun o => if (lookupLast vars o).isSome then [] else [⟨"unknown_task_output", t.line⟩])
    some (se ++ inErrs ++ outErrs)

/-- visitor + `validate_process`: the errors printed, or `none` if an exception escapes -/
def validate (p : Prog) : Option (List Err) :=
  let env := mkEnv p
  let v := visitorErrs p ++ p.tasks.flatMap (fun t => dupOutErrsL t.body)
  let structErrs := env.structs.flatMap (fun s => atLine s.line (s.attrs.flatMap (fun a => checkVarDef env a.2)))
  let taskErrs : Option (List Err) := env.tasks.foldl (fun acc t => optAppend acc (checkTask env t)) (some [])
  match taskErrs with
  | none => none
  | some te =>
    let noStart := if (env.tasks.any (·.name == startTaskName)) then [] else [⟨"no_production_task", 1⟩]
    some (v ++ structErrs ++ te ++ recursionErrs env ++ noStart)

/-- the verdict of `parse_string` for a syntactically valid text -/
def accepts (p : Prog) : Bool := validate p == some []

end Pfdl.Check
