/-! The JSON sub-grammar of `PFDLParser.g4` (rules `json_object`, `pair`, `json_value`, `json_array`) over the
    tokens of the lexer's JSON mode, with the value the text denotes.  Strings and numbers keep their token text
    (decoding escapes / digits is `json.loads`' business).  Core Lean only. -/
namespace Pfdl.Json

inductive JTok where
  | str (s : String)      -- JSON_STRING (token text, quotes included)
  | num (s : String)      -- NUMBER
  | tru | fls
  | lbrace | rbrace | lbr | rbr | comma | colon
deriving Repr, DecidableEq, Inhabited

inductive JV where
  | str (s : String)
  | num (s : String)
  | bool (b : Bool)
  | obj (fields : List (String × JV))
  | arr (elems : List JV)
deriving Repr, Inhabited

mutual
/-- `json_value` -/
def pVal : Nat → List JTok → Option (JV × List JTok)
  | 0, _ => none
  | _ + 1, .str s :: r => some (.str s, r)
  | _ + 1, .num s :: r => some (.num s, r)
  | _ + 1, .tru :: r => some (.bool true, r)
  | _ + 1, .fls :: r => some (.bool false, r)
  | _ + 1, .lbrace :: .rbrace :: r => some (.obj [], r)
  | f + 1, .lbrace :: r =>
    match pPairs f r with
    | some (fs, .rbrace :: r') => some (.obj fs, r')
    | _ => none
  | _ + 1, .lbr :: .rbr :: r => some (.arr [], r)
  | f + 1, .lbr :: r =>
    match pVals f r with
    | some (xs, .rbr :: r') => some (.arr xs, r')
    | _ => none
  | _ + 1, _ => none
/-- `pair (',' pair)*` -/
def pPairs : Nat → List JTok → Option (List (String × JV) × List JTok)
  | 0, _ => none
  | f + 1, .str k :: .colon :: r =>
    match pVal f r with
    | some (v, .comma :: r') =>
      match pPairs f r' with
      | some (fs, r'') => some ((k, v) :: fs, r'')
      | none => none
    | some (v, r') => some ([(k, v)], r')
    | none => none
  | _ + 1, _ => none
/-- `json_value (',' json_value)*` -/
def pVals : Nat → List JTok → Option (List JV × List JTok)
  | 0, _ => none
  | f + 1, r =>
    match pVal f r with
    | some (v, .comma :: r') =>
      match pVals f r' with
      | some (xs, r'') => some (v :: xs, r'')
      | none => none
    | some (v, r') => some ([v], r')
    | none => none
end

/-- `json_object`, the whole token run of one struct literal -/
def parseObj (ts : List JTok) : Option (List (String × JV)) :=
  match pVal (ts.length + 1) ts with
  | some (.obj fs, []) => some fs
  | _ => none

mutual
def prVal : JV → List JTok
  | .str s => [.str s]
  | .num s => [.num s]
  | .bool true => [.tru]
  | .bool false => [.fls]
  | .obj fs => .lbrace :: prPairs fs ++ [.rbrace]
  | .arr xs => .lbr :: prVals xs ++ [.rbr]
def prPairs : List (String × JV) → List JTok
  | [] => []
  | [(k, v)] => .str k :: .colon :: prVal v
  | (k, v) :: kv :: rest => .str k :: .colon :: prVal v ++ .comma :: prPairs (kv :: rest)
def prVals : List JV → List JTok
  | [] => []
  | [v] => prVal v
  | v :: w :: rest => prVal v ++ .comma :: prVals (w :: rest)
end

end Pfdl.Json
