import Lean.Data.Json
import PfdlModel.Api
import PfdlModel.Check
import PfdlModel.ExprParse
import PfdlModel.Surface
import PfdlModel.Denter
import PfdlModel.Syntax
import PfdlModel.Front
import PfdlModel.Net
import PfdlModel.NetCert
/-! Line protocol driver: one JSON case per input line, one JSON result per output line. -/
open Lean Pfdl

def jerr {α} (msg : String) : Except String α := .error msg

def getArr (j : Json) : Except String (Array Json) :=
  match j with | .arr a => pure a | _ => jerr s!"array expected: {j.compress}"

def getStr (j : Json) : Except String String :=
  match j with | .str s => pure s | _ => jerr s!"string expected: {j.compress}"

def getNat (j : Json) : Except String Nat :=
  match j.getNat? with | .ok n => pure n | .error _ => jerr s!"nat expected: {j.compress}"

def getInt (j : Json) : Except String Int :=
  match j.getInt? with | .ok n => pure n | .error _ => jerr s!"int expected: {j.compress}"

def field (j : Json) (k : String) : Except String Json :=
  match j.getObjVal? k with | .ok v => pure v | .error _ => jerr s!"missing field {k} in {j.compress.take 80}"

def fieldOpt (j : Json) (k : String) : Option Json :=
  match j.getObjVal? k with | .ok .null => none | .ok v => some v | .error _ => none

def ratOf (n : Int) (d : Nat) : Rat := (n : Rat) / (d : Rat)

/-- value JSON: {"q":[num,den,(isFloat)]} | bool | string | object | array -/
partial def valOf (j : Json) : Except String Val :=
  match j with
  | .bool b => pure (.bool b)
  | .str s => pure (.str s)
  | .arr a => do pure (.arr (← a.toList.mapM valOf))
  | .obj _ =>
    match fieldOpt j "q" with
    | some q => do
      let a ← getArr q
      let n ← getInt a[0]!
      let d ← getNat a[1]!
      let isF := match (a[2]? : Option Json) with | some (Json.bool b) => b | _ => d != 1
      pure (.num (ratOf n d) isF)
    | none => do
      let kvs := match j with | .obj m => m.toList | _ => []
      let fs ← kvs.mapM (fun (k, v) => do pure (k, ← valOf v))
      pure (.struct fs)
  | .num n =>
    -- plain JSON number (literals inside programs): exact decimal
    let m := n.mantissa
    let e := n.exponent
    pure (.num (ratOf m (10 ^ e)) (e != 0))
  | .null => jerr "null value"

def litNum (j : Json) : Option Val :=
  match j with
  | .num n => some (.num (ratOf n.mantissa (10 ^ n.exponent)) (n.exponent != 0))
  | _ => none

partial def exprOf (j : Json) : Except String Expr :=
  match j with
  | .null => pure .none
  | .bool b => pure (.lit (.bool b))
  | .num _ => match litNum j with | some v => pure (.lit v) | none => jerr "num"
  | .str s => pure (.lit (.str s))
  | .arr a => do pure (.path (← a.toList.mapM getStr))
  | .obj _ =>
    match fieldOpt j "unOp" with
    | some _ => do pure (.not (← exprOf (← field j "value")))
    | none => do
      let l ← field j "left"
      let r ← field j "right"
      let b ← field j "binOp"
      match l, r with
      | .str "(", .str ")" => do pure (.paren (← exprOf b))
      | _, _ => do pure (.bin (← getStr b) (← exprOf l) (← exprOf r))

def segOf (s : String) : Seg :=
  if s.startsWith "[" && s.endsWith "]" then .idx (String.ofList ((s.toList.drop 1).dropLast)) else .name s

def segStr : Seg → String
  | .name a => a
  | .idx v => "[" ++ v ++ "]"
  | .idxNum k => "[" ++ toString k ++ "]"

def paramOf (j : Json) : Except String Param :=
  match j with
  | .str s => pure (.var s)
  | .arr a => do pure (.path ((← a.toList.mapM getStr).map segOf))
  | .obj _ => do pure (.lit (← getStr (← field j "lit")) (← valOf (← field j "json")))
  | _ => jerr "param"

def limitOf (j : Json) : Except String Limit :=
  match j with
  | .arr a => do pure (.path (← a.toList.mapM getStr))
  | _ => do pure (.lit (← getInt j))

def callOf (j : Json) : Except String CallSite := do
  let ins ← match fieldOpt j "ins" with
    | some a => (← getArr a).toList.mapM paramOf
    | none => pure []
  pure { name := ← getStr (← field j "name"), ins := ins, line := ← getNat (← field j "line") }

partial def stmtOf (j : Json) : Except String Stmt := do
  let k ← getStr (← field j "k")
  let line ← getNat (← field j "line")
  let blockOf (key : String) : Except String (List Stmt) :=
    match fieldOpt j key with
    | some a => do (← getArr a).toList.mapM stmtOf
    | none => pure []
  match k with
  | "svc" => pure (.svc (← callOf j))
  | "call" => pure (.call (← callOf j))
  | "par" => do pure (.par (← (← getArr (← field j "calls")).toList.mapM callOf) line)
  | "cond" => do pure (.cond (← exprOf (← field j "e")) (← blockOf "passed") (← blockOf "failed") line)
  | "cloop" => do pure (.cloop (← getStr (← field j "var")) (← limitOf (← field j "limit")) (← blockOf "body") line)
  | "wloop" => do pure (.wloop (← exprOf (← field j "e")) (← blockOf "body") line)
  | "ploop" => do pure (.ploop (← getStr (← field j "var")) (← limitOf (← field j "limit")) (← callOf (← field j "call")) line)
  | _ => jerr s!"stmt kind {k}"

def progOf (j : Json) : Except String Prog := do
  let ts ← (← getArr (← field j "tasks")).toList.mapM (fun t => do
    let body ← (← getArr (← field t "body")).toList.mapM stmtOf
    pure ({ name := ← getStr (← field t "name"), body := body, line := ← getNat (← field t "line") } : Task))
  pure { tasks := ts }

/-! output -/

def ratJson (q : Rat) : Json := Json.mkObj [("q", Json.arr #[Json.num (JsonNumber.fromInt q.num), Json.num (JsonNumber.fromNat q.den)])]

partial def valJson : Val → Json
  | .num q _ => ratJson q
  | .bool b => .bool b
  | .str s => .str s
  | .struct fs => Json.mkObj (fs.map (fun (k, v) => (k, valJson v)))
  | .arr es => Json.arr (es.map valJson).toArray

def paramJson : Param → Json
  | .var x => Json.arr #[.str "v", .str x]
  | .path p => Json.arr #[.str "p", Json.arr (p.map (fun g => Json.str (segStr g))).toArray]
  | .lit s v => Json.arr #[.str "s", .str s, valJson v]

def kindStr : Kind → String
  | .ts => "ts" | .tf => "tf" | .ss => "ss" | .sf => "sf"

def idJson (i : Nat) : Json := .str (toString i)
def ctxJson : Option Nat → Json
  | some c => idJson c
  | none => .null

def outJson : Out → Json
  | .inv fn n => Json.arr #[.str "INV", .str (kindStr n.kind), Json.num (JsonNumber.fromNat fn), .str n.name,
      Json.num (JsonNumber.fromNat n.line), idJson n.id, ctxJson n.ctx, Json.arr (n.params.map paramJson).toArray]
  | .log o n flag => Json.arr #[.str "LOG", Json.num (JsonNumber.fromNat o),
      .str (match n.kind with | .ts | .tf => "Task" | _ => "Service"), .str n.name, idJson n.id,
      .str (match n.kind with | .ts | .ss => "started" | _ => "finished"), .bool flag]
  | .netUpd o => Json.arr #[.str "NET", Json.num (JsonNumber.fromNat o)]
  | .var x c => Json.arr #[.str "VAR", .str x, idJson c]
  | .fire i => Json.arr #[.str "FIRE", idJson i]
  | .ret i => Json.arr #[.str "RET", idJson i]

def kindOf (s : String) : Except String Kind :=
  match s with
  | "ts" => pure .ts | "tf" => pure .tf | "ss" => pure .ss | "sf" => pure .sf
  | _ => jerr s!"kind {s}"

structure DrvState where
  s : Sched
  announced : Array Nat := #[]     -- service ids in announcement order (seen by the EE's listener)
  calls : Array Json := #[]

def recordCall (d : DrvState) (op : Json) (ret : Json) (out : List Out) (s : Sched) (exc : Option String := none) : DrvState :=
  -- announcements: invocations of the EE's service-started listener
  let ann := out.foldl (fun acc o => match o with
    | .inv fn n => if fn == eeFn && n.kind == .ss then acc.push n.id else acc
    | _ => acc) d.announced
  let stuck := match s.st.stuck with
    | some .raised => Json.str "raised"
    | some .outOfFuel => Json.str "outOfFuel"
    | none => Json.null
  let rec_ := Json.mkObj [("op", op), ("ret", ret), ("out", Json.arr (out.map outJson).toArray),
    ("running", .bool s.running), ("awaited", Json.arr (s.st.awaited.map idJson).toArray),
    ("start_awaited", .bool (s.valid && !s.started)),
    ("finished", .bool s.finished), ("stuck", stuck),
    ("exc", match exc with | some e => .str e | none => .null)]
  { s := s, announced := ann, calls := d.calls.push rec_ }

def stepOp (ee : EE) (fuel : Nat) (d : DrvState) (op : Json) : Except String DrvState := do
  let name ← getStr (← field op "op")
  let fromResult (r : CallResult) : DrvState := recordCall d op (.bool r.ret) r.out r.sched
  match name with
  | "start" => pure (fromResult (d.s.start ee fuel))
  | "finish" => do
      let n ← getNat (← field op "n")
      match d.announced[n]? with
      | some i => pure (fromResult (d.s.fire ee fuel (.svcFinished i)))
      | none => jerr s!"finish {n}: not announced"
  | "junk" => do
      let j ← getStr (← field op "junk")
      let ev ← match j with
        | "dup" | "fromjson" => do
            let n ← getNat (← field op "n")
            match d.announced[n]? with
            | some i => pure (Event.svcFinished i)
            | none => jerr s!"dup {n}: not announced"
        | "start_event" => pure Event.start
        | _ => pure Event.other
      pure (fromResult (d.s.fire ee fuel ev))
  | "reg" => do
      let k ← kindOf (← getStr (← field op "kind"))
      let fn ← getNat (← field op "fn")
      pure (fromResult (d.s.register k fn))
  | "attach" => do
      let o ← getNat (← field op "o")
      pure (recordCall d op .null [] (d.s.attach o))
  | "detach" => do
      let o ← getNat (← field op "o")
      match d.s.detach o with
      | some s' => pure (recordCall d op .null [] s')
      | none => pure (recordCall d op .null [] d.s (some "ValueError"))
  -- actions on ANOTHER scheduler of the same process: no effect on this one
  | "wstart" | "wfinish" | "revar" => pure (recordCall d op .null [] d.s)
  | _ => jerr s!"op {name}"

def runSched (j : Json) : Except String Json := do
  let prog ← progOf (← field j "prog")
  let answers ← (← getArr (← field j "answers")).toList.mapM (fun a => match a with
    | .null => pure none
    | a => do pure (some (← valOf a)))
  let answersA := answers.toArray
  let term : Option Val ← match fieldOpt j "terminator" with
    | some t => do pure (some (← valOf t))
    | none => pure none
  let immBits ← (← getArr (← field j "imm")).toList.mapM (fun b => match b with
    | .bool b => pure b | _ => jerr "imm bit")
  let immA := immBits.toArray
  let ee : EE := {
    ans := fun k => match answersA[k]? with | some v => v | none => term
    imm := fun k => if immA.size == 0 then false else immA[k % immA.size]! }
  let fuel := match fieldOpt j "fuel" with | some (.num n) => n.mantissa.toNat | _ => 100000
  let valid := match fieldOpt j "valid" with | some (.bool b) => b | _ => true
  let ops ← getArr (← field j "ops")
  let d0 : DrvState := { s := Sched.init prog valid }
  let d ← ops.foldlM (stepOp ee fuel) d0
  pure (Json.mkObj [("calls", Json.arr d.calls)])

/-! the net layer -/

def noutJson : Net.NOut → Json
  | .inv fn n => outJson (.inv fn n)
  | .log o n flag => outJson (.log o n flag)
  | .netUpd o => outJson (.netUpd o)
  | .var x c => outJson (.var x c)
  | .fire i => outJson (.fire i)
  | .ret i ok => Json.arr #[.str (if ok then "RET" else "RETFALSE"), idJson i]

def cbJson : Net.Cb → Json
  | .taskStarted t => Json.arr #[.str "task_started", natJ t]
  | .taskFinished t => Json.arr #[.str "task_finished", natJ t]
  | .svcStarted i => Json.arr #[.str "service_started", natJ i]
  | .svcFinished i => Json.arr #[.str "service_finished", natJ i]
  | .cond _ a b c => Json.arr #[.str "condition_started", natJ a, natJ b, natJ c]
  | .wloop _ a b c => Json.arr #[.str "while_loop_started", natJ a, natJ b, natJ c]
  | .cloop l _ _ a b c => Json.arr #[.str "counting_loop_started", natJ l, natJ a, natJ b, natJ c]
  | .ploop _ _ _ p t1 t2 c => Json.arr #[.str "parallel_loop_started", natJ p, natJ t1, natJ t2, natJ c]
where natJ (n : Nat) : Json := Json.num (JsonNumber.fromNat n)

/-- the net as a structure: places (alive, tokens), transitions in scan order with their arcs and callbacks -/
def netJson (s : Net.NS) : Json :=
  let natJ (n : Nat) : Json := Json.num (JsonNumber.fromNat n)
  Json.mkObj [
    ("places", Json.arr (s.places.map (fun p => Json.arr #[.bool p.alive, natJ p.tokens]))),
    ("trans", Json.arr (s.trans.mapIdx (fun i t => Json.mkObj [
        ("ins", Json.arr (t.ins.map natJ).toArray), ("outs", Json.arr (t.outs.map natJ).toArray),
        ("cbs", Json.arr ((s.cbs[i]?.getD []).map (fun c => cbJson c.2)).toArray)]))),
    ("start", natJ s.startPlace), ("final", natJ s.finalPlace),
    ("tasks", Json.arr (s.tasks.map (fun a => Json.arr #[.str a.name, match a.parent with | some p => natJ p | none => .null, .bool a.inLoop]))),
    ("svcs", Json.arr (s.svcs.map (fun a => Json.arr #[.str a.c.name, natJ a.ctx, .bool a.inLoop])))]

def netRecord (op : Json) (r : Net.CallResult) : Json :=
  let s := r.s
  let natJ (n : Nat) : Json := Json.num (JsonNumber.fromNat n)
  Json.mkObj [("op", op), ("ret", match r.ret with | some b => .bool b | none => .null),
    ("out", Json.arr (s.out.map noutJson)),
    ("running", .bool s.running),
    ("awaited", Json.arr (s.awaited.filterMap (fun e => match e with | .svc u => some (idJson u.toNat) | _ => none)).toArray),
    ("start_awaited", .bool (s.awaited.contains .start)),
    ("other_awaited", natJ (s.awaited.filter (fun e => match e with | .setPlace _ => true | _ => false)).length),
    ("marked", natJ s.marked), ("final_marking", .bool s.finalMarking),
    ("marking", Json.arr ((s.places.mapIdx (fun i p => (i, p.tokens))).filter (fun e => e.2 != 0) |>.map (fun e => Json.arr #[natJ e.1, natJ e.2]))),
    ("stuck", if s.oof then .str "outOfFuel" else match s.exc with | some _ => .str "raised" | none => .null),
    ("exc", match s.exc with | some e => .str e | none => .null)]

def netStepOp (ee : Net.EE) (fuel : Nat) (acc : Net.NS × Array Json) (op : Json) : Except String (Net.NS × Array Json) := do
  let (s, calls) := acc
  let name ← getStr (← field op "op")
  let run (o : Net.Op) : Except String (Net.NS × Array Json) :=
    let r := Net.step ee fuel s o
    pure (r.s, calls.push (netRecord op r))
  let noop : Except String (Net.NS × Array Json) :=
    let s' := { s with out := #[], exc := none }
    pure (s', calls.push (netRecord op { ret := none, s := s' }))
  match name with
  | "start" => run .start
  | "finish" => do
      let n ← getNat (← field op "n")
      if n < s.announced.size then run (.finish n) else jerr s!"finish {n}: not announced"
  | "junk" => do
      let j ← getStr (← field op "junk")
      match j with
      | "dup" | "fromjson" => do
          let n ← getNat (← field op "n")
          match s.announced[n]? with
          | some i => run (.fire (.svc (.id i)))
          | none => jerr s!"dup {n}: not announced"
      | "start_event" => run (.fire .start)
      | _ => run .other
  | "reg" => do
      let k ← kindOf (← getStr (← field op "kind"))
      let fn ← getNat (← field op "fn")
      run (.register k fn)
  | "attach" => do run (.attach (← getNat (← field op "o")))
  | "detach" => do run (.detach (← getNat (← field op "o")))
  | "wstart" | "wfinish" | "revar" => noop
  | _ => jerr s!"op {name}"

def bitsOf (j : Json) (k : String) : Except String (Array Bool) :=
  match fieldOpt j k with
  | some (.arr a) => a.mapM (fun b => match b with | .bool b => pure b | _ => jerr "bit")
  | _ => pure #[]

def runNet (j : Json) : Except String Json := do
  let prog ← progOf (← field j "prog")
  let answers ← (← getArr (← field j "answers")).toList.mapM (fun a => match a with
    | .null => pure none
    | a => do pure (some (← valOf a)))
  let answersA := answers.toArray
  let term : Option Val ← match fieldOpt j "terminator" with
    | some t => do pure (some (← valOf t))
    | none => pure none
  let immA ← bitsOf j "imm"
  let immO ← bitsOf j "imm_other"
  let immS ← bitsOf j "imm_sf"
  let bit (a : Array Bool) (k : Nat) : Bool := if a.size == 0 then false else a[k % a.size]!
  let ee : Net.EE := {
    ans := fun k => match answersA[k]? with | some v => v | none => term
    imm := bit immA, immOther := bit immO, immSf := bit immS }
  let fuel := match fieldOpt j "fuel" with | some (.num n) => n.mantissa.toNat | _ => 1000000
  let valid := match fieldOpt j "valid" with | some (.bool b) => b | _ => true
  let ops ← getArr (← field j "ops")
  let s0 := Net.generate prog valid fuel
  let (s, calls) ← ops.foldlM (netStepOp ee fuel) (s0, #[])
  -- certificate of the place invariant for the net as generated (nets with a parallel loop are rebuilt at run time:
  -- no certificate)
  let cert : Json := if Net.hasPloop s0 || !s0.valid then .null else .bool (Net.certCheck (Net.inferWeights s0) s0)
  pure (Json.mkObj [("calls", Json.arr calls), ("net0", netJson s0), ("net1", netJson s), ("cert0", cert),
    ("gen_exc", match s0.exc with | some e => .str e | none => .null)])

/-! validation requests -/

def tyOf (s : String) : Check.Ty :=
  match s.splitOn "[" with
  | [e, rest] =>
    let n := (rest.splitOn "]").head!
    if n == "" then .arr e (-1) else match n.toInt? with
      | some k => .arr e k
      | none => .arr e (-1)
  | _ => .name s

partial def litOf (j : Json) : Check.Lit :=
  match j with
  | .num _ => .num
  | .bool _ => .bool
  | .str _ => .str
  | .arr a => .arr (a.toList.map litOf)
  | .obj m => .struct (m.toList.map (fun (k, v) => (k, litOf v)))
  | .null => .str

def litFields (j : Json) : List (String × Check.Lit) :=
  match j with
  | .obj m => m.toList.map (fun (k, v) => (k, litOf v))
  | _ => []

def cArgOf (j : Json) : Except String Check.Arg :=
  match j with
  | .str s => pure (.var s)
  | .arr a => do pure (.path (← a.toList.mapM getStr))
  | .obj _ => do pure (.lit (← getStr (← field j "lit")) (litFields (← field j "json")))
  | _ => jerr "arg"

def typedList (j : Option Json) : Except String (List (String × Check.Ty)) :=
  match j with
  | some a => do (← getArr a).toList.mapM (fun p => do
      let q ← getArr p
      pure (← getStr q[0]!, tyOf (← getStr q[1]!)))
  | none => pure []

def cCallOf (j : Json) : Except String Check.Call := do
  let ins ← match fieldOpt j "ins" with
    | some a => (← getArr a).toList.mapM cArgOf
    | none => pure []
  pure { name := ← getStr (← field j "name"), ins := ins, outs := ← typedList (fieldOpt j "outs"),
         line := ← getNat (← field j "line") }

partial def cStmtOf (j : Json) : Except String Check.Stmt := do
  let k ← getStr (← field j "k")
  let line ← getNat (← field j "line")
  let blockOf (key : String) : Except String (List Check.Stmt) :=
    match fieldOpt j key with
    | some a => do (← getArr a).toList.mapM cStmtOf
    | none => pure []
  let limOf : Except String (Option (List String)) :=
    match fieldOpt j "limit" with
    | some (.arr a) => do pure (some (← a.toList.mapM getStr))
    | _ => pure none
  match k with
  | "svc" => pure (.svc (← cCallOf j))
  | "call" => pure (.call (← cCallOf j))
  | "par" => do pure (.par (← (← getArr (← field j "calls")).toList.mapM cCallOf) line)
  | "cond" => do pure (.cond (← exprOf (← field j "e")) (← blockOf "passed") (← blockOf "failed") line)
  | "cloop" => do pure (.cloop false (← getStr (← field j "var")) (← limOf) (← blockOf "body") line)
  | "wloop" => do pure (.wloop (← exprOf (← field j "e")) (← blockOf "body") line)
  | "ploop" => do
      let body ← match fieldOpt j "body" with
        | some _ => blockOf "body"
        | none => do pure [.call (← cCallOf (← field j "call"))]
      pure (.cloop true (← getStr (← field j "var")) (← limOf) body line)
  | _ => jerr s!"stmt kind {k}"

def cProgOf (j : Json) : Except String Check.Prog := do
  let structs ← (← getArr (← field j "structs")).toList.mapM (fun s => do
    pure ({ name := ← getStr (← field s "name"), attrs := ← typedList (fieldOpt s "attrs"),
            line := ← getNat (← field s "line") } : Check.Struct))
  let tasks ← (← getArr (← field j "tasks")).toList.mapM (fun t => do
    let outs ← match fieldOpt t "outs" with
      | some a => (← getArr a).toList.mapM getStr
      | none => pure []
    pure ({ name := ← getStr (← field t "name"), ins := ← typedList (fieldOpt t "ins"), outs := outs,
            body := ← (← getArr (← field t "body")).toList.mapM cStmtOf, line := ← getNat (← field t "line") } : Check.Task))
  pure { structs := structs, tasks := tasks }

def runCheck (j : Json) : Except String Json := do
  let p ← cProgOf (← field j "prog")
  match Check.validate p with
  | none => pure (Json.mkObj [("raised", .bool true), ("errors", Json.arr #[])])
  | some errs => pure (Json.mkObj [("raised", .bool false),
      ("errors", Json.arr (errs.map (fun e => Json.arr #[.str e.kind, Json.num (JsonNumber.fromNat e.line)])).toArray)])

/-! text family: expression evaluation / expression parser / layout -/

partial def exprJson : Expr → Json
  | .lit v => valJson v
  | .path p => Json.arr (p.map Json.str).toArray
  | .not e => Json.mkObj [("unOp", .str "!"), ("value", exprJson e)]
  | .paren e => Json.mkObj [("left", .str "("), ("binOp", exprJson e), ("right", .str ")")]
  | .bin o l r => Json.mkObj [("binOp", .str o), ("left", exprJson l), ("right", exprJson r)]
  | .none => .null

def tokOf (j : Json) : Except String ExprParse.Tok :=
  match j with
  | .str "(" => pure .lpar
  | .str ")" => pure .rpar
  | .str "!" => pure .bang
  | .obj _ =>
    match fieldOpt j "op" with
    | some o => do pure (.op (← getStr o))
    | none => do pure (.atom (← exprOf (← field j "atom")))
  | _ => jerr "token"

def runExpr (j : Json) : Except String Json := do
  let mut fields : List (String × Json) := []
  match fieldOpt j "tree" with
  | some t =>
    let e ← exprOf t
    let vals ← getArr (← field j "vals")
    let mut ds : Array Json := #[]
    for v in vals do
      let w ← valOf v
      let (r, _) := e.exec (fun _ => some w) 0
      ds := ds.push (match r with | some x => .bool x.truthy | none => .null)
    fields := ("decisions", Json.arr ds) :: fields
  | none => pure ()
  match fieldOpt j "tokens" with
  | some ts =>
    let toks ← (← getArr ts).toList.mapM tokOf
    fields := ("parsed", match ExprParse.parse toks with | some e => exprJson e | none => .str "no-parse") :: fields
    match fieldOpt j "surface" with
    | some sj =>
      let s ← exprOf sj
      let r := Surface.rot s
      fields := ("surface_tokens_ok", .bool (Surface.tokStr (ExprParse.flat s) == Surface.tokStr toks)) ::
        ("ord_canon", .bool (Surface.canonB Surface.ordTable Generated.unaryPrec 0 s)) ::
        ("rot_gram_canon", .bool (Surface.canonB Generated.precTable Generated.unaryPrec 0 r)) ::
        ("rot", exprJson r) :: fields
    | none => pure ()
  | none => pure ()
  pure (Json.mkObj fields)

def runDenter (j : Json) : Except String Json := do
  let text ← getStr (← field j "text")
  match Denter.pattern text with
  | some p => pure (Json.mkObj [("pattern", .str p)])
  | none => pure (Json.mkObj [("pattern", .null)])

/-! statement-level parser (`PfdlModel.Syntax`) on the real token stream -/

def kwOf (s : String) : Except String Pfdl.Syntax.Kw :=
  match s with
  | "Struct" => pure .struct | "Task" => pure .task | "In" => pure .in_ | "Out" => pure .out
  | "Loop" => pure .loop | "While" => pure .while | "To" => pure .to | "Parallel" => pure .parallel
  | "Condition" => pure .condition | "Passed" => pure .passed | "Failed" => pure .failed | "End" => pure .end_
  | _ => jerr s!"keyword {s}"

def jTokOf (j : Json) : Except String Pfdl.Json.JTok := do
  match ← getStr (← field j "j") with
  | "str" => do pure (.str (← getStr (← field j "s")))
  | "num" => do pure (.num (← getStr (← field j "s")))
  | "true" => pure .tru
  | "false" => pure .fls
  | "{" => pure .lbrace
  | "}" => pure .rbrace
  | "[" => pure .lbr
  | "]" => pure .rbr
  | "," => pure .comma
  | ":" => pure .colon
  | x => jerr s!"json token {x}"

partial def jvJson : Pfdl.Json.JV → Json
  | .str s => Json.mkObj [("s", .str s)]
  | .num s => Json.mkObj [("n", .str s)]
  | .bool b => .bool b
  | .obj fs => Json.mkObj [("o", Json.arr (fs.map (fun (k, v) => Json.arr #[.str k, jvJson v])).toArray)]
  | .arr xs => Json.mkObj [("a", Json.arr (xs.map jvJson).toArray)]

def synTokOf (j : Json) : Except String Pfdl.Syntax.Tok := do
  let ty ← getStr (← field j "t")
  let line ← getNat (← field j "l")
  let str : Except String String := do getStr (← field j "s")
  let k : Pfdl.Syntax.Tk ← match ty with
    | "kw" => do pure (Pfdl.Syntax.Tk.kw (← kwOf (← str)))
    | "up" => do pure (.up (← str))
    | "lo" => do pure (.lo (← str))
    | "prim" => do pure (.prim (← str))
    | "colon" => pure .colon
    | "dot" => pure .dot
    | "lbr" => pure .lbr
    | "rbr" => pure .rbr
    | "int" => do pure (.int (← getNat (← field j "n")))
    | "nl" => pure .nl
    | "ind" => pure .ind
    | "ded" => pure .ded
    | "json" => do pure (.json (← (← getArr (← field j "toks")).toList.mapM jTokOf))
    | "ex" => do pure (.ex (← tokOf (← field j "e")))
    | _ => jerr s!"token type {ty}"
  pure ⟨k, line⟩

def natJson (n : Nat) : Json := Json.num (JsonNumber.fromNat n)

def idxStr : Pfdl.Syntax.Idx → String
  | .none => "[]"
  | .int n => s!"[{n}]"
  | .name x => s!"[{x}]"

def varTyJson (v : Pfdl.Syntax.VarTy) : Json :=
  let b := match v.base with | .prim s => s | .struct s => s
  Json.mkObj [("base", .str b), ("prim", .bool (match v.base with | .prim _ => true | .struct _ => false)),
    ("arr", match v.arr with | none => .null | some i => .str (idxStr i))]

def typedJson (ds : List (String × Pfdl.Syntax.VarTy)) : Json :=
  Json.arr (ds.map (fun (x, v) => Json.arr #[.str x, varTyJson v])).toArray

def segsJson (root : String) (ss : List Pfdl.Syntax.Seg) : Json :=
  Json.arr ((Json.str root) :: ss.flatMap (fun (s, a) =>
    Json.str s :: (match a with | none => [] | some i => [Json.str (idxStr i)]))).toArray

def synParamJson : Pfdl.Syntax.Param → Json
  | .var x => .str x
  | .path x ss => segsJson x ss
  | .lit s fs => Json.mkObj [("lit", .str s), ("json", jvJson (.obj fs))]

def synCallJson (k : String) (c : Pfdl.Syntax.Call) : Json :=
  Json.mkObj [("k", .str k), ("name", .str c.name), ("ins", Json.arr (c.ins.map synParamJson).toArray),
    ("outs", typedJson c.outs), ("line", natJson c.line)]

partial def synStmtJson : Pfdl.Syntax.Stmt → Json
  | .svc c => synCallJson "svc" c
  | .call c => synCallJson "call" c
  | .par cs l => Json.mkObj [("k", .str "par"), ("calls", Json.arr (cs.map (synCallJson "call")).toArray), ("line", natJson l)]
  | .wloop e b l => Json.mkObj [("k", .str "wloop"), ("e", exprJson e), ("body", Json.arr (b.map synStmtJson).toArray), ("line", natJson l)]
  | .cloop p v lim b l => Json.mkObj [("k", .str (if p then "ploop" else "cloop")), ("var", .str v),
      ("limit", match lim with | .int n => natJson n | .path x ss => segsJson x ss),
      ("body", Json.arr (b.map synStmtJson).toArray), ("line", natJson l)]
  | .cond e p q l => Json.mkObj [("k", .str "cond"), ("e", exprJson e), ("passed", Json.arr (p.map synStmtJson).toArray),
      ("failed", match q with | none => .null | some q => Json.arr (q.map synStmtJson).toArray), ("line", natJson l)]

def synDefJson : Pfdl.Syntax.Def → Json
  | .struct s => Json.mkObj [("def", .str "struct"), ("name", .str s.name), ("attrs", typedJson s.attrs), ("line", natJson s.line)]
  | .task k => Json.mkObj [("def", .str "task"), ("name", .str k.name), ("ins", typedJson k.ins),
      ("body", Json.arr (k.body.map synStmtJson).toArray), ("outs", Json.arr (k.outs.map Json.str).toArray), ("line", natJson k.line)]

def runSyntax (j : Json) : Except String Json := do
  let toks ← (← getArr (← field j "toks")).toList.mapM synTokOf
  match Pfdl.Syntax.parse toks with
  | some ds => pure (Json.mkObj [("ok", .bool true), ("defs", Json.arr (ds.map synDefJson).toArray)])
  | none => pure (Json.mkObj [("ok", .bool false)])

/-- the whole front end on the real token stream: parse, then validate -/
def runVText (j : Json) : Except String Json := do
  let toks ← (← getArr (← field j "toks")).toList.mapM synTokOf
  match Pfdl.Front.validateTokens toks with
  | .syntaxError => pure (Json.mkObj [("parsed", .bool false)])
  | .raised => pure (Json.mkObj [("parsed", .bool true), ("raised", .bool true), ("errors", Json.arr #[])])
  | .verdict errs => pure (Json.mkObj [("parsed", .bool true), ("raised", .bool false),
      ("errors", Json.arr (errs.map (fun e => Json.arr #[.str e.kind, Json.num (JsonNumber.fromNat e.line)])).toArray)])

def handle (line : String) : String :=
  match Json.parse line with
  | .error e => (Json.mkObj [("error", .str s!"parse: {e}")]).compress
  | .ok j =>
    let k := match j.getObjVal? "k" with | .ok (.str s) => s | _ => "sched"
    let r := match k with
      | "sched" => runSched j
      | "net" => runNet j
      | "check" => runCheck j
      | "expr" => runExpr j
      | "denter" => runDenter j
      | "syntax" => runSyntax j
      | "vtext" => runVText j
      | _ => .error s!"unknown request kind {k}"
    match r with
    | .ok out => out.compress
    | .error e => (Json.mkObj [("error", .str e)]).compress

partial def loop (h : IO.FS.Stream) (out : IO.FS.Stream) : IO Unit := do
  let line ← h.getLine
  if line.isEmpty then return ()
  if line.trimAscii.isEmpty then loop h out else
  out.putStrLn (handle line)
  out.flush
  loop h out

def main : IO Unit := do
  loop (← IO.getStdin) (← IO.getStdout)
