import PfdlModel.Generated
import PfdlModel.Basic
import PfdlModel.Sched
import PfdlModel.Api
import PfdlModel.Check
import PfdlModel.ExprParse
import PfdlModel.Surface
import PfdlModel.Denter
