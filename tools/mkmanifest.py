"""Writes MANIFEST.json from the property tables (so that it always matches what ./check implements)."""
import json
import os
import sys

HERE = os.path.dirname(os.path.abspath(__file__))
VERIF = os.path.abspath(os.path.join(HERE, ".."))
sys.path.insert(0, HERE)
import obligations  # noqa: E402
import proptexts  # noqa: E402

ALL = ["C%02d" % i for i in range(1, 21)]


def main():
    checks = []
    na = []
    for p in ALL:
        t = proptexts.TEXTS.get(p)
        if not t or not obligations.PROP_THEOREMS.get(p):
            na.append({"property_id": p, "reason": (t or {}).get("na", "not claimed yet: no machine-checked theorem for this property is in place at this commit (work in progress, see DESIGN.md)")})
            continue
        checks.append({
            "property_id": p,
            "quick_cmd": "./check %s quick" % p,
            "thorough_cmd": "./check %s thorough" % p,
            "evidence_file": "evidence/%s.json" % p,
            "replay_cmd_template": "./check %s quick --replay {path}" % p,
            "engine": t["engine"],
            "level_claimed": {"category": "proof", "text": t["text"], "design_ref": t["ref"]},
            "level_note": t["note"],
            "technique": t["technique"],
        })
    m = {
        "version": 1,
        "setup_cmd": "cd /verif && /venv/bin/python tools/leanbuild.py",
        "hooks": {
            "guard": "PFDL_VERIF",
            "enable": "no source hooks: every observable is reached through the public API and public attributes; the harness imports /repo's working tree in-process (PFDL_VERIF=1 is exported by ./check but read by nothing in /repo)",
            "baseline_off_cmd": "cd /repo && /venv/bin/python -m pytest -ra -q -p no:cacheprovider --timeout=900",
            "source_commits": [],
            "add_only": True,
        },
        "engines": [
            {"name": "lean-sched", "path": "lean/PfdlModel/Sched.lean", "serves_properties": [p for p in ALL if proptexts.TEXTS.get(p, {}).get("engine") == "lean-sched"],
             "kind_free_text": "Lean 4 structural model of generator+logic+scheduler (Sched.lean, Api.lean) with theorems in lean/Props and lean/PfdlProofs; tied to /repo by tools/extract.py (regenerated tables) and a differential correspondence run (tools/sched_family.py) plus independent trace monitors (tools/monitors.py)"},
            {"name": "lean-valid", "path": "lean/PfdlModel/Check.lean", "serves_properties": [p for p in ALL if proptexts.TEXTS.get(p, {}).get("engine") == "lean-valid"],
             "kind_free_text": "Lean 4 model of the visitor + semantic checker with theorems; correspondence on generated well-formed / single-fault programs"},
            {"name": "lean-text", "path": "lean/PfdlModel/Basic.lean", "serves_properties": [p for p in ALL if proptexts.TEXTS.get(p, {}).get("engine") == "lean-text"],
             "kind_free_text": "Lean 4 model of expression evaluation / the expression and program grammar with theorems; correspondence through the real parser"},
        ],
        "checks": checks,
        "not_applicable": na,
        "notes": "All checks: ./check <id> <quick|thorough>; exit 0 ok / 1 VIOLATION / 2 infrastructure. Known findings: KNOWN_FINDINGS.txt. Design: DESIGN.md.",
    }
    with open(os.path.join(VERIF, "MANIFEST.json"), "w") as f:
        json.dump(m, f, indent=1)
    print("MANIFEST.json:", len(checks), "checks,", len(na), "not claimed")


if __name__ == "__main__":
    main()
