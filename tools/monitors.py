"""Property monitors on implementation traces (independent of the Lean model).

The central piece is a reference semantics per task instance: the notifications and variable
queries that carry a task instance as context must be a (prefix of a) word of the language of the
task's body - sequencing, fork/join, branch selection, iteration counts - evaluated with the values
the scripted execution engine actually returned.  Every deviation is attributed to the property
that speaks about the construct at which it occurs.

A violation is a dict {"prop": "C02", "rule": short name, "msg": text}.
"""
from fractions import Fraction

import json
import progs

START_TASK = "productionTask"


# ---------------------------------------------------------------------------------------------
# the monitor's own expression evaluator (ordinary arithmetic over exact rationals)


class EvalError(Exception):
    pass


def val_of_json(v):
    if isinstance(v, dict):
        if "q" in v:
            return Fraction(v["q"][0], v["q"][1])
        return {k: val_of_json(x) for k, x in v.items()}
    if isinstance(v, list):
        return [val_of_json(x) for x in v]
    return v


def follow(v, segs):
    for s in segs:
        if not isinstance(v, dict) or s not in v:
            raise EvalError("no attribute " + s)
        v = v[s]
    return v


def expr_queries(e):
    if isinstance(e, list):
        return [e[0]]
    if isinstance(e, dict):
        if "unOp" in e:
            return expr_queries(e["value"])
        if e["left"] == "(" and e["right"] == ")":
            return expr_queries(e["binOp"])
        return expr_queries(e["left"]) + expr_queries(e["right"])
    return []


def eval_expr(e, answers):
    """answers: iterator over the values returned for the queries of this expression, in order"""
    if isinstance(e, bool):
        return e
    if isinstance(e, (int, float)):
        return Fraction(e)
    if isinstance(e, str):
        return e
    if isinstance(e, list):
        v = next(answers)
        if v is None:
            raise EvalError("EE returned None")
        return follow(val_of_json(v), e[1:])
    if e is None:
        raise EvalError("no expression")
    if "unOp" in e:
        return not truthy(eval_expr(e["value"], answers))
    if e["left"] == "(" and e["right"] == ")":
        return eval_expr(e["binOp"], answers)
    a = eval_expr(e["left"], answers)
    b = eval_expr(e["right"], answers)
    op = e["binOp"]
    try:
        if op == "<":
            return a < b
        if op == "<=":
            return a <= b
        if op == ">":
            return a > b
        if op == ">=":
            return a >= b
        if op == "==":
            return a == b
        if op == "!=":
            return a != b
        if op == "And":
            if isinstance(a, bool) and isinstance(b, bool):
                return a and b
            raise EvalError("And on non-booleans")
        if op == "Or":
            if isinstance(a, bool) and isinstance(b, bool):
                return a or b
            raise EvalError("Or on non-booleans")
        if op == "+":
            return a + b
        if op == "-":
            return a - b
        if op == "*":
            return a * b
        if op == "/":
            if b == 0:
                raise EvalError("division by zero")
            return Fraction(a) / Fraction(b)
    except TypeError as ex:
        raise EvalError(str(ex))
    raise EvalError("operator " + str(op))


def truthy(v):
    if isinstance(v, dict):
        return True
    return bool(v)


# ---------------------------------------------------------------------------------------------
# flattening a run into positioned events


class Flat:
    """events of a run with global position, external call index and the stack of open calls"""

    def __init__(self, calls):
        self.events = []  # dicts: pos, call, stack, ev
        self.ret_pos = {}  # call id -> position where it returned (external: end of call)
        pos = 0
        for ci, c in enumerate(calls):
            stack = [("ext", ci)]
            for ev in c["out"]:
                if ev[0] == "FIRE":
                    self.events.append({"pos": pos, "call": ci, "stack": tuple(stack), "ev": ev})
                    stack.append(("n", pos))
                elif ev[0] in ("RET", "RETFALSE"):
                    if len(stack) > 1:
                        self.ret_pos[stack[-1]] = pos
                        stack.pop()
                    self.events.append({"pos": pos, "call": ci, "stack": tuple(stack), "ev": ev})
                else:
                    self.events.append({"pos": pos, "call": ci, "stack": tuple(stack), "ev": ev})
                pos += 1
            self.ret_pos[("ext", ci)] = pos
        self.n = pos


def same_call(a, b):
    """b is issued before the innermost call that was open at a has returned"""
    return a["stack"][-1] in b["stack"]


# ---------------------------------------------------------------------------------------------
# the per-instance reference semantics


class Cursor:
    def __init__(self, toks):
        self.toks = toks
        self.i = 0

    def peek(self):
        return self.toks[self.i] if self.i < len(self.toks) else None

    def take(self):
        t = self.toks[self.i]
        self.i += 1
        return t


class Partial(Exception):
    """the trace ends inside the construct (run not finished) - not a violation"""


class Mismatch(Exception):
    def __init__(self, prop, rule, msg):
        super().__init__(msg)
        self.prop, self.rule, self.msg = prop, rule, msg


def tok_desc(t):
    if t is None:
        return "<end of trace>"
    e = t["ev"]
    return "%s@pos%d" % (e[:6], t["pos"])


class RefSem:
    def __init__(self, case, flat, answers):
        self.case = case
        self.prog = case["prog"]
        self.tm = progs.task_map(self.prog)
        self.flat = flat
        self.answers = answers
        self.viol = []
        self.stats = {"instances": 0, "par": 0, "ploop": 0, "cond": 0, "cloop_iters": 0, "wloop_iters": 0,
                      "handovers": 0, "svc": 0, "cond_no_failed_false": 0, "ploop_n": {}, "cloop_n": {}}
        # token streams per context
        self.toks = {}
        self.var_index = {}
        nvar = 0
        for fe in flat.events:
            ev = fe["ev"]
            if ev[0] == "INV" and ev[2] == 0:
                self.toks.setdefault(ev[6], []).append(fe)
            elif ev[0] == "VAR":
                self.var_index[fe["pos"]] = nvar
                nvar += 1
                self.toks.setdefault(ev[2], []).append(fe)
        self.matched_instances = set()
        self.partial_at = []  # (property of the construct, what was expected) where the trace ended
        self.stuck_at = {}  # task instance -> (property, what) its body was waiting for when its trace ended

    def v(self, prop, rule, msg):
        self.viol.append({"prop": prop, "rule": rule, "msg": msg})

    # entry point ------------------------------------------------------------------------------
    def run(self):
        root = self.toks.get(None, [])
        if not root:
            return
        cur = Cursor(root)
        t = cur.take()
        e = t["ev"]
        if not (e[1] == "ts" and e[3] == START_TASK):
            self.v("C07", "root_first", "first notification without context is %s" % tok_desc(t))
            return
        self.instance(e[5], START_TASK, t)
        nxt = cur.peek()
        if nxt is not None:
            e2 = nxt["ev"]
            if not (e2[1] == "tf" and e2[5] == e[5] and e2[3] == START_TASK):
                self.v("C07", "root_tf", "unexpected notification without context: %s" % tok_desc(nxt))
            else:
                cur.take()
                if cur.peek() is not None:
                    self.v("C01", "root_tf_once", "production task notification repeated: %s" % tok_desc(cur.peek()))
        # every context that carries tokens must be an instance announced by a task-started notification
        for ctx in self.toks:
            if ctx is not None and ctx not in self.matched_instances:
                self.v("C07", "context_announced",
                       "notifications carry context %r which was never announced as a task instance (first: %s)"
                       % (ctx, tok_desc(self.toks[ctx][0])))

    def instance(self, inst_id, task_name, ts_tok):
        """match the body of a task instance; returns (status, last_tok) status: 'done'|'partial'|'failed'"""
        if inst_id in self.matched_instances:
            self.v("C14", "task_id_reused", "task instance id %r announced twice (%s)" % (inst_id, tok_desc(ts_tok)))
            return "failed", None
        self.matched_instances.add(inst_id)
        self.stats["instances"] += 1
        task = self.tm.get(task_name)
        if task is None:
            self.v("C07", "unknown_task", "task-started for unknown task %r" % task_name)
            return "failed", None
        cur = Cursor(self.toks.get(inst_id, []))
        n_partial = len(self.partial_at)
        try:
            last = self.block(task["body"], cur, {"inst": inst_id, "binds": {}}, ts_tok)
        except Partial:
            if len(self.partial_at) > n_partial:
                self.stuck_at[inst_id] = self.partial_at[-1]
            return "partial", None
        except Mismatch as m:
            self.v(m.prop, m.rule, "task instance %r (%s): %s" % (inst_id, task_name, m.msg))
            return "failed", None
        if cur.peek() is not None:
            self.v("C02", "extra_after_body",
                   "task instance %r (%s): %s after the body completed" % (inst_id, task_name, tok_desc(cur.peek())))
            return "failed", None
        return "done", last

    # statements ---------------------------------------------------------------------------------
    def handover(self, prev, nxt, what, prop="C02"):
        """nxt must be issued in the call in which prev was issued"""
        if prev is None or nxt is None:
            return
        self.stats["handovers"] += 1
        if not same_call(prev, nxt):
            raise Mismatch(prop, "deferred_" + what,
                           "%s is issued in a later call than %s which enabled it" % (tok_desc(nxt), tok_desc(prev)))

    def block(self, stmts, cur, env, prev):
        """prev: the token after which the block's first notification is due; returns the last token"""
        for s in stmts:
            prev = self.stmt(s, cur, env, prev)
        return prev

    def expect(self, cur, kind, line, name, prop, what):
        t = cur.peek()
        if t is None:
            self.partial_at.append((prop, "%s %s (line %d)" % (kind, name, line)))
            raise Partial()
        e = t["ev"]
        if e[0] != "INV" or e[1] != kind or e[4] != line or e[3] != name:
            raise Mismatch(prop, "unexpected_" + what, "expected %s %s (line %d), got %s" % (kind, name, line, tok_desc(t)))
        return cur.take()

    def expect_vars(self, cur, names, prop, what):
        """the variable queries of one evaluation; returns (tokens, answers)"""
        toks = []
        for n in names:
            t = cur.peek()
            if t is None:
                self.partial_at.append((prop, "variable query %r (%s)" % (n, what)))
                raise Partial()
            e = t["ev"]
            if e[0] != "VAR" or e[1] != n:
                raise Mismatch(prop, "query_" + what, "expected variable query %r, got %s" % (n, tok_desc(t)))
            toks.append(cur.take())
        vals = [self.answers[self.var_index[t["pos"]]] if self.var_index[t["pos"]] < len(self.answers) else None
                for t in toks]
        return toks, vals

    def check_params(self, tok, site, env, extra_binds=None):
        binds = dict(env["binds"])
        if extra_binds:
            binds.update(extra_binds)
        exp = [expected_param(p, binds) for p in site.get("ins", [])]
        got = tok["ev"][7]
        if got != exp:
            self.v("C15", "params", "%s: delivered parameters %r, written at the call site (line %d): %r"
                   % (tok_desc(tok), got, site["line"], exp))

    def read_limit(self, lim, cur, prop, what):
        if isinstance(lim, int):
            return Fraction(lim), []
        toks, vals = self.expect_vars(cur, [lim[0]], prop, what)
        try:
            if vals[0] is None:
                raise EvalError("EE returned None")
            n = follow(val_of_json(vals[0]), lim[1:])
        except EvalError:
            raise Partial()
        if isinstance(n, bool) or not isinstance(n, (int, Fraction)):
            raise Partial()
        return Fraction(n), toks

    def decide(self, e, cur, prop, what):
        names = expr_queries(e)
        toks, vals = self.expect_vars(cur, names, prop, what)
        try:
            return truthy(eval_expr(e, iter(vals))), toks
        except (EvalError, StopIteration):
            raise Partial()  # the evaluation raises in the implementation too (not this monitor's business)

    def stmt(self, s, cur, env, prev):
        k = s["k"]
        if k == "svc":
            t = self.expect(cur, "ss", s["line"], s["name"], "C02", "in_block")
            self.handover(prev, t, "next_statement")
            self.check_params(t, s, env)
            self.stats["svc"] += 1
            f = cur.peek()
            if f is None:
                raise Partial()
            fe = f["ev"]
            if not (fe[0] == "INV" and fe[1] == "sf" and fe[5] == t["ev"][5] and fe[4] == s["line"]):
                raise Mismatch("C02", "overlap", "service %s (line %d) still in progress but %s is issued"
                               % (s["name"], s["line"], tok_desc(f)))
            return cur.take()
        if k == "call":
            t = self.expect(cur, "ts", s["line"], s["name"], "C02", "in_block")
            self.handover(prev, t, "next_statement")
            self.check_params(t, s, env)
            return self.finish_call(cur, t, s, "C02")
        if k == "par":
            self.stats["par"] += 1
            open_ids = {}
            first = None
            lasts = {}
            closed = {}
            for c in s["calls"]:
                self.early_tfs(cur, open_ids, lasts, closed)
                t = self.expect(cur, "ts", c["line"], c["name"], "C03", "fork")
                if first is None:
                    first = t
                    self.handover(prev, t, "next_statement")
                else:
                    self.handover(first, t, "fork", "C03")
                self.check_params(t, c, env)
                st, last = self.instance(t["ev"][5], c["name"], t)
                open_ids[t["ev"][5]] = (c, st)
                lasts[t["ev"][5]] = last
            return self.join(cur, open_ids, lasts, "C03", first, closed)
        if k == "cond":
            self.stats["cond"] += 1
            res, toks = self.decide(s["e"], cur, "C04", "condition")
            if toks:
                self.handover(prev, toks[0], "next_statement")
                prev = toks[-1]
            if res:
                return self.block(s["passed"], cur, env, prev)
            if s.get("failed"):
                return self.block(s["failed"], cur, env, prev)
            self.stats["cond_no_failed_false"] += 1
            return prev
        if k == "cloop":
            c = 0
            while True:
                n, toks = self.read_limit(s["limit"], cur, "C05", "limit")
                if toks:
                    self.handover(prev, toks[0], "next_statement" if c == 0 else "next_iteration", "C02" if c == 0 else "C05")
                    prev = toks[-1]
                if not (c < n):
                    self.stats["cloop_n"][c] = self.stats["cloop_n"].get(c, 0) + 1
                    return prev
                self.stats["cloop_iters"] += 1
                env2 = dict(env, binds=dict(env["binds"], **{s["var"]: c}))
                try:
                    prev = self.block(s["body"], cur, env2, prev)
                except Mismatch as m:
                    if m.rule in ("unexpected_in_block",):
                        raise Mismatch("C05", "iteration", "counting loop (line %d), iteration %d of %s: %s"
                                       % (s["line"], c, n, m.msg))
                    raise
                c += 1
        if k == "wloop":
            it = 0
            while True:
                res, toks = self.decide(s["e"], cur, "C05", "guard")
                if toks:
                    self.handover(prev, toks[0], "next_statement" if it == 0 else "next_iteration", "C02" if it == 0 else "C05")
                    prev = toks[-1]
                if not res:
                    return prev
                self.stats["wloop_iters"] += 1
                try:
                    prev = self.block(s["body"], cur, env, prev)
                except Mismatch as m:
                    if m.rule in ("unexpected_in_block",):
                        raise Mismatch("C05", "iteration", "while loop (line %d), iteration %d: %s" % (s["line"], it, m.msg))
                    raise
                it += 1
        if k == "ploop":
            self.stats["ploop"] += 1
            n, toks = self.read_limit(s["limit"], cur, "C06", "limit")
            if toks:
                self.handover(prev, toks[0], "next_statement")
                prev = toks[-1]
            cnt = int(n) if n > 0 else 0
            self.stats["ploop_n"][cnt] = self.stats["ploop_n"].get(cnt, 0) + 1
            c = s["call"]
            open_ids = {}
            lasts = {}
            first = None
            closed = {}
            for i in range(cnt):
                self.early_tfs(cur, open_ids, lasts, closed)
                try:
                    t = self.expect(cur, "ts", c["line"], c["name"], "C06", "instances")
                except Mismatch as m:
                    raise Mismatch("C06", "instance_count", "parallel loop (line %d) with limit %s: instance %d of %d missing: %s"
                                   % (s["line"], n, i, cnt, m.msg))
                if first is None:
                    first = t
                    self.handover(prev, t, "ploop_start", "C06")
                else:
                    self.handover(first, t, "ploop_fork", "C06")
                self.check_params(t, c, env, {s["var"]: i})
                st, last = self.instance(t["ev"][5], c["name"], t)
                open_ids[t["ev"][5]] = (c, st)
                lasts[t["ev"][5]] = last
            if cnt == 0:
                return prev
            return self.join(cur, open_ids, lasts, "C06", first, closed)
        raise ValueError(k)

    def finish_call(self, cur, ts_tok, site, prop):
        cid = ts_tok["ev"][5]
        st, last = self.instance(cid, site["name"], ts_tok)
        f = cur.peek()
        if f is None:
            if st == "done":
                # the body is complete but the task-finished notification is missing although the run went on?
                # only a violation if the run has ended or later events exist; decided by the lifecycle monitor
                pass
            raise Partial()
        fe = f["ev"]
        if not (fe[0] == "INV" and fe[1] == "tf" and fe[5] == cid):
            if st == "done":
                self.tf_missing(site["name"], cid, f)
            raise Mismatch(prop, "overlap", "task %s (line %d) still in progress but %s is issued"
                           % (site["name"], site["line"], tok_desc(f)))
        if st == "partial":
            self.tf_early(cid, f)
        if st == "done" and last is not None and f["pos"] < last["pos"]:
            # the task is reported finished before the last notification of its own body
            self.v("C07", "tf_before_body_done", "task-finished %s is issued before %s, the end of the task's body" % (tok_desc(f), tok_desc(last)))
            task = self.tm.get(site["name"])
            kind = task["body"][-1]["k"] if task and task["body"] else "svc"
            p2 = self.LAST_PROP.get(kind)
            if p2 and p2 != "C07":
                self.v(p2, "task_finished_before_%s_done" % kind,
                       "task %s (instance %r) ends with a %s statement; the task is reported finished (%s) before that statement has completed (%s)"
                       % (site["name"], cid, kind, tok_desc(f), tok_desc(last)))
        elif st == "done" and last is not None:
            try:
                self.handover(last, f, "task_finished", "C07")
            except Mismatch as m:
                self.v(m.prop, m.rule, m.msg)
        return cur.take()

    def early_tfs(self, cur, open_ids, lasts, closed):
        """a branch may run to its end while it is entered (re-entrant completions): its task-finished
        notification then precedes the task-started of the next branch"""
        while True:
            f = cur.peek()
            if f is None:
                return
            fe = f["ev"]
            if fe[0] == "INV" and fe[1] == "tf" and fe[5] in open_ids and fe[5] not in closed:
                c, st = open_ids[fe[5]]
                if st == "partial":
                    self.tf_early(fe[5], f)
                closed[fe[5]] = cur.take()
            else:
                return

    LAST_PROP = {"cond": "C04", "cloop": "C05", "wloop": "C05", "par": "C03", "ploop": "C06", "svc": "C07", "call": "C07"}

    def tf_early(self, cid, tok):
        self.v("C07", "tf_before_body_done", "task-finished %s although the task's body has not completed" % tok_desc(tok))
        if cid in self.stuck_at:
            prop, what = self.stuck_at[cid]
            if prop != "C07":
                self.v(prop, "skipped_construct", "task instance %r is reported finished (%s) although %s of its body was never issued"
                       % (cid, tok_desc(tok), what))

    def tf_missing(self, task_name, cid, tok):
        """the body of a called task completed but the next notification of its caller is not its task-finished"""
        task = self.tm.get(task_name)
        kind = task["body"][-1]["k"] if task and task["body"] else "svc"
        self.v("C07", "tf_missing_after_body", "task %s (instance %r): body completed but task-finished is not issued (next: %s)"
               % (task_name, cid, tok_desc(tok)))
        p = self.LAST_PROP.get(kind)
        if p and p != "C07":
            self.v(p, "task_not_finished_after_" + kind,
                   "task %s (instance %r) ends with a %s statement; it completed but the task is not reported finished (next: %s)"
                   % (task_name, cid, kind, tok_desc(tok)))

    def join(self, cur, open_ids, lasts, prop, first, closed=None):
        """task-finished notifications of the branches, in any order"""
        remaining = {k: v for k, v in open_ids.items() if not closed or k not in closed}
        last_tf = None
        if closed:
            last_tf = max(closed.values(), key=lambda t: t["pos"])
        while remaining:
            f = cur.peek()
            if f is None:
                raise Partial()
            fe = f["ev"]
            if not (fe[0] == "INV" and fe[1] == "tf" and fe[5] in remaining):
                done_ids = [i for i, (c, st) in remaining.items() if st == "done"]
                if len(done_ids) == len(remaining):
                    for i in done_ids:
                        self.tf_missing(remaining[i][0]["name"], i, f)
                raise Mismatch(prop, "join_early", "%s is issued while branches %r of the fork at %s are unfinished"
                               % (tok_desc(f), sorted(remaining), tok_desc(first)))
            c, st = remaining.pop(fe[5])
            if st == "partial":
                self.tf_early(fe[5], f)
            if st == "done" and lasts.get(fe[5]) is not None:
                try:
                    self.handover(lasts[fe[5]], f, "task_finished", "C07")
                except Mismatch as m:
                    self.v(m.prop, m.rule, m.msg)
            last_tf = cur.take()
        # what follows the join must come in the call of the last branch: checked by the caller through `prev`
        # but attribute it to the fork's property
        nxt = cur.peek()
        if nxt is not None and not same_call(last_tf, nxt):
            raise Mismatch(prop, "deferred_after_join", "%s is issued in a later call than %s which completed the join"
                           % (tok_desc(nxt), tok_desc(last_tf)))
        return last_tf


def expected_param(p, binds):
    if isinstance(p, str):
        return ["v", p]
    if isinstance(p, list):
        out = []
        for seg in p:
            v = seg.replace("[", "").replace("]", "")
            if seg.startswith("[") and v in binds:
                out.append("[%d]" % binds[v])
            else:
                out.append(seg)
        return ["p", out]
    return ["s", p["lit"], canon_json_lit(p["json"])]


def canon_json_lit(x):
    if isinstance(x, dict):
        return {k: canon_json_lit(v) for k, v in sorted(x.items())}
    if isinstance(x, list):
        return [canon_json_lit(v) for v in x]
    if isinstance(x, bool):
        return x
    if isinstance(x, (int, float)):
        f = Fraction(x)
        return {"q": [f.numerator, f.denominator]}
    return x


# ---------------------------------------------------------------------------------------------
# global monitors


def monitor_all(case, calls, answers, props=None):
    """calls: canonical implementation calls (schedcase.canon_impl_calls). Returns (violations, stats)."""
    flat = Flat(calls)
    ref = RefSem(case, flat, answers)
    ref.run()
    viol = list(ref.viol)
    stats = dict(ref.stats)
    viol += lifecycle(case, calls, flat, stats)
    viol += acceptance(case, calls, flat, stats)
    viol += completion(case, calls, flat, stats)
    viol += fanout(case, calls, flat, stats)
    viol += observers(case, calls, flat, stats)
    viol += exceptions(case, calls, flat, stats, ref)
    if props is not None:
        viol = [v for v in viol if v["prop"] in props]
    return viol, stats


def exceptions(case, calls, flat, stats, ref=None):
    out = []
    for ci, c in enumerate(calls):
        if c.get("exc") and c["op"]["op"] != "detach":
            out.append({"prop": "C09", "rule": "exception_escapes",
                        "msg": "call %d %r raised %s" % (ci, c["op"], c["exc"])})
            out.append({"prop": "C01", "rule": "exception_escapes",
                        "msg": "call %d %r raised %s: the order cannot complete" % (ci, c["op"], c["exc"])})
            # the constructs that were being executed when the exception escaped
            if ref is not None:
                for prop, what in ref.partial_at:
                    if prop not in ("C01", "C09"):
                        out.append({"prop": prop, "rule": "exception_in_construct",
                                    "msg": "call %d %r raised %s while %s was due" % (ci, c["op"], c["exc"], what)})
            break
    return out


def lifecycle(case, calls, flat, stats):
    """C07 / C14: balanced, nested, attributed; identifiers unique and stable"""
    out = []
    ts, tf, ss, sf = {}, {}, {}, {}
    order = []
    for fe in flat.events:
        ev = fe["ev"]
        if ev[0] != "INV" or ev[2] != 0:
            continue
        kind, ident, ctx = ev[1], ev[5], ev[6]
        order.append(fe)
        if kind == "ts":
            if ident in ts:
                out.append({"prop": "C14", "rule": "task_id_reused", "msg": "task id %r announced again at %s" % (ident, tok_desc(fe))})
            ts.setdefault(ident, fe)
        elif kind == "ss":
            if ident in ss:
                out.append({"prop": "C14", "rule": "service_id_reused", "msg": "service id %r announced again at %s" % (ident, tok_desc(fe))})
            ss.setdefault(ident, fe)
        elif kind == "tf":
            if ident not in ts:
                out.append({"prop": "C07", "rule": "tf_without_ts", "msg": "task-finished without task-started: %s" % tok_desc(fe)})
            elif ident in tf:
                out.append({"prop": "C07", "rule": "tf_twice", "msg": "second task-finished for %r: %s" % (ident, tok_desc(fe))})
            else:
                s0 = ts[ident]["ev"]
                if (s0[3], s0[4], s0[6]) != (ev[3], ev[4], ev[6]):
                    out.append({"prop": "C07", "rule": "tf_attribution", "msg": "task-finished %s does not match its task-started %s" % (tok_desc(fe), tok_desc(ts[ident]))})
            tf.setdefault(ident, fe)
        elif kind == "sf":
            if ident not in ss:
                out.append({"prop": "C07", "rule": "sf_without_ss", "msg": "service-finished without service-started: %s" % tok_desc(fe)})
            elif ident in sf:
                out.append({"prop": "C07", "rule": "sf_twice", "msg": "second service-finished for %r: %s" % (ident, tok_desc(fe))})
            else:
                s0 = ss[ident]["ev"]
                if (s0[3], s0[4], s0[6]) != (ev[3], ev[4], ev[6]):
                    out.append({"prop": "C07", "rule": "sf_attribution", "msg": "service-finished %s does not match its service-started %s" % (tok_desc(fe), tok_desc(ss[ident]))})
            sf.setdefault(ident, fe)
        # context: must be an open task instance, announced before
        if ctx is not None:
            if ctx not in ts:
                out.append({"prop": "C07", "rule": "context_unannounced", "msg": "%s carries context %r that no task-started announced" % (tok_desc(fe), ctx)})
            elif ts[ctx]["pos"] > fe["pos"] or (ctx in tf and tf[ctx]["pos"] < fe["pos"]):
                out.append({"prop": "C07", "rule": "context_not_open", "msg": "%s carries context %r which is not open at that moment" % (tok_desc(fe), ctx)})
    # task ids vs service ids may coincide (two counters); fine.
    # timely service-finished: in the call that delivers the completion
    deliveries = {}
    for fe in flat.events:
        if fe["ev"][0] == "FIRE":
            deliveries.setdefault(fe["ev"][1], []).append(("n", fe["pos"]))
    announced = []
    for fe in order:
        if fe["ev"][1] == "ss":
            announced.append(fe["ev"][5])
    for ci, c in enumerate(calls):
        op = c["op"]
        if op["op"] == "finish" and c["ret"] and op["n"] < len(announced):
            deliveries.setdefault(announced[op["n"]], []).append(("ext", ci))
    for ident, fe in sf.items():
        ds = deliveries.get(ident, [])
        if not any(d in fe["stack"] for d in ds):
            out.append({"prop": "C07", "rule": "sf_untimely", "msg": "service-finished %s is not issued inside a call delivering the completion of %r" % (tok_desc(fe), ident)})
        else:
            # and it is the first notification of that call
            pass
    # a completion delivered for an outstanding service must issue its service-finished in that very call
    seen_ss = []
    done_sf = set()
    for ci, c in enumerate(calls):
        op = c["op"]
        before = set(seen_ss) - done_sf
        for ev in c["out"]:
            if ev[0] == "INV" and ev[2] == 0:
                if ev[1] == "ss":
                    seen_ss.append(ev[5])
                elif ev[1] == "sf":
                    done_sf.add(ev[5])
        if op["op"] == "finish" and not c.get("exc") and op["n"] < len(seen_ss):
            ident = seen_ss[op["n"]]
            if ident in before and ident not in done_sf:
                out.append({"prop": "C07", "rule": "sf_missing_on_delivery",
                            "msg": "call %d delivers the completion of outstanding service %r but no service-finished notification is issued in it (returned %r)" % (ci, ident, c["ret"])})
                for pp, what in (("C02", "lost wake-up: the statement after it can never start"), ("C01", "the order stalls")):
                    out.append({"prop": pp, "rule": "completion_without_effect",
                                "msg": "call %d delivers the completion of outstanding service %r but nothing happens (returned %r) - %s" % (ci, ident, c["ret"], what)})
    finished = run_finished(calls)
    if finished:
        for ident in ts:
            if ident not in tf:
                out.append({"prop": "C07", "rule": "ts_without_tf", "msg": "order finished but task instance %r (%s) never reported finished" % (ident, tok_desc(ts[ident]))})
        for ident in ss:
            if ident not in sf:
                out.append({"prop": "C07", "rule": "ss_without_sf", "msg": "order finished but service instance %r (%s) never reported finished" % (ident, tok_desc(ss[ident]))})
        if order:
            f0, l0 = order[0]["ev"], order[-1]["ev"]
            if not (f0[1] == "ts" and f0[3] == START_TASK and f0[6] is None):
                out.append({"prop": "C07", "rule": "root_first", "msg": "first notification is %s" % tok_desc(order[0])})
            if not (l0[1] == "tf" and l0[3] == START_TASK and l0[6] is None):
                out.append({"prop": "C07", "rule": "root_last", "msg": "last notification is %s" % tok_desc(order[-1])})
    stats["tasks_started"] = len(ts)
    stats["services_started"] = len(ss)
    return out


def run_finished(calls):
    """the production task was reported finished"""
    for c in calls:
        for ev in c["out"]:
            if ev[0] == "INV" and ev[1] == "tf" and ev[2] == 0 and ev[6] is None and ev[3] == START_TASK:
                return True
    return False


def acceptance(case, calls, flat, stats):
    """C08: accepted iff completion of an announced, not yet completed service; rejected calls change nothing"""
    out = []
    announced = []
    pending = set()
    started = False
    prev = None
    njunk = 0
    for ci, c in enumerate(calls):
        op = c["op"]
        o = op["op"]
        before_pending = set(pending)
        # announcements and nested completions inside this call; a completion that is being delivered is not
        # outstanding any more (a nested report of the same service is a duplicate)
        inflight = set()
        if (o == "finish" or (o == "junk" and op["junk"] in ("dup", "fromjson"))) and op["n"] < len(announced):
            if announced[op["n"]] in pending:
                inflight.add(announced[op["n"]])
        nested = []
        for ev in c["out"]:
            if ev[0] == "INV" and ev[1] == "ss" and ev[2] == 0:
                announced.append(ev[5])
                pending.add(ev[5])
            elif ev[0] == "FIRE":
                exp = ev[1] in pending and ev[1] not in inflight
                nested.append((ev[1], exp))
                if exp:
                    inflight.add(ev[1])
            elif ev[0] in ("RET", "RETFALSE"):
                exp = None
                got = ev[0] == "RET"
                if nested and nested[-1][0] == ev[1]:
                    exp = nested.pop()[1]
                if exp is not None and got != exp:
                    out.append({"prop": "C08", "rule": "accept_iff", "msg": "call %d: completion of %r reported from inside a callback returned %r, expected %r (%s)"
                                % (ci, ev[1], got, exp, "outstanding" if exp else "being delivered or not outstanding")})
                if got:
                    pending.discard(ev[1])
        if c.get("exc"):
            prev = c
            continue
        if o == "finish" or (o == "junk" and op["junk"] in ("dup", "fromjson")):
            ident = announced[op["n"]] if op["n"] < len(announced) else None
            expect = ident in before_pending
            if c["ret"] != expect:
                out.append({"prop": "C08", "rule": "accept_iff", "msg": "call %d %r returned %r, expected %r (service %r %s)"
                            % (ci, op, c["ret"], expect, ident, "outstanding" if expect else "not outstanding")})
                # the identifier a service is announced with is the identifier its completion is accepted under - once
                if expect:
                    # the run cannot go on from here: the statement (branch, loop instance) this service belongs to never completes
                    txt = json.dumps(case.get("prog"))
                    for pr in ["C01", "C02"] + (["C03"] if '"k": "par"' in txt else []) + (["C06"] if '"k": "ploop"' in txt else []):
                        out.append({"prop": pr, "rule": "outstanding_completion_refused",
                                    "msg": "call %d %r: the completion of the announced, outstanding service %r is refused: the statement it belongs to can never complete"
                                    % (ci, op, ident)})
                out.append({"prop": "C14", "rule": "announced_id_not_accepted" if expect else "id_accepted_again",
                            "msg": "call %d %r: the completion of the service announced as %r returned %r (%s)"
                            % (ci, op, ident, c["ret"], "it is outstanding" if expect else "it is not outstanding any more")})
            if c["ret"]:
                pending.discard(ident)
        elif o == "junk":
            njunk += 1
            if c["ret"] is not False:
                known = op["junk"] == "start_event" and not started
                out.append({"prop": "C08", "rule": "junk_accepted" if not known else "start_event_accepted",
                            "msg": "call %d %r returned %r" % (ci, op, c["ret"])})
                if op["junk"] == "start_event":
                    started = True
        elif o == "start":
            if c["ret"] is not True and case.get("expect_valid", True):
                out.append({"prop": "C08", "rule": "start_false", "msg": "start() returned %r for a valid program" % (c["ret"],)})
            if started and (c["out"] or (prev and (c["running"], sorted(c["awaited"])) != (prev["running"], sorted(prev["awaited"])))):
                out.append({"prop": "C08", "rule": "restart", "msg": "call %d: repeated start() had an effect: events %r running %r->%r"
                            % (ci, c["out"][:3], prev and prev["running"], c["running"])})
            started = True
        # rejected calls change nothing
        if o in ("finish", "junk") and c["ret"] is False and prev is not None:
            if c["out"]:
                out.append({"prop": "C08", "rule": "rejected_effect", "msg": "call %d %r was rejected but produced %r" % (ci, op, c["out"][:3])})
            if (c["running"], sorted(c["awaited"]), c.get("marked"), c.get("start_awaited")) != \
               (prev["running"], sorted(prev["awaited"]), prev.get("marked"), prev.get("start_awaited")):
                out.append({"prop": "C08", "rule": "rejected_state", "msg": "call %d %r was rejected but changed the scheduler state" % (ci, op)})
        # awaited events = outstanding services (between calls)
        if started and not c.get("exc"):
            if sorted(c["awaited"]) != sorted(pending) or c.get("other_awaited"):
                out.append({"prop": "C08", "rule": "awaited_outstanding", "msg": "after call %d %r awaited service events %r differ from outstanding services %r (other awaited: %r)"
                            % (ci, op, sorted(c["awaited"]), sorted(pending), c.get("other_awaited"))})
        prev = c
    stats["junk_calls"] = njunk
    return out


def completion(case, calls, flat, stats):
    """C01: finishes exactly when the last outstanding completion is delivered; running; final state"""
    out = []
    for ci, c in enumerate(calls):
        if c.get("stale_var"):
            for p in ("C04", "C05", "C13", "C06"):
                out.append({"prop": p, "rule": "stale_access_function", "msg": "call %d %r: %s" % (ci, c["op"], c["stale_var"][0])})
            break
    # from an accepted start() on, every callback of the order (notification, variable query) sees running == True
    by_start = False
    for ci, c in enumerate(calls):
        if c["op"]["op"] == "start":
            by_start = True
        if c["op"]["op"] == "junk" and c["op"].get("junk") == "start_event" and not by_start:
            break  # finding K8: started through the public event path
        if by_start and c.get("not_running_in"):
            out.append({"prop": "C01", "rule": "not_running_inside_callback",
                        "msg": "call %d %r: the scheduler does not report itself running inside the %s" % (ci, c["op"], c["not_running_in"][0])})
            break
    pending = set()
    started = False
    finished_at = None
    ntf = 0
    for ci, c in enumerate(calls):
        op = c["op"]
        tf_here = False
        for ev in c["out"]:
            if ev[0] == "INV" and ev[2] == 0:
                if ev[1] == "ss":
                    pending.add(ev[5])
                elif ev[1] == "sf":
                    pending.discard(ev[5])
                elif ev[1] == "tf" and ev[6] is None and ev[3] == START_TASK:
                    ntf += 1
                    tf_here = True
                    if pending:
                        out.append({"prop": "C01", "rule": "early_finish", "msg": "production task reported finished in call %d while services %r are outstanding" % (ci, sorted(pending))})
                    if finished_at is None:
                        finished_at = ci
        if c.get("exc"):
            return out
        if op["op"] == "start" and c["ret"]:
            started = True
        if op["op"] == "junk" and op.get("junk") == "start_event" and c["ret"]:
            started = True  # known finding K8 (reported by C08)
        if started and op["op"] in ("start", "finish", "junk"):
            fin = finished_at is not None
            if not fin and not pending and not c.get("stuck"):
                out.append({"prop": "C01", "rule": "stall", "msg": "after call %d %r no service is outstanding but the order has not finished" % (ci, op)})
            if fin:
                if c["running"]:
                    out.append({"prop": "C01", "rule": "running_after_finish", "msg": "after call %d %r the order is finished but the scheduler reports running" % (ci, op)})
                if c["awaited"] or c.get("other_awaited") or c.get("start_awaited"):
                    out.append({"prop": "C01", "rule": "awaited_after_finish", "msg": "after call %d events are still awaited after the end" % ci})
                if c.get("final_marking") is False:
                    out.append({"prop": "C01", "rule": "final_marking", "msg": "after call %d the order is finished but the net does not hold exactly one token in its final place (tokens: %r)" % (ci, c.get("marked"))})
            else:
                via_start_event = any(cc["op"].get("junk") == "start_event" and cc["ret"] for cc in calls[: ci + 1])
                if not c["running"] and not via_start_event:
                    out.append({"prop": "C01", "rule": "not_running", "msg": "after call %d %r the order is in progress but the scheduler reports not running" % (ci, op)})
                if c.get("final_marking"):
                    out.append({"prop": "C01", "rule": "final_marking_early", "msg": "after call %d the net is in its final marking but the production task was not reported finished" % ci})
    if ntf > 1:
        out.append({"prop": "C01", "rule": "finish_once", "msg": "production task reported finished %d times" % ntf})
    stats["finished"] = finished_at is not None
    return out


def fanout(case, calls, flat, stats):
    """C20: registration return values; every listener once per notification in registration order"""
    out = []
    regs = {"ts": [], "tf": [], "ss": [], "sf": []}
    groups = 0
    for ci, c in enumerate(calls):
        op = c["op"]
        if op["op"] == "witness":
            for p in ("C20", "C18", "C17", "C04", "C13"):
                out.append({"prop": p, "rule": "other_scheduler_reached", "msg": "another scheduler of the same process (never started) was reached by this run: %r" % (c.get("witness_events"),)})
            continue
        if op["op"] == "reg":
            k, fn = op["kind"], op["fn"]
            expect = fn not in regs[k]
            if c["ret"] != expect:
                out.append({"prop": "C20", "rule": "register_ret", "msg": "call %d %r returned %r, expected %r" % (ci, op, c["ret"], expect)})
            if expect:
                regs[k].append(fn)
            continue
        # every notification invokes the registered listeners of its kind once each, in registration order;
        # a re-entrant completion nests the groups of the notifications it causes inside the interrupted group
        stack = []  # open groups: dict(kind, name, line, first_event, next_index, interrupted)
        pending_ident = None
        for ev in c["out"]:
            if ev[0] == "IDENT":
                pending_ident = ev   # judged at the next invocation: only inside one notification's group
                continue
            if ev[0] in ("FIRE",):
                for g in stack:
                    g["interrupted"] = True
                continue
            if ev[0] != "INV":
                continue
            kind, fn = ev[1], ev[2]
            exp = regs[kind]
            top = stack[-1] if stack else None
            ident, pending_ident = pending_ident, None
            if top and top["kind"] == kind and top["key"] == (ev[3], ev[4]) and top["next"] < len(exp) and exp[top["next"]] == fn:
                if ident is not None and not top["interrupted"]:
                    out.append({"prop": "C20", "rule": "same_argument", "msg": "call %d: listener %d of the %s notification of %s (line %s) was handed another object than the listener before it (equal, but not the same argument)" % (ci, fn, kind, ev[3], ev[4])})
                if ev[3:] != top["first"][3:]:
                    out.append({"prop": "C20", "rule": "same_argument_after_reentrant_completion" if top["interrupted"] else "same_argument", "msg": "call %d: listeners of one %s notification saw different arguments %r vs %r" % (ci, kind, top["first"][3:7], ev[3:7])})
                top["next"] += 1
            elif exp and fn == exp[0]:
                stack.append({"kind": kind, "key": (ev[3], ev[4]), "first": ev, "next": 1, "interrupted": False})
                groups += 1
            else:
                out.append({"prop": "C20", "rule": "fanout", "msg": "call %d: listener %d of kind %s invoked out of turn at %r (registered order %r)" % (ci, fn, kind, ev[:6], exp)})
                break
            while stack and stack[-1]["next"] >= len(regs[stack[-1]["kind"]]):
                stack.pop()
        else:
            if stack and not c.get("exc"):
                g = stack[-1]
                out.append({"prop": "C20", "rule": "fanout", "msg": "call %d: notification %r (%s) invoked only listeners %r of %r" % (ci, g["first"][3:6], g["kind"], regs[g["kind"]][: g["next"]], regs[g["kind"]])})
    stats["notification_groups"] = groups
    return out


def observers(case, calls, flat, stats):
    """C17: log mirrors notifications per attached observer; one flagged entry, last; net notices; detach"""
    out = []
    attached = []
    nlogs = 0
    flagged = {}
    for ci, c in enumerate(calls):
        op = c["op"]
        if op["op"] == "attach":
            attached.append(op["o"])
            continue
        if op["op"] == "detach":
            if op["o"] in attached:
                attached.remove(op["o"])
            continue
        # expected log entries for this call: one per notification (primary listener fn 0 stands for the notification;
        # if no listener of a kind is registered the notification is invisible to us: use logs of observer itself)
        notes = [ev for ev in c["out"] if ev[0] == "INV" and ev[2] == 0]
        have_all_kinds = all(k in case.get("_regs0", ("ts", "tf", "ss", "sf")) for k in ("ts", "tf", "ss", "sf"))
        for o in set(attached):
            mult = attached.count(o)
            logs = [ev for ev in c["out"] if ev[0] == "LOG" and ev[1] == o]
            nlogs += len(logs)
            if have_all_kinds:
                exp = []
                for n in notes:
                    ent = "Task" if n[1][0] == "t" else "Service"
                    ph = "started" if n[1][1] == "s" else "finished"
                    exp += [[ent, n[3], n[5], ph]] * mult
                got = [l[2:6] for l in logs]
                if got != exp:
                    out.append({"prop": "C17", "rule": "log_mirror", "msg": "call %d: observer %d received log entries %r, notifications were %r" % (ci, o, got[:6], exp[:6])})
            for l in logs:
                if l[-1]:
                    flagged.setdefault(o, []).append((ci, l))
            if c["ret"] is True and op["op"] in ("start", "finish", "junk"):
                nets = [ev for ev in c["out"] if ev[0] == "NET" and ev[1] == o]
                if not nets and c["out"]:
                    out.append({"prop": "C17", "rule": "net_notice", "msg": "call %d %r was accepted but observer %d received no net-updated notice" % (ci, op, o)})
        for ev in c["out"]:
            if ev[0] == "UPD" and len(ev) > 3 and ev[2] == "NETID":
                out.append({"prop": "C17", "rule": "net_notice_id", "msg": "call %d: the net-updated notice of observer %d carries %s" % (ci, ev[1], ev[3])})
                break
        for ev in c["out"]:
            if ev[0] in ("LOG", "NET", "UPD") and ev[1] not in attached:
                out.append({"prop": "C17", "rule": "detached_receives", "msg": "call %d: observer %d is not attached but received %r" % (ci, ev[1], ev[:4])})
                break
    if run_finished(calls):
        # observers attached over the whole run: exactly one flagged entry, the last log entry, for the production task
        for o in set(attached):
            fl = flagged.get(o, [])
            all_logs = [(ci, ev) for ci, c in enumerate(calls) for ev in c["out"] if ev[0] == "LOG" and ev[1] == o]
            fin_call = max(ci for ci, c in enumerate(calls) if any(ev[0] == "INV" and ev[1] == "tf" and ev[6] is None for ev in c["out"]))
            att_call = [ci for ci, c in enumerate(calls) if c["op"]["op"] == "attach" and c["op"]["o"] == o]
            if att_call and max(att_call) > fin_call:
                continue
            if len(fl) != attached.count(o):
                out.append({"prop": "C17", "rule": "flag_once", "msg": "observer %d received %d entries with the order-finished flag" % (o, len(fl))})
            elif all_logs and not all_logs[-1][1][-1]:
                out.append({"prop": "C17", "rule": "flag_last", "msg": "observer %d: the flagged entry is not the last log entry" % o})
            elif fl and not (fl[0][1][2] == "Task" and fl[0][1][3] == START_TASK and fl[0][1][5] == "finished"):
                out.append({"prop": "C17", "rule": "flag_entity", "msg": "observer %d: flagged entry is %r" % (o, fl[0][1])})
    stats["log_entries"] = nlogs
    return out
