"""Checks of the text/expression properties (filled in later)."""
PROPS = {}


def run(ctx):
    raise NotImplementedError
