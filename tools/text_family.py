"""Checks of the text-level properties C12 (parsed model = source text) and C13 (expression semantics)."""
import contextlib
import copy
import hashlib
import io
import json
import multiprocessing as mp
import os
import random
import re
import shutil
import signal
import tempfile
from fractions import Fraction

import findings
import progs
import syntax_tie
from sched_family import run_model, _init_worker, CaseTimeout, _alarm

HERE = os.path.dirname(os.path.abspath(__file__))
VERIF = os.path.abspath(os.path.join(HERE, ".."))
PROPS = {"C12", "C13"}

# ---------------------------------------------------------------------------------------------
# C13: surface expressions with their ordinary reading

ARITH = ["+", "-", "*", "/"]
CMP = ["<", "<=", ">", ">=", "==", "!="]
RANK = {"Or": 1, "And": 2, "<": 3, "<=": 3, ">": 3, ">=": 3, "==": 3, "!=": 3, "+": 4, "-": 4, "*": 5, "/": 5}
# m.name / m.context: fields named like members of the Python objects that carry the values (Struct.name, Struct.context)
NUM_ATTRS = [["r", "n"], ["r", "m", "n"], ["r", "k"], ["r", "m", "name"]]
BOOL_ATTRS = [["r", "b"], ["r", "m", "b"], ["r", "m", "context"]]
NUM_LITS = [0, 1, 2, 3, 4, 8, 0.5, 1.5, 2.25]
VALUES = [0, 1, 2, 3, -1, -2, Fraction(1, 2), Fraction(-1, 2), Fraction(3, 2), 4, 8]
POW2 = [1, 2, -2, 4, Fraction(1, 2), -1, 8]


def gen_num(rng, depth):
    """surface AST: ("num", lit) | ("path", p) | ("neglit", lit) | ("bin", op, l, r) | ("paren", e)"""
    if depth <= 0 or rng.random() < 0.35:
        r = rng.random()
        if r < 0.55:
            return ("path", rng.choice(NUM_ATTRS))
        if r < 0.9:
            return ("num", rng.choice(NUM_LITS))
        return ("neglit", rng.choice([1, 2, 0.5]))
    if rng.random() < 0.12:
        # a chain with two literals behind a variable: x - 1 - 1 is (x - 1) - 1
        op = rng.choice(["-", "-", "+", "*"])
        c1, c2 = ("num", rng.choice([1, 2, 0.5, 3])), ("num", rng.choice([1, 2, 0.5, 4]))
        return ("bin", op, ("bin", op, ("path", rng.choice(NUM_ATTRS)), c1), c2)
    op = rng.choice(["+", "-", "*", "/", "+", "-", "*"])
    l, r = gen_num(rng, depth - 1), gen_num(rng, depth - 1)
    if op == "*" and rng.random() < 0.12:
        # the shape of finding K10: a product whose left operand is an unparenthesised quotient
        l = ("bin", "/", gen_num(rng, 0), ("num", rng.choice([1, 2, 4, 0.5, 8])))
    if op == "/":
        # divisors: literals that are powers of two (exact in binary floating point, never zero)
        r = ("num", rng.choice([1, 2, 4, 0.5, 8]))
    e = ("bin", op, l, r)
    if rng.random() < 0.15:
        e = ("paren", e)
    return e


def gen_bool(rng, depth):
    r = rng.random()
    if depth <= 0 or r < 0.2:
        return ("path", rng.choice(BOOL_ATTRS)) if rng.random() < 0.8 else ("bool", rng.random() < 0.5)
    if r < 0.55:
        op = rng.choice(CMP)
        if rng.random() < 0.07:
            # two comparisons in a row without parentheses (accepted by the validator: a truth value counts as a number
            # there): operators of equal rank associate to the left, `0 < x < 10` is `(0 < x) < 10`
            op2 = rng.choice(["<", "<=", ">", ">="])
            # ("chain": the left comparison is written without parentheses)
            return ("bin", op2, ("bin", rng.choice(["<", "<=", ">", ">="]), gen_num(rng, 0), gen_num(rng, 0)), gen_num(rng, 0), "chain")
        if op in ("==", "!=") and rng.random() < 0.3:
            return ("bin", op, gen_bool(rng, 0), gen_bool(rng, 0))
        return ("bin", op, gen_num(rng, depth - 1), gen_num(rng, depth - 1))
    if r < 0.68:
        return ("not", gen_bool(rng, depth - 1))
    op = rng.choice(["And", "Or"])
    e = ("bin", op, gen_bool(rng, depth - 1), gen_bool(rng, depth - 1))
    if rng.random() < 0.15:
        e = ("paren", e)
    return e


def rank_of(e):
    if e[0] == "bin":
        return RANK[e[1]]
    if e[0] == "not":
        return 2.5  # printed always with a parenthesised / atomic operand, and parenthesised itself as an operand
    return 9


def lit_text(v):
    if isinstance(v, bool):
        return "true" if v else "false"
    return repr(v)


def print_min(e, tight=False):
    """text with the minimal parentheses the ORDINARY precedence needs (equal rank: left-associative)"""
    k = e[0]
    if k == "num":
        return lit_text(e[1])
    if k == "neglit":
        return "-" + lit_text(e[1])
    if k == "bool":
        return lit_text(e[1])
    if k == "path":
        return ".".join(e[1])
    if k == "paren":
        return "(" + print_min(e[1], tight) + ")"
    if k == "not":
        inner = e[1]
        t = print_min(inner, tight)
        if inner[0] in ("bin", "not", "neglit"):
            t = "(" + t + ")"
        return "!" + t
    op, l, r = e[1], e[2], e[3]
    lt, rt = print_min(l, tight), print_min(r, tight)
    rk = RANK[op]
    if (l[0] == "not" and rk >= 3) or (l[0] == "bin" and RANK[l[1]] < rk) or (l[0] == "bin" and RANK[l[1]] == 3 and rk == 3 and not (len(e) > 4 and e[4] == "chain")):
        lt = "(" + lt + ")"
    if r[0] == "not" and rk >= 3:
        rt = "(" + rt + ")"
    if r[0] == "bin" and (RANK[r[1]] <= rk if rk != 3 else RANK[r[1]] <= 3):
        rt = "(" + rt + ")"
    if r[0] == "neglit" and op in ("-", "+") and tight:
        rt = "(" + rt + ")"
    sep = "" if (tight and op not in ("And", "Or")) else " "
    return lt + sep + op + sep + rt


def explicit_tree(e, tight, counter):
    """the ordinary reading of print_min(e): the tree with a parenthesis node wherever print_min writes parentheses,
    leaves replaced by ["#i"] (in order) - in the visitor's tree format"""
    k = e[0]

    def par(t):
        return {"left": "(", "binOp": t, "right": ")"}

    if k in ("num", "neglit", "bool", "path"):
        counter[0] += 1
        return ["#%d" % (counter[0] - 1)]
    if k == "paren":
        return par(explicit_tree(e[1], tight, counter))
    if k == "not":
        inner = e[1]
        t = explicit_tree(inner, tight, counter)
        if inner[0] in ("bin", "not", "neglit"):
            t = par(t)
        return {"unOp": "!", "value": t}
    op, l, r = e[1], e[2], e[3]
    rk = RANK[op]
    lt = explicit_tree(l, tight, counter)
    if (l[0] == "not" and rk >= 3) or (l[0] == "bin" and RANK[l[1]] < rk) or (l[0] == "bin" and RANK[l[1]] == 3 and rk == 3 and not (len(e) > 4 and e[4] == "chain")):
        lt = par(lt)
    rt = explicit_tree(r, tight, counter)
    if r[0] == "not" and rk >= 3:
        rt = par(rt)
    if r[0] == "bin" and (RANK[r[1]] <= rk if rk != 3 else RANK[r[1]] <= 3):
        rt = par(rt)
    if r[0] == "neglit" and op in ("-", "+") and tight:
        rt = par(rt)
    return {"binOp": op, "left": lt, "right": rt}


def print_full(e):
    k = e[0]
    if k in ("num", "neglit", "bool", "path"):
        return print_min(e)
    if k == "paren":
        return "(" + print_full(e[1]) + ")"
    if k == "not":
        return "!(" + print_full(e[1]) + ")"
    return "(" + print_full(e[2]) + ") " + e[1] + " (" + print_full(e[3]) + ")"


def k10_shape(e):
    """a `*` whose left operand is an unparenthesised `/` (the grammar ranks `*` above `/`: finding K10)"""
    k = e[0]
    if k == "bin":
        if e[1] == "*" and e[2][0] == "bin" and e[2][1] == "/":
            return True
        # also (a / b) nested further left in a product chain: a / b * c * d
        if e[1] == "*" and e[2][0] == "bin" and e[2][1] == "*" and k10_shape(e[2]):
            return True
        return k10_shape(e[2]) or k10_shape(e[3])
    if k in ("paren", "not"):
        return k10_shape(e[1])
    return False


def value_of(v, p):
    for a in p[1:]:
        v = v[a]
    return v


def denote(e, val):
    """ordinary arithmetic / comparison / boolean semantics over exact rationals; val: {"r": {...}}"""
    k = e[0]
    if k == "num":
        return Fraction(e[1])
    if k == "neglit":
        return -Fraction(e[1])
    if k == "bool":
        return e[1]
    if k == "path":
        return value_of(val[e[1][0]], e[1])
    if k == "paren":
        return denote(e[1], val)
    if k == "not":
        return not denote(e[1], val)
    op = e[1]
    a, b = denote(e[2], val), denote(e[3], val)
    if op == "+":
        return a + b
    if op == "-":
        return a - b
    if op == "*":
        return a * b
    if op == "/":
        return Fraction(a) / Fraction(b)
    if op == "<":
        return a < b
    if op == "<=":
        return a <= b
    if op == ">":
        return a > b
    if op == ">=":
        return a >= b
    if op == "==":
        return a == b
    if op == "!=":
        return a != b
    if op == "And":
        return a and b
    if op == "Or":
        return a or b
    raise ValueError(op)


def gen_valuation(rng):
    def num():
        return rng.choice(VALUES)

    return {"r": {"n": num(), "k": num(), "b": rng.random() < 0.5,
                  "m": {"n": num(), "b": rng.random() < 0.5, "name": num(), "context": rng.random() < 0.5}}}


def val_json(v):
    if isinstance(v, dict):
        return {k: val_json(x) for k, x in v.items()}
    if isinstance(v, bool):
        return v
    f = Fraction(v)
    return {"q": [f.numerator, f.denominator]}


def small_enough(e, val):
    """all intermediate values stay small dyadic rationals (exact in floating point)"""
    try:
        def walk(x):
            k = x[0]
            if k in ("paren", "not"):
                walk(x[1])
            elif k == "bin":
                walk(x[2])
                walk(x[3])
            v = denote(x, val)
            if isinstance(v, Fraction):
                d = v.denominator
                if d & (d - 1) or d > 2 ** 20 or abs(v.numerator) > 2 ** 30:
                    raise OverflowError
        walk(e)
        return True
    except (OverflowError, ZeroDivisionError):
        return False


HDR = "Struct M\n    n: number\n    b: boolean\n    name: number\n    context: boolean\nEnd\nStruct R\n    n: number\n    k: number\n    b: boolean\n    m: M\nEnd\n"


def program_for(text, kind):
    if kind == "par2":
        # two instances of one task are started by the same event; each decides on ITS value of r
        lit = '{"n": 1, "k": 1, "b": true, "m": {"n": 1, "b": true, "name": 1, "context": true}}'
        return (HDR + "Task productionTask\n    Parallel\n        t\n            In\n                R\n                    " + lit +
                "\n        t\n            In\n                R\n                    " + lit +
                "\nEnd\nTask t\n    In\n        r: R\n    Condition\n        " + text + "\n    Passed\n        Yes\n    Failed\n        No\nEnd\n")
    if kind == "par2w":
        # the same with a while loop: the guard object is shared by both instances of the task, each decides on ITS value
        lit = '{"n": 1, "k": 1, "b": true, "m": {"n": 1, "b": true, "name": 1, "context": true}}'
        return (HDR + "Task productionTask\n    Parallel\n        t\n            In\n                R\n                    " + lit +
                "\n        t\n            In\n                R\n                    " + lit +
                "\nEnd\nTask t\n    In\n        r: R\n    Loop While " + text + "\n        Yes\n    No\nEnd\n")
    if kind == "cond":
        return HDR + "Task productionTask\n    G\n        Out\n            r: R\n    Condition\n        " + text + "\n    Passed\n        Yes\n    Failed\n        No\nEnd\n"
    return HDR + "Task productionTask\n    G\n        Out\n            r: R\n    Loop While " + text + "\n        Yes\n    No\nEnd\n"


def job_expr(args):
    """one expression: text (minimal and full parentheses, tight/spaced) through the real parser, visitor tree,
    decision of the real scheduler for several valuations; reference: ordinary semantics of the generating AST"""
    import impl
    from pfdl_scheduler.utils.parsing_utils import parse_string

    seed, depth = args
    rng = random.Random(seed)
    signal.signal(signal.SIGALRM, _alarm)
    signal.alarm(120)
    try:
        for _ in range(50):
            if rng.random() < 0.15:
                # a number as the whole condition / guard: non-zero (also negative, fractional) is true
                e = gen_num(rng, rng.randint(0, depth))
                if e[0] in ("num", "neglit"):
                    continue
                break
            e = gen_bool(rng, depth)
            if e[0] in ("path", "bool"):
                continue
            break
        kind = rng.choice(["cond", "cond", "while", "par2", "par2w"])
        tight = rng.random() < 0.3
        texts = [("min", print_min(e, tight)), ("full", print_full(e))]
        out = {"seed": seed, "ast": e, "kind": kind, "k10": k10_shape(e), "variants": []}
        vals = []
        for _ in range(6):
            v = gen_valuation(rng)
            if small_enough(e, v):
                vals.append(v)
        for label, text in texts:
            prog = program_for(text, kind)
            buf = io.StringIO()
            rec = {"label": label, "text": text}
            try:
                with contextlib.redirect_stdout(buf):
                    valid, process = parse_string(prog)
            except Exception as ex:  # noqa: BLE001
                rec["exc"] = type(ex).__name__
                out["variants"].append(rec)
                continue
            rec["valid"] = valid
            rec["out"] = buf.getvalue()[:300]
            if valid:
                st = process.tasks["t"].statements[0] if kind in ("par2", "par2w") else process.tasks["productionTask"].statements[1]
                rec["tree"] = tree_json(st.expression)
                toks = expr_tokens(text)
                n_atoms = 0
                for tk in toks:
                    if isinstance(tk, dict) and "atom" in tk:
                        tk["atom"] = ["#%d" % n_atoms]
                        n_atoms += 1
                rec["tokens"] = toks
                cnt = [0]
                rec["indexed"] = index_leaves(rec["tree"], cnt)
                rec["n_atoms"] = [n_atoms, cnt[0]]
                if label == "min":
                    rec["surface"] = explicit_tree(e, tight, [0])
                decs = []
                if kind in ("par2", "par2w"):
                    for i, v in enumerate(vals):
                        decs.append(decide_par2(impl, prog, v, vals[(i + 1) % len(vals)]))
                else:
                    for v in vals:
                        decs.append(decide_with_scheduler(impl, prog, v, kind))
                rec["decisions"] = decs
            out["variants"].append(rec)
        out["vals"] = [val_json(v) for v in vals]
        if kind in ("par2", "par2w"):
            out["expected"] = [[bool(denote(e, v)), bool(denote(e, vals[(i + 1) % len(vals)]))] for i, v in enumerate(vals)]
        else:
            out["expected"] = [bool(denote(e, v)) for v in vals]
        signal.alarm(0)
        return out
    except CaseTimeout:
        return {"seed": seed, "timeout": True, "variants": []}
    finally:
        signal.alarm(0)


def expr_tokens(text):
    """the real lexer's tokens of an expression, grouped as the `expression` rule sees them"""
    from antlr4 import InputStream
    from pfdl_scheduler.parser.PFDLLexer import PFDLLexer as L

    lexer = L(InputStream(text))
    lexer.removeErrorListeners()
    ops = {L.STAR, L.SLASH, L.PLUS, L.LESS_THAN, L.LESS_THAN_OR_EQUAL, L.GREATER_THAN, L.GREATER_THAN_OR_EQUAL,
           L.EQUAL, L.NOT_EQUAL, L.BOOLEAN_AND, L.BOOLEAN_OR}
    out = []
    t = lexer.nextToken()
    while t.type != -1:
        if t.type in (L.NL, L.INDENT, L.DEDENT):
            pass
        elif t.type == L.LEFT_PARENTHESIS:
            out.append("(")
        elif t.type == L.RIGHT_PARENTHESIS:
            out.append(")")
        elif t.type == L.BOOLEAN_NOT:
            out.append("!")
        elif t.type in ops:
            out.append({"op": t.text})
        elif t.type == L.MINUS and out and (out[-1] == ")" or (isinstance(out[-1], dict) and "atom" in out[-1])):
            out.append({"op": "-"})
        else:
            if out and isinstance(out[-1], dict) and "atom" in out[-1] and not out[-1].get("closed"):
                out[-1]["atom"] += t.text
            else:
                out.append({"atom": t.text})
        t = lexer.nextToken()
    return out


def index_leaves(tree, counter):
    """the visitor tree with its leaves replaced by ["#i"] (in order)"""
    if isinstance(tree, dict):
        if "unOp" in tree:
            return {"unOp": tree["unOp"], "value": index_leaves(tree["value"], counter)}
        if tree.get("left") == "(" and tree.get("right") == ")":
            return {"left": "(", "binOp": index_leaves(tree["binOp"], counter), "right": ")"}
        l = index_leaves(tree["left"], counter)
        r = index_leaves(tree["right"], counter)
        return {"binOp": tree["binOp"], "left": l, "right": r}
    counter[0] += 1
    return ["#%d" % (counter[0] - 1)]


def tree_json(x):
    if isinstance(x, dict):
        return {k: tree_json(v) for k, v in x.items()}
    if isinstance(x, list):
        return [tree_json(v) for v in x]
    return x


def decide_par2(impl, prog, val_a, val_b):
    """two task instances started by one event, the execution engine holds a different value of r for each:
    returns [decision of the first instance, decision of the second]"""
    va, vb = val_json(val_a)["r"], val_json(val_b)["r"]

    def answers(name, ctx):
        # test ids: the production task is '0', the two instances of t are '1' and '2'
        return va if (ctx is not None and ctx.uuid == "1") else vb

    run = impl.Run(prog, ids="test", answers=answers)
    if run.s is None or not run.valid:
        return "invalid"
    for k in ("ts", "ss", "sf", "tf"):
        run.register(k, 0)
    c = run.start()
    if c.get("exc"):
        return "exc:" + c["exc"]
    by_ctx = {}
    for cc in run.calls:
        for e in cc["out"]:
            if e[0] == "INV" and e[1] == "ss" and e[2] == 0:
                by_ctx.setdefault(e[6], e[3] == "Yes")
    if "1" not in by_ctx or "2" not in by_ctx:
        return "none"
    return [by_ctx["1"], by_ctx["2"]]


def decide_with_scheduler(impl, prog, val, kind):
    """which service starts after the guard: 'Yes' (true) or 'No' (false); exceptions are reported"""
    vj = val_json(val)["r"]
    started = []
    run = impl.Run(prog, ids="test", answers=lambda name, ctx: vj)
    if run.s is None or not run.valid:
        return "invalid"
    for k in ("ts", "ss", "sf", "tf"):
        run.register(k, 0)
    c = run.start()
    if c.get("exc"):
        return "exc:" + c["exc"]
    c = run.complete(0)  # G
    if c.get("exc"):
        return "exc:" + c["exc"]
    names = [e[3] for cc in run.calls for e in cc["out"] if e[0] == "INV" and e[1] == "ss" and e[2] == 0]
    if len(names) < 2:
        return "none"
    return names[1] == "Yes"


# ---------------------------------------------------------------------------------------------
# C12


def add_twin_literals(vgen, prog, rng):
    """two struct definitions with the same attributes and, in one service call, a literal of each with the same
    value (the model must keep them apart: each literal carries the name written in front of it)"""
    S = vgen.struct_table(prog)
    svcs = [node for _t, _ti, node, _ref, role, _lv in vgen.task_nodes(prog) if role == "stmt" and node["k"] == "svc"]
    if not svcs or not prog["structs"]:
        return False
    lits = [p for node in svcs for p in (node.get("ins") or []) if isinstance(p, dict) and "lit" in p]
    if lits and rng.random() < 0.7:
        src = rng.choice(lits)
        name, value = src["lit"], copy.deepcopy(src["json"])
    else:
        st = rng.choice(prog["structs"])
        name, value = st["name"], vgen.build_value(st["name"], S, rng.randrange(4))
    attrs = next(st["attrs"] for st in prog["structs"] if st["name"] == name)
    twin = vgen.fresh_name(prog, name + "Twin")
    prog["structs"].append({"name": twin, "attrs": [list(a) for a in attrs]})
    svc = rng.choice(svcs)
    ins = list(svc.get("ins") or [])
    pos = rng.randrange(len(ins) + 1)
    ins.insert(pos, {"lit": twin, "json": copy.deepcopy(value)})
    ins.insert(rng.randrange(len(ins) + 1), {"lit": name, "json": copy.deepcopy(value)})
    svc["ins"] = ins
    return True


def vgen_selftest_first_difference(a, b):
    import vgen_selftest

    return vgen_selftest.first_difference(a, b)


def job_c12(args):
    """a well-formed program in several layouts: the parsed Process must equal the generating AST; the denter's
    block structure is compared with the Lean denter model; illegal characters must be rejected"""
    import vgen
    import vgen_selftest
    import valid_family as vf
    from pfdl_scheduler.utils.parsing_utils import parse_string

    seed, size = args
    rng = random.Random(seed)
    signal.signal(signal.SIGALRM, _alarm)
    signal.alarm(180)
    out = {"seed": seed, "layouts": [], "illegal": [], "denter": []}
    try:
        prog = vf.gen_wf(rng, size)
        if rng.random() < 0.4:
            out["twin"] = add_twin_literals(vgen, prog, rng)
        base_model = None
        for li in range(4):
            lay = None if li == 0 else vgen.random_layout(rng)
            p = copy.deepcopy(prog)
            text = vgen.print_program(p, lay)
            if li > 1 and rng.random() < 0.5:
                nl = "\r\n" if "\r\n" in text else "\n"
                text = "".join(rng.choice([nl, "# header comment" + nl, "   " + nl]) for _ in range(rng.randint(1, 4))) + text
            buf = io.StringIO()
            rec = {"layout": lay, "text": text}
            try:
                with contextlib.redirect_stdout(buf):
                    valid, process = parse_string(text)
            except Exception as ex:  # noqa: BLE001
                rec["exc"] = type(ex).__name__
                out["layouts"].append(rec)
                continue
            rec["valid"] = valid
            rec["out"] = buf.getvalue()[:300]
            if process is not None:
                canon = None
                try:
                    canon = vgen_selftest.model_canon(process)
                    d = vgen_selftest.first_difference(canon, vgen_selftest.ast_canon(p))
                    diffs = [d] if d else []
                except Exception as ex:  # noqa: BLE001
                    diffs = ["comparison failed: %s %s" % (type(ex).__name__, ex)]
                rec["diffs"] = diffs[:5]
                if base_model is None:
                    base_model = canon
                elif canon is not None and canon != base_model:
                    rec["diffs"] = (rec.get("diffs") or []) + ["model differs between layouts"]
            rec["denter"] = denter_case(text)
            if process is not None and valid:
                # the statement-level grammar model: the real token stream and what the real visitor made of it
                try:
                    tk = syntax_tie.syntax_tokens(text)
                    if tk is not None:
                        impl_syn, leaves = syntax_tie.process_syntax(process)
                        rec["syn"] = {"toks": tk[0], "impl": impl_syn, "leaves": syntax_tie.leaves_agree(tk[1], leaves)}
                    else:
                        rec["syn"] = {"skipped": True}
                except Exception as ex:  # noqa: BLE001
                    rec["syn"] = {"failed": "%s %s" % (type(ex).__name__, ex)}
            out["layouts"].append(rec)
        # illegal characters: single insertions at random positions outside strings and comments
        p = copy.deepcopy(prog)
        text = vgen.print_program(p, None)
        lead = rng.random() < 0.5
        if lead:
            text = "".join(rng.choice(["\n", "# header comment\n", "   \n"]) for _ in range(rng.randint(1, 4))) + text
        first = len(text) - len(text.lstrip("\n"))
        m = re.match(r"(?:[ \t]*(?:#[^\n]*)?\n)*", text)
        head = m.end() if m else 0
        for n_ins in range(10):
            pos = rng.randrange(len(text) + 1)
            if lead and head > 0 and n_ins < 4:
                pos = rng.randrange(head + 1)  # in the blank / comment lines before the first definition
            ch = rng.choice(ILLEGAL)
            line_start = text.rfind("\n", 0, pos) + 1
            line = text[line_start: text.find("\n", pos) if text.find("\n", pos) >= 0 else len(text)]
            col = pos - line_start
            if "#" in line[:col] or line[:col].count('"') % 2 == 1:
                continue  # inside a comment or a string
            t2 = text[:pos] + ch + text[pos:]
            buf = io.StringIO()
            try:
                with contextlib.redirect_stdout(buf):
                    valid, _ = parse_string(t2)
                out["illegal"].append({"pos": pos, "ch": ch, "valid": valid, "out": buf.getvalue()[:120], "text": t2 if valid else None})
            except Exception as ex:  # noqa: BLE001
                out["illegal"].append({"pos": pos, "ch": ch, "exc": type(ex).__name__, "text": t2})
            if n_ins % 4 == 1:
                # the same text as a FILE in a legacy code page: the byte is no valid UTF-8; whatever the loader does
                # with it (it raises on the pinned tree), the program is not accepted as if the byte were not there
                lch = rng.choice(["\xe4", "\xa7", "\xb0", "\xa3", "\xdf"])
                data = (text[:pos]).encode("utf-8") + lch.encode("latin-1") + (text[pos:]).encode("utf-8")
                path = os.path.join(os.getcwd(), "legacy_%d.pfdl" % os.getpid())
                with open(path, "wb") as fh:
                    fh.write(data)
                buf = io.StringIO()
                try:
                    from pfdl_scheduler.utils.parsing_utils import parse_program
                    with contextlib.redirect_stdout(buf):
                        rr = parse_program(path)
                    if rr[0]:
                        out["illegal"].append({"pos": pos, "ch": "byte 0x%02x (file, not UTF-8)" % ord(lch), "valid": True,
                                               "out": buf.getvalue()[:120], "text": data.decode("latin-1")})
                    else:
                        out["illegal"].append({"pos": pos, "ch": "byte", "valid": False, "out": buf.getvalue()[:120], "text": None})
                except Exception:  # noqa: BLE001
                    out["illegal"].append({"pos": pos, "ch": "byte", "valid": False, "out": "raised", "text": None})
                finally:
                    try:
                        os.remove(path)
                    except OSError:
                        pass
        signal.alarm(0)
        return out
    except CaseTimeout:
        out["timeout"] = True
        return out
    finally:
        signal.alarm(0)


def job_c12_mutants(args):
    """token- and character-level mutations of a well-formed text: the generated parser (lexer + denter + PFDLParser)
    reads the text without a syntax error iff the statement-level model reads its token stream"""
    import vgen
    import valid_family as vf

    seed, size = args
    rng = random.Random(seed)
    signal.signal(signal.SIGALRM, _alarm)
    signal.alarm(120)
    out = {"seed": seed, "cases": []}
    try:
        prog = vf.gen_wf(rng, size)
        text = vgen.print_program(copy.deepcopy(prog), vgen.random_layout(rng) if rng.random() < 0.5 else None)
        for _ in range(5):
            kind, t2 = vf.mutate_text(rng, text)
            if kind in ("huge_number", "deep_parens", "identity") or len(t2) > 12000:
                continue
            try:
                tk = syntax_tie.syntax_tokens(t2)
                if tk is None:
                    out["cases"].append({"kind": kind, "skipped": True})
                    continue
                a = syntax_tie.antlr_accepts(t2)
            except RecursionError:
                continue
            out["cases"].append({"kind": kind, "text": t2, "toks": tk[0], "antlr": a})
        signal.alarm(0)
        return out
    except CaseTimeout:
        out["timeout"] = True
        return out
    finally:
        signal.alarm(0)


def job_c12_types(args):
    """directed: array types with every written length (0, 1, 2, 10, none) as struct attribute, task input, call
    output: the model must carry the length as written"""
    import vgen
    import vgen_selftest
    from pfdl_scheduler.utils.parsing_utils import parse_string

    seed, = args
    rng = random.Random(seed)
    lens = ["[0]", "[1]", "[2]", "[10]", "[]", ""]
    elem = rng.choice(["number", "string", "boolean", "S0"])
    l1, l2, l3 = rng.choice(lens), rng.choice(lens), rng.choice(lens)
    prog = {"structs": [{"name": "S0", "attrs": [["k", "number"]]},
                        {"name": "S", "attrs": [["a", elem + l1], ["b", "number" + rng.choice(lens)]]}],
            "tasks": [{"name": "productionTask", "ins": [], "outs": [], "body": [
                {"k": "svc", "name": "Get", "ins": [], "outs": [["x", elem + l2], ["s", "S" + l3]]},
                {"k": "call", "name": "other", "ins": ["x"], "outs": []}]},
                {"name": "other", "ins": [["v", elem + l2]], "outs": [], "body": [{"k": "svc", "name": "Use", "ins": ["v"], "outs": []}]}]}
    text = vgen.print_program(copy.deepcopy(prog), None)
    if rng.random() < 0.35:
        # a NAME as array length: the grammar lets it through, the model cannot carry it (length -1 would mean "no length
        # given"): such a text is not accepted
        p2 = copy.deepcopy(prog)
        nm = rng.choice(["[n]", "[count]", "[len]"])
        where = rng.choice(["attr", "in", "out"])
        if where == "attr":
            p2["structs"][1]["attrs"][0][1] = elem + nm
        elif where == "in":
            p2["tasks"][1]["ins"][0][1] = elem + nm
        else:
            p2["tasks"][0]["body"][0]["outs"][0][1] = elem + nm
        text2 = vgen.print_program(p2, None)
        buf2 = io.StringIO()
        try:
            with contextlib.redirect_stdout(buf2):
                valid2, process2 = parse_string(text2)
            if valid2:
                return {"seed": seed, "text": text2, "problem": "a name as array length (%s, %s) is accepted: the model cannot carry it" % (nm, where)}
        except Exception as ex:  # noqa: BLE001
            return {"seed": seed, "text": text2, "problem": "raised %s" % type(ex).__name__}
    buf = io.StringIO()
    try:
        with contextlib.redirect_stdout(buf):
            valid, process = parse_string(text)
    except Exception as ex:  # noqa: BLE001
        return {"seed": seed, "text": text, "problem": "raised %s" % type(ex).__name__}
    if process is None:
        return {"seed": seed, "text": text, "problem": "syntax error: " + buf.getvalue()[:120]}
    d = vgen_selftest.first_difference(vgen_selftest.model_canon(process), vgen_selftest.ast_canon(prog))
    return {"seed": seed, "text": text, "problem": d}


ILLEGAL = ["§", "$", "@", "~", "^", "%", "&", "|", "?", "\\", "`", "'", ";", "ä", "€", "\x0b", "\x7f"]


def denter_case(text):
    """the real lexer+denter's INDENT / DEDENT / NL pattern, and the input of the Lean denter model:
    the indentation of every NL token the lexer produced (blanks after the line break), in order"""
    from antlr4 import InputStream
    from pfdl_scheduler.parser.PFDLLexer import PFDLLexer

    lexer = PFDLLexer(InputStream(text))
    lexer.removeErrorListeners()
    toks = []
    raw_nl = []
    # raw NL tokens: pull from the lexer's super().nextToken through the denter's pull_token hook
    orig_pull = None
    out = []
    t = lexer.nextToken()
    n = 0
    while t.type != -1 and n < 100000:
        if t.type == PFDLLexer.INDENT:
            out.append("I")
        elif t.type == PFDLLexer.DEDENT:
            out.append("D")
        elif t.type == lexer.NL:
            out.append("N")
        else:
            out.append("t")
        t = lexer.nextToken()
        n += 1
    return {"pattern": re.sub(r"t+", "t", "".join(out))}


# ---------------------------------------------------------------------------------------------


def run(ctx):
    prop, tier, seed = ctx["prop"], ctx["tier"], ctx["seed"]
    base = tempfile.mkdtemp(prefix="pfdl_verif_")
    res = {"violations": [], "known": [], "unexplained": [], "notes": [], "coverage": {}, "assumptions": []}
    try:
        pool = mp.Pool(min(16, os.cpu_count() or 4), initializer=_init_worker, initargs=(base,))
        try:
            if prop == "C13":
                _run_c13(ctx, pool, res)
            else:
                _run_c12(ctx, pool, res)
        finally:
            pool.terminate()
            pool.join()
    finally:
        shutil.rmtree(base, ignore_errors=True)
    return res


def replay_obj(prop, rule, msg, payload):
    o = {"property": prop, "family": "text", "rule": rule, "message": msg,
         "how": "./check %s quick --replay <this file>" % prop}
    o.update(payload)
    return o


def _add(res, seen, prop, rule, msg, payload):
    if rule in seen:
        seen[rule] += 1
        return
    seen[rule] = 1
    res["violations"].append({"rule": rule, "msg": msg, "replay_obj": replay_obj(prop, rule, msg, payload)})


def expr_to_model(tree):
    return tree


def _run_c13(ctx, pool, res):
    prop, tier, seed = ctx["prop"], ctx["tier"], ctx["seed"]
    quick = tier == "quick"
    seen = {}
    if ctx.get("replay"):
        with open(ctx["replay"]) as f:
            obj = json.load(f)
        r = pool.apply(job_replay_expr, (obj,))
        for rule, msg in r:
            _add(res, seen, prop, rule, msg, {k: obj[k] for k in obj if k in ("text", "kind", "val", "expected")})
        res["coverage"] = {"evaluations": 1, "distinct_nontrivial": 0, "programs": 1, "samples": [obj.get("text")]}
        return
    # known findings
    for kf in findings.open_for(prop):
        obj = findings.load_replay(kf)
        if obj.get("family") != "text":
            continue
        r = pool.apply(job_replay_expr, (obj,))
        rules = [x for x, _ in r]
        if kf["rule"] in rules:
            res["known"].append("id=%s %s" % (kf["id"], kf["text"]))
        elif r:
            _add(res, seen, prop, r[0][0], "finding %s now fails differently: %s" % (kf["id"], r[0][1]), obj)
        else:
            res["notes"].append("finding %s no longer reproduces" % kf["id"])
    n = 400 if quick else 4000
    jobs = [(seed * 611953 + i, 2 + (i % 3)) for i in range(n)]
    results = pool.map(job_expr, jobs, chunksize=4)
    n_eval = 0
    distinct = set()
    nontrivial = set()
    ops_hist = {}
    model_reqs = []
    k10 = 0
    sample = None
    for r in results:
        if r.get("timeout") or not r.get("variants"):
            continue
        for v in r["variants"]:
            n_eval += 1
            key = hashlib.sha256((v["text"] + r["kind"]).encode()).hexdigest()
            distinct.add(key)
            if v.get("exc"):
                _add(res, seen, prop, "raises", "validation raised %s on a well-typed expression" % v["exc"], {"text": v["text"], "kind": r["kind"]})
                continue
            if not v.get("valid"):
                _add(res, seen, prop, "well_typed_rejected", "well-typed expression rejected: %s" % v.get("out", "")[:200], {"text": v["text"], "kind": r["kind"]})
                continue
            if sample is None:
                sample = {"text": v["text"], "tree": v["tree"], "expected": r["expected"][:3], "decisions": v["decisions"][:3]}
            if r["k10"] and v["label"] == "min":
                k10 += 1
                model_reqs.append((v, r))  # the parser model must read it like the parser does
                continue  # finding K10: its own replay
            if len(r["vals"]) >= 1:
                nontrivial.add(key)
            for val, exp, dec in zip(r["vals"], r["expected"], v["decisions"]):
                if dec != exp:
                    _add(res, seen, prop, "wrong_decision" if isinstance(dec, (bool, list)) else "decision_" + str(dec).replace(":", "_"),
                         "expression %r (%s, %s parentheses) with %s: the scheduler decides %r, ordinary semantics give %r"
                         % (v["text"], r["kind"], v["label"], json.dumps(val), dec, exp),
                         {"text": v["text"], "kind": r["kind"], "val": val, "expected": exp})
                    break
            model_reqs.append((v, r))
        for op in re.findall(r"And|Or|<=|>=|==|!=|[<>+\-*/!]", r["variants"][0]["text"]) if r["variants"] else []:
            ops_hist[op] = ops_hist.get(op, 0) + 1
    # correspondence: the Lean exec on the implementation's visitor tree must give the implementation's decisions
    disagreements = []
    n_surface = 0
    if ctx["model_ok"] and model_reqs:
        reqs = [{"k": "expr", "tree": v["tree"], "vals": [x["r"] for x in r["vals"]], "tokens": v["tokens"],
                 **({"surface": v["surface"]} if v.get("surface") is not None else {})} for v, r in model_reqs]
        resps = run_model(reqs)
        for (v, r), resp in zip(model_reqs, resps):
            if "error" in resp:
                disagreements.append((v["text"], "model error " + resp["error"]))
                continue
            if r["kind"] not in ("par2", "par2w") and resp.get("decisions") != [d if isinstance(d, bool) else None for d in v["decisions"]]:
                disagreements.append((v["text"], "decisions implementation %r / model %r" % (v["decisions"], resp.get("decisions"))))
            elif resp.get("parsed") != v["indexed"]:
                disagreements.append((v["text"], "tree: visitor %s / model parser %s" % (json.dumps(v["indexed"])[:200], json.dumps(resp.get("parsed"))[:200])))
            elif v.get("surface") is not None:
                # the generator's intended (ordinary) reading against the Lean ordinary table, its regrouping against
                # the grammar's table and against the visitor's tree
                n_surface += 1
                if not resp.get("surface_tokens_ok"):
                    disagreements.append((v["text"], "the tokens of the generator's reading differ from the lexer's tokens"))
                elif not resp.get("ord_canon"):
                    disagreements.append((v["text"], "the generator's reading is not canonical for the ordinary table of the Lean model"))
                elif resp.get("rot_gram_canon") != (not r["k10"]):
                    disagreements.append((v["text"], "regrouped ordinary reading canonical for the grammar: %r, K10 shape: %r" % (resp.get("rot_gram_canon"), r["k10"])))
                elif resp.get("rot_gram_canon") and resp.get("rot") != v["indexed"]:
                    disagreements.append((v["text"], "regrouped ordinary reading %s differs from the visitor's tree %s" % (json.dumps(resp.get("rot"))[:200], json.dumps(v["indexed"])[:200])))
    elif not ctx["model_ok"]:
        res["unexplained"].append({"what": "the Lean model does not build: " + "; ".join(ctx["build"].get("build_errors", [])[:3])})
    if disagreements and not res["violations"]:
        res["unexplained"].append({"what": "correspondence broken (expression evaluation model) on %d of %d expressions: %r %s"
                                           % (len(disagreements), len(model_reqs), disagreements[0][0], disagreements[0][1]),
                                   "case": {"text": disagreements[0][0]}, "detail": disagreements[0][1]})
    for v in res["violations"]:
        v["replay_obj"]["occurrences"] = seen.get(v["rule"])
    res["coverage"] = {
        "programs": len(distinct), "evaluations": n_eval, "distinct_nontrivial": len(nontrivial),
        "rule": "well-typed boolean expressions of depth <= 4 over number/boolean attribute paths, literals, all 12 binary operators, negation and parentheses, printed with the minimal parentheses of the ordinary precedence and fully parenthesised, as Condition and as While guard; each with up to 6 valuations over {0,+-1,+-2,3,4,8,+-1/2,3/2} (all intermediate values exactly representable); distinct by text; non-trivial: accepted and decided for >= 1 valuation; shapes of finding K10 (a*b after unparenthesised a/b) counted separately",
        "traces_validated_against_impl": len(model_reqs) if ctx["model_ok"] else 0,
        "disagreements_checked": len(disagreements), "operators": ops_hist, "k10_shapes_skipped": k10,
        "ordinary_readings_checked_against_lean_tables": n_surface,
        "known_findings_reproduced": len(res["known"]), "samples": [sample] if sample else [],
    }


def job_replay_expr(obj):
    import impl
    from pfdl_scheduler.utils.parsing_utils import parse_string

    prog = program_for(obj["text"], obj.get("kind", "cond"))
    out = []
    buf = io.StringIO()
    try:
        with contextlib.redirect_stdout(buf):
            valid, process = parse_string(prog)
    except Exception as ex:  # noqa: BLE001
        return [("raises", type(ex).__name__)]
    if not valid:
        return [("well_typed_rejected", buf.getvalue()[:200])]
    val = obj.get("val")
    if val is not None:
        if "r" in val and isinstance(val["r"], dict) and "q" not in val["r"]:
            val = val["r"]

        def unj(v):
            if isinstance(v, dict):
                if "q" in v:
                    return Fraction(v["q"][0], v["q"][1])
                return {k: unj(x) for k, x in v.items()}
            return v
        dec = decide_with_scheduler(impl, prog, {"r": unj(val)}, obj.get("kind", "cond"))
        if dec != obj.get("expected"):
            out.append((obj.get("rule", "wrong_decision"), "decides %r, expected %r" % (dec, obj.get("expected"))))
    return out


def _run_c12(ctx, pool, res):
    prop, tier, seed = ctx["prop"], ctx["tier"], ctx["seed"]
    quick = tier == "quick"
    seen = {}
    if ctx.get("replay"):
        with open(ctx["replay"]) as f:
            obj = json.load(f)
        r = pool.apply(job_replay_c12, (obj,))
        for rule, msg in r:
            _add(res, seen, prop, rule, msg, {"text": obj.get("text")})
        res["coverage"] = {"evaluations": 1, "distinct_nontrivial": 0, "programs": 1, "samples": [str(obj.get("text"))[:300]]}
        return
    n = 120 if quick else 1200
    results = pool.map(job_c12, [(seed * 49979687 + i, 3 if quick else 4) for i in range(n)], chunksize=2)
    n_eval = 0
    distinct = set()
    nontrivial = set()
    n_illegal = 0
    denter_reqs = []
    sample = None
    layout_hist = {}
    for r in results:
        for l in r["layouts"]:
            n_eval += 1
            key = hashlib.sha256(l["text"].encode()).hexdigest()
            distinct.add(key)
            for k2, v2 in (l.get("layout") or {"default": True}).items():
                if v2:
                    layout_hist[k2] = layout_hist.get(k2, 0) + 1
            if l.get("exc"):
                _add(res, seen, prop, "raises", "parsing a well-formed program raised %s" % l["exc"], {"text": l["text"]})
                continue
            if not l.get("valid"):
                _add(res, seen, prop, "layout_rejected", "a well-formed program in layout %r is rejected: %s" % (l.get("layout"), l.get("out", "")[:200]), {"text": l["text"]})
                continue
            nontrivial.add(key)
            if sample is None:
                sample = {"layout": l.get("layout"), "text": l["text"][:1200]}
            if l.get("diffs"):
                _add(res, seen, prop, "model_differs_from_text", "the parsed model differs from the source text (layout %r): %s" % (l.get("layout"), "; ".join(map(str, l["diffs"][:3]))), {"text": l["text"]})
            if l.get("denter"):
                denter_reqs.append((l["text"], l["denter"]["pattern"]))
        for ill in r["illegal"]:
            n_eval += 1
            n_illegal += 1
            if ill.get("exc"):
                _add(res, seen, prop, "illegal_char_raises", "an inserted %r makes validation raise %s" % (ill["ch"], ill["exc"]), {"text": ill["text"]})
            elif ill.get("valid"):
                _add(res, seen, prop, "illegal_char_accepted", "text with an inserted character outside the language (%r at offset %d) is accepted silently" % (ill["ch"], ill["pos"]), {"text": ill["text"]})
    # directed: array lengths as written
    ntypes = 0
    for r in pool.map(job_c12_types, [(seed * 13 + i,) for i in range(60 if quick else 600)], chunksize=4):
        ntypes += 1
        n_eval += 1
        if r.get("problem"):
            _add(res, seen, prop, "model_differs_from_text", "array type written with a length: " + str(r["problem"]), {"text": r["text"]})
    # correspondence with the Lean denter model: same INDENT / DEDENT / NL pattern
    disagreements = []
    # correspondence with the Lean grammar model (Syntax.lean): same model from the same token stream ...
    syn_reqs, syn_stats = [], {"compared": 0, "skipped": 0, "mutants": 0, "mutants_accepted": 0, "mutants_skipped": 0}
    for r in results:
        for l in r.get("layouts", []):
            sy = l.get("syn")
            if not sy:
                continue
            if sy.get("failed"):
                disagreements.append((l["text"], "token stream / visitor model could not be read: " + sy["failed"]))
            elif sy.get("skipped"):
                syn_stats["skipped"] += 1
            else:
                if sy.get("leaves"):
                    _add(res, seen, prop, "model_differs_from_text", "operands of the expressions: " + sy["leaves"], {"text": l["text"]})
                syn_reqs.append(("same", l["text"], sy))
    # ... and the same accept / reject verdict as the generated parser on mutated texts
    for r in pool.map(job_c12_mutants, [(seed * 17 + i, 2) for i in range(60 if quick else 600)], chunksize=2):
        for c in r.get("cases", []):
            n_eval += 1
            if c.get("skipped"):
                syn_stats["mutants_skipped"] += 1
            else:
                syn_reqs.append(("mutant", c["text"], c))
    if ctx["model_ok"] and syn_reqs:
        resps = run_model([{"k": "syntax", "toks": x[2]["toks"]} for x in syn_reqs])
        for (what, text, sy), resp in zip(syn_reqs, resps):
            if "error" in resp:
                disagreements.append((text, "grammar model error " + resp["error"][:200]))
            elif what == "same":
                syn_stats["compared"] += 1
                m = syntax_tie.model_syntax(resp)
                if m is None:
                    disagreements.append((text, "grammar model: the token stream of an accepted text is not read"))
                else:
                    d = vgen_selftest_first_difference(syntax_tie.typed(sy["impl"]), syntax_tie.typed(m))
                    if d:
                        disagreements.append((text, "grammar model vs visitor (implementation first): " + d))
            else:
                syn_stats["mutants"] += 1
                syn_stats["mutants_accepted"] += int(bool(resp.get("ok")))
                if bool(resp.get("ok")) != sy["antlr"]["parser_ok"]:
                    disagreements.append((text, "generated parser %s (%s), grammar model %s" % (
                        "accepts" if sy["antlr"]["parser_ok"] else "rejects", "; ".join(sy["antlr"]["msgs"][:2]), "accepts" if resp.get("ok") else "rejects")))
    if ctx["model_ok"] and denter_reqs:
        resps = run_model([{"k": "denter", "text": t} for t, _ in denter_reqs])
        for (t, pat), resp in zip(denter_reqs, resps):
            if "error" in resp:
                disagreements.append((t, "model error " + resp["error"]))
            elif resp.get("pattern") != pat:
                disagreements.append((t, "INDENT/DEDENT/NL pattern: implementation %s / model %s" % (pat[:120], str(resp.get("pattern"))[:120])))
    elif not ctx["model_ok"]:
        res["unexplained"].append({"what": "the Lean model does not build: " + "; ".join(ctx["build"].get("build_errors", [])[:3])})
    if disagreements and not res["violations"]:
        res["unexplained"].append({"what": "correspondence broken (lexer layout + denter model, grammar model) on %d of %d texts: %s" % (len(disagreements), len(denter_reqs) + len(syn_reqs), disagreements[0][1]),
                                   "case": {"text": disagreements[0][0]}, "detail": disagreements[0][1]})
    for v in res["violations"]:
        v["replay_obj"]["occurrences"] = seen.get(v["rule"])
    res["coverage"] = {
        "programs": len(distinct), "evaluations": n_eval, "distinct_nontrivial": len(nontrivial),
        "rule": "well-formed programs (tools/vgen.py) printed in the default and 3 random layouts (indent width 1..8 varying per block, comments, blank lines with and without blanks, trailing blanks, CRLF, missing final newline, 3 struct-literal placements, leading blank / comment lines); the parsed Process model compared field by field with the generating AST (strict types, source order); 10 single illegal-character insertions per program outside strings / comments; the token stream of the real lexer + denter of every accepted text is read by the Lean grammar model (Syntax.lean) and its answer compared with the Process object of the real visitor (definitions, statements, parameters, types, literals, expression trees, lines); on token- / character-level mutants the accept / reject verdict of the generated parser is compared with the model's; distinct by text; non-trivial: parsed and compared",
        "traces_validated_against_impl": (len(denter_reqs) + syn_stats["compared"] + syn_stats["mutants"]) if ctx["model_ok"] else 0,
        "disagreements_checked": len(disagreements), "illegal_insertions": n_illegal, "layout_features": layout_hist,
        "grammar_model": syn_stats,
        "samples": [sample] if sample else [],
    }


def job_replay_c12(obj):
    from pfdl_scheduler.utils.parsing_utils import parse_string

    text = obj.get("text", "")
    rule = obj.get("rule", "")
    buf = io.StringIO()
    try:
        with contextlib.redirect_stdout(buf):
            valid, process = parse_string(text)
    except Exception as ex:  # noqa: BLE001
        return [("raises", type(ex).__name__)]
    if rule == "illegal_char_accepted" and valid:
        return [(rule, "still accepted")]
    if rule == "layout_rejected" and not valid:
        return [(rule, buf.getvalue()[:200])]
    return []
