"""The tie of the net layer (lean/PfdlModel/Net.lean) to generator.py / logic.py / scheduler.py.

For a scheduling case the implementation is run (schedcase.run_impl) and the same case (program, answers,
re-entrancy bits, API history) is sent to the model's `net` request.  Compared:

  * the generated net itself, right after construction and at the end of the run: number of places, and per
    transition in creation (= scan) order its input / output places by creation index and its callbacks in
    registration order (kind, task / service name, in_loop flag, place / transition arguments);
  * per API call: return value, exception, running flag, awaited completions, every notification / variable
    query / nested report in order (proj_full), the marking by place index, "exactly one token in the final place".

`compare_case` returns None or a short description of the first difference.
"""
import json

import schedcase as sc


def net_request(case, valid=True):
    return {"k": "net", "prog": case["prog"], "answers": case["answers"],
            "terminator": case.get("terminator", sc.TERMINATOR), "imm": case["imm"],
            "imm_other": case.get("imm_other") or [], "imm_sf": case.get("imm_sf") or [],
            "ops": case["ops"], "valid": valid}


def applicable(case):
    """cases the net model covers: test ids (the model numbers instances), an engine that does not mutate what it
    is given, one scheduler (other schedulers of the process are no-ops in the model anyway)"""
    return case.get("ids", "test") == "test" and not case.get("mutate") and "ops" in case


def model_cb(cb, net):
    k = cb[0]
    if k in ("task_started", "task_finished"):
        t = net["tasks"][cb[1]]
        return [k, t[0], t[2]]
    if k in ("service_started", "service_finished"):
        t = net["svcs"][cb[1]]
        return [k, t[0], t[2]]
    if k in ("condition_started", "while_loop_started"):
        return [k, cb[1], cb[2]]
    if k == "counting_loop_started":
        return [k, cb[1], cb[2], cb[3]]
    if k == "parallel_loop_started":
        return [k, cb[1], cb[2], cb[3]]
    return cb


def canon_model_net(net):
    return {"places": [[bool(a), n] for a, n in net["places"]],
            "trans": [{"ins": sorted(t["ins"]), "outs": sorted(t["outs"]), "cbs": [model_cb(c, net) for c in t["cbs"]]}
                      for t in net["trans"]],
            "start": net["start"], "final": net["final"]}


def diff_net(impl_net, model_net, what):
    if impl_net is None:
        return None
    if "error" in impl_net:
        return "%s: the harness could not read the implementation's net: %s" % (what, impl_net["error"])
    m = canon_model_net(model_net)
    if len(impl_net["places"]) != len(m["places"]):
        return "%s: implementation has %d places, model %d" % (what, len(impl_net["places"]), len(m["places"]))
    if len(impl_net["trans"]) != len(m["trans"]):
        return "%s: implementation has %d transitions, model %d" % (what, len(impl_net["trans"]), len(m["trans"]))
    for k in ("start", "final"):
        if impl_net[k] != m[k]:
            return "%s: %s place: implementation %r model %r" % (what, k, impl_net[k], m[k])
    for i, (a, b) in enumerate(zip(impl_net["trans"], m["trans"])):
        for k in ("ins", "outs", "cbs"):
            if a[k] != b[k]:
                return "%s: transition %d %s: implementation %r model %r" % (what, i, k, a[k], b[k])
    for i, (a, b) in enumerate(zip(impl_net["places"], m["places"])):
        if a != b:
            return "%s: place %d [alive, tokens]: implementation %r model %r" % (what, i, a, b)
    return None


def canon_id(x):
    """identifiers that were never assigned by the scheduler (the uuid4 an API object is created with) are random in
    the implementation and numbered from 1000000 in the model: both become "uuid4" """
    if x is None:
        return None
    t = str(x)
    if not t.isdigit() or int(t) >= 1000000:
        return "uuid4"
    return t


def canon_ids(c):
    evs = []
    for e in c["out"]:
        e = list(e)
        if e[0] == "INV":
            e[5], e[6] = canon_id(e[5]), canon_id(e[6])
        elif e[0] == "VAR":
            e[2] = canon_id(e[2])
        elif e[0] in ("FIRE", "RET", "RETFALSE"):
            e[1] = canon_id(e[1])
        elif e[0] == "LOG" and len(e) > 4 and e[2] in ("Task", "Service"):
            e[4] = canon_id(e[4])
        evs.append(e)
    return dict(c, out=evs, awaited=[canon_id(i) for i in c["awaited"]])


def proj_call(c):
    c = canon_ids(c)
    return [c["op"]["op"], c["ret"], c["exc"], c["running"], c["awaited"], c.get("start_awaited"),
            [e for e in c["out"] if e[0] != "NET"], len([e for e in c["out"] if e[0] == "NET"]),
            c.get("marking"), c.get("final_marking")]


def canon_model_calls(resp):
    out = []
    for c in resp["calls"]:
        exc = c.get("exc")
        out.append({"op": c["op"], "ret": c["ret"], "out": c["out"], "running": c["running"], "awaited": c["awaited"],
                    "start_awaited": c["start_awaited"], "exc": exc, "marking": c.get("marking"),
                    "final_marking": c.get("final_marking"), "stuck": c.get("stuck")})
    return out


def compare_case(res, run, resp, structure=True):
    """res: result of run_impl; run: the impl.Run; resp: the model's answer"""
    net1 = None
    if structure and run is not None:
        try:
            net1 = run.net_structure()
        except Exception as ex:  # noqa: BLE001
            net1 = {"error": type(ex).__name__}
    return compare_calls(sc.canon_impl_calls(res), run.net0 if (structure and run is not None) else None, net1, resp)


def compare_calls(ic, net0, net1, resp, proj=None):
    """ic: canonical implementation calls; net0 / net1: the implementation's net after construction / at the end
    (None: not compared); proj: property projection applied to both sides in addition (None: everything)"""
    if "error" in resp:
        return "model error: " + resp["error"]
    if net0 is not None:
        d = diff_net(net0, resp["net0"], "net after construction")
        if d:
            return d
    mc = canon_model_calls(resp)
    if any(b.get("stuck") == "outOfFuel" for b in mc):
        return None  # never a verdict
    if proj is not None:
        n = min(len(ic), len(mc))
        raised = [i for i in range(n) if ic[i]["exc"] or mc[i]["exc"]]
        cut = raised[0] if raised else n
        if raised and bool(ic[cut]["exc"]) != bool(mc[cut]["exc"]):
            return "call %d (%s): implementation exc=%r, model exc=%r" % (cut, ic[cut]["op"]["op"], ic[cut]["exc"], mc[cut]["exc"])
        a = [c for c in ic[:cut] if c["op"]["op"] != "witness"]
        b = mc[:cut]
        pa, pb = proj(sc.rename_ids([canon_ids(c) for c in a])), proj(sc.rename_ids([canon_ids(c) for c in b]))
        if pa != pb:
            for i, (x, y) in enumerate(zip(pa, pb)):
                if x != y:
                    return "call %d: implementation %s / model %s" % (i, str(x)[:300], str(y)[:300])
            return "number of calls: implementation %d / model %d" % (len(pa), len(pb))
        if not raised and net1 is not None:
            return diff_net(net1, resp["net1"], "net at the end of the run")
        return None
    for i, (a, b) in enumerate(zip(ic, mc)):
        if b.get("stuck") == "outOfFuel":
            return None  # never a verdict
        if a["op"]["op"] in ("witness",):
            continue
        # the model has one exception class per cause; compare "raised or not"
        a2 = dict(a, exc=bool(a["exc"]))
        b2 = dict(b, exc=bool(b["exc"]))
        if a2["exc"] or b2["exc"]:
            if a2["exc"] != b2["exc"]:
                return "call %d (%s): implementation exc=%r, model exc=%r" % (i, a["op"]["op"], a["exc"], b["exc"])
            return None  # both raise in this call: the state afterwards is not compared
        pa, pb = proj_call(a2), proj_call(b2)
        if pa != pb:
            for j, (x, y) in enumerate(zip(pa, pb)):
                if x != y:
                    if j == 6:
                        for n, (u, v) in enumerate(zip(x, y)):
                            if u != v:
                                return "call %d (%s), event %d: implementation %r / model %r" % (i, a["op"]["op"], n, u, v)
                        return "call %d (%s): implementation has %d events, model %d" % (i, a["op"]["op"], len(x), len(y))
                    names = ["op", "ret", "exc", "running", "awaited", "start_awaited", "events", "net notices", "marking", "final_marking"]
                    return "call %d (%s) %s: implementation %r / model %r" % (i, a["op"]["op"], names[j], x, y)
    n_i = len([c for c in ic if c["op"]["op"] != "witness"])
    if n_i != len(mc):
        return "number of calls: implementation %d / model %d" % (n_i, len(mc))
    if net1 is not None:
        d = diff_net(net1, resp["net1"], "net at the end of the run")
        if d:
            return d
    return None


if __name__ == "__main__":
    # experiment: python3 tools/net_tie.py [n] [seed]
    import os
    import random
    import subprocess
    import sys
    import time
    HERE = os.path.dirname(os.path.abspath(__file__))
    sys.path.insert(0, HERE)
    import leanbuild
    n = int(sys.argv[1]) if len(sys.argv) > 1 else 50
    seed = int(sys.argv[2]) if len(sys.argv) > 2 else 1
    rng = random.Random(seed)
    bad = 0
    t0 = time.time()
    with sc.Scratch():
        for i in range(n):
            case = sc.gen_case(rng, depth=rng.choice([2, 3, 3, 4]), hist=rng.random() < 0.3)
            res, run = sc.run_impl(case)
            if not res["valid"]:
                continue
            req = net_request(case)
            p = subprocess.run([leanbuild.MODEL_EXE], input=json.dumps(req) + "\n", capture_output=True, text=True)
            resp = json.loads(p.stdout.strip().split("\n")[0])
            d = compare_case(res, run, resp)
            if d:
                bad += 1
                print("case %d: %s" % (i, d))
                if bad <= 3:
                    print(case["text"])
                    print("imm", case["imm"], "imm_other", case.get("imm_other"), "ops", [o for o in case["ops"] if o["op"] not in ("reg",)])
    print("%d cases, %d differ, %.1fs" % (n, bad, time.time() - t0))
