"""Program ASTs for the scheduling family: printer (with line numbers) and random generator.

AST (JSON-serialisable, shared with the Lean driver):
  program = {"structs":[{"name":S,"attrs":[[a,type],...]}], "tasks":[task,...]}
  task    = {"name":t,"ins":[[x,type],...],"outs":[x,...],"body":[stmt,...],"line":n}
  stmt    = {"k":"svc","name":A,"ins":[param],"outs":[[x,type]],"line":n}
          | {"k":"call","name":t,"ins":[param],"outs":[[x,type]],"line":n}
          | {"k":"par","calls":[call,...],"line":n}
          | {"k":"cond","e":expr,"passed":[stmt],"failed":[stmt]|None,"line":n}
          | {"k":"cloop","var":i,"limit":int|[seg..],"body":[stmt],"line":n}
          | {"k":"wloop","e":expr,"body":[stmt],"line":n}
          | {"k":"ploop","var":i,"limit":int|[seg..],"call":call,"line":n}
  param   = "x" | [seg,...] (attribute path, array index segments "[i]"/"[0]") | {"lit":S,"json":{...}}
  expr    = visitor tree: int|float|bool | [seg..] | {"unOp":"!","value":e} | {"binOp":op,"left":e,"right":e}
            | {"left":"(","binOp":e,"right":")"}
"""
import json
import random

HDR_STRUCTS = [
    {"name": "P", "attrs": [["n", "number"], ["b", "boolean"]]},
    {"name": "R", "attrs": [["n", "number"], ["b", "boolean"], ["parts", "P[]"], ["m", "P"], ["x", "number"]]},
]

# ---------------------------------------------------------------------------------------------
# printing


def expr_text(e, top=True):
    if isinstance(e, bool):
        return "true" if e else "false"
    if isinstance(e, (int, float)):
        return repr(e)
    if isinstance(e, str):
        return e
    if isinstance(e, list):
        return path_text(e)
    if "unOp" in e:
        return "!" + expr_text(e["value"], False)
    if e["left"] == "(" and e["right"] == ")":
        return "(" + expr_text(e["binOp"], False) + ")"
    return expr_text(e["left"], False) + " " + e["binOp"] + " " + expr_text(e["right"], False)


def path_text(p):
    out = ""
    for seg in p:
        if seg.startswith("["):
            out += seg
        elif out:
            out += "." + seg
        else:
            out = seg
    return out


def type_text(t):
    return t


class Printer:
    """Prints a program; assigns 'line' to every task/statement/call (1-based)."""

    def __init__(self, indent=4):
        self.lines = []
        self.indent = indent

    def emit(self, level, text):
        self.lines.append(" " * (self.indent * level) + text)
        return len(self.lines)

    def program(self, prog):
        for s in prog["structs"]:
            self.emit(0, "Struct " + s["name"])
            for a, t in s["attrs"]:
                self.emit(1, f"{a}: {type_text(t)}")
            self.emit(0, "End")
            self.emit(0, "")
        for t in prog["tasks"]:
            t["line"] = self.emit(0, "Task " + t["name"])
            if t.get("ins"):
                self.emit(1, "In")
                for x, ty in t["ins"]:
                    self.emit(2, f"{x}: {type_text(ty)}")
            self.block(t["body"], 1)
            if t.get("outs"):
                self.emit(1, "Out")
                for x in t["outs"]:
                    self.emit(2, x)
            self.emit(0, "End")
            self.emit(0, "")
        return "\n".join(self.lines) + "\n"

    def block(self, stmts, level):
        for s in stmts:
            self.stmt(s, level)

    def call_like(self, s, level):
        s["line"] = self.emit(level, s["name"])
        if s.get("ins"):
            self.emit(level + 1, "In")
            skip = False
            for n, p in enumerate(s["ins"]):
                if skip:
                    skip = False
                    continue
                nxt = s["ins"][n + 1] if n + 1 < len(s["ins"]) else None
                if isinstance(p, str):
                    self.emit(level + 2, p)
                elif isinstance(p, list):
                    self.emit(level + 2, path_text(p))
                elif isinstance(nxt, (str, list)) and (len(self.lines) + len(s["name"])) % 3 == 0:
                    # layout variant the grammar allows: the next parameter on the line of a struct literal
                    self.emit(level + 2, p["lit"] + " " + json.dumps(p["json"]) + " " + (nxt if isinstance(nxt, str) else path_text(nxt)))
                    skip = True
                else:
                    self.emit(level + 2, p["lit"])
                    self.emit(level + 3, json.dumps(p["json"]))
        if s.get("outs"):
            self.emit(level + 1, "Out")
            for x, ty in s["outs"]:
                self.emit(level + 2, f"{x}: {type_text(ty)}")

    def stmt(self, s, level):
        k = s["k"]
        if k in ("svc", "call"):
            self.call_like(s, level)
        elif k == "par":
            s["line"] = self.emit(level, "Parallel")
            for c in s["calls"]:
                self.call_like(c, level + 1)
        elif k == "cond":
            s["line"] = self.emit(level, "Condition")
            self.emit(level + 1, expr_text(s["e"]))
            self.emit(level, "Passed")
            self.block(s["passed"], level + 1)
            if s.get("failed"):
                self.emit(level, "Failed")
                self.block(s["failed"], level + 1)
        elif k == "cloop":
            lim = s["limit"]
            s["line"] = self.emit(level, f"Loop {s['var']} To {lim if isinstance(lim, int) else path_text(lim)}")
            self.block(s["body"], level + 1)
        elif k == "wloop":
            s["line"] = self.emit(level, "Loop While " + expr_text(s["e"]))
            self.block(s["body"], level + 1)
        elif k == "ploop":
            lim = s["limit"]
            s["line"] = self.emit(
                level, f"Parallel Loop {s['var']} To {lim if isinstance(lim, int) else path_text(lim)}"
            )
            self.call_like(s["call"], level + 1)
        else:
            raise ValueError(k)


def print_program(prog, indent=4):
    return Printer(indent).program(prog)


# ---------------------------------------------------------------------------------------------
# static analysis helpers on ASTs


def task_map(prog):
    return {t["name"]: t for t in prog["tasks"]}


def walk(stmts):
    """yield every statement (pre-order), not crossing calls"""
    for s in stmts:
        yield s
        k = s["k"]
        if k == "cond":
            yield from walk(s["passed"])
            if s.get("failed"):
                yield from walk(s["failed"])
        elif k in ("cloop", "wloop"):
            yield from walk(s["body"])


def count_kinds(prog):
    h = {}
    for t in prog["tasks"]:
        for s in walk(t["body"]):
            h[s["k"]] = h.get(s["k"], 0) + 1
    return h


def max_depth(stmts, d=1):
    m = d
    for s in stmts:
        k = s["k"]
        if k == "cond":
            m = max(m, max_depth(s["passed"], d + 1))
            if s.get("failed"):
                m = max(m, max_depth(s["failed"], d + 1))
        elif k in ("cloop", "wloop"):
            m = max(m, max_depth(s["body"], d + 1))
    return m


# ---------------------------------------------------------------------------------------------
# random generation (scheduling family: valid programs, all seven statement kinds)

BOOL_PATHS = [["r", "b"], ["r", "m", "b"]]
NUM_PATHS = [["r", "n"], ["r", "m", "n"]]
# (4000000002: a serial / time stamp; the engine may hold 4000000001 - unequal numbers that are close)
NUM_LITS = [0, 1, 2, 3, -1, 0.5, 1.5, 2.25, -0.5, -2.25, 1000, 2.0, 4000000002]
# r.n and r.m.n are also loop limits (small integers); r.x is free: floats, negatives, large integers
EXPR_NUM_PATHS = NUM_PATHS + [["r", "x"], ["r", "x"]]


def gen_num_expr(rng, depth):
    if depth <= 0 or rng.random() < 0.45:
        return rng.choice(EXPR_NUM_PATHS) if rng.random() < 0.6 else rng.choice(NUM_LITS)
    op = rng.choice(["+", "-", "*", "+", "-"])
    e = {"binOp": op, "left": gen_num_expr(rng, depth - 1), "right": gen_num_expr(rng, depth - 1)}
    # always parenthesise nested arithmetic so that the reading does not depend on precedence (C13 has its own stream)
    return {"left": "(", "binOp": e, "right": ")"}


def gen_bool_expr(rng, depth, top=False):
    r = rng.random()
    if top and rng.random() < 0.08:
        return rng.choice(EXPR_NUM_PATHS)  # a number as whole condition: non-zero is true
    if depth <= 0 or r < 0.3:
        return rng.choice(BOOL_PATHS)
    if r < 0.6:
        op = rng.choice(["<", ">", "<=", ">=", "==", "!="])
        return {"left": "(", "binOp": {"binOp": op, "left": gen_num_expr(rng, depth - 1), "right": gen_num_expr(rng, depth - 1)}, "right": ")"}
    if r < 0.72:
        return {"unOp": "!", "value": {"left": "(", "binOp": gen_bool_expr(rng, depth - 1), "right": ")"}}
    op = rng.choice(["And", "Or"])
    return {"left": "(", "binOp": {"binOp": op, "left": gen_bool_expr(rng, depth - 1), "right": gen_bool_expr(rng, depth - 1)}, "right": ")"}


def strip_outer_paren(e):
    if isinstance(e, dict) and e.get("left") == "(" and e.get("right") == ")":
        return e["binOp"]
    return e


def gen_guard(rng):
    """while-loop guard: falsified by the terminator value (b=false, numbers 0 everywhere)"""
    if rng.random() < 0.15:
        # a guard of type number (count-down style): non-zero is true
        p = rng.choice(EXPR_NUM_PATHS)
        return p if rng.random() < 0.7 else {"binOp": "*", "left": p, "right": rng.choice([1, 2, 0.5, -1])}
    if rng.random() < 0.1:
        return False  # a switched-off loop: `Loop While false`
    base = rng.choice(BOOL_PATHS)
    r = rng.random()
    if r < 0.5:
        return base
    other = gen_bool_expr(rng, 1)
    if r < 0.75:
        return {"binOp": "And", "left": base, "right": other}
    return {"binOp": "And", "left": other, "right": base}


class Gen:
    """Generator state for one program.

    Task layering: productionTask may call t1..tk, ti may call tj for j>i (acyclic).
    Every task has variable r: R (In parameter, or Out of its first service).
    """

    def __init__(self, rng, depth=3, ntasks=3, ploops=True, params=True, services="ABCD", focus=None, ploop_lit_in_loop=False, shadow_loopvars=True, any_shape=False):
        self.ploop_lit_in_loop = ploop_lit_in_loop
        # any_shape: parallel loops in every position, also the shapes of the known findings (K1-K5); such programs are
        # compared with the net layer of the model only, never judged by the monitors
        self.any_shape = any_shape
        self.shadow_loopvars = shadow_loopvars
        self.rng = rng
        self.depth = depth
        self.ntasks = ntasks
        self.ploops = ploops
        self.params = params
        self.services = services
        self.focus = focus
        self.loopvar = 0

    # parameters --------------------------------------------------------------------------
    def gen_lit(self, ty):
        rng = self.rng
        if ty == "P":
            return {"lit": "P", "json": {"n": rng.choice([0, 1, 2, 1.5]), "b": rng.random() < 0.5}}
        parts = [{"n": rng.choice([0, 1, 2]), "b": rng.random() < 0.5} for _ in range(rng.randint(0, 2))]
        return {"lit": "R", "json": {"n": rng.choice([0, 1, 2, 3]), "b": rng.random() < 0.5, "parts": parts,
                                     "m": {"n": rng.choice([0, 1, 2]), "b": rng.random() < 0.5},
                                     "x": rng.choice([0, 2.25, -0.5, 1000, 1])}}

    def gen_param(self, ty, loopvars):
        """a parameter expression of type ty in a task that has r: R"""
        rng = self.rng
        if ty == "R":
            return "r" if rng.random() < 0.7 else self.gen_lit("R")
        # P
        r = rng.random()
        if r < 0.35:
            return ["r", "m"]
        if r < 0.75:
            if loopvars and rng.random() < 0.75:
                return ["r", "parts", "[" + rng.choice(loopvars) + "]"]
            return ["r", "parts", "[%d]" % rng.randint(0, 2)]
        return self.gen_lit("P")

    def svc_params(self, loopvars):
        rng = self.rng
        if not self.params or rng.random() < 0.4:
            return []
        n = rng.randint(1, 3)
        out = []
        for _ in range(n):
            if rng.random() < 0.25:
                # services take values of any type: paths that continue after an array index, attributes of attributes
                if rng.random() < 0.7:
                    idx = "[" + rng.choice(loopvars) + "]" if loopvars and rng.random() < 0.75 else "[%d]" % rng.randint(0, 2)
                    out.append(["r", "parts", idx, rng.choice(["n", "b"])])
                else:
                    out.append(rng.choice([["r", "n"], ["r", "m", "b"], ["r", "m", "n"]]))
            else:
                out.append(self.gen_param(rng.choice(["R", "P"]), loopvars))
        return out

    def fresh_loopvar(self, enclosing):
        """counting variable: names are reused between loops of one task, never inside a loop over the same name"""
        if enclosing and self.shadow_loopvars and self.rng.random() < 0.2:
            return enclosing[-1]  # the same counting variable as the enclosing loop (shadowing)
        pool = [v for v in ("i", "j", "k", "m") if v not in enclosing]
        if pool and self.rng.random() < 0.8:
            return self.rng.choice(pool[:2])
        self.loopvar += 1
        return "i%d" % self.loopvar

    # statements -----------------------------------------------------------------------------
    def gen_block(self, depth, callees, ctx, n=None):
        rng = self.rng
        n = n or rng.choice([1, 1, 2, 2, 3])
        out = []
        for _ in range(n):
            st = self.gen_stmt(depth, callees, ctx)
            out.append(st)
            if st["k"] == "ploop" and rng.random() < 0.4:
                # a second parallel loop over the same counting variable in the same task instance
                if rng.random() < 0.5:
                    out.append({"k": "svc", "name": rng.choice(self.services), "ins": self.svc_params(ctx["loopvars"]), "outs": []})
                lim = rng.choice([1, 2, 3]) if (rng.random() < 0.5 or ctx.get("inloop")) else rng.choice(NUM_PATHS)
                c2 = self.call(callees, ctx["loopvars"] + [st["var"]])
                # prefer a callee that takes a P: the parameter is written with the counting variable as index
                withp = [t for t in callees if any(ty == "P" for _, ty in self.sigs[t])]
                if withp and rng.random() < 0.7:
                    t = rng.choice(withp)
                    c2 = {"k": "call", "name": t, "outs": [],
                          "ins": [(["r", "parts", "[" + st["var"] + "]"] if ty == "P" else self.gen_param(ty, ctx["loopvars"] + [st["var"]])) for _, ty in self.sigs[t]]}
                out.append({"k": "ploop", "var": st["var"], "limit": lim, "call": c2})
        return out

    def call(self, callees, loopvars):
        t = self.rng.choice(callees)
        ins = [self.gen_param(ty, loopvars) for _, ty in self.sigs[t]]
        return {"k": "call", "name": t, "ins": ins, "outs": []}

    def gen_stmt(self, depth, callees, ctx):
        """ctx: dict(inloop=bool, loopvars=[...], ploop_ok=bool)"""
        rng = self.rng
        kinds = ["svc"] * 3
        if depth > 0:
            kinds += ["cond", "cond", "cloop", "wloop"]
            if callees:
                kinds += ["call", "call", "par"]
                if self.ploops and (self.any_shape or ctx["ploop_ok"] or (ctx.get("inloop") and self.ploop_lit_in_loop)):
                    # inside a loop of the same task only with a literal limit (a variable limit there is finding K3b)
                    kinds += ["ploop"]
        if self.focus and depth > 0:
            for fk in self.focus:
                if fk in kinds:
                    kinds += [fk] * 3
        k = rng.choice(kinds)
        lv = ctx["loopvars"]
        if k == "svc":
            return {"k": "svc", "name": rng.choice(self.services), "ins": self.svc_params(lv), "outs": []}
        if k == "call":
            return self.call(callees, lv)
        if k == "par":
            return {"k": "par", "calls": [self.call(callees, lv) for _ in range(rng.randint(1, 3))]}
        if k == "cond":
            failed = self.gen_block(depth - 1, callees, ctx) if rng.random() < 0.5 else None
            return {"k": "cond", "e": strip_outer_paren(gen_bool_expr(rng, 2, top=True)),
                    "passed": self.gen_block(depth - 1, callees, ctx), "failed": failed}
        if k == "cloop":
            v = self.fresh_loopvar(lv)
            lim = rng.choice([0, 1, 2, 2, 3]) if rng.random() < 0.6 else rng.choice(NUM_PATHS)
            if lv and v == lv[-1] and ctx.get("last_limit") is not None and rng.random() < 0.6:
                lim = ctx["last_limit"]  # ... and the same limit: two loops with identical headers
            c2 = dict(ctx, inloop=True, loopvars=lv + [v], ploop_ok=False, last_limit=lim)
            body = self.gen_block(depth - 1, callees, c2)
            withp = [t for t in callees if any(ty == "P" for _, ty in self.sigs[t])]
            if withp and self.focus and "call" in self.focus and rng.random() < 0.4:
                # a task called once per iteration with the element the counting variable selects
                t = rng.choice(withp)
                body.insert(rng.randint(0, len(body)), {"k": "call", "name": t, "outs": [],
                            "ins": [(["r", "parts", "[" + v + "]"] if ty == "P" else self.gen_param(ty, lv + [v])) for _, ty in self.sigs[t]]})
                if isinstance(lim, int) and lim < 2:
                    lim = rng.choice([2, 3])
            return {"k": "cloop", "var": v, "limit": lim, "body": body}
        if k == "wloop":
            c2 = dict(ctx, inloop=True, ploop_ok=False)
            return {"k": "wloop", "e": gen_guard(rng), "body": self.gen_block(depth - 1, callees, c2)}
        if k == "ploop":
            v = self.fresh_loopvar(lv)
            lim = rng.choice([0, 1, 2, 3]) if (rng.random() < 0.5 or (ctx.get("inloop") and not self.any_shape)) else rng.choice(NUM_PATHS)
            return {"k": "ploop", "var": v, "limit": lim, "call": self.call(callees, lv + [v])}
        raise ValueError(k)

    def program(self):
        rng = self.rng
        names = ["t%d" % (i + 1) for i in range(self.ntasks)]
        # task names that are parts of the production task's name, single letters, names that contain it
        special = ["t", "product", "duct", "production", "a", "productionTask2", "task"]
        rng.shuffle(special)
        for i in range(len(names)):
            if rng.random() < 0.2:
                names[i] = special.pop()
        # signatures: In parameters of each task (productionTask has none)
        self.sigs = {"productionTask": []}
        for n in names:
            r = rng.random()
            if not self.params or r < 0.3:
                self.sigs[n] = []
            elif r < 0.7:
                self.sigs[n] = [["r", "R"]]
            elif r < 0.8:
                self.sigs[n] = [["p", "P"], ["r", "R"]]
            elif r < 0.87:
                self.sigs[n] = [["p", "P"], ["p2", "P"], ["r", "R"]]  # two parameters that may both be written with a loop index
            else:
                self.sigs[n] = [["r", "R"], ["p", "P"]]
        chain = self.ploops and len(names) >= 3 and rng.random() < (0.3 if self.focus and "ploop" in self.focus else 0.08)
        tasks = []
        order = ["productionTask"] + names
        for idx, n in enumerate(order):
            callees = names[idx:]  # tasks after n (productionTask: all)
            self.loopvar = 0
            ctx = {"inloop": False, "loopvars": [], "ploop_ok": True}
            body = self.gen_block(self.depth if idx == 0 else max(1, self.depth - 1), callees, ctx)
            has_r = any(x == "r" for x, _ in self.sigs[n])
            if chain and idx in (1, 2) and has_r and len(callees) >= 1:
                # t1 starts with a call of t2, t2 starts with a parallel loop over t3 whose limit is read from a variable
                if idx == 1:
                    body.insert(0, {"k": "call", "name": names[1], "outs": [],
                                    "ins": [self.gen_param(ty, []) for _, ty in self.sigs[names[1]]]})
                else:
                    v = self.fresh_loopvar([])
                    body.insert(0, {"k": "ploop", "var": v, "limit": rng.choice(NUM_PATHS),
                                    "call": {"k": "call", "name": names[2], "outs": [],
                                             "ins": [self.gen_param(ty, [v]) for _, ty in self.sigs[names[2]]]}})
            elif idx > 0 and callees and has_r and self.ploops and rng.random() < (0.35 if self.focus and "ploop" in self.focus else 0.12):
                # chains of calls whose first statement is a call / a parallel loop (the limit is the first thing the
                # new task instance asks for)
                if rng.random() < 0.5:
                    v = self.fresh_loopvar([])
                    lim = rng.choice([1, 2, 3]) if rng.random() < 0.3 else rng.choice(NUM_PATHS)
                    body.insert(0, {"k": "ploop", "var": v, "limit": lim, "call": self.call(callees, [v])})
                else:
                    body.insert(0, self.call(callees, []))
            if not has_r:
                body.insert(0, {"k": "svc", "name": "G", "ins": [], "outs": [["r", "R"]]})
            tasks.append({"name": n, "ins": self.sigs[n], "outs": [], "body": body})
        prog = {"structs": HDR_STRUCTS, "tasks": tasks}
        return prog


# ---------------------------------------------------------------------------------------------
# shapes of the known findings about parallel loops (see DESIGN §7): predicates on programs


def _first_stmt_chain(prog, stmt, tm, seen=()):
    """statements that are transitively 'first' when stmt is entered through a call chain"""
    out = [stmt]
    if stmt["k"] == "call" and stmt["name"] in tm and stmt["name"] not in seen:
        body = tm[stmt["name"]]["body"]
        if body:
            out += _first_stmt_chain(prog, body[0], tm, seen + (stmt["name"],))
    return out


def _last_stmt_chain(prog, stmt, tm, seen=()):
    out = [stmt]
    if stmt["k"] == "call" and stmt["name"] in tm and stmt["name"] not in seen:
        body = tm[stmt["name"]]["body"]
        if body:
            out += _last_stmt_chain(prog, body[-1], tm, seen + (stmt["name"],))
    return out


def ploop_shapes(prog, literal_in_loop_ok=False):
    """returns the set of known-finding shape names the program exhibits (reachable from productionTask).
    literal_in_loop_ok: a parallel loop with a literal limit directly inside a loop of the same task re-uses the
    instances of its first visit (identifiers, parameters: finding K3b) but starts the right number of instances and
    joins them; it is admitted for the loop-count property only."""
    tm = task_map(prog)
    shapes = set()

    def visit_block(stmts, inloop, seen):
        for s in stmts:
            visit(s, inloop, seen)

    def branch_checks(c, seen):
        # c is a call that is a Parallel branch or a parallel-loop instance
        for f in _first_stmt_chain(prog, c, tm):
            if f["k"] == "ploop":
                shapes.add("ploop_first_in_branch")  # K1 / K2 / S1
        for l in _last_stmt_chain(prog, c, tm):
            if l["k"] == "ploop":
                shapes.add("ploop_last_in_branch")  # K5

    def visit(s, inloop, seen):
        k = s["k"]
        if k == "call":
            if s["name"] in tm and s["name"] not in seen:
                visit_block(tm[s["name"]]["body"], "via_call" if inloop else False, seen + (s["name"],))
        elif k == "par":
            for c in s["calls"]:
                branch_checks(c, seen)
                visit(c, inloop, seen)
        elif k == "cond":
            visit_block(s["passed"], inloop, seen)
            if s.get("failed"):
                visit_block(s["failed"], inloop, seen)
        elif k in ("cloop", "wloop"):
            visit_block(s["body"], inloop if inloop == "via_call" else "same_task", seen)
        elif k == "ploop":
            # K3: a parallel loop that is reached again: in a task called from a loop, or with a limit read from a
            # variable (a literal limit directly in a loop of the same task behaves well)
            if inloop == "via_call" or (inloop and not (literal_in_loop_ok and isinstance(s["limit"], int))):
                shapes.add("ploop_in_loop")  # K3
            branch_checks(s["call"], seen)
            visit(s["call"], inloop, seen)

    if "productionTask" in tm:
        visit_block(tm["productionTask"]["body"], False, ("productionTask",))
    return shapes


def template_loop_around_parallel(rng):
    """a loop around a Parallel block whose branches are called tasks, one of them with a counting loop of its own
    followed by a last service (the counters of a task instance that is started again and again)"""
    lim_outer = rng.choice([2, 2, 3])
    lim_inner = rng.choice([1, 2, 2, 3, ["r", "m", "n"]])
    worker_body = [{"k": "cloop", "var": "j", "limit": lim_inner,
                    "body": [{"k": "svc", "name": "A", "ins": [], "outs": []}] + ([{"k": "svc", "name": "D", "ins": [], "outs": []}] if rng.random() < 0.3 else [])},
                   {"k": "svc", "name": "B", "ins": [], "outs": []}]
    if rng.random() < 0.3:
        worker_body.insert(0, {"k": "svc", "name": "C", "ins": [], "outs": []})
    helper_body = [{"k": "svc", "name": "C", "ins": [], "outs": []}] + ([{"k": "svc", "name": "D", "ins": [], "outs": []}] if rng.random() < 0.4 else [])
    calls = [{"k": "call", "name": "t1", "ins": ["r"], "outs": []}, {"k": "call", "name": "t2", "ins": ["r"], "outs": []}]
    if rng.random() < 0.3:
        calls.append({"k": "call", "name": rng.choice(["t1", "t2"]), "ins": ["r"], "outs": []})
    rng.shuffle(calls)
    outer = ({"k": "cloop", "var": "k", "limit": lim_outer, "body": [{"k": "par", "calls": calls}]} if rng.random() < 0.7 else
             {"k": "wloop", "e": ["r", "b"], "body": [{"k": "par", "calls": calls}]})
    top = [{"k": "svc", "name": "G", "ins": [], "outs": [["r", "R"]]}, outer]
    if rng.random() < 0.5:
        top.append({"k": "svc", "name": "A", "ins": [], "outs": []})
    tasks = [{"name": "productionTask", "ins": [], "outs": [], "body": top},
             {"name": "t1", "ins": [["r", "R"]], "outs": [], "body": worker_body},
             {"name": "t2", "ins": [["r", "R"]], "outs": [], "body": helper_body}]
    return {"structs": HDR_STRUCTS, "tasks": tasks}


def gen_program(rng, **kw):
    """a random valid program outside the known-finding shapes"""
    if kw.pop("template", None) == "loop_around_parallel":
        return template_loop_around_parallel(rng)
    for _ in range(200):
        prog = Gen(rng, **kw).program()
        if kw.get("any_shape") or not ploop_shapes(prog, literal_in_loop_ok=bool(kw.get("ploop_lit_in_loop"))):
            return prog
    kw = dict(kw, ploops=False)
    return Gen(rng, **kw).program()


if __name__ == "__main__":
    import sys

    rng = random.Random(int(sys.argv[1]) if len(sys.argv) > 1 else 1)
    p = gen_program(rng)
    print(print_program(p))
    print(json.dumps(p)[:300])


# ---------------------------------------------------------------------------------------------
# shrinking


def _blocks(stmts, acc):
    """all statement lists (mutable) reachable without crossing calls"""
    acc.append(stmts)
    for s in stmts:
        k = s["k"]
        if k == "cond":
            _blocks(s["passed"], acc)
            if s.get("failed"):
                _blocks(s["failed"], acc)
        elif k in ("cloop", "wloop"):
            _blocks(s["body"], acc)


def shrink_candidates(prog):
    """yields smaller variants of prog (deep copies)"""
    import copy

    nb = []
    for t in prog["tasks"]:
        _blocks(t["body"], nb)
    nblocks = len(nb)
    # drop one statement of a block with >= 2 statements
    for bi in range(nblocks):
        for si in range(len(nb[bi])):
            if len(nb[bi]) < 2:
                continue
            p2 = copy.deepcopy(prog)
            b2 = []
            for t in p2["tasks"]:
                _blocks(t["body"], b2)
            if b2[bi][si]["k"] == "svc" and b2[bi][si].get("outs"):
                continue  # keeps the variable r defined
            del b2[bi][si]
            yield p2
    # replace a compound statement by something simpler
    for bi in range(nblocks):
        for si in range(len(nb[bi])):
            s = nb[bi][si]
            k = s["k"]
            reps = []
            if k == "cond":
                reps.append(s["passed"])
                if s.get("failed"):
                    reps.append(s["failed"])
                    reps.append([dict(s, failed=None)])
            elif k in ("cloop", "wloop"):
                reps.append(s["body"])
                if k == "cloop" and isinstance(s["limit"], int) and s["limit"] > 1:
                    reps.append([dict(s, limit=s["limit"] - 1)])
            elif k == "par" and len(s["calls"]) > 1:
                for ci in range(len(s["calls"])):
                    reps.append([dict(s, calls=s["calls"][:ci] + s["calls"][ci + 1:])])
            elif k == "ploop":
                reps.append([s["call"]])
                if isinstance(s["limit"], int) and s["limit"] > 1:
                    reps.append([dict(s, limit=s["limit"] - 1)])
            elif k == "svc" and s.get("ins"):
                reps.append([dict(s, ins=[])])
            for r in reps:
                p2 = copy.deepcopy(prog)
                b2 = []
                for t in p2["tasks"]:
                    _blocks(t["body"], b2)
                b2[bi][si:si + 1] = copy.deepcopy(r)
                yield p2
    # remove tasks that are never called
    called = set()
    for t in prog["tasks"]:
        for s in walk(t["body"]):
            if s["k"] == "call":
                called.add(s["name"])
            elif s["k"] == "par":
                called.update(c["name"] for c in s["calls"])
            elif s["k"] == "ploop":
                called.add(s["call"]["name"])
    for t in prog["tasks"]:
        if t["name"] != "productionTask" and t["name"] not in called:
            p2 = copy.deepcopy(prog)
            p2["tasks"] = [x for x in p2["tasks"] if x["name"] != t["name"]]
            yield p2
